import GMModel.SysGro
/-
  GMProofs.Lemmas.SysGroL — lemmas about the `SGro` model (C12; reused by C11).
  Core Lean only.
-/

namespace SGro

/-! ### A. `residname` : decimal digits followed by the name -/

theorem split_unique {p : Char → Bool} :
    ∀ (D1 D2 s t : List Char), (∀ c ∈ D1, p c = true) → (∀ c ∈ D2, p c = true) →
      (∀ c, s.head? = some c → p c = false) → (∀ c, t.head? = some c → p c = false) →
      D1 ++ s = D2 ++ t → D1 = D2 ∧ s = t := by
  intro D1
  induction D1 with
  | nil =>
    intro D2 s t _ h2 hs _ h
    cases D2 with
    | nil => exact ⟨rfl, by simpa using h⟩
    | cons d D2 =>
      exfalso
      simp only [List.nil_append, List.cons_append] at h
      have := hs d (by rw [h]; rfl)
      rw [h2 d (by simp)] at this
      cases this
  | cons d D1 ih =>
    intro D2 s t h1 h2 hs ht h
    cases D2 with
    | nil =>
      exfalso
      simp only [List.nil_append, List.cons_append] at h
      have := ht d (by rw [← h]; rfl)
      rw [h1 d (by simp)] at this
      cases this
    | cons e D2 =>
      simp only [List.cons_append, List.cons.injEq] at h
      obtain ⟨hde, h⟩ := h
      obtain ⟨a, b⟩ := ih D2 s t (fun c hc => h1 c (by simp [hc])) (fun c hc => h2 c (by simp [hc])) hs ht h
      exact ⟨by rw [hde, a], b⟩

theorem toDigits_inj {a b : Nat} (h : Nat.toDigits 10 a = Nat.toDigits 10 b) : a = b := by
  have ha := @Nat.ofDigitChars_ten_toDigits a
  have hb := @Nat.ofDigitChars_ten_toDigits b
  rw [h] at ha
  omega

theorem toDigits_all_digit (n : Nat) : ∀ c ∈ Nat.toDigits 10 n, c.isDigit = true :=
  fun _ hc => Nat.isDigit_of_mem_toDigits (by decide) (by decide) hc

theorem toDigits_head_ne_minus (n : Nat) (rest : List Char) (s : List Char) :
    Nat.toDigits 10 n ++ s ≠ '-' :: rest := by
  intro h
  cases hd : Nat.toDigits 10 n with
  | nil => exact Nat.toDigits_ne_nil hd
  | cons d ds =>
    rw [hd] at h
    simp only [List.cons_append, List.cons.injEq] at h
    have := toDigits_all_digit n d (by rw [hd]; simp)
    rw [h.1] at this
    exact absurd this (by decide)

/-- `f"{a}{s}" = f"{b}{t}"` forces `a = b ∧ s = t` when neither name starts with a digit -/
theorem intDigits_append_inj (a b : Int) (s t : Str)
    (hs : ∀ c, s.head? = some c → c.isDigit = false) (ht : ∀ c, t.head? = some c → c.isDigit = false)
    (h : intDigits a ++ s = intDigits b ++ t) : a = b ∧ s = t := by
  unfold intDigits at h
  by_cases ha : a < 0 <;> by_cases hb : b < 0 <;> simp only [ha, hb, if_true, if_false] at h
  · simp only [List.cons_append, List.cons.injEq, true_and] at h
    obtain ⟨hd, hst⟩ := split_unique _ _ s t (toDigits_all_digit _) (toDigits_all_digit _) hs ht h
    have := toDigits_inj hd
    exact ⟨by omega, hst⟩
  · exact absurd h.symm (by simpa using toDigits_head_ne_minus b.toNat (Nat.toDigits 10 a.natAbs ++ s) t)
  · exact absurd h (by simpa using toDigits_head_ne_minus a.toNat (Nat.toDigits 10 b.natAbs ++ t) s)
  · obtain ⟨hd, hst⟩ := split_unique _ _ s t (toDigits_all_digit _) (toDigits_all_digit _) hs ht h
    have := toDigits_inj hd
    exact ⟨by omega, hst⟩

/-! ### B. the cursor machine -/

theorem next_sync (f : GroRd) (k : Nat) (r : AtomRec) (h : f.recs[k]? = some r) :
    next f ⟨k, k⟩ = (.ok r, ⟨k + 1, k + 1⟩) := by
  have hk : k < f.recs.length := by
    rcases List.getElem?_eq_some_iff.mp h with ⟨hk, _⟩; exact hk
  unfold next GroRd.natoms
  simp only [h]
  have h1 : ¬ k ≥ f.recs.length := by omega
  have h2 : k ≤ f.recs.length := by omega
  simp [h1, h2]

theorem next_stop (f : GroRd) (c : Cursor) (h : c.cur ≥ f.natoms) :
    (next f c).1 = .error .StopIteration ∧ (next f c).2.cur = c.cur := by
  unfold next
  simp [h]

/-- reading `n` records from a synchronised cursor inside the file -/
theorem readN_sync (f : GroRd) : ∀ (n k : Nat), k + n ≤ f.recs.length →
    readN f n ⟨k, k⟩ = (.ok ((f.recs.drop k).take n), ⟨k + n, k + n⟩)
  | 0, k, _ => by simp [readN]
  | n + 1, k, h => by
    have hk : k < f.recs.length := by omega
    have hr : f.recs[k]? = some f.recs[k] := List.getElem?_eq_getElem hk
    rw [readN, next_sync f k _ hr]
    simp only
    rw [readN_sync f n (k + 1) (by omega)]
    simp only
    have : List.drop k f.recs = f.recs[k] :: List.drop (k + 1) f.recs := List.drop_eq_getElem_cons hk
    rw [this, List.take_succ_cons]
    have e : k + 1 + n = k + (n + 1) := by omega
    rw [e]

/-- `for line in self._open_fgro` from a synchronised cursor: the remaining records, and the cursor
    ends after the box line with `_current_atom = natoms` -/
theorem readAll_sync (f : GroRd) : ∀ (fuel k : Nat), k ≤ f.recs.length → f.recs.length - k < fuel →
    readAll f fuel ⟨k, k⟩ = (.ok (f.recs.drop k), ⟨f.recs.length + 1, f.recs.length⟩)
  | 0, _, _, h => by omega
  | fuel + 1, k, hk, h => by
    by_cases hlt : k < f.recs.length
    · have hr : f.recs[k]? = some f.recs[k] := List.getElem?_eq_getElem hlt
      rw [readAll, next_sync f k _ hr]
      simp only
      rw [readAll_sync f fuel (k + 1) (by omega) (by omega)]
      simp only
      rw [List.drop_eq_getElem_cons hlt]
    · have hkn : k = f.recs.length := by omega
      subst hkn
      rw [readAll]
      have : next f ⟨f.recs.length, f.recs.length⟩ =
          (.error .StopIteration, ⟨f.recs.length + 1, f.recs.length⟩) := by
        unfold next GroRd.natoms; simp
      rw [this]
      simp

theorem seekAtom_ok (f : GroRd) (c : Cursor) (k : Nat) (h : k ≤ f.recs.length) :
    seekAtom f c k = (.ok (), ⟨k, k⟩) := by
  unfold seekAtom GroRd.natoms
  have : ¬ k > f.recs.length := by omega
  simp [this]

theorem mkResidue_ok (atoms : List AtomRec) (hne : atoms ≠ [])
    (hu : ∀ x ∈ atoms, ∀ y ∈ atoms, x.residname = y.residname) : mkResidue atoms = .ok atoms := by
  cases atoms with
  | nil => exact absurd rfl hne
  | cons a rest =>
    unfold mkResidue
    have : rest.all (fun b => b.residname == a.residname) = true := by
      rw [List.all_eq_true]
      intro x hx
      simp [hu x (by simp [hx]) a (by simp)]
    simp [this]

/-- the records of the file at atom offset `start`, `len` of them -/
def recsAt (f : GroRd) (start len : Nat) : List AtomRec := (f.recs.drop start).take len

/-- one residue access: whatever the cursor was, `seek_atom` re-synchronises it -/
theorem readResidue_ok (f : GroRd) (c : Cursor) (start len : Nat) (h : start + len ≤ f.recs.length)
    (hne : recsAt f start len ≠ [])
    (hu : ∀ x ∈ recsAt f start len, ∀ y ∈ recsAt f start len, x.residname = y.residname) :
    readResidue f c start len = (.ok (recsAt f start len), ⟨start + len, start + len⟩) := by
  unfold readResidue
  rw [seekAtom_ok f c start (by omega)]
  simp only
  rw [readN_sync f len start h]
  simp only
  rw [show (List.drop start f.recs).take len = recsAt f start len from rfl, mkResidue_ok _ hne hu]

/-! ### C. `_parse_gro`: the groups handed to `_add_residue_init` -/

section Parse
variable {κ : Type} [DecidableEq κ] (key : AtomRec → κ)

/-- the residues `_parse_gro` hands to `_add_residue_init`, in order -/
def loopGroups : List AtomRec → κ → List AtomRec → List (List AtomRec)
  | cur, _, [] => [cur]
  | cur, prev, a :: rest =>
    if key a = prev then loopGroups (cur ++ [a]) prev rest else cur :: loopGroups [a] (key a) rest

/-- `self._add_residue_init(Residue(current_residue))` -/
def addGroup (sg : SG) (g : List AtomRec) : Except PyErr SG := do
  let r ← mkResidue g
  addResidueInit sg r

theorem parseLoop_eq_fold : ∀ (rest : List AtomRec) (sg : SG) (cur : List AtomRec) (prev : κ),
    parseLoop key sg cur prev rest = (loopGroups key cur prev rest).foldlM addGroup sg
  | [], sg, cur, prev => by
    simp only [parseLoop, loopGroups, List.foldlM_cons, List.foldlM_nil, addGroup]
    cases mkResidue cur with
    | error e => rfl
    | ok r => simp only [bind, Except.bind]; cases addResidueInit sg r <;> rfl
  | a :: rest, sg, cur, prev => by
    rw [parseLoop, loopGroups]
    by_cases h : key a = prev
    · simp only [h, if_true]
      exact parseLoop_eq_fold rest sg (cur ++ [a]) prev
    · simp only [h, if_false, List.foldlM_cons, addGroup]
      cases mkResidue cur with
      | error e => rfl
      | ok r =>
        simp only [bind, Except.bind]
        cases addResidueInit sg r with
        | error e => rfl
        | ok sg' => exact parseLoop_eq_fold rest sg' [a] (key a)

/-- adjacent groups carry different keys -/
def AdjDiffer : List (List AtomRec) → Prop
  | g :: h :: rest => (∀ x ∈ g, ∀ y ∈ h, key x ≠ key y) ∧ AdjDiffer (h :: rest)
  | _ => True

/-- `gs` is the decomposition of `recs` into maximal runs of equal key -/
structure IsRunDecomp (recs : List AtomRec) (gs : List (List AtomRec)) : Prop where
  flatten : gs.flatten = recs
  uniform : ∀ g ∈ gs, g ≠ [] ∧ ∀ x ∈ g, ∀ y ∈ g, key x = key y
  adj : AdjDiffer key gs

theorem loopGroups_runs : ∀ (rest cur : List AtomRec) (prev : κ), cur ≠ [] → (∀ x ∈ cur, key x = prev) →
    IsRunDecomp key (cur ++ rest) (loopGroups key cur prev rest) ∧
    ∃ g gs, loopGroups key cur prev rest = g :: gs ∧ ∀ x ∈ g, key x = prev
  | [], cur, prev, hne, hk => by
    refine ⟨⟨by simp [loopGroups], ?_, by simp [loopGroups, AdjDiffer]⟩, cur, [], rfl, hk⟩
    intro g hg
    simp only [loopGroups, List.mem_singleton] at hg
    subst hg
    exact ⟨hne, fun x hx y hy => by rw [hk x hx, hk y hy]⟩
  | a :: rest, cur, prev, hne, hk => by
    rw [loopGroups]
    by_cases h : key a = prev
    · simp only [h, if_true]
      have ih := loopGroups_runs rest (cur ++ [a]) prev (by simp) (by
        intro x hx
        rcases List.mem_append.mp hx with hx | hx
        · exact hk x hx
        · simp only [List.mem_singleton] at hx; rw [hx]; exact h)
      refine ⟨?_, ih.2⟩
      have := ih.1
      rwa [List.append_assoc, List.singleton_append] at this
    · simp only [h, if_false]
      have ih := loopGroups_runs rest [a] (key a) (by simp) (by simp)
      obtain ⟨g, gs, hg, hgk⟩ := ih.2
      refine ⟨⟨?_, ?_, ?_⟩, cur, _, rfl, hk⟩
      · rw [List.flatten_cons, ih.1.flatten]; simp
      · intro g' hg'
        rcases List.mem_cons.mp hg' with rfl | hg'
        · exact ⟨hne, fun x hx y hy => by rw [hk x hx, hk y hy]⟩
        · exact ih.1.uniform g' hg'
      · rw [hg]
        refine ⟨?_, by rw [← hg]; exact ih.1.adj⟩
        intro x hx y hy
        rw [hk x hx, hgk y hy]
        exact fun e => h e.symm

end Parse

/-! ### D. `_add_residue_init`: templates, dictionary, RLE -/

/-- invariant of the `(resname, len) → index` dictionary: a stored index always points at a template of
    that length, and every template's own key is bound -/
structure Inv (sg : SG) : Prop where
  pk_ok : ∀ (key : Str × Nat) (idx : Nat), sg.pk.lookup key = some idx →
    ∃ t, sg.templates[idx]? = some t ∧ t.length = key.2 ∧ ∀ a rest, t = a :: rest → a.resname = key.1
  tmpl_key : ∀ t ∈ sg.templates, ∃ a rest, t = a :: rest ∧ (sg.pk.lookup (a.resname, t.length)).isSome = true

theorem Inv.empty : Inv SG.empty :=
  ⟨fun _ _ h => by simp [SG.empty] at h, fun _ h => by simp [SG.empty] at h⟩

theorem resEq_key {t r : Residue} (h : resEq t r = true) :
    t.length = r.length ∧ ∀ a ta b tb, t = a :: ta → r = b :: tb → a.resname = b.resname := by
  unfold resEq at h
  simp only [Bool.and_eq_true, beq_iff_eq] at h
  refine ⟨h.1, ?_⟩
  intro a ta b tb ht hr
  subst ht hr
  have h2 := h.2
  simp only [List.zipWith_cons_cons, List.all_cons, Bool.and_eq_true, id] at h2
  have := h2.1
  unfold atomEq at this
  simp only [Bool.and_eq_true, beq_iff_eq] at this
  exact this.1.symm

theorem kinds_append (o1 o2 : List (Nat × Nat)) :
    (SG.kinds ⟨[], [], o1 ++ o2⟩) = SG.kinds ⟨[], [], o1⟩ ++ SG.kinds ⟨[], [], o2⟩ := by
  simp [SG.kinds, List.flatMap_append]

theorem kinds_eq (sg : SG) : sg.kinds = sg.ordered.flatMap (fun p => List.replicate p.2 p.1) := rfl
theorem len_eq (sg : SG) : sg.len = (sg.ordered.map (·.2)).sum := rfl

/-- one call of `_add_residue_init` on a non-empty residue: never raises, appends one kind `k` to the
    kind stream, and the template stored under `k` has the residue's length -/
theorem addResidueInit_spec (sg : SG) (g : Residue) (hI : Inv sg) (hne : g ≠ []) :
    ∃ sg' k, addResidueInit sg g = .ok sg' ∧ Inv sg' ∧ sg'.kinds = sg.kinds ++ [k] ∧
      sg'.len = sg.len + 1 ∧
      (∃ t, sg'.templates[k]? = some t ∧ t.length = g.length) ∧
      (∃ ext, sg'.templates = sg.templates ++ ext) ∧
      ((∀ p ∈ sg.ordered, 1 ≤ p.2) → ∀ p ∈ sg'.ordered, 1 ≤ p.2) := by
  obtain ⟨a, rest, rfl⟩ : ∃ a rest, g = a :: rest := by
    cases g with
    | nil => exact absurd rfl hne
    | cons a rest => exact ⟨a, rest, rfl⟩
  -- the state after the `if residue not in self.different_molecules` block
  have key1 : Inv (registerTemplate sg (a :: rest) (a.resname, (a :: rest).length)) ∧
      (registerTemplate sg (a :: rest) (a.resname, (a :: rest).length)).ordered = sg.ordered ∧
      (∃ ext, (registerTemplate sg (a :: rest) (a.resname, (a :: rest).length)).templates = sg.templates ++ ext) ∧
      ∃ index, (registerTemplate sg (a :: rest) (a.resname, (a :: rest).length)).pk.lookup
        (a.resname, (a :: rest).length) = some index := by
    unfold registerTemplate
    by_cases hin : sg.templates.any (fun t => resEq t (a :: rest)) = true
    · simp only [hin, if_true]
      refine ⟨hI, trivial, ⟨[], by simp⟩, ?_⟩
      obtain ⟨t, ht, hteq⟩ := List.any_eq_true.mp hin
      obtain ⟨b, tb, htb, hsome⟩ := hI.tmpl_key t ht
      obtain ⟨hl, hn⟩ := resEq_key hteq
      have hbn : b.resname = a.resname := hn b tb a rest htb rfl
      rw [hbn, hl] at hsome
      exact Option.isSome_iff_exists.mp hsome
    · have hin' : sg.templates.any (fun t => resEq t (a :: rest)) = false := by simpa using hin
      simp only [hin', Bool.false_eq_true, if_false]
      refine ⟨⟨?_, ?_⟩, by first | trivial | rfl, ⟨[a :: rest], by first | trivial | rfl⟩, sg.templates.length,
        by simp⟩
      · intro key idx hlk
        simp only [List.lookup_cons] at hlk
        by_cases hk : key == (a.resname, (a :: rest).length)
        · simp only [hk] at hlk
          have hk' := eq_of_beq hk
          injection hlk with hlk
          subst hlk
          exact ⟨a :: rest, by simp, by rw [hk'], fun a' rest' e => by
            injection e with e1 _; rw [hk', ← e1]⟩
        · simp only [hk] at hlk
          obtain ⟨t, ht, hl⟩ := hI.pk_ok key idx hlk
          have hlt : idx < sg.templates.length := by
            rcases List.getElem?_eq_some_iff.mp ht with ⟨h, _⟩; exact h
          exact ⟨t, by simp only; rw [List.getElem?_append_left hlt]; exact ht, hl⟩
      · intro t ht
        simp only [List.mem_append, List.mem_singleton] at ht
        rcases ht with ht | ht
        · obtain ⟨b, tb, htb, hsome⟩ := hI.tmpl_key t ht
          refine ⟨b, tb, htb, ?_⟩
          simp only [List.lookup_cons]
          split
          · rfl
          · exact hsome
        · subst ht
          exact ⟨a, rest, rfl, by simp⟩
  unfold addResidueInit
  simp only
  generalize registerTemplate sg (a :: rest) (a.resname, (a :: rest).length) = sg1 at key1 ⊢
  obtain ⟨hI1, hord, hext, index, hlk⟩ := key1
  obtain ⟨t, ht, htl, _⟩ := hI1.pk_ok _ _ hlk
  simp only at htl
  simp only [hlk]
  cases hlast : sg1.ordered.getLast? with
  | none =>
    have hnil : sg1.ordered = [] := by
      cases ho : sg1.ordered with
      | nil => rfl
      | cons x xs => rw [ho] at hlast; simp [List.getLast?_cons] at hlast
    refine ⟨_, index, rfl, ⟨hI1.pk_ok, hI1.tmpl_key⟩, ?_, ?_, ⟨t, ht, htl⟩, hext, ?_⟩
    · simp [kinds_eq, ← hord, hnil]
    · simp [len_eq, ← hord, hnil]
    · intro _ p hp
      simp only [List.mem_singleton] at hp
      subst hp; exact Nat.le_refl 1
  | some kc =>
    obtain ⟨k, c⟩ := kc
    obtain ⟨ys, hys⟩ := List.getLast?_eq_some_iff.mp hlast
    dsimp only
    by_cases hk : k ≠ index
    · rw [if_pos hk]
      refine ⟨_, index, rfl, ⟨hI1.pk_ok, hI1.tmpl_key⟩, ?_, ?_, ⟨t, ht, htl⟩, hext, ?_⟩
      · simp [kinds_eq, ← hord, List.flatMap_append]
      · simp [len_eq, ← hord, List.sum_append]
      · intro hpos p hp
        simp only [List.mem_append, List.mem_singleton] at hp
        rcases hp with hp | hp
        · exact hpos p (hord ▸ hp)
        · subst hp; exact Nat.le_refl 1
    · rw [if_neg hk]
      have hk' : k = index := by simpa using hk
      refine ⟨_, index, rfl, ⟨hI1.pk_ok, hI1.tmpl_key⟩, ?_, ?_, ⟨t, ht, htl⟩, hext, ?_⟩
      rotate_left 2
      · intro hpos p hp
        simp only [hys, List.dropLast_concat, List.mem_append, List.mem_singleton] at hp
        rcases hp with hp | hp
        · exact hpos p (by rw [← hord, hys]; exact List.mem_append_left _ hp)
        · subst hp; simp
      · simp only [kinds_eq, ← hord, hys, List.dropLast_concat, List.flatMap_append, List.flatMap_cons,
          List.flatMap_nil, List.append_nil, hk', List.replicate_succ', List.append_assoc]
      · simp only [len_eq, ← hord, hys, List.dropLast_concat, List.map_append, List.map_cons, List.map_nil,
          List.sum_append, List.sum_cons, List.sum_nil]
        omega

/-! ### E. the whole constructor -/

/-- every kind of the stream points at a template with the length of the corresponding group -/
def KindsOk (T : List Residue) : List Nat → List Residue → Prop
  | [], [] => True
  | k :: ks, g :: gs => (∃ t, T[k]? = some t ∧ t.length = g.length) ∧ KindsOk T ks gs
  | _, _ => False

theorem KindsOk.mono {T ext : List Residue} : ∀ {ks : List Nat} {gs : List Residue},
    KindsOk T ks gs → KindsOk (T ++ ext) ks gs
  | [], [], _ => trivial
  | [], _ :: _, h => h.elim
  | _ :: _, [], h => h.elim
  | k :: ks, g :: gs, h => by
    obtain ⟨⟨t, ht, hl⟩, h2⟩ := h
    refine ⟨⟨t, ?_, hl⟩, KindsOk.mono h2⟩
    have hlt : k < T.length := by
      rcases List.getElem?_eq_some_iff.mp ht with ⟨h, _⟩; exact h
    rw [List.getElem?_append_left hlt]; exact ht

theorem KindsOk.length {T : List Residue} : ∀ {ks : List Nat} {gs : List Residue},
    KindsOk T ks gs → ks.length = gs.length
  | [], [], _ => rfl
  | [], _ :: _, h => h.elim
  | _ :: _, [], h => h.elim
  | _ :: ks, _ :: gs, h => by simp [KindsOk.length h.2]

theorem KindsOk.split {T : List Residue} : ∀ (ks1 ks2 : List Nat) (gs : List Residue),
    KindsOk T (ks1 ++ ks2) gs →
    ∃ gs1 gs2, gs = gs1 ++ gs2 ∧ KindsOk T ks1 gs1 ∧ KindsOk T ks2 gs2
  | [], ks2, gs, h => ⟨[], gs, rfl, trivial, h⟩
  | k :: ks1, ks2, [], h => h.elim
  | k :: ks1, ks2, g :: gs, h => by
    obtain ⟨gs1, gs2, e, h1, h2⟩ := KindsOk.split ks1 ks2 gs h.2
    exact ⟨g :: gs1, gs2, by rw [e]; rfl, ⟨h.1, h1⟩, h2⟩

/-- what `Residue(...)` accepts -/
def GoodGroup (g : Residue) : Prop := g ≠ [] ∧ ∀ x ∈ g, ∀ y ∈ g, x.residname = y.residname

theorem addGroup_eq (sg : SG) (g : Residue) (hg : GoodGroup g) : addGroup sg g = addResidueInit sg g := by
  unfold addGroup
  rw [mkResidue_ok g hg.1 hg.2]
  rfl

theorem foldl_addGroup_spec : ∀ (gs : List Residue) (sg : SG), Inv sg → (∀ p ∈ sg.ordered, 1 ≤ p.2) →
    (∀ g ∈ gs, GoodGroup g) →
    ∃ sg' ks, gs.foldlM addGroup sg = .ok sg' ∧ Inv sg' ∧ sg'.kinds = sg.kinds ++ ks ∧
      sg'.len = sg.len + gs.length ∧ KindsOk sg'.templates ks gs ∧
      (∃ ext, sg'.templates = sg.templates ++ ext) ∧ (∀ p ∈ sg'.ordered, 1 ≤ p.2)
  | [], sg, hI, hp, _ => ⟨sg, [], rfl, hI, by simp, by simp, trivial, ⟨[], by simp⟩, hp⟩
  | g :: gs, sg, hI, hp, hg => by
    have hgg := hg g (by simp)
    obtain ⟨sg1, k, h1, hI1, hk1, hl1, ⟨t, ht, htl⟩, ⟨ext1, he1⟩, hp1⟩ :=
      addResidueInit_spec sg g hI hgg.1
    obtain ⟨sg', ks, h2, hI2, hk2, hl2, hko, ⟨ext2, he2⟩, hp2⟩ :=
      foldl_addGroup_spec gs sg1 hI1 (hp1 hp) (fun g' hg' => hg g' (by simp [hg']))
    refine ⟨sg', k :: ks, ?_, hI2, ?_, ?_, ⟨⟨t, ?_, htl⟩, hko⟩, ⟨ext1 ++ ext2, ?_⟩, hp2⟩
    · rw [List.foldlM_cons, addGroup_eq sg g hgg, h1]
      exact h2
    · rw [hk2, hk1]; simp
    · rw [hl2, hl1]; simp; omega
    · have hlt : k < sg1.templates.length := by
        rcases List.getElem?_eq_some_iff.mp ht with ⟨h, _⟩; exact h
      rw [he2, List.getElem?_append_left hlt]; exact ht
    · rw [he2, he1]; simp

section Init
variable {κ : Type} [DecidableEq κ] (key : AtomRec → κ)

/-- the constructor on a file with at least one atom, for a grouping key that refines `residname`
    (both the repaired pair and the unrepaired string do): never raises, leaves the cursor after the box
    line, and the kind stream is in step with the run decomposition of the records -/
theorem initWith_spec (hkey : ∀ a b, key a = key b → a.residname = b.residname)
    (f : GroRd) (first : AtomRec) (rest : List AtomRec) (hf : f.recs = first :: rest) :
    ∃ sg, initWith key f ⟨0, 0⟩ = (.ok sg, ⟨f.recs.length + 1, f.recs.length⟩) ∧
      IsRunDecomp key f.recs (loopGroups key [first] (key first) rest) ∧
      Inv sg ∧ (∀ p ∈ sg.ordered, 1 ≤ p.2) ∧
      KindsOk sg.templates sg.kinds (loopGroups key [first] (key first) rest) ∧
      sg.len = (loopGroups key [first] (key first) rest).length ∧
      (loopGroups key [first] (key first) rest).foldlM addGroup SG.empty = .ok sg := by
  have hruns := (loopGroups_runs key rest [first] (key first) (by simp) (by simp)).1
  rw [List.singleton_append, ← hf] at hruns
  have hgood : ∀ g ∈ loopGroups key [first] (key first) rest, GoodGroup g := by
    intro g hg
    obtain ⟨hne, hu⟩ := hruns.uniform g hg
    exact ⟨hne, fun x hx y hy => hkey x y (hu x hx y hy)⟩
  obtain ⟨sg, ks, hfold, hI, hk, hl, hko, _, hp⟩ :=
    foldl_addGroup_spec _ SG.empty Inv.empty (by simp [SG.empty]) hgood
  refine ⟨sg, ?_, hruns, hI, hp, ?_, ?_, hfold⟩
  · unfold initWith
    have h0 : f.recs[0]? = some first := by rw [hf]; rfl
    rw [next_sync f 0 first h0]
    simp only
    rw [show f.natoms = f.recs.length from rfl,
      readAll_sync f (f.recs.length + 1) 1 (by rw [hf]; simp) (by omega)]
    simp only
    rw [hf, List.drop_one, List.tail_cons, parseLoop_eq_fold, hfold]
  · rw [hk]; simpa [SG.empty, kinds_eq] using hko
  · rw [hl]; simp [SG.empty, len_eq]

end Init

/-! ### F. the offset generator -/

/-- offsets laid out from the groups themselves: `(kind, atoms before, length)` -/
def offsOf : Nat → List Nat → List Residue → List (Nat × Nat × Nat)
  | s, k :: ks, g :: gs => (k, s, g.length) :: offsOf (s + g.length) ks gs
  | _, _, _ => []

theorem offsOf_append : ∀ (ks1 : List Nat) (gs1 : List Residue) (s : Nat) (ks2 : List Nat) (gs2 : List Residue),
    ks1.length = gs1.length →
    offsOf s (ks1 ++ ks2) (gs1 ++ gs2) = offsOf s ks1 gs1 ++ offsOf (s + gs1.flatten.length) ks2 gs2
  | [], [], s, ks2, gs2, _ => by simp [offsOf]
  | [], _ :: _, _, _, _, h => by simp at h
  | _ :: _, [], _, _, _, h => by simp at h
  | k :: ks1, g :: gs1, s, ks2, gs2, h => by
    simp only [List.cons_append, offsOf, List.flatten_cons, List.length_append, List.cons.injEq, true_and]
    rw [offsOf_append ks1 gs1 (s + g.length) ks2 gs2 (by simpa using h)]
    simp [Nat.add_assoc]

theorem emitRun_spec (T : List Residue) (idx : Nat) (t : Residue) (ht : T[idx]? = some t) :
    ∀ (amt start : Nat) (gs : List Residue), KindsOk T (List.replicate amt idx) gs →
      emitRun idx t.length amt start =
        (offsOf start (List.replicate amt idx) gs, start + gs.flatten.length)
  | 0, start, [], _ => by simp [emitRun, offsOf]
  | 0, _, _ :: _, h => by simp [KindsOk] at h
  | _ + 1, _, [], h => by simp [List.replicate_succ, KindsOk] at h
  | amt + 1, start, g :: gs, h => by
    rw [List.replicate_succ] at h ⊢
    obtain ⟨⟨t', ht', hl⟩, h2⟩ := h
    rw [ht] at ht'
    injection ht' with ht'
    subst ht'
    rw [emitRun, emitRun_spec T idx t ht amt (start + t.length) gs h2]
    simp [offsOf, hl, Nat.add_assoc]

theorem offsetsGo_spec (T : List Residue) : ∀ (ord : List (Nat × Nat)) (start : Nat) (gs : List Residue),
    (∀ p ∈ ord, 1 ≤ p.2) → KindsOk T (ord.flatMap (fun p => List.replicate p.2 p.1)) gs →
    offsetsGo T start ord = .ok (offsOf start (ord.flatMap (fun p => List.replicate p.2 p.1)) gs)
  | [], start, [], _, _ => by simp [offsetsGo, offsOf]
  | [], _, _ :: _, _, h => by simp [KindsOk] at h
  | (idx, amt) :: rest, start, gs, hp, h => by
    simp only [List.flatMap_cons] at h ⊢
    obtain ⟨gs1, gs2, rfl, h1, h2⟩ := KindsOk.split _ _ gs h
    have hamt : 1 ≤ amt := hp (idx, amt) (by simp)
    obtain ⟨amt', rfl⟩ : ∃ a, amt = a + 1 := ⟨amt - 1, by omega⟩
    -- the first group of the run tells us that the template exists
    have ht : ∃ t, T[idx]? = some t := by
      cases gs1 with
      | nil => simp [List.replicate_succ, KindsOk] at h1
      | cons g gs1 =>
        rw [List.replicate_succ] at h1
        obtain ⟨⟨t, ht, _⟩, _⟩ := h1
        exact ⟨t, ht⟩
    obtain ⟨t, ht⟩ := ht
    rw [offsetsGo, ht]
    simp only
    rw [emitRun_spec T idx t ht (amt' + 1) start gs1 h1]
    simp only
    rw [offsetsGo_spec T rest (start + gs1.flatten.length) gs2
      (fun p hp' => hp p (by simp [hp'])) h2]
    simp only
    rw [offsOf_append _ _ _ _ _ (KindsOk.length h1)]

/-- the atoms an offset triple designates -/
def offRecs (f : GroRd) (o : Nat × Nat × Nat) : Residue := recsAt f o.2.1 o.2.2

/-- an offset triple that lies inside the file and designates something `Residue(...)` accepts -/
def GoodOff (f : GroRd) (o : Nat × Nat × Nat) : Prop :=
  o.2.1 + o.2.2 ≤ f.recs.length ∧ GoodGroup (offRecs f o)

theorem offsOf_good (f : GroRd) : ∀ (ks : List Nat) (gs : List Residue) (s : Nat),
    ks.length = gs.length → f.recs.drop s = gs.flatten → s ≤ f.recs.length → (∀ g ∈ gs, GoodGroup g) →
    (offsOf s ks gs).map (offRecs f) = gs ∧ ∀ o ∈ offsOf s ks gs, GoodOff f o
  | [], [], _, _, _, _, _ => by simp [offsOf]
  | [], _ :: _, _, h, _, _, _ => by simp at h
  | _ :: _, [], _, h, _, _, _ => by simp at h
  | k :: ks, g :: gs, s, hl, hd, hs, hg => by
    have hgl : g.length ≤ (f.recs.drop s).length := by rw [hd]; simp
    have hlen : s + g.length ≤ f.recs.length := by simp at hgl; omega
    have hd' : f.recs.drop (s + g.length) = gs.flatten := by
      rw [← List.drop_drop, hd]; simp
    have hrec : offRecs f (k, s, g.length) = g := by
      simp only [offRecs, recsAt]
      rw [hd]; simp
    obtain ⟨ih1, ih2⟩ := offsOf_good f ks gs (s + g.length) (by simpa using hl) hd' hlen
      (fun g' hg' => hg g' (by simp [hg']))
    constructor
    · simp only [offsOf, List.map_cons, hrec, ih1]
    · intro o ho
      simp only [offsOf, List.mem_cons] at ho
      rcases ho with rfl | ho
      · exact ⟨hlen, by rw [hrec]; exact hg g (by simp)⟩
      · exact ih2 o ho

/-! ### G. access -/

theorem readResidues_ok (f : GroRd) : ∀ (sel : List (Nat × Nat × Nat)) (c : Cursor),
    (∀ o ∈ sel, GoodOff f o) → ∃ c', readResidues f sel c = (.ok (sel.map (offRecs f)), c')
  | [], c, _ => ⟨c, rfl⟩
  | (k, start, len) :: rest, c, h => by
    obtain ⟨hle, hne, hu⟩ := h (k, start, len) (by simp)
    obtain ⟨c', ih⟩ := readResidues_ok f rest ⟨start + len, start + len⟩ (fun o ho => h o (by simp [ho]))
    refine ⟨c', ?_⟩
    rw [readResidues, readResidue_ok f c start len hle hne hu]
    simp only
    rw [ih]
    rfl

theorem isliceExt_map {α β : Type} (g : α → β) (l : List α) (a b s : Option Int) :
    isliceExt (l.map g) a b s = (isliceExt l a b s).map (List.map g) := by
  unfold isliceExt
  rw [List.length_map]
  cases sliceIndices l.length a b s with
  | error e => rfl
  | ok idx =>
    simp only [Except.map, List.getElem?_map, List.map_filterMap]

theorem isliceExt_mem {α : Type} (l sel : List α) (a b s : Option Int) (h : isliceExt l a b s = .ok sel) :
    ∀ x ∈ sel, x ∈ l := by
  unfold isliceExt at h
  cases hi : sliceIndices l.length a b s with
  | error e => rw [hi] at h; cases h
  | ok idx =>
    rw [hi] at h
    injection h with h
    subst h
    intro x hx
    obtain ⟨i, _, hxi⟩ := List.mem_filterMap.mp hx
    exact List.mem_of_getElem? hxi

theorem pickInt_map {α β : Type} (g : α → β) (l : List α) (i : Int) :
    pickInt (l.map g) i = (pickInt l i).map g := by
  unfold pickInt
  by_cases hi : i = -1
  · simp only [hi, if_true]
    rw [List.getLast?_map]
    cases l.getLast? <;> rfl
  · simp only [hi, if_false, isliceExt_map]
    cases isliceExt l (some i) (some (i + 1)) none with
    | error e => rfl
    | ok sel => cases sel <;> rfl

theorem pickInt_mem {α : Type} (l : List α) (i : Int) (x : α) (h : pickInt l i = .ok x) : x ∈ l := by
  unfold pickInt at h
  by_cases hi : i = -1
  · simp only [hi, if_true] at h
    cases hl : l.getLast? with
    | none => rw [hl] at h; cases h
    | some y =>
      rw [hl] at h
      injection h with h
      subst h
      exact List.mem_of_getLast? hl
  · simp only [hi, if_false] at h
    cases hs : isliceExt l (some i) (some (i + 1)) none with
    | error e => rw [hs] at h; cases h
    | ok sel =>
      rw [hs] at h
      cases sel with
      | nil => cases h
      | cons y ys =>
        injection h with h
        subst h
        exact isliceExt_mem l _ _ _ _ hs y (by simp)

/-! ### H. `next(islice_extended(gen, i, i+1))` is Python indexing -/

theorem sliceIndices_unit_nonneg (n : Nat) (i : Int) (h0 : 0 ≤ i) (h1 : i < n) :
    sliceIndices n (some i) (some (i + 1)) none = .ok [i.toNat] := by
  unfold sliceIndices
  simp only [Option.getD_none]
  have e1 : (if i < 0 then max (i + (n:Int)) 0 else min i (n:Int)) = i := by
    rw [if_neg (by omega)]; omega
  have e2 : (if i + 1 < 0 then max (i + 1 + (n:Int)) 0 else min (i + 1) (n:Int)) = i + 1 := by
    rw [if_neg (by omega)]; omega
  simp [e1, e2]
  refine ⟨0, ?_, by simp⟩
  rw [if_pos (by omega), show (i + 1 - i).toNat = 1 by omega]; rfl

theorem sliceIndices_unit_neg (n : Nat) (i : Int) (h0 : i < -1) (h1 : -(n:Int) ≤ i) :
    sliceIndices n (some i) (some (i + 1)) none = .ok [(i + n).toNat] := by
  unfold sliceIndices
  simp only [Option.getD_none]
  have e1 : (if i < 0 then max (i + (n:Int)) 0 else min i (n:Int)) = i + n := by
    rw [if_pos (by omega)]; omega
  have e2 : (if i + 1 < 0 then max (i + 1 + (n:Int)) 0 else min (i + 1) (n:Int)) = i + n + 1 := by
    rw [if_pos (by omega)]; omega
  simp [e1, e2]
  refine ⟨0, ?_, by simp⟩
  rw [if_pos (by omega), show (i + ↑n + 1 - (i + ↑n)).toNat = 1 by omega]; rfl

theorem sliceIndices_unit_out (n : Nat) (i : Int) (hi : i ≠ -1) (h : i < -(n:Int) ∨ (n:Int) ≤ i) :
    sliceIndices n (some i) (some (i + 1)) none = .ok [] := by
  unfold sliceIndices
  simp only [Option.getD_none]
  by_cases hneg : i < 0
  · have e1 : (if i < 0 then max (i + (n:Int)) 0 else min i (n:Int)) = 0 := by
      rw [if_pos hneg]; omega
    have e2 : (if i + 1 < 0 then max (i + 1 + (n:Int)) 0 else min (i + 1) (n:Int)) = 0 := by
      rw [if_pos (by omega)]; omega
    simp [e1, e2]
  · have e1 : (if i < 0 then max (i + (n:Int)) 0 else min i (n:Int)) = n := by
      rw [if_neg hneg]; omega
    have e2 : (if i + 1 < 0 then max (i + 1 + (n:Int)) 0 else min (i + 1) (n:Int)) = n := by
      rw [if_neg (by omega)]; omega
    simp [e1, e2]

/-- Python's `l[i]` for an `int` (`None` = `IndexError`) -/
def pyIndex {α : Type} (l : List α) (i : Int) : Option α :=
  if 0 ≤ i then l[i.toNat]? else if -(l.length : Int) ≤ i then l[(i + l.length).toNat]? else none

theorem pickInt_eq_pyIndex {α : Type} (l : List α) (i : Int) (hne : l ≠ []) :
    pickInt l i = match pyIndex l i with
      | some x => .ok x
      | none => .error .IndexError := by
  have hpos : 0 < l.length := List.length_pos_iff.mpr hne
  unfold pickInt pyIndex
  by_cases hi : i = -1
  · subst hi
    simp only [if_true]
    rw [if_neg (by omega), if_pos (by omega), List.getLast?_eq_getElem?]
    have : (-1 + (l.length : Int)).toNat = l.length - 1 := by omega
    rw [this]
    have hlt : l.length - 1 < l.length := by omega
    rw [List.getElem?_eq_getElem hlt]
  · simp only [hi, if_false]
    unfold isliceExt
    by_cases h0 : 0 ≤ i
    · rw [if_pos h0]
      by_cases h1 : i < l.length
      · rw [sliceIndices_unit_nonneg _ i h0 h1]
        have hlt : i.toNat < l.length := by omega
        simp [List.getElem?_eq_getElem hlt]
      · rw [sliceIndices_unit_out _ i hi (Or.inr (by omega))]
        have : l[i.toNat]? = none := List.getElem?_eq_none (by omega)
        simp [this]
    · rw [if_neg h0]
      by_cases h1 : -(l.length : Int) ≤ i
      · rw [if_pos h1, sliceIndices_unit_neg _ i (by omega) h1]
        have hlt : (i + l.length).toNat < l.length := by omega
        simp [List.getElem?_eq_getElem hlt]
      · rw [if_neg h1, sliceIndices_unit_out _ i hi (Or.inl (by omega))]
        simp

/-! ### I. uniqueness of the run decomposition -/

section Unique
variable {κ : Type} (key : AtomRec → κ)

theorem IsRunDecomp.tail {recs : List AtomRec} {g : List AtomRec} {gs : List (List AtomRec)}
    (h : IsRunDecomp key recs (g :: gs)) : IsRunDecomp key gs.flatten gs :=
  ⟨rfl, fun g' hg' => h.uniform g' (by simp [hg']), by
    have := h.adj
    cases gs with
    | nil => trivial
    | cons h' t => exact this.2⟩

private theorem prefix_clash {g g' a' : List AtomRec} {gs : List (List AtomRec)} {Y : List AtomRec}
    (hg : g ≠ []) (hadj : AdjDiffer key (g :: gs))
    (hu : ∀ h ∈ gs, h ≠ [])
    (hg'u : ∀ x ∈ g', ∀ y ∈ g', key x = key y)
    (e1 : g' = g ++ a') (e2 : gs.flatten = a' ++ Y) : a' = [] := by
  cases a' with
  | nil => rfl
  | cons z zs =>
    exfalso
    cases gs with
    | nil => simp at e2
    | cons h t =>
      have hne := hu h (by simp)
      cases h with
      | nil => exact hne rfl
      | cons w ws =>
        simp only [List.flatten_cons, List.cons_append, List.cons.injEq] at e2
        obtain ⟨x0, hx0⟩ := List.exists_mem_of_ne_nil g hg
        have hk := hadj.1 x0 hx0 w (by simp)
        apply hk
        apply hg'u
        · rw [e1]; exact List.mem_append_left _ hx0
        · rw [e1, e2.1]; simp

theorem IsRunDecomp.unique : ∀ {gs gs' : List (List AtomRec)} {recs : List AtomRec},
    IsRunDecomp key recs gs → IsRunDecomp key recs gs' → gs = gs'
  | [], gs', recs, h, h' => by
    have hr : recs = [] := by rw [← h.flatten]; rfl
    cases gs' with
    | nil => rfl
    | cons g t =>
      exfalso
      have := h'.flatten
      rw [hr, List.flatten_cons] at this
      exact (h'.uniform g (by simp)).1 (List.append_eq_nil_iff.mp this).1
  | g :: gs, [], recs, h, h' => by
    exfalso
    have hr : recs = [] := by rw [← h'.flatten]; rfl
    have := h.flatten
    rw [hr, List.flatten_cons] at this
    exact (h.uniform g (by simp)).1 (List.append_eq_nil_iff.mp this).1
  | g :: gs, g' :: gs', recs, h, h' => by
    have e : g ++ gs.flatten = g' ++ gs'.flatten := by
      have a := h.flatten; have b := h'.flatten
      rw [List.flatten_cons] at a b; rw [a, b]
    have hgg : g = g' := by
      rcases List.append_eq_append_iff.mp e with ⟨a', e1, e2⟩ | ⟨c', e1, e2⟩
      · have := prefix_clash key (h.uniform g (by simp)).1 h.adj
          (fun x hx => (h.uniform x (by simp [hx])).1) (h'.uniform g' (by simp)).2 e1 e2
        rw [e1, this]; simp
      · have := prefix_clash key (h'.uniform g' (by simp)).1 h'.adj
          (fun x hx => (h'.uniform x (by simp [hx])).1) (h.uniform g (by simp)).2 e1 e2
        rw [e1, this]; simp
    subst hgg
    have e' : gs.flatten = gs'.flatten := List.append_cancel_left e
    have t1 := IsRunDecomp.tail key h
    have t2 := IsRunDecomp.tail key h'
    rw [← e'] at t2
    rw [IsRunDecomp.unique t1 t2]

end Unique

/-! ### J. operation sequences -/

/-- what the constructor establishes and every access relies on: the offset generator works, and its
    triples designate, in order, exactly the residues `gs`, all inside the file -/
structure Loaded (f : GroRd) (sg : SG) (gs : List Residue) : Prop where
  offs : ∃ offs, sg.offsets = .ok offs ∧ offs.map (offRecs f) = gs ∧ ∀ o ∈ offs, GoodOff f o

/-- the reference semantics of an access sequence: Python list operations on the list of runs, and
    iterators that are plain positions in that list.  No file, no cursor. -/
def specStep (runs : List Residue) (iters : List (Option Nat)) : Op → OpRes × List (Option Nat)
  | .get i => ((stopToIndex (pickInt runs i)).map (fun x => [x]), iters)
  | .slice a b s => (isliceExt runs a b s, iters)
  | .iterNew => (.ok [], iters ++ [some 0])
  | .iterNext j =>
    match iters[j]? with
    | none => (.error .TypeError, iters)
    | some none => (.error .StopIteration, iters)
    | some (some k) =>
      match runs[k]? with
      | none => (.error .StopIteration, iters.set j none)
      | some r => (.ok [r], iters.set j (some (k + 1)))

def specRun (runs : List Residue) : List (Option Nat) → List Op → List OpRes
  | _, [] => []
  | iters, op :: ops =>
    let (r, it') := specStep runs iters op
    r :: specRun runs it' ops

theorem stopToIndex_ok {β : Type} (x : β) : stopToIndex (.ok x : Except PyErr β) = .ok x := rfl

theorem getInt_spec (f : GroRd) (sg : SG) (gs : List Residue) (hL : Loaded f sg gs) (c : Cursor) (i : Int) :
    (getInt f sg c i).1 = stopToIndex (pickInt gs i) := by
  obtain ⟨offs, ho, hmap, hgood⟩ := hL.offs
  unfold getInt
  rw [ho]
  simp only
  rw [← hmap, pickInt_map]
  cases hp : pickInt offs i with
  | error e => rfl
  | ok o =>
    obtain ⟨k, start, len⟩ := o
    obtain ⟨hle, hne, hu⟩ := hgood _ (pickInt_mem offs i _ hp)
    simp only
    rw [readResidue_ok f c start len hle hne hu]
    rfl

theorem getSlice_spec (f : GroRd) (sg : SG) (gs : List Residue) (hL : Loaded f sg gs) (c : Cursor)
    (a b s : Option Int) : (getSlice f sg c a b s).1 = isliceExt gs a b s := by
  obtain ⟨offs, ho, hmap, hgood⟩ := hL.offs
  unfold getSlice
  rw [ho]
  simp only
  rw [← hmap, isliceExt_map]
  cases hs : isliceExt offs a b s with
  | error e => rfl
  | ok sel =>
    obtain ⟨c', hr⟩ := readResidues_ok f sel c (fun o ho' => hgood o (isliceExt_mem offs sel a b s hs o ho'))
    simp only
    rw [hr]
    rfl

theorem step_spec (f : GroRd) (sg : SG) (gs : List Residue) (hL : Loaded f sg gs) (st : St) (op : Op) :
    (step f sg st op).1 = (specStep gs st.iters op).1 ∧
    (step f sg st op).2.iters = (specStep gs st.iters op).2 := by
  cases op with
  | get i =>
    simp only [step, specStep]
    exact ⟨by rw [getInt_spec f sg gs hL], trivial⟩
  | slice a b s =>
    simp only [step, specStep]
    exact ⟨getSlice_spec f sg gs hL _ a b s, trivial⟩
  | iterNew => exact ⟨rfl, rfl⟩
  | iterNext j =>
    obtain ⟨offs, ho, hmap, hgood⟩ := hL.offs
    simp only [step, specStep]
    cases hj : st.iters[j]? with
    | none => exact ⟨rfl, rfl⟩
    | some ok =>
      cases ok with
      | none => exact ⟨rfl, rfl⟩
      | some k =>
        simp only [ho]
        rw [← hmap, List.getElem?_map]
        cases hk : offs[k]? with
        | none => exact ⟨rfl, rfl⟩
        | some o =>
          obtain ⟨kk, start, len⟩ := o
          obtain ⟨hle, hne, hu⟩ := hgood _ (List.mem_of_getElem? hk)
          simp only [Option.map_some]
          rw [readResidue_ok f st.cur start len hle hne hu]
          exact ⟨rfl, rfl⟩

theorem run_spec (f : GroRd) (sg : SG) (gs : List Residue) (hL : Loaded f sg gs) :
    ∀ (ops : List Op) (st : St), (run f sg st ops).1 = specRun gs st.iters ops
  | [], _ => rfl
  | op :: ops, st => by
    obtain ⟨h1, h2⟩ := step_spec f sg gs hL st op
    simp only [run, specRun]
    rw [run_spec f sg gs hL ops (step f sg st op).2, h1, h2]

section InitLoaded
variable {κ : Type} [DecidableEq κ] (key : AtomRec → κ)

theorem initWith_loaded (hkey : ∀ a b, key a = key b → a.residname = b.residname)
    (f : GroRd) (first : AtomRec) (rest : List AtomRec) (hf : f.recs = first :: rest) :
    ∃ sg, initWith key f ⟨0, 0⟩ = (.ok sg, ⟨f.recs.length + 1, f.recs.length⟩) ∧
      IsRunDecomp key f.recs (loopGroups key [first] (key first) rest) ∧
      Inv sg ∧
      KindsOk sg.templates sg.kinds (loopGroups key [first] (key first) rest) ∧
      sg.len = (loopGroups key [first] (key first) rest).length ∧
      sg.offsets = .ok (offsOf 0 sg.kinds (loopGroups key [first] (key first) rest)) ∧
      Loaded f sg (loopGroups key [first] (key first) rest) ∧
      (loopGroups key [first] (key first) rest).foldlM addGroup SG.empty = .ok sg := by
  obtain ⟨sg, hinit, hruns, hI, hp, hko, hl, hfold⟩ := initWith_spec key hkey f first rest hf
  have hoffs : sg.offsets = .ok (offsOf 0 sg.kinds (loopGroups key [first] (key first) rest)) :=
    offsetsGo_spec sg.templates sg.ordered 0 _ hp hko
  have hgood : ∀ g ∈ loopGroups key [first] (key first) rest, GoodGroup g := by
    intro g hg
    obtain ⟨hne, hu⟩ := hruns.uniform g hg
    exact ⟨hne, fun x hx y hy => hkey x y (hu x hx y hy)⟩
  obtain ⟨hm, hg⟩ := offsOf_good f sg.kinds _ 0 (KindsOk.length hko)
    (by rw [List.drop_zero, hruns.flatten]) (Nat.zero_le _) hgood
  exact ⟨sg, hinit, hruns, hI, hko, hl, hoffs, ⟨⟨_, hoffs, hm, hg⟩⟩, hfold⟩

end InitLoaded

/-! ### K. index forms, the identity slice, key congruence -/


theorem KindsOk.get {T : List Residue} : ∀ {ks : List Nat} {gs : List Residue}, KindsOk T ks gs →
    ∀ (i : Nat) (g : Residue), gs[i]? = some g →
      ∃ k t, ks[i]? = some k ∧ T[k]? = some t ∧ t.length = g.length
  | [], [], _, i, g, h => by simp at h
  | [], _ :: _, h, _, _, _ => h.elim
  | _ :: _, [], h, _, _, _ => h.elim
  | k :: ks, g0 :: gs, h, 0, g, hg => by
    simp only [List.getElem?_cons_zero, Option.some.injEq] at hg
    subst hg
    obtain ⟨t, ht, hl⟩ := h.1
    exact ⟨k, t, rfl, ht, hl⟩
  | k :: ks, g0 :: gs, h, i + 1, g, hg => by
    simp only [List.getElem?_cons_succ] at hg ⊢
    exact KindsOk.get h.2 i g hg

theorem offsOf_get : ∀ (ks : List Nat) (gs : List Residue) (s i : Nat) (k : Nat) (g : Residue),
    ks[i]? = some k → gs[i]? = some g →
    (offsOf s ks gs)[i]? = some (k, s + (gs.take i).flatten.length, g.length)
  | [], _, _, _, _, _, h, _ => by simp at h
  | _ :: _, [], _, _, _, _, _, h => by simp at h
  | k0 :: ks, g0 :: gs, s, 0, k, g, hk, hg => by
    simp only [List.getElem?_cons_zero, Option.some.injEq] at hk hg
    subst hk hg
    simp [offsOf]
  | k0 :: ks, g0 :: gs, s, i + 1, k, g, hk, hg => by
    simp only [List.getElem?_cons_succ] at hk hg
    simp only [offsOf, List.getElem?_cons_succ, List.take_succ_cons, List.flatten_cons, List.length_append]
    rw [offsOf_get ks gs (s + g0.length) i k g hk hg, Nat.add_assoc]

theorem offsOf_length : ∀ (ks : List Nat) (gs : List Residue) (s : Nat), ks.length = gs.length →
    (offsOf s ks gs).length = gs.length
  | [], [], _, _ => rfl
  | [], _ :: _, _, h => by simp at h
  | _ :: _, [], _, h => by simp at h
  | _ :: ks, _ :: gs, s, h => by
    simp only [offsOf, List.length_cons]
    rw [offsOf_length ks gs _ (by simpa using h)]


theorem sliceIndices_all (n : Nat) : sliceIndices n none none none = .ok (List.range n) := by
  unfold sliceIndices
  simp only [Option.getD_none]
  simp
  have : (if 0 < n then n else 0) = n := by split <;> omega
  rw [this]

theorem filterMap_range_get {α : Type} : ∀ (l : List α) (f : Nat → Option α),
    (∀ i, i < l.length → f i = l[i]?) → (List.range l.length).filterMap f = l
  | [], _, _ => rfl
  | a :: l, f, h => by
    rw [List.length_cons, List.range_succ_eq_map, List.filterMap_cons, h 0 (by simp)]
    simp only [List.getElem?_cons_zero, List.filterMap_map]
    rw [filterMap_range_get l (f ∘ Nat.succ) (fun i hi => by
      simp only [Function.comp]; rw [h (i + 1) (by simp; omega)]; rfl)]

theorem isliceExt_all {α : Type} (l : List α) : isliceExt l none none none = .ok l := by
  unfold isliceExt
  rw [sliceIndices_all]
  simp only
  rw [filterMap_range_get l _ (fun _ _ => rfl)]

theorem parseLoop_congr {κ1 κ2 : Type} [DecidableEq κ1] [DecidableEq κ2] (k1 : AtomRec → κ1) (k2 : AtomRec → κ2) :
    ∀ (rest : List AtomRec) (sg : SG) (cur : List AtomRec) (p : AtomRec),
      (∀ a ∈ p :: rest, ∀ b ∈ p :: rest, (k1 a = k1 b ↔ k2 a = k2 b)) →
      parseLoop k1 sg cur (k1 p) rest = parseLoop k2 sg cur (k2 p) rest
  | [], sg, cur, p, _ => by simp [parseLoop]
  | a :: rest, sg, cur, p, h => by
    rw [parseLoop, parseLoop]
    have hap := h a (by simp) p (by simp)
    by_cases e : k1 a = k1 p
    · rw [if_pos e, if_pos (hap.mp e)]
      exact parseLoop_congr k1 k2 rest sg (cur ++ [a]) p (fun x hx y hy =>
        h x (by simp at hx ⊢; rcases hx with hx | hx <;> simp [hx]) y
          (by simp at hy ⊢; rcases hy with hy | hy <;> simp [hy]))
    · rw [if_neg e, if_neg (fun e' => e (hap.mpr e'))]
      cases mkResidue cur with
      | error e => rfl
      | ok r =>
        simp only [bind, Except.bind]
        cases addResidueInit sg r with
        | error e => rfl
        | ok sg' =>
          exact parseLoop_congr k1 k2 rest sg' [a] a (fun x hx y hy =>
            h x (List.mem_cons_of_mem _ hx) y (List.mem_cons_of_mem _ hy))


theorem next_mem (f : GroRd) (c : Cursor) (r : AtomRec) (c' : Cursor) (h : next f c = (.ok r, c')) :
    r ∈ f.recs := by
  unfold next at h
  by_cases hc : c.cur ≥ f.natoms
  · simp [hc] at h
  · simp only [hc, if_false] at h
    cases hr : f.recs[c.pos]? with
    | none => rw [hr] at h; simp at h
    | some r' =>
      rw [hr] at h
      simp only [Prod.mk.injEq, Except.ok.injEq] at h
      obtain ⟨rfl, _⟩ := h
      exact List.mem_of_getElem? hr

theorem readAll_mem (f : GroRd) : ∀ (fuel : Nat) (c : Cursor) (rs : List AtomRec) (c' : Cursor),
    readAll f fuel c = (.ok rs, c') → ∀ a ∈ rs, a ∈ f.recs
  | 0, c, rs, c', h => by simp [readAll] at h
  | fuel + 1, c, rs, c', h => by
    rw [readAll] at h
    cases hn : next f c with
    | mk r1 c1 =>
      rw [hn] at h
      cases r1 with
      | ok r1 =>
        simp only at h
        cases hra : readAll f fuel c1 with
        | mk r3 c3 =>
          rw [hra] at h
          cases r3 with
          | ok rs3 =>
            simp only [Prod.mk.injEq, Except.ok.injEq] at h
            obtain ⟨rfl, _⟩ := h
            intro a ha
            rcases List.mem_cons.mp ha with rfl | ha
            · exact next_mem f c _ c1 hn
            · exact readAll_mem f fuel c1 rs3 c3 hra a ha
          | error e => simp at h
      | error e =>
        by_cases he : e = .StopIteration
        · subst he
          simp only [Prod.mk.injEq, Except.ok.injEq] at h
          obtain ⟨rfl, _⟩ := h
          intro a ha; cases ha
        · cases e <;> simp_all

/-! ### L. when the dictionary is never overwritten -/

/-- the `(resname, len)` signature of a residue -/
def sigOf (g : Residue) : Option (Str × Nat) := g.head?.map (fun a => (a.resname, g.length))

/-- finer view of one `_add_residue_init`: the dictionary is either untouched (the residue equals a
    template) or gets one new binding for the residue's own signature; the kind appended to the stream is
    the dictionary value of that signature afterwards -/
theorem addResidueInit_cases (sg : SG) (a : AtomRec) (rest : List AtomRec) (sg' : SG)
    (h : addResidueInit sg (a :: rest) = .ok sg') :
    ((sg.templates.any (fun t => resEq t (a :: rest)) = true ∧ sg'.pk = sg.pk ∧ sg'.templates = sg.templates) ∨
     (sg.templates.any (fun t => resEq t (a :: rest)) = false ∧
        sg'.pk = ((a.resname, (a :: rest).length), sg.templates.length) :: sg.pk ∧
        sg'.templates = sg.templates ++ [a :: rest])) ∧
    ∃ k, sg'.pk.lookup (a.resname, (a :: rest).length) = some k ∧ sg'.kinds = sg.kinds ++ [k] := by
  unfold addResidueInit at h
  simp only at h
  have hreg : (registerTemplate sg (a :: rest) (a.resname, (a :: rest).length)).ordered = sg.ordered := by
    unfold registerTemplate; split <;> rfl
  have hcase : (sg.templates.any (fun t => resEq t (a :: rest)) = true ∧
        registerTemplate sg (a :: rest) (a.resname, (a :: rest).length) = sg) ∨
      (sg.templates.any (fun t => resEq t (a :: rest)) = false ∧
        registerTemplate sg (a :: rest) (a.resname, (a :: rest).length) =
          { sg with templates := sg.templates ++ [a :: rest],
                    pk := ((a.resname, (a :: rest).length), sg.templates.length) :: sg.pk }) := by
    unfold registerTemplate
    by_cases hin : sg.templates.any (fun t => resEq t (a :: rest)) = true
    · exact Or.inl ⟨hin, by rw [if_pos hin]⟩
    · have hin' : sg.templates.any (fun t => resEq t (a :: rest)) = false := by simpa using hin
      exact Or.inr ⟨hin', by rw [if_neg hin]⟩
  generalize registerTemplate sg (a :: rest) (a.resname, (a :: rest).length) = sg1 at h hreg hcase
  cases hlk : sg1.pk.lookup (a.resname, (a :: rest).length) with
  | none => rw [hlk] at h; cases h
  | some index =>
    rw [hlk] at h
    simp only at h
    have hfin : sg'.pk = sg1.pk ∧ sg'.templates = sg1.templates ∧ sg'.kinds = sg.kinds ++ [index] := by
      cases hlast : sg1.ordered.getLast? with
      | none =>
        rw [hlast] at h
        simp only [Except.ok.injEq] at h
        subst h
        have hnil : sg1.ordered = [] := by
          cases ho : sg1.ordered with
          | nil => rfl
          | cons x xs => rw [ho] at hlast; simp [List.getLast?_cons] at hlast
        exact ⟨rfl, rfl, by simp [kinds_eq, ← hreg, hnil]⟩
      | some kc =>
        obtain ⟨k, c⟩ := kc
        obtain ⟨ys, hys⟩ := List.getLast?_eq_some_iff.mp hlast
        rw [hlast] at h
        dsimp only at h
        by_cases hk : k ≠ index
        · rw [if_pos hk] at h
          simp only [Except.ok.injEq] at h
          subst h
          exact ⟨rfl, rfl, by simp [kinds_eq, ← hreg, List.flatMap_append]⟩
        · rw [if_neg hk] at h
          simp only [Except.ok.injEq] at h
          subst h
          have hk' : k = index := by simpa using hk
          refine ⟨rfl, rfl, ?_⟩
          simp only [kinds_eq, ← hreg, hys, List.dropLast_concat, List.flatMap_append, List.flatMap_cons,
            List.flatMap_nil, List.append_nil, hk', List.replicate_succ', List.append_assoc]
    obtain ⟨h1, h2, h3⟩ := hfin
    refine ⟨?_, index, by rw [h1]; exact hlk, h3⟩
    rcases hcase with ⟨hin, e⟩ | ⟨hin, e⟩
    · exact Or.inl ⟨hin, by rw [h1, e], by rw [h2, e]⟩
    · exact Or.inr ⟨hin, by rw [h1, e], by rw [h2, e]⟩

/-- the `(resname, len)` signature determines the residue as far as `Residue.__eq__` can see -/
def SigDetermines (gs : List Residue) : Prop :=
  ∀ g ∈ gs, ∀ g' ∈ gs, sigOf g = sigOf g' → resEq g g' = true

theorem resEq_sig {t g : Residue} (hg : g ≠ []) (h : resEq t g = true) : sigOf t = sigOf g := by
  obtain ⟨hl, hn⟩ := resEq_key h
  cases g with
  | nil => exact absurd rfl hg
  | cons b tb =>
    cases t with
    | nil => simp at hl
    | cons a ta =>
      simp only [sigOf, List.head?_cons, Option.map_some, hl, hn a ta b tb rfl rfl]

structure KInv (gs : List Residue) (sg : SG) (done : List Residue) : Prop where
  tmpl : ∀ t ∈ sg.templates, t ∈ gs
  rep : ∀ g ∈ done, ∃ t ∈ sg.templates, sigOf t = sigOf g
  len : sg.kinds.length = done.length
  look : ∀ (i : Nat) (a : AtomRec) (rest : List AtomRec), done[i]? = some (a :: rest) →
    sg.pk.lookup (a.resname, (a :: rest).length) = sg.kinds[i]?

theorem KInv.step (gs : List Residue) (hS : SigDetermines gs) (sg sg' : SG) (done : List Residue)
    (a : AtomRec) (rest : List AtomRec) (hK : KInv gs sg done) (hg : (a :: rest) ∈ gs)
    (h : addResidueInit sg (a :: rest) = .ok sg') : KInv gs sg' (done ++ [a :: rest]) := by
  obtain ⟨hcase, k, hlk, hkinds⟩ := addResidueInit_cases sg a rest sg' h
  have hlen : sg'.kinds.length = (done ++ [a :: rest]).length := by rw [hkinds]; simp [hK.len]
  rcases hcase with ⟨hin, hpk, htm⟩ | ⟨hin, hpk, htm⟩
  · obtain ⟨t, ht, hteq⟩ := List.any_eq_true.mp hin
    refine ⟨by rw [htm]; exact hK.tmpl, ?_, hlen, ?_⟩
    · intro g hgd
      rcases List.mem_append.mp hgd with hgd | hgd
      · rw [htm]; exact hK.rep g hgd
      · simp only [List.mem_singleton] at hgd
        subst hgd
        exact ⟨t, by rw [htm]; exact ht, resEq_sig (by simp) hteq⟩
    · intro i b tb hi
      by_cases hlt : i < done.length
      · rw [List.getElem?_append_left hlt] at hi
        rw [hpk, hkinds, List.getElem?_append_left (by rw [hK.len]; exact hlt)]
        exact hK.look i b tb hi
      · have hie : i = done.length := by
          have : i < (done ++ [a :: rest]).length := by
            rcases List.getElem?_eq_some_iff.mp hi with ⟨h, _⟩; exact h
          simp at this; omega
        subst hie
        simp only [List.getElem?_concat_length, Option.some.injEq] at hi
        injection hi with h1 h2
        subst h1 h2
        rw [hlk, hkinds, ← hK.len, List.getElem?_concat_length]
  · have hnew : ∀ g ∈ done, sigOf g ≠ sigOf (a :: rest) := by
      intro g hgd e
      obtain ⟨t, ht, hts⟩ := hK.rep g hgd
      have := hS t (hK.tmpl t ht) (a :: rest) hg (hts.trans e)
      have hany : sg.templates.any (fun t => resEq t (a :: rest)) = true :=
        List.any_eq_true.mpr ⟨t, ht, this⟩
      rw [hin] at hany
      cases hany
    refine ⟨?_, ?_, hlen, ?_⟩
    · intro t ht
      rw [htm] at ht
      rcases List.mem_append.mp ht with ht | ht
      · exact hK.tmpl t ht
      · simp only [List.mem_singleton] at ht; subst ht; exact hg
    · intro g hgd
      rcases List.mem_append.mp hgd with hgd | hgd
      · obtain ⟨t, ht, hts⟩ := hK.rep g hgd
        exact ⟨t, by rw [htm]; exact List.mem_append_left _ ht, hts⟩
      · simp only [List.mem_singleton] at hgd
        subst hgd
        exact ⟨a :: rest, by rw [htm]; simp, rfl⟩
    · intro i b tb hi
      by_cases hlt : i < done.length
      · rw [List.getElem?_append_left hlt] at hi
        rw [hkinds, List.getElem?_append_left (by rw [hK.len]; exact hlt), ← hK.look i b tb hi, hpk,
          List.lookup_cons]
        have hne : ((b.resname, (b :: tb).length) == (a.resname, (a :: rest).length)) = false := by
          rw [beq_eq_false_iff_ne]
          intro e
          apply hnew (b :: tb) (List.mem_of_getElem? hi)
          simp only [sigOf, List.head?_cons, Option.map_some, Option.some.injEq]
          exact e
        rw [hne]
      · have hie : i = done.length := by
          have : i < (done ++ [a :: rest]).length := by
            rcases List.getElem?_eq_some_iff.mp hi with ⟨h, _⟩; exact h
          simp at this; omega
        subst hie
        simp only [List.getElem?_concat_length, Option.some.injEq] at hi
        injection hi with h1 h2
        subst h1 h2
        rw [hlk, hkinds, ← hK.len, List.getElem?_concat_length]


theorem KInv.fold (gs : List Residue) (hS : SigDetermines gs) :
    ∀ (todo done : List Residue) (sg sg' : SG), KInv gs sg done → (∀ g ∈ todo, g ∈ gs ∧ GoodGroup g) →
      todo.foldlM addGroup sg = .ok sg' → KInv gs sg' (done ++ todo)
  | [], done, sg, sg', hK, _, h => by
    simp only [List.foldlM_nil, pure, Except.pure, Except.ok.injEq] at h
    subst h; simpa using hK
  | g :: todo, done, sg, sg', hK, hg, h => by
    obtain ⟨hgs, hgood⟩ := hg g (by simp)
    rw [List.foldlM_cons, addGroup_eq sg g hgood] at h
    cases h1 : addResidueInit sg g with
    | error e => rw [h1] at h; simp [bind, Except.bind] at h
    | ok sg1 =>
      rw [h1] at h
      simp only [bind, Except.bind] at h
      obtain ⟨a, rest, rfl⟩ : ∃ a rest, g = a :: rest := by
        cases g with
        | nil => exact absurd rfl hgood.1
        | cons a rest => exact ⟨a, rest, rfl⟩
      have hK1 := KInv.step gs hS sg sg1 done a rest hK hgs h1
      have := KInv.fold gs hS todo (done ++ [a :: rest]) sg1 sg' hK1
        (fun g' hg' => hg g' (by simp [hg'])) h
      simpa using this

end SGro
