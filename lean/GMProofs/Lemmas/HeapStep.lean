import GMProofs.Lemmas.HeapAlloc
/-
  GMProofs.Lemmas.HeapStep — every operation of the language writes only cells of its target,
  returns an object living in fresh cells or in cells of its target; the separation invariant over
  operation lists follows by induction.
-/

namespace GMHeap

variable {α : Type}

/-- the returned object of a step is valid and lives in fresh cells or in cells of the target -/
def RetOKP (h : Heap α) (P : Nat → Prop) (r : StepR α) : Prop :=
  ∀ o', r.ret = some o' → o'.Valid r.heap ∧ ∀ a ∈ o'.cells r.heap, P a ∨ h.size ≤ a

abbrev RetOK (h : Heap α) (o : Obj) (r : StepR α) : Prop := RetOKP h (· ∈ o.cells h) r

theorem retOK_none {h : Heap α} {P : Nat → Prop} {h' : Heap α} {e : Option PyErr} :
    RetOKP h P ⟨h', none, e⟩ := fun _ ho => by cases ho

theorem retOK_writeOk {h : Heap α} {o : Obj} (r : Heap α × Option PyErr) : RetOK h o (writeOk r) :=
  fun _ ho => by cases ho

/-- `Molecule(top, residues)` built in `h` (a successor of `h0` by allocation only) as one step
    from `h0` on target `o` -/
theorem molInit_stepP {h h0 : Heap α} {P : Nat → Prop} {t : Nat} {rs : List Nat}
    (f0 : Frame Rel.any NoW h0 h)
    (htops : ∀ name tops ps, h.mtop? t = some (name, tops) → readRess h rs = some ps →
      ∀ x ∈ tops, P x ∨ h0.size ≤ x) :
    Frame Rel.any NoW h0 (allocOk (molInit h t rs) h0 Obj.mol).heap ∧
      RetOKP h0 P (allocOk (molInit h t rs) h0 Obj.mol) := by
  cases hc : molInit h t rs with
  | error e => exact ⟨Frame.refl _ _ _, retOK_none⟩
  | ok p =>
    obtain ⟨h1, a⟩ := p
    have n := molInit_spec hc
    obtain ⟨name, tops, ps, css, e1, e2, _, _, rs', ps', hv, _, hfr, _, _, _, _⟩ := n.old
    refine ⟨f0.trans' (n.frame _), ?_⟩
    intro o' ho'
    simp only [allocOk] at ho'
    injection ho' with ho'
    subst ho'
    refine ⟨⟨_, hv⟩, ?_⟩
    intro x hx
    simp only [allocOk, Obj.cells, hv, List.mem_append] at hx
    rcases hx with hx | hx
    · exact Or.inr (Nat.le_trans f0.size_le (hfr x hx).1)
    · exact htops name tops ps e1 e2 x hx

theorem molInit_step {h h0 : Heap α} {o : Obj} {t : Nat} {rs : List Nat}
    (f0 : Frame Rel.any NoW h0 h)
    (htops : ∀ name tops ps, h.mtop? t = some (name, tops) → readRess h rs = some ps →
      ∀ x ∈ tops, x ∈ o.cells h0 ∨ h0.size ≤ x) :
    Frame Rel.any NoW h0 (allocOk (molInit h t rs) h0 Obj.mol).heap ∧
      RetOK h0 o (allocOk (molInit h t rs) h0 Obj.mol) := molInit_stepP f0 htops

theorem iterCheck_none_mem {h : Heap α} {l : List (Nat × Nat)} {k : Nat} {p : Nat × Nat}
    (hk : l[k]? = some p) : p ∈ l := List.mem_of_getElem? hk

section step
variable [Scalar α]

theorem stepOn_spec (h : Heap α) (o : Obj) (op : Op α) (hval : o.Valid h) :
    Frame Rel.any (· ∈ o.cells h) h (stepOn h o op).heap ∧ RetOK h o (stepOn h o op) := by
  have noW : ∀ {h' : Heap α}, Frame Rel.any NoW h h' → Frame Rel.any (· ∈ o.cells h) h h' :=
    fun f => f.mono (fun _ w => w.elim)
  have err : ∀ e : PyErr, Frame Rel.any (· ∈ o.cells h) h (⟨h, none, some e⟩ : StepR α).heap ∧
      RetOK h o (⟨h, none, some e⟩ : StepR α) := fun e => ⟨Frame.refl _ _ _, retOK_none⟩
  cases op with
  | newMol name tops residues => exact err _
  | move i d => exact ⟨frame_moveObj h o d, retOK_writeOk _⟩
  | moveTo i p => exact ⟨frame_moveToObj h o p, retOK_writeOk _⟩
  | rotate i r => exact ⟨frame_rotateObj h o r, retOK_writeOk _⟩
  | setPos i ps => exact ⟨frame_setPositions h o ps, retOK_writeOk _⟩
  | setVel i vs => exact ⟨frame_setVelocities h o vs, retOK_writeOk _⟩
  | setIds i ids => exact ⟨frame_setIds h o ids, retOK_writeOk _⟩
  | setResidsI i n => exact ⟨frame_setResidsInt h o n, retOK_writeOk _⟩
  | setResnamesS i s => exact ⟨frame_setResnamesStr h o s, retOK_writeOk _⟩
  | setAttr i v => exact ⟨frame_setAttr h o v, retOK_writeOk _⟩
  | setResidsL i l =>
    cases o with
    | mol m => exact ⟨frame_setResidsList h m l, retOK_writeOk _⟩
    | res r => exact err _
    | agro g => exact err _
    | atom t g => exact err _
  | setResnamesL i l =>
    cases o with
    | mol m => exact ⟨frame_setResnamesList h m l, retOK_writeOk _⟩
    | res r => exact err _
    | agro g => exact err _
    | atom t g => exact err _
  | copy i =>
    cases o with
    | mol m =>
      simp only [stepOn]
      cases e1 : h.mol? m with
      | none => exact err _
      | some p =>
        obtain ⟨t, rs, e⟩ := p
        simp only
        have := molInit_step (o := .mol m) (t := t) (rs := rs) (Frame.refl _ _ h) (by
          intro name tops ps hn e3 x hx
          left
          simp only [Obj.cells, molView_of_parts e1 hn e3, List.mem_append]
          exact Or.inr hx)
        exact ⟨noW this.1, this.2⟩
    | res r =>
      simp only [stepOn]
      cases hc : copyResidue h r with
      | error e => exact err _
      | ok p =>
        obtain ⟨h1, a⟩ := p
        obtain ⟨gs, cs, _, _, n⟩ := copyResidue_spec hc
        obtain ⟨as, hres, hfr, _, _⟩ := n.cell
        refine ⟨noW (n.frame _), ?_⟩
        intro o' ho'
        simp only [allocOk] at ho'
        injection ho' with ho'
        subst ho'
        refine ⟨⟨as, hres⟩, ?_⟩
        intro x hx
        simp only [allocOk, Obj.cells, hres] at hx
        exact Or.inr (hfr x hx).1
    | agro g =>
      simp only [stepOn]
      cases e1 : h.gro? g with
      | none => exact err _
      | some c =>
        simp only
        refine ⟨noW (frame_alloc _ h _), ?_⟩
        intro o' ho'
        injection ho' with ho'
        subst ho'
        refine ⟨trivial, ?_⟩
        intro x hx
        simp only [Obj.cells, Heap.alloc_snd, List.mem_singleton] at hx
        exact Or.inr (by omega)
    | atom t g =>
      simp only [stepOn]
      cases e1 : h.gro? g with
      | none => exact err _
      | some c =>
        simp only
        cases e2 : matchErr (h.alloc (Cell.gro c)).1 t (h.alloc (Cell.gro c)).2 with
        | some e => exact err _
        | none =>
          simp only
          refine ⟨noW (frame_alloc _ h _), ?_⟩
          intro o' ho'
          injection ho' with ho'
          subst ho'
          refine ⟨trivial, ?_⟩
          intro x hx
          simp only [Obj.cells, Heap.alloc_snd, List.mem_cons, List.mem_singleton, List.not_mem_nil,
            or_false] at hx
          rcases hx with rfl | rfl
          · exact Or.inr (Nat.le_refl _)
          · exact Or.inl (by simp [Obj.cells])
  | deepCopy i =>
    cases o with
    | mol m =>
      simp only [stepOn]
      cases e1 : h.mol? m with
      | none => exact err _
      | some p =>
        obtain ⟨t, rs, e⟩ := p
        simp only
        cases e2 : copyTop h t with
        | error e => exact err _
        | ok q =>
          obtain ⟨h1, t'⟩ := q
          simp only
          obtain ⟨f1, _, name, tops, ts, tops', _, _, hm', _, hfr⟩ := copyTop_spec e2
          have := molInit_step (o := .mol m) (t := t') (rs := rs) (f1 Rel.any) (by
            intro name2 tops2 ps hn e3 x hx
            rw [hm'] at hn
            injection hn with hn
            injection hn with _ hn
            subst hn
            exact Or.inr (hfr x hx).1)
          exact ⟨noW this.1, this.2⟩
    | res r => exact err _
    | agro g => exact err _
    | atom t g => exact err _
  | molWith i residues =>
    cases o with
    | mol m =>
      obtain ⟨v, hv⟩ := hval
      obtain ⟨_, _, e1, e0⟩ := molView_gros hv
      simp only [stepOn, e1]
      cases e2 : allocResidues h residues with
      | error e => exact err _
      | ok q =>
        obtain ⟨h1, rs⟩ := q
        simp only
        have n := allocResidues_spec e2
        have := molInit_step (o := .mol m) (t := v.top) (rs := rs) (n.frame Rel.any) (by
          intro name tops ps hn e3 x hx
          rw [(n.frame Rel.any).mtop? e0] at hn
          injection hn with hn
          injection hn with _ hn
          subst hn
          left
          simp only [Obj.cells, hv, List.mem_append]
          exact Or.inr hx)
        exact ⟨noW this.1, this.2⟩
    | res r => exact err _
    | agro g => exact err _
    | atom t g => exact err _
  | getAtom i k =>
    cases o with
    | mol m =>
      simp only [stepOn]
      cases e1 : molView h m with
      | none => exact err _
      | some v =>
        simp only
        cases e2 : molItem v k with
        | error e => exact err _
        | ok tg =>
          obtain ⟨t, g⟩ := tg
          simp only
          cases e3 : matchErr h t g with
          | some e => exact err _
          | none =>
            refine ⟨Frame.refl _ _ _, ?_⟩
            intro o' ho'
            injection ho' with ho'
            subst ho'
            refine ⟨trivial, ?_⟩
            intro x hx
            have hm := molItem_mem e2
            simp only [Obj.cells, List.mem_cons, List.mem_singleton, List.not_mem_nil, or_false] at hx
            left
            simp only [Obj.cells, e1, List.mem_append, (molView_gros e1).1]
            rcases hx with rfl | rfl
            · exact Or.inl hm.2
            · exact Or.inr hm.1
    | res r =>
      simp only [stepOn]
      cases e1 : h.res? r with
      | none => exact err _
      | some gs =>
        simp only
        cases e2 : gs[k]? with
        | none => exact err _
        | some g =>
          refine ⟨Frame.refl _ _ _, ?_⟩
          intro o' ho'
          injection ho' with ho'
          subst ho'
          refine ⟨trivial, ?_⟩
          intro x hx
          simp only [Obj.cells, List.mem_singleton] at hx
          subst hx
          left
          simp only [Obj.cells, e1]
          exact List.mem_of_getElem? e2
    | agro g => exact err _
    | atom t g => exact err _
  | iterAtom i k =>
    cases o with
    | mol m =>
      simp only [stepOn]
      cases e1 : molView h m with
      | none => exact err _
      | some v =>
        simp only
        split
        · exact err _
        · cases e2 : iterCheck h (v.tops.zip v.gros) k with
          | some e => exact err _
          | none =>
            simp only
            cases e3 : (v.tops.zip v.gros)[k]? with
            | none => exact err _
            | some tg =>
              obtain ⟨t, g⟩ := tg
              refine ⟨Frame.refl _ _ _, ?_⟩
              intro o' ho'
              injection ho' with ho'
              subst ho'
              refine ⟨trivial, ?_⟩
              intro x hx
              have hm := List.of_mem_zip (List.mem_of_getElem? e3)
              simp only [Obj.cells, List.mem_cons, List.mem_singleton, List.not_mem_nil, or_false] at hx
              left
              simp only [Obj.cells, e1, List.mem_append]
              rcases hx with rfl | rfl
              · exact Or.inl hm.2
              · exact Or.inr hm.1
    | res r => exact err _
    | agro g => exact err _
    | atom t g => exact err _
  | getResidue i k =>
    cases o with
    | mol m =>
      simp only [stepOn]
      cases e1 : h.mol? m with
      | none => exact err _
      | some p =>
        obtain ⟨t, rs, e⟩ := p
        simp only
        cases e2 : rs[k]? with
        | none => exact err _
        | some r =>
          refine ⟨Frame.refl _ _ _, ?_⟩
          intro o' ho'
          injection ho' with ho'
          subst ho'
          obtain ⟨v, hv⟩ := hval
          obtain ⟨hg, hr, e1', _⟩ := molView_gros hv
          rw [e1] at e1'
          injection e1' with e1'
          injection e1' with _ e1'
          injection e1' with e1' _
          subst e1'
          obtain ⟨l, hl, hpk⟩ := readRess_get hr e2
          refine ⟨⟨l, hl⟩, ?_⟩
          intro x hx
          simp only [Obj.cells, hl] at hx
          left
          simp only [Obj.cells, hv, List.mem_append, hg]
          exact Or.inl (mem_flatten_of_get hpk x hx)
    | res r => exact err _
    | agro g => exact err _
    | atom t g => exact err _

/-- loading a molecule allocates only; the new molecule lives entirely in fresh cells -/
theorem newMol_spec (h : Heap α) (name : String) (tops : List AtomTopC)
    (residues : List (List (AtomGroC α))) :
    Frame Rel.any NoW h (newMol h name tops residues).heap ∧
      RetOKP h (fun _ => False) (newMol h name tops residues) := by
  unfold newMol
  simp only
  have f1 := frame_allocList (Rel.any : Rel α) h (tops.map Cell.top)
  have f2 := frame_alloc (Rel.any : Rel α) (h.allocList (tops.map Cell.top)).1
    (.mtop name (h.allocList (tops.map Cell.top)).2)
  cases e2 : allocResidues ((h.allocList (tops.map Cell.top)).1.alloc
      (.mtop name (h.allocList (tops.map Cell.top)).2)).1 residues with
  | error e => exact ⟨Frame.refl _ _ _, retOK_none⟩
  | ok q =>
    obtain ⟨h3, rs⟩ := q
    simp only
    have n := allocResidues_spec e2
    have f3 := (f1.trans' f2).trans' (n.frame Rel.any)
    refine molInit_stepP f3 ?_
    intro name2 tops2 ps hn e3 x hx
    have hm : ((h.allocList (tops.map Cell.top)).1.alloc
        (.mtop name (h.allocList (tops.map Cell.top)).2)).1.mtop?
          ((h.allocList (tops.map Cell.top)).1.alloc (.mtop name (h.allocList (tops.map Cell.top)).2)).2 =
        some (name, (h.allocList (tops.map Cell.top)).2) := by
      apply Heap.mtop?_eq_some.mpr
      rw [Heap.alloc_snd, Heap.get?_alloc, if_pos rfl]
    rw [(n.frame Rel.any).mtop? hm] at hn
    injection hn with hn
    injection hn with _ hn
    subst hn
    exact Or.inr (allocList_fresh h _ x hx).1

/-! ### the separation invariant -/

/-- `o` is a live object none of whose writable cells is protected -/
def Free (S : Nat → Prop) (h : Heap α) (o : Obj) : Prop := o.Valid h ∧ ∀ a ∈ o.cells h, ¬ S a

theorem Free.frame {S : Nat → Prop} {W : Nat → Prop} {h h' : Heap α} {o : Obj}
    (f : Frame Rel.any W h h') (hf : Free S h o) : Free S h' o := by
  obtain ⟨v, e⟩ := Obj.cells_frame f hf.1
  exact ⟨v, by rw [e]; exact hf.2⟩

theorem step_preserves (S : Nat → Prop) (h : Heap α) (env : List Obj) (op : Op α)
    (hS : ∀ a, S a → a < h.size) (hfree : ∀ o ∈ env, Free S h o) :
    (∀ a, S a → (step h env op).heap.get? a = h.get? a) ∧
    (∀ o ∈ pushRet env (step h env op), Free S (step h env op).heap o) ∧
    h.size ≤ (step h env op).heap.size := by
  have finish : ∀ (r : StepR α) (W P : Nat → Prop), Frame Rel.any W h r.heap → RetOKP h P r →
      (∀ a, W a → ¬ S a) → (∀ a, P a → ¬ S a) →
      (∀ a, S a → r.heap.get? a = h.get? a) ∧ (∀ o ∈ pushRet env r, Free S r.heap o) ∧
        h.size ≤ r.heap.size := by
    intro r W P f ret hW hP
    refine ⟨fun a ha => f.same a (hS a ha) (fun w => hW a w ha), ?_, f.size_le⟩
    intro o ho
    unfold pushRet at ho
    cases e : r.ret with
    | none =>
      simp only [e] at ho
      exact (hfree o ho).frame f
    | some o' =>
      simp only [e, List.mem_append, List.mem_singleton] at ho
      rcases ho with ho | rfl
      · exact (hfree o ho).frame f
      · obtain ⟨v, hc⟩ := ret o e
        refine ⟨v, ?_⟩
        intro a ha hs
        rcases hc a ha with hp | hp
        · exact hP a hp hs
        · have := hS a hs; omega
  have stay : ∀ e : PyErr, (∀ a, S a → (⟨h, none, some e⟩ : StepR α).heap.get? a = h.get? a) ∧
      (∀ o ∈ pushRet env (⟨h, none, some e⟩ : StepR α), Free S (⟨h, none, some e⟩ : StepR α).heap o) ∧
      h.size ≤ (⟨h, none, some e⟩ : StepR α).heap.size :=
    fun e => ⟨fun _ _ => rfl, fun o ho => hfree o ho, Nat.le_refl _⟩
  cases op with
  | newMol name tops residues =>
    have := newMol_spec h name tops residues
    exact finish _ NoW (fun _ => False) this.1 this.2 (fun _ w => w.elim) (fun _ w => w.elim)
  | _ =>
    simp only [step, Op.target]
    split
    · exact stay _
    · rename_i o e
      have ho : o ∈ env := List.mem_of_getElem? e
      have key := fun op' => stepOn_spec h o op' (hfree o ho).1
      exact finish _ _ _ (key _).1 (key _).2 (fun a w => (hfree o ho).2 a w)
        (fun a w => (hfree o ho).2 a w)

/-- SEPARATION INVARIANT.  Let `S` be any set of existing cells and `env` live objects none of
    whose writable cells (AtomGro and AtomTop cells reachable from them) lies in `S`.  Then no
    operation list run on `env` — including everything it creates on the way: copies, deep
    copies, views, residues — changes a cell of `S`, and the final environment is again free
    of `S`. -/
theorem run_preserves (S : Nat → Prop) (ops : List (Op α)) (h : Heap α) (env : List Obj)
    (hS : ∀ a, S a → a < h.size) (hfree : ∀ o ∈ env, Free S h o) :
    (∀ a, S a → (run h env ops).1.get? a = h.get? a) ∧
    (∀ o ∈ (run h env ops).2, Free S (run h env ops).1 o) := by
  induction ops generalizing h env with
  | nil => exact ⟨fun _ _ => rfl, hfree⟩
  | cons op ops ih =>
    simp only [run]
    obtain ⟨h1, h2, h3⟩ := step_preserves S h env op hS hfree
    obtain ⟨i1, i2⟩ := ih (step h env op).heap (pushRet env (step h env op))
      (fun a ha => Nat.lt_of_lt_of_le (hS a ha) h3) h2
    exact ⟨fun a ha => by rw [i1 a ha, h1 a ha], i2⟩

end step

end GMHeap
