import GMProofs.Lemmas.Vec
import GMProofs.Lemmas.MoveWalk
/-
  GMProofs.Lemmas.MoveL — geometry of `move_mol_atom` over ℝ: one pull is exact; the geometric
  invariant of the walk (`GInv`): popped bonds are exact and stay exact, the root keeps its displaced
  position, atoms not yet popped still have their input position, and `defined` says exactly that no
  pull met two coincident points.
-/

namespace MoveAtom
open V3

theorem norm_smul (k : ℝ) (v : V3 ℝ) : V3.norm (V3.smul k v) = |k| * V3.norm v := by
  rw [V3.norm_eq, V3.norm_eq]
  simp only [gm]
  rw [show k * v.x * (k * v.x) + k * v.y * (k * v.y) + k * v.z * (k * v.z)
      = (k * k) * (v.x * v.x + v.y * v.y + v.z * v.z) by ring,
    Real.sqrt_mul (mul_self_nonneg k), Real.sqrt_mul_self_eq_abs]

theorem sub_eq_zero_iff (p q : V3 ℝ) : p - q = V3.zero ↔ p = q := by
  constructor
  · intro e
    have : p.x - q.x = 0 ∧ p.y - q.y = 0 ∧ p.z - q.z = 0 := by simpa [gm] using e
    exact V3.ext' (by linarith [this.1]) (by linarith [this.2.1]) (by linarith [this.2.2])
  · intro e; subst e; simp [gm]

/-- the divisor of a pull is zero exactly when the two points coincide -/
theorem norm_sub_eq_zero_iff (p q : V3 ℝ) : V3.norm (p - q) = 0 ↔ p = q := by
  rw [V3.norm_eq_zero_iff, sub_eq_zero_iff]

theorem pull_vector_aux (pi pj : V3 ℝ) (b m : ℝ) (h : m ≠ 0) :
    pi - (pj + V3.smul (m - b) (V3.divs (pi - pj) m)) = V3.smul (b / m) (pi - pj) := by
  apply V3.ext' <;> simp only [gm] <;> field_simp <;> ring

/-- after a pull the bond vector is the old one rescaled by `b/‖d‖` (same line, same side for
    `b > 0`) -/
theorem pull_vector (pi pj : V3 ℝ) (b : ℝ) (h : V3.norm (pi - pj) ≠ 0) :
    pi - pullPoint pi pj b = V3.smul (b / V3.norm (pi - pj)) (pi - pj) :=
  pull_vector_aux pi pj b _ h

theorem pull_norm (pi pj : V3 ℝ) (b : ℝ) (h : V3.norm (pi - pj) ≠ 0) :
    V3.norm (pi - pullPoint pi pj b) = |b| := by
  rw [pull_vector pi pj b h, norm_smul, abs_div, abs_of_nonneg (V3.norm_nonneg _)]
  field_simp

theorem norm_sub_comm (p q : V3 ℝ) : V3.norm (p - q) = V3.norm (q - p) := by
  rw [V3.norm_eq, V3.norm_eq]
  congr 1
  simp only [gm]
  ring

/-! ### the geometric invariant -/

/-- `pos0` = the array the `while` loop starts from (input with the moved atom displaced),
    `ra` = the displaced position of the moved atom -/
structure GInv (n a : Nat) (bt : BondTable ℝ) (pos0 : List (V3 ℝ)) (ra : V3 ℝ) (s : St ℝ) : Prop where
  w : WInv n a bt s
  root : s.pos[a]? = some ra
  /-- atoms not popped yet are where they were -/
  fresh : ∀ k ∈ children s.queue ++ s.wait, s.pos[k]? = pos0[k]?
  /-- popped bonds are exact -/
  dist : s.defined = true → ∀ t ∈ s.trace, ∃ pi pj, s.pos[Triple.parent t]? = some pi ∧
    s.pos[Triple.child t]? = some pj ∧ V3.norm (pi - pj) = |Triple.len t|
  /-- `defined` ⇔ no pull met coincident points (final parent vs. initial child) -/
  dfn : s.defined = true ↔ ∀ t ∈ s.trace, ∀ pi pj, s.pos[Triple.parent t]? = some pi →
    pos0[Triple.child t]? = some pj → pi ≠ pj

theorem GInv.step {n a : Nat} {bt : BondTable ℝ} {pos0 : List (V3 ℝ)} {ra : V3 ℝ} {s s' : St ℝ}
    (h : GInv n a bt pos0 ra s) (hs : step bt s = .ok s') : GInv n a bt pos0 ra s' := by
  have hw' := h.w.step hs
  cases hq : s.queue with
  | nil => rw [step_nil hq] at hs; cases hs; exact h
  | cons t rest =>
    obtain ⟨i, j, b⟩ := t
    obtain ⟨pi, pj, nb, hi, hj, hb, rfl⟩ := step_cons_ok hq hs
    have hnd := h.w.nodup
    rw [hq] at hnd
    simp only [children_cons, child_mk, List.cons_append] at hnd
    -- j is neither the root nor a popped child nor another queued child nor waiting
    have hja : j ≠ a := by
      intro e; subst e
      exact (List.nodup_cons.mp hnd).1 (by simp)
    have hjt : j ∉ children s.trace := by
      intro e
      have := (List.nodup_cons.mp hnd).2
      rw [List.nodup_append] at this
      exact this.2.2 j e j (by simp) rfl
    have hjr : j ∉ children rest ++ s.wait := by
      have := (List.nodup_cons.mp hnd).2
      rw [List.nodup_append] at this
      exact (List.nodup_cons.mp this.2.1).1
    have hfin : ∀ x, (x = a ∨ x ∈ children s.trace) → x ≠ j := by
      intro x hx e; subst e
      rcases hx with e | e
      · exact hja e
      · exact hjt e
    have hij : i ≠ j := hfin i (h.w.qpar (i, j, b) (by rw [hq]; simp))
    have hjlt : j < s.pos.length := (List.getElem?_eq_some_iff.mp hj).1
    have hkeep : ∀ x, x ≠ j → (s.pos.set j (pullPoint pi pj b))[x]? = s.pos[x]? :=
      fun x hx => List.getElem?_set_ne (Ne.symm hx)
    have hnew : (s.pos.set j (pullPoint pi pj b))[j]? = some (pullPoint pi pj b) :=
      List.getElem?_set_self hjlt
    have hpj0 : pos0[j]? = some pj := by
      rw [← h.fresh j (by rw [hq]; simp), hj]
    obtain ⟨new, h2, hperm, _, _⟩ := pushNbrs_spec j nb s.wait rest h.w.wait_nodup
    refine ⟨hw', ?_, ?_, ?_, ?_⟩
    · show (s.pos.set j _)[a]? = some ra
      rw [hkeep a (Ne.symm hja)]; exact h.root
    · intro k hk
      show (s.pos.set j _)[k]? = pos0[k]?
      have hk' : k ∈ children (pushNbrs j nb s.wait rest).2 ++ (pushNbrs j nb s.wait rest).1 := hk
      rw [h2, children_append, List.append_assoc] at hk'
      have hk2 : k ∈ children rest ++ s.wait := by
        rcases List.mem_append.mp hk' with e | e
        · exact List.mem_append_right _ (hperm.subset (List.mem_append_left _ e))
        · rcases List.mem_append.mp e with e | e
          · exact List.mem_append_left _ e
          · exact List.mem_append_right _ (hperm.subset (List.mem_append_right _ e))
      have hkj : k ≠ j := fun e => hjr (e ▸ hk2)
      rw [hkeep k hkj]
      exact h.fresh k (by rw [hq]; simp only [children_cons, List.cons_append];
                          exact List.mem_cons_of_mem _ hk2)
    · intro hd t ht
      have hd' : (s.defined && !Scalar.isZero (V3.norm (pi - pj))) = true := hd
      rw [Bool.and_eq_true] at hd'
      rcases List.mem_cons.mp ht with e | e
      · subst e
        have hm : V3.norm (pi - pj) ≠ 0 := by
          have := hd'.2
          simpa [RS.isZero_def] using this
        refine ⟨pi, pullPoint pi pj b, ?_, ?_, pull_norm pi pj b hm⟩
        · show (s.pos.set j _)[i]? = some pi
          rw [hkeep i hij]; exact hi
        · exact hnew
      · obtain ⟨qi, qj, h1, h2', h3⟩ := h.dist hd'.1 t e
        refine ⟨qi, qj, ?_, ?_, h3⟩
        · show (s.pos.set j _)[Triple.parent t]? = some qi
          rw [hkeep _ (hfin _ (h.w.good.parent_mem t e))]; exact h1
        · show (s.pos.set j _)[Triple.child t]? = some qj
          rw [hkeep _ (hfin _ (Or.inr (mem_children e)))]; exact h2'
    · show (s.defined && !Scalar.isZero (V3.norm (pi - pj))) = true ↔ _
      rw [Bool.and_eq_true, h.dfn]
      have hz : (!Scalar.isZero (V3.norm (pi - pj))) = true ↔ pi ≠ pj := by
        rw [Ne, ← norm_sub_eq_zero_iff]; simp [RS.isZero_def]
      rw [hz]
      constructor
      · rintro ⟨hold, hne⟩ t ht qi qj h1 h2'
        rcases List.mem_cons.mp ht with e | e
        · subst e
          have h1' : (s.pos.set j (pullPoint pi pj b))[i]? = some qi := h1
          rw [hkeep i hij, hi] at h1'
          have h2'' : pos0[j]? = some qj := h2'
          rw [hpj0] at h2''
          cases h1'; cases h2''
          exact hne
        · have h1' : (s.pos.set j (pullPoint pi pj b))[Triple.parent t]? = some qi := h1
          rw [hkeep _ (hfin _ (h.w.good.parent_mem t e))] at h1'
          exact hold t e qi qj h1' h2'
      · intro hall
        refine ⟨?_, ?_⟩
        · intro t ht qi qj h1 h2'
          refine hall t (List.mem_cons_of_mem _ ht) qi qj ?_ h2'
          show (s.pos.set j _)[Triple.parent t]? = some qi
          rw [hkeep _ (hfin _ (h.w.good.parent_mem t ht))]; exact h1
        · refine hall (i, j, b) (by simp) pi pj ?_ hpj0
          show (s.pos.set j _)[i]? = some pi
          rw [hkeep i hij]; exact hi

/-- the final state of a successful call satisfies the geometric invariant -/
theorem move_ginv {pos : List (V3 ℝ)} {bt : BondTable ℝ} {a : Nat} {displ : V3 ℝ} {s : St ℝ}
    (h : moveMolAtomFull pos bt a displ = .ok s) :
    ∃ pa, pos[a]? = some pa ∧
      GInv pos.length a bt (pos.set a (pa + displ)) (pa + displ) s ∧ s.queue = [] := by
  obtain ⟨pa, nb, hpa, ha, hb, hrun⟩ := move_ok_form h
  refine ⟨pa, hpa, ?_⟩
  refine run_ind (P := GInv pos.length a bt (pos.set a (pa + displ)) (pa + displ))
    (fun s s' hp hs => hp.step hs) _ _ _ hrun ?_
  refine ⟨init_winv ha hb, ?_, ?_, ?_, ?_⟩
  · exact List.getElem?_set_self ha
  · intro k _; rfl
  · intro _ t ht; simp at ht
  · simp

end MoveAtom

/-! ### `find_atom_random_displ` -/

namespace MoveAtom
open V3

/-- `direction/‖direction‖ * x` is orthogonal to whatever `direction` is orthogonal to — for every
    value of the divisor (no `Defined` hypothesis needed) -/
theorem perp_of_dir (dir u : V3 ℝ) (m x : ℝ) (h : V3.dot dir u = 0) :
    V3.dot (V3.muls (V3.divs dir m) x) u = 0 := by
  simp only [gm] at h ⊢
  have : dir.x / m * x * u.x + dir.y / m * x * u.y + dir.z / m * x * u.z
      = (dir.x * u.x + dir.y * u.y + dir.z * u.z) * (x / m) := by ring
  rw [this, h, zero_mul]

theorem cross_perp_right (r u : V3 ℝ) : V3.dot (V3.cross r u) u = 0 := by
  simp only [gm]; ring

theorem cross_perp_left (r u : V3 ℝ) : V3.dot (V3.cross r u) r = 0 := by
  simp only [gm]; ring

theorem muls_perp (d u : V3 ℝ) (k : ℝ) (h : V3.dot d u = 0) : V3.dot (V3.muls d k) u = 0 := by
  simp only [gm] at h ⊢
  have : d.x * k * u.x + d.y * k * u.y + d.z * k * u.z = (d.x * u.x + d.y * u.y + d.z * u.z) * k := by
    ring
  rw [this, h, zero_mul]

/-- what `finishDispl` returns when it returns -/
theorem finishDispl_ok {dir : V3 ℝ} {br : Nat} {sigma : ℝ} {tape : List (Draw ℝ)} {o : DisplOut ℝ}
    (h : finishDispl dir br sigma tape = .ok o) :
    ∃ x t, tape = .normal x :: t ∧ ¬ sigma < 0 ∧
      o = ⟨V3.muls (V3.divs dir (V3.norm dir)) x, br, sigma, !Scalar.isZero (V3.norm dir), t⟩ := by
  unfold finishDispl at h
  split_ifs at h with hs
  have hs' : ¬ sigma < 0 := by
    intro hlt
    apply hs
    simp [signNeg, RS.lt_def, hlt]
  cases tape with
  | nil => simp [drawNormal] at h
  | cons d t =>
    cases d <;> simp [drawNormal] at h
    exact ⟨_, t, rfl, hs', h.symm⟩

/-- over ℝ the `scale` check of `np.random.normal` is `sigma < 0` -/
theorem signNeg_real (x : ℝ) : signNeg x = decide (x < 0) := by
  unfold signNeg
  simp only [RS.lt_def, RS.zero_def, RS.isZero_def, RS.one_def, RS.div_def]
  by_cases h0 : x = 0
  · subst h0; simp
  · simp [h0]

theorem drawRand3_ok {tape : List (Draw ℝ)} {r : V3 ℝ} {t : List (Draw ℝ)}
    (h : drawRand3 tape = .ok (r, t)) : tape = .rand3 r :: t := by
  cases tape with
  | nil => simp [drawRand3] at h
  | cons d t' => cases d <;> simp [drawRand3] at h; rw [h.1, h.2]

theorem drawChoice_ok {tape : List (Draw ℝ)} {s : Int} {t : List (Draw ℝ)}
    (h : drawChoice tape = .ok (s, t)) : tape = .choice s :: t := by
  cases tape with
  | nil => simp [drawChoice] at h
  | cons d t' => cases d <;> simp [drawChoice] at h; rw [h.1, h.2]

theorem getPos_ok {pos : List (V3 ℝ)} {i : Nat} {p : V3 ℝ} (h : getPos pos i = .ok p) :
    pos[i]? = some p := by
  unfold getPos at h
  cases hp : pos[i]? with
  | none => rw [hp] at h; simp at h
  | some q => rw [hp] at h; simp at h; rw [h]

/-- one listed neighbour -/
theorem find_form_1 {pos : List (V3 ℝ)} {bt : BondTable ℝ} {a : Nat} {ss : ℝ} {tape : List (Draw ℝ)}
    {o : DisplOut ℝ} {k0 : Nat} {b0 : ℝ} (hb : bt[a]? = some [(k0, b0)])
    (h : findAtomRandomDispl pos bt a ss tape = .ok o) :
    ∃ r t p0 pa, tape = .rand3 r :: t ∧ pos[k0]? = some p0 ∧ pos[a]? = some pa ∧
      finishDispl (V3.cross r (p0 - pa)) 1 (b0 * ss) t = .ok o := by
  unfold findAtomRandomDispl at h
  rw [hb] at h
  simp only [bind, Except.bind] at h
  cases h1 : drawRand3 tape with
  | error e => rw [h1] at h; simp at h
  | ok rt =>
    obtain ⟨r, t⟩ := rt
    rw [h1] at h; simp only at h
    cases h2 : getPos pos k0 with
    | error e => rw [h2] at h; simp at h
    | ok p0 =>
      rw [h2] at h; simp only at h
      cases h3 : getPos pos a with
      | error e => rw [h3] at h; simp at h
      | ok pa =>
        rw [h3] at h; simp only at h
        exact ⟨r, t, p0, pa, drawRand3_ok h1, getPos_ok h2, getPos_ok h3, h⟩

/-- two listed neighbours -/
theorem find_form_2 {pos : List (V3 ℝ)} {bt : BondTable ℝ} {a : Nat} {ss : ℝ} {tape : List (Draw ℝ)}
    {o : DisplOut ℝ} {k0 k1 : Nat} {b0 b1 : ℝ} (hb : bt[a]? = some [(k0, b0), (k1, b1)])
    (h : findAtomRandomDispl pos bt a ss tape = .ok o) :
    ∃ r t p0 p1, tape = .rand3 r :: t ∧ pos[k0]? = some p0 ∧ pos[k1]? = some p1 ∧
      finishDispl (V3.cross r (p0 - p1)) 2 (b0 * ss) t = .ok o := by
  unfold findAtomRandomDispl at h
  rw [hb] at h
  simp only [bind, Except.bind] at h
  cases h1 : drawRand3 tape with
  | error e => rw [h1] at h; simp at h
  | ok rt =>
    obtain ⟨r, t⟩ := rt
    rw [h1] at h; simp only at h
    cases h2 : getPos pos k0 with
    | error e => rw [h2] at h; simp at h
    | ok p0 =>
      rw [h2] at h; simp only at h
      cases h3 : getPos pos k1 with
      | error e => rw [h3] at h; simp at h
      | ok p1 =>
        rw [h3] at h; simp only at h
        exact ⟨r, t, p0, p1, drawRand3_ok h1, getPos_ok h2, getPos_ok h3, h⟩

/-- three or more listed neighbours -/
theorem find_form_3 {pos : List (V3 ℝ)} {bt : BondTable ℝ} {a : Nat} {ss : ℝ} {tape : List (Draw ℝ)}
    {o : DisplOut ℝ} {k0 k1 k2 : Nat} {b0 b1 b2 : ℝ} {more : List (Nat × ℝ)}
    (hb : bt[a]? = some ((k0, b0) :: (k1, b1) :: (k2, b2) :: more))
    (h : findAtomRandomDispl pos bt a ss tape = .ok o) :
    ∃ s t p0 p1 p2, tape = .choice s :: t ∧ pos[k0]? = some p0 ∧ pos[k1]? = some p1 ∧
      pos[k2]? = some p2 ∧
      finishDispl (V3.muls (V3.cross (p0 - p2) (p0 - p1)) ((s : ℤ) : ℝ)) 3 (b0 * ss) t = .ok o := by
  unfold findAtomRandomDispl at h
  rw [hb] at h
  simp only [bind, Except.bind] at h
  cases h2 : getPos pos k0 with
  | error e => rw [h2] at h; simp at h
  | ok p0 =>
    rw [h2] at h; simp only at h
    cases h3 : getPos pos k2 with
    | error e => rw [h3] at h; simp at h
    | ok p2 =>
      rw [h3] at h; simp only at h
      cases h4 : getPos pos k1 with
      | error e => rw [h4] at h; simp at h
      | ok p1 =>
        rw [h4] at h; simp only at h
        cases h1 : drawChoice tape with
        | error e => rw [h1] at h; simp at h
        | ok st =>
          obtain ⟨s, t⟩ := st
          rw [h1] at h; simp only [RS.ofInt_def] at h
          exact ⟨s, t, p0, p1, p2, drawChoice_ok h1, getPos_ok h2, getPos_ok h4, getPos_ok h3, h⟩

end MoveAtom
