import GMModel.Cli
/-
  GMProofs.Lemmas.CliL — helper lemmas about `Cli.sortMolecules` (the three loops as closed
  forms), path helpers, and permutations (core Lean only).
-/

namespace Cli

open Mgr (PyErr)

/-! ### `find?` under permutation -/

theorem find?_perm_unique {α : Type} {l l' : List α} (p : α → Bool) (h : l.Perm l')
    (huniq : ∀ x ∈ l, ∀ y ∈ l, p x = true → p y = true → x = y) : l.find? p = l'.find? p := by
  cases hx : l.find? p with
  | none =>
    symm
    rw [List.find?_eq_none] at hx ⊢
    exact fun y hy => hx y (h.mem_iff.mpr hy)
  | some x =>
    have hxm : x ∈ l := List.mem_of_find?_eq_some hx
    have hxp : p x = true := List.find?_some hx
    cases hy : l'.find? p with
    | none =>
      rw [List.find?_eq_none] at hy
      exact absurd hxp (hy x (h.mem_iff.mp hxm))
    | some y =>
      have hym : y ∈ l' := List.mem_of_find?_eq_some hy
      have hyp : p y = true := List.find?_some hy
      rw [huniq x hxm y (h.mem_iff.mpr hym) hxp hyp]

theorem find?_congr' {α : Type} {l : List α} {p q : α → Bool} (h : ∀ a ∈ l, p a = q a) :
    l.find? p = l.find? q := by
  induction l with
  | nil => rfl
  | cons x xs ih =>
    have hx := h x (List.mem_cons_self ..)
    have := ih (fun a ha => h a (List.mem_cons_of_mem _ ha))
    simp only [List.find?_cons, hx, this]

theorem mem_of_lookup {β : Type} {d : List (String × β)} {n : String} {i : β}
    (h : d.lookup n = some i) : (n, i) ∈ d := by
  induction d with
  | nil => simp [List.lookup] at h
  | cons e rest ih =>
    obtain ⟨k, v⟩ := e
    by_cases hk : n = k
    · subst hk
      simp [List.lookup] at h
      simp [h]
    · have : (n == k) = false := by simpa using hk
      simp only [List.lookup, this] at h
      exact List.mem_cons_of_mem _ (ih h)

/-! ### path helpers -/

theorem splitLast_none_of_not_mem (c : Char) (s : List Char) (h : c ∉ s) : splitLast c s = none := by
  induction s with
  | nil => rfl
  | cons x xs ih =>
    have hx : (x == c) = false := by
      simp only [beq_eq_false_iff_ne, ne_eq]
      intro e; exact h (by simp [e])
    have := ih (fun hm => h (List.mem_cons_of_mem _ hm))
    simp [splitLast, this, hx]

theorem splitLast_append (c : Char) (h t : List Char) (ht : c ∉ t) :
    splitLast c (h ++ c :: t) = some (h, t) := by
  induction h with
  | nil => simp [splitLast, splitLast_none_of_not_mem c t ht]
  | cons x xs ih => simp [splitLast, ih]

theorem rstrip_of_last_ne (c : Char) (s : List Char) (hne : s ≠ []) (h : s.getLast? ≠ some c) :
    rstrip c s = s := by
  induction s with
  | nil => exact absurd rfl hne
  | cons x xs ih =>
    cases xs with
    | nil =>
      have hx : (x == c) = false := by
        simp only [beq_eq_false_iff_ne, ne_eq]
        intro e; exact h (by simp [e])
      simp [rstrip, hx]
    | cons y ys =>
      have h' : (y :: ys).getLast? ≠ some c := by
        simpa [List.getLast?_cons_cons] using h
      have := ih (by simp) h'
      simp only [rstrip] at this ⊢
      rw [this]

theorem rstrip_append_sep (c : Char) (s : List Char) (hne : s ≠ []) (h : s.getLast? ≠ some c) :
    rstrip c (s ++ [c]) = s := by
  induction s with
  | nil => exact absurd rfl hne
  | cons x xs ih =>
    cases xs with
    | nil =>
      have hx : (x == c) = false := by
        simp only [beq_eq_false_iff_ne, ne_eq]
        intro e; exact h (by simp [e])
      simp [rstrip, hx]
    | cons y ys =>
      have h' : (y :: ys).getLast? ≠ some c := by
        simpa [List.getLast?_cons_cons] using h
      have := ih (by simp) h'
      simp only [List.cons_append, rstrip] at this ⊢
      rw [this]

/-! ### `parseAll` -/

/-- the candidate is the topology of a molecule (`MoleculeTop(f)` does not raise) -/
def parses (env : Env) (f : String) : Bool :=
  match env.parseTop f with
  | .ok _ => true
  | .error _ => false

/-- the candidates that survive the (repaired) construction of `topology_molecues` -/
def parsed (env : Env) (T : List String) : List String := T.filter (parses env)

/-- every candidate either parses (with molecule name `nm f`) or raises `OSError`: the repaired code
    keeps exactly the former, in order -/
theorem parseAll_repaired (env : Env) (nm : String → String) (T : List String)
    (h : ∀ f ∈ T, env.parseTop f = .ok (nm f) ∨ env.parseTop f = .error .IOError) :
    parseAll env true T = .ok ((parsed env T).map (fun f => (f, nm f))) := by
  induction T with
  | nil => rfl
  | cons f fs ih =>
    have := ih (fun g hg => h g (List.mem_cons_of_mem _ hg))
    rcases h f (List.mem_cons_self ..) with hf | hf
    · simp [parseAll, hf, this, parsed, parses]
    · simp [parseAll, hf, this, parsed, parses]

/-- if the only way a candidate fails to parse is `OSError`, the repaired construction never raises -/
theorem parseAll_total (env : Env) (T : List String)
    (h : ∀ f ∈ T, ∀ e, env.parseTop f = .error e → e = .IOError) :
    ∃ tm, parseAll env true T = .ok tm := by
  induction T with
  | nil => exact ⟨[], rfl⟩
  | cons f fs ih =>
    obtain ⟨tm, htm⟩ := ih (fun g hg => h g (List.mem_cons_of_mem _ hg))
    cases hf : env.parseTop f with
    | ok n => exact ⟨(f, n) :: tm, by simp [parseAll, hf, htm]⟩
    | error e =>
      have := h f (List.mem_cons_self ..) e hf
      subst this
      exact ⟨tm, by simp [parseAll, hf, htm]⟩

theorem mem_parsed {env : Env} {T : List String} {f : String} (h : f ∈ parsed env T) : f ∈ T :=
  (List.mem_filter.mp h).1

/-! ### first loop -/

/-- whether a candidate loads does not depend on which OTHER candidates were loaded before it -/
def Stable (env : Env) (base : List String) (files : List String) : Prop :=
  ∀ added f, f ∈ files → f ∉ added →
    env.loadsAfter (base ++ added) f = env.loadsAfter base f

def usedOf (env : Env) (base : List String) (tm : List (String × String)) : List String :=
  (tm.filter (fun p => env.loadsAfter base p.1)).map (·.1)

def dict1 (env : Env) (base : List String) (tm : List (String × String)) : Dict :=
  (tm.filter (fun p => env.loadsAfter base p.1)).map (fun p => (p.2, ⟨p.1, none, none⟩))

theorem dictSet_new (d : Dict) (k : String) (v : Info) (h : ∀ e ∈ d, e.1 ≠ k) :
    dictSet d k v = d ++ [(k, v)] := by
  have : d.any (fun p => p.1 == k) = false := by
    rw [List.any_eq_false]
    intro e he
    simpa using h e he
  simp [dictSet, this]

theorem loop1_spec_aux (env : Env) (base : List String) (rest : List (String × String)) :
    ∀ pre : List (String × String),
      Stable env base ((pre ++ rest).map (·.1)) → ((pre ++ rest).map (·.1)).Nodup →
      (∀ p ∈ pre ++ rest, ∀ q ∈ pre ++ rest, env.loadsAfter base p.1 = true →
          env.loadsAfter base q.1 = true → p.2 = q.2 → p = q) →
      loop1 env base rest (usedOf env base pre) (dict1 env base pre)
        = (usedOf env base (pre ++ rest), dict1 env base (pre ++ rest)) := by
  induction rest with
  | nil => intro pre _ _ _; simp [loop1]
  | cons x rest ih =>
    intro pre hst hnd hnames
    obtain ⟨f, n⟩ := x
    have hassoc : pre ++ (f, n) :: rest = (pre ++ [(f, n)]) ++ rest := by simp
    have hfmem : f ∈ (pre ++ (f, n) :: rest).map (·.1) := by simp
    -- f is not among the files already used (files are pairwise distinct)
    have hfpre : f ∉ pre.map (·.1) := by
      intro hin
      rw [List.map_append, List.map_cons] at hnd
      have := (List.nodup_append.mp hnd).2.2 f hin f (List.mem_cons_self ..)
      exact this rfl
    have hfused : f ∉ usedOf env base pre := by
      intro hin
      apply hfpre
      simp only [usedOf, List.mem_map, List.mem_filter] at hin
      obtain ⟨p, ⟨hp, _⟩, rfl⟩ := hin
      exact List.mem_map_of_mem hp
    have hload : env.loadsAfter (base ++ usedOf env base pre) f = env.loadsAfter base f :=
      hst _ f hfmem hfused
    have ih' := ih (pre ++ [(f, n)]) (by rw [← hassoc]; exact hst) (by rw [← hassoc]; exact hnd)
      (by rw [← hassoc]; exact hnames)
    rw [← hassoc] at ih'
    cases hL : env.loadsAfter base f with
    | false =>
      have hu : usedOf env base (pre ++ [(f, n)]) = usedOf env base pre := by
        simp [usedOf, List.filter_append, hL]
      have hd : dict1 env base (pre ++ [(f, n)]) = dict1 env base pre := by
        simp [dict1, List.filter_append, hL]
      rw [hu, hd] at ih'
      simp only [loop1, hload, hL, Bool.false_eq_true, if_false]
      exact ih'
    | true =>
      have hu : usedOf env base (pre ++ [(f, n)]) = usedOf env base pre ++ [f] := by
        simp [usedOf, List.filter_append, hL]
      have hnew : ∀ e ∈ dict1 env base pre, e.1 ≠ n := by
        intro e he hen
        simp only [dict1, List.mem_map, List.mem_filter] at he
        obtain ⟨p, ⟨hp, hpl⟩, rfl⟩ := he
        have hpq := hnames p (by simp [hp]) (f, n) (by simp) hpl hL hen
        apply hfpre
        have hin : (f, n) ∈ pre := hpq ▸ hp
        exact List.mem_map_of_mem (f := (·.1)) hin
      have hd : dict1 env base (pre ++ [(f, n)]) = dict1 env base pre ++ [(n, ⟨f, none, none⟩)] := by
        simp [dict1, List.filter_append, hL]
      rw [hu, hd] at ih'
      simp only [loop1, hload, hL, if_true, dictSet_new _ _ _ hnew]
      exact ih'

theorem loop1_spec (env : Env) (base : List String) (tm : List (String × String))
    (hst : Stable env base (tm.map (·.1))) (hnd : (tm.map (·.1)).Nodup)
    (hnames : ∀ p ∈ tm, ∀ q ∈ tm, env.loadsAfter base p.1 = true →
        env.loadsAfter base q.1 = true → p.2 = q.2 → p = q) :
    loop1 env base tm [] [] = (usedOf env base tm, dict1 env base tm) := by
  have := loop1_spec_aux env base tm [] (by simpa using hst) (by simpa using hnd)
    (by simpa using hnames)
  simpa [usedOf, dict1] using this

/-! ### second loop -/

/-- the end topology the second loop gives to name `n`: the first unused candidate carrying it -/
def aaFor (used : List String) (tm : List (String × String)) (n : String) : Option String :=
  (tm.find? (fun p => !used.contains p.1 && p.2 == n)).map (·.1)

def fillAA (used : List String) (tm : List (String × String)) (e : String × Info) : String × Info :=
  if e.2.topAA.isNone then (e.1, { e.2 with topAA := aaFor used tm e.1 }) else e

theorem loop2_spec (used : List String) (tm : List (String × String)) :
    ∀ d : Dict, loop2 used tm d = d.map (fillAA used tm) := by
  induction tm with
  | nil =>
    intro d
    have : ∀ e : String × Info, fillAA used [] e = e := by
      intro ⟨k, i⟩
      obtain ⟨cg, aa, co⟩ := i
      cases aa <;> simp [fillAA, aaFor]
    have hid : fillAA used [] = id := funext this
    simp [loop2, hid]
  | cons x rest ih =>
    intro d
    obtain ⟨f, n⟩ := x
    by_cases hc : (!used.contains f && d.any (fun p => p.1 == n)) = true
    · simp only [loop2, hc, if_true, ih, List.map_map]
      apply List.map_congr_left
      intro e _
      obtain ⟨k, i⟩ := e
      obtain ⟨cg, aa, co⟩ := i
      have hu : f ∉ used := by
        simp only [Bool.and_eq_true] at hc
        simpa using hc.1
      cases aa with
      | some a => simp [fillAA, setAA]
      | none =>
        by_cases hk : k = n
        · subst hk
          simp [fillAA, setAA, aaFor, hu]
        · have h1 : (k == n) = false := by simpa using hk
          have h2 : (n == k) = false := by simpa using fun e : n = k => hk e.symm
          simp [fillAA, setAA, aaFor, h1, h2]
    · have hc' : (!used.contains f && d.any (fun p => p.1 == n)) = false :=
        Bool.eq_false_iff.mpr hc
      simp only [loop2, hc', Bool.false_eq_true, if_false, ih]
      apply List.map_congr_left
      intro e he
      obtain ⟨k, i⟩ := e
      obtain ⟨cg, aa, co⟩ := i
      cases aa with
      | some a => simp [fillAA]
      | none =>
        have hhead : (!decide (f ∈ used) && n == k) = false := by
          by_cases hfu : f ∈ used
          · simp [hfu]
          · have hcont : used.contains f = false := by simpa using hfu
            have hany : d.any (fun p => p.1 == n) = false := by
              cases h : d.any (fun p => p.1 == n) with
              | false => rfl
              | true => rw [hcont, h] at hc'; exact absurd hc' (by decide)
            rw [List.any_eq_false] at hany
            have := hany _ he
            have hkn : k ≠ n := by simpa using this
            have : (n == k) = false := by simpa using fun e : n = k => hkn e.symm
            simp [this]
        simp [fillAA, aaFor, hhead]

/-! ### third loop (repaired) -/

def coFor (env : Env) (cs : List String) (a : String) : Option String :=
  cs.find? (fun c => env.fromFiles c a)

def stepC (env : Env) (c : String) (e : String × Info) : String × Info :=
  if e.2.coorAA.isNone then
    match e.2.topAA with
    | none => e
    | some a => (e.1, if env.fromFiles c a then { e.2 with coorAA := some c } else e.2)
  else e

def fillCo (env : Env) (cs : List String) (e : String × Info) : String × Info :=
  if e.2.coorAA.isNone then
    match e.2.topAA with
    | none => e
    | some a => (e.1, { e.2 with coorAA := coFor env cs a })
  else e

theorem tryCoord_repaired (env : Env) (c : String) (d : Dict) :
    tryCoord env true c d = .ok (d.map (stepC env c)) := by
  induction d with
  | nil => rfl
  | cons e rest ih =>
    obtain ⟨k, i⟩ := e
    obtain ⟨cg, aa, co⟩ := i
    cases co <;> cases aa <;> simp [tryCoord, ih, stepC, Except.map]

theorem loop3_spec (env : Env) (cs : List String) :
    ∀ d : Dict, loop3 env true cs d = .ok (d.map (fillCo env cs)) := by
  induction cs with
  | nil =>
    intro d
    have : ∀ e : String × Info, fillCo env [] e = e := by
      intro ⟨k, i⟩
      obtain ⟨cg, aa, co⟩ := i
      cases co <;> cases aa <;> simp [fillCo, coFor]
    have hid : fillCo env [] = id := funext this
    simp [loop3, hid]
  | cons c rest ih =>
    intro d
    simp only [loop3, tryCoord_repaired, ih, List.map_map]
    congr 1
    apply List.map_congr_left
    intro e _
    obtain ⟨k, i⟩ := e
    obtain ⟨cg, aa, co⟩ := i
    cases co with
    | some x => simp [fillCo, stepC]
    | none =>
      cases aa with
      | none => simp [fillCo, stepC]
      | some a =>
        cases hff : env.fromFiles c a <;> simp [fillCo, stepC, coFor, hff]

end Cli
