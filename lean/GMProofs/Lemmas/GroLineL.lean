import GMModel.Gro
import GMProofs.Lemmas.PyStrL
/-
  One atom line: what `parse_atomlist` writes, `parse_atomline` / `determine_format` read back.
  (core Lean only)
-/
open PyStr PyStrL Gro

namespace GroL

/-! ### well-formed records -/

/-- a residue / atom name: 1–5 non-blank characters -/
def NameOk (s : List Nat) : Prop := s ≠ [] ∧ s.length ≤ 5 ∧ ∀ c ∈ s, isSpace c = false

/-- velocity triple fits the field width with `d` decimals -/
def VelOk (w d : Nat) (vel : Bool) : Option (Dy × Dy × Dy) → Prop
  | none => vel = false
  | some (a, b, c) => vel = true ∧ fitsFixed w d a = true ∧ fitsFixed w d b = true ∧ fitsFixed w d c = true

/-- the property's precondition on a record: names of 1–5 non-blank characters, values that fit the
    field width (positions with `d`, velocities with `d+1` decimals), velocities present iff `vel` -/
structure RecOk (w d : Nat) (vel : Bool) (r : Rec) : Prop where
  resname : NameOk r.resname
  name : NameOk r.name
  x : fitsFixed w d r.x = true
  y : fitsFixed w d r.y = true
  z : fitsFixed w d r.z = true
  vel : VelOk w (d + 1) vel r.vel

/-- the three velocity fields -/
def velText (w d : Nat) : Option (Dy × Dy × Dy) → List Nat
  | none => []
  | some (a, b, c) => fmtFixed w (d + 1) a ++ (fmtFixed w (d + 1) b ++ fmtFixed w (d + 1) c)

/-- the text `parse_atomlist` produces for a record with well-formed names -/
def lineOf (w d : Nat) (r : Rec) : List Nat :=
  fmtD 5 (wrap5 r.resnum) ++ (padRight 5 r.resname ++ (padLeft 5 r.name ++ (fmtD 5 (wrap5 r.atomnum) ++
    (fmtFixed w d r.x ++ (fmtFixed w d r.y ++ (fmtFixed w d r.z ++ velText w d r.vel))))))

def roundVel (d : Nat) : Option (Dy × Dy × Dy) → Option (PyNum × PyNum × PyNum)
  | none => none
  | some (a, b, c) => some (roundDec (d + 1) a, roundDec (d + 1) b, roundDec (d + 1) c)

/-- what reading a written record returns: numbers wrapped, names unchanged, values as their exact
    written decimals -/
def roundRec (d : Nat) (r : Rec) : RRec :=
  ⟨wrap5 r.resnum, r.resname, r.name, wrap5 r.atomnum, roundDec d r.x, roundDec d r.y, roundDec d r.z,
    roundVel d r.vel⟩

theorem validateString_ok {s : List Nat} (h : NameOk s) : validateString s = s := by
  unfold validateString
  have := h.2.1
  split
  · omega
  · rfl

/-- the formatting part on a record with well-formed names (no hypothesis on the values) -/
theorem atomText_names {w d : Nat} {r : Rec} (h1 : NameOk r.resname) (h2 : NameOk r.name) :
    atomText (w, d) r = lineOf w d r := by
  unfold atomText lineOf
  simp only [validateString_ok h1, validateString_ok h2]
  cases hrv : r.vel with
  | none => simp [velText, List.append_assoc]
  | some t => obtain ⟨a, b, c⟩ := t; simp [velText, List.append_assoc]

theorem parseAtomlist_ok (w d : Nat) (vel : Bool) (r : Rec) (h : RecOk w d vel r) :
    parseAtomlist (w, d) (some vel) r = .ok (lineOf w d r) := by
  have hv : r.vel.isSome = vel := by
    have := h.vel
    cases hrv : r.vel with
    | none => rw [hrv] at this; simp [VelOk] at this; simp [this]
    | some t => obtain ⟨a, b, c⟩ := t; rw [hrv] at this; simp [VelOk] at this; simp [this.1]
  unfold parseAtomlist
  simp only [hv, ne_eq, not_true_eq_false, if_false, atomText_names h.resname h.name]

/-! ### widths -/

theorem wrap5_range (n : Int) : 0 ≤ wrap5 n ∧ wrap5 n < 100000 := by
  unfold wrap5; omega

theorem intBody_nonneg (n : Int) (h : 0 ≤ n) : intBody n = natDigits n.toNat := by
  unfold intBody
  have : ¬ n < 0 := by omega
  simp only [this, if_false, List.nil_append]
  congr 1; omega

/-- `wrap_width` core: the wrapped number always occupies exactly five columns -/
theorem fmtD5_wrap_length (n : Int) : (fmtD 5 (wrap5 n)).length = 5 := by
  obtain ⟨h0, h1⟩ := wrap5_range n
  unfold fmtD
  rw [padLeft_length, intBody_nonneg _ h0]
  have : (natDigits (wrap5 n).toNat).length ≤ 5 :=
    natDigits_length_le _ 5 (by decide) (by omega)
  omega

theorem padRight_name_length {s : List Nat} (h : NameOk s) : (padRight 5 s).length = 5 := by
  rw [padRight_length]; have := h.2.1; omega

theorem padLeft_name_length {s : List Nat} (h : NameOk s) : (padLeft 5 s).length = 5 := by
  rw [padLeft_length]; have := h.2.1; omega

/-- `fmt_fixed_width` core: a value that fits is written with exactly `w` characters -/
theorem fmtFixed_length {w d : Nat} {x : Dy} (h : fitsFixed w d x = true) : (fmtFixed w d x).length = w := by
  unfold fmtFixed
  rw [padLeft_length]
  simp [fitsFixed] at h
  omega

theorem velText_length {w d : Nat} {vel : Bool} {v : Option (Dy × Dy × Dy)} (h : VelOk w (d + 1) vel v) :
    (velText w d v).length = if vel then 3 * w else 0 := by
  cases v with
  | none => simp [VelOk] at h; simp [velText, h]
  | some t =>
    obtain ⟨a, b, c⟩ := t
    simp [VelOk] at h
    obtain ⟨hv, ha, hb, hc⟩ := h
    simp [velText, fmtFixed_length ha, fmtFixed_length hb, fmtFixed_length hc, hv]; omega

/-- `line_lengths_equal` core -/
theorem lineOf_length {w d : Nat} {vel : Bool} {r : Rec} (h : RecOk w d vel r) :
    (lineOf w d r).length = 20 + 3 * w * (if vel then 2 else 1) := by
  unfold lineOf
  simp only [List.length_append, fmtD5_wrap_length, padRight_name_length h.resname,
    padLeft_name_length h.name, fmtFixed_length h.x, fmtFixed_length h.y, fmtFixed_length h.z,
    velText_length h.vel]
  split <;> omega

/-! ### characters of a line -/

/-- characters that occur in numeric fields -/
def NumCh (c : Nat) : Prop := c = sp ∨ c = minus ∨ c = dot ∨ isDigit c = true

theorem NumCh.ne_nl {c : Nat} (h : NumCh c) : c ≠ nl := by
  rcases h with h | h | h | h
  · subst h; decide
  · subst h; decide
  · subst h; decide
  · intro e; subst e; revert h; decide

theorem padLeft_chars {P : Nat → Prop} (w : Nat) (s : List Nat) (hsp : P sp) (hs : ∀ c ∈ s, P c) :
    ∀ c ∈ padLeft w s, P c := by
  intro c hc
  unfold padLeft at hc
  rcases List.mem_append.mp hc with h | h
  · rw [(List.mem_replicate.mp h).2]; exact hsp
  · exact hs c h

theorem padRight_chars {P : Nat → Prop} (w : Nat) (s : List Nat) (hsp : P sp) (hs : ∀ c ∈ s, P c) :
    ∀ c ∈ padRight w s, P c := by
  intro c hc
  unfold padRight at hc
  rcases List.mem_append.mp hc with h | h
  · exact hs c h
  · rw [(List.mem_replicate.mp h).2]; exact hsp

theorem fmtD_chars (w : Nat) (n : Int) : ∀ c ∈ fmtD w n, NumCh c := by
  unfold fmtD
  apply padLeft_chars (P := NumCh) _ _ (Or.inl rfl)
  intro c hc
  rcases intBody_chars n c hc with h | h
  · exact Or.inr (Or.inl h)
  · exact Or.inr (Or.inr (Or.inr h))

theorem fixedBody_chars (d : Nat) (x : Dy) : ∀ c ∈ fixedBody d x, NumCh c := by
  intro c hc
  unfold fixedBody at hc
  simp only [List.mem_append] at hc
  rcases hc with (h | h) | h
  · split at h
    · simp at h; exact Or.inr (Or.inl h)
    · simp at h
  · exact Or.inr (Or.inr (Or.inr (natDigits_all_digit _ c h)))
  · split at h
    · simp at h
    · simp only [List.mem_cons] at h
      rcases h with h | h
      · exact Or.inr (Or.inr (Or.inl h))
      · exact Or.inr (Or.inr (Or.inr (padZeros_all_digit _ _ (natDigits_all_digit _) c h)))

theorem fmtFixed_chars (w d : Nat) (x : Dy) : ∀ c ∈ fmtFixed w d x, NumCh c :=
  padLeft_chars (P := NumCh) _ _ (Or.inl rfl) (fixedBody_chars d x)

theorem velText_chars (w d : Nat) (v : Option (Dy × Dy × Dy)) : ∀ c ∈ velText w d v, NumCh c := by
  intro c hc
  cases v with
  | none => simp [velText] at hc
  | some t =>
    obtain ⟨a, b, e⟩ := t
    simp only [velText, List.mem_append] at hc
    rcases hc with h | h | h <;> exact fmtFixed_chars _ _ _ c h

theorem name_ne_nl {s : List Nat} (h : NameOk s) : ∀ c ∈ s, c ≠ nl := by
  intro c hc e
  have := h.2.2 c hc
  subst e
  revert this; decide

theorem lineOf_no_nl {w d : Nat} {vel : Bool} {r : Rec} (h : RecOk w d vel r) : nl ∉ lineOf w d r := by
  intro hm
  have hsp : sp ≠ nl := by decide
  unfold lineOf at hm
  simp only [List.mem_append] at hm
  rcases hm with hm | hm | hm | hm | hm | hm | hm | hm
  · exact (fmtD_chars _ _ _ hm).ne_nl rfl
  · exact padRight_chars (P := (· ≠ nl)) 5 _ hsp (name_ne_nl h.resname) _ hm rfl
  · exact padLeft_chars (P := (· ≠ nl)) 5 _ hsp (name_ne_nl h.name) _ hm rfl
  · exact (fmtD_chars _ _ _ hm).ne_nl rfl
  · exact (fmtFixed_chars _ _ _ _ hm).ne_nl rfl
  · exact (fmtFixed_chars _ _ _ _ hm).ne_nl rfl
  · exact (fmtFixed_chars _ _ _ _ hm).ne_nl rfl
  · exact (velText_chars _ _ _ _ hm).ne_nl rfl

/-! ### `determine_format` recovers the format -/

theorem count_dot_digits (l : List Nat) (h : ∀ c ∈ l, isDigit c = true) : l.count dot = 0 := by
  rw [List.count_eq_zero]
  intro hm
  have := h dot hm
  revert this; decide

theorem count_dot_fmtFixed (w d : Nat) (x : Dy) (hd : 1 ≤ d) : (fmtFixed w d x).count dot = 1 := by
  unfold fmtFixed padLeft
  rw [fixedBody_eq d x hd]
  unfold fixedDigits
  simp only [List.count_append, List.count_replicate, List.count_cons]
  rw [count_dot_digits _ (natDigits_all_digit _),
    count_dot_digits _ (padZeros_all_digit _ _ (natDigits_all_digit _))]
  have h1 : (sp == dot) = false := by decide
  have h2 : (if x.neg then [minus] else []).count dot = 0 := by
    split <;> decide
  simp [h1, h2]

theorem count_dot_velText (w d : Nat) (vel : Bool) (v : Option (Dy × Dy × Dy)) (h : VelOk w (d + 1) vel v) :
    (velText w d v).count dot = if vel then 3 else 0 := by
  cases v with
  | none => simp [VelOk] at h; simp [velText, h]
  | some t =>
    obtain ⟨a, b, c⟩ := t
    simp [VelOk] at h
    simp [velText, List.count_append, count_dot_fmtFixed _ (d + 1) _ (by omega), h.1]

theorem chopNl_append_nl (l : List Nat) : chopNl (l ++ [nl]) = l := by
  unfold chopNl
  simp

theorem getLast?_append_nl (l : List Nat) : (l ++ [nl]).getLast? = some nl := by simp

theorem head20_length {w d : Nat} {vel : Bool} {r : Rec} (h : RecOk w d vel r) :
    (fmtD 5 (wrap5 r.resnum) ++ (padRight 5 r.resname ++ (padLeft 5 r.name ++ fmtD 5 (wrap5 r.atomnum)))).length
      = 20 := by
  simp [fmtD5_wrap_length, padRight_name_length h.resname, padLeft_name_length h.name]

/-- `determine_format_recovers` core: from a written line the reader infers the width, `width − 5`
    decimals and the velocity flag -/
theorem determineFormat_lineOf {w d : Nat} {vel : Bool} {r : Rec} (h : RecOk w d vel r) (hd : 1 ≤ d) :
    determineFormat (lineOf w d r ++ [nl]) = .ok (w, (w : Int) - 5, vel) := by
  have hlen := lineOf_length h
  have hnonl := lineOf_no_nl h
  unfold determineFormat
  rw [getLast?_append_nl]
  simp only [chopNl_append_nl]
  have hc : (lineOf w d r).count nl = 0 := List.count_eq_zero.mpr hnonl
  simp only [hc, Nat.lt_irrefl, if_false]
  have hdrop : (lineOf w d r).drop coordStart
      = fmtFixed w d r.x ++ (fmtFixed w d r.y ++ (fmtFixed w d r.z ++ velText w d r.vel)) := by
    have e : lineOf w d r = (fmtD 5 (wrap5 r.resnum) ++ (padRight 5 r.resname ++ (padLeft 5 r.name ++
        fmtD 5 (wrap5 r.atomnum)))) ++ (fmtFixed w d r.x ++ (fmtFixed w d r.y ++ (fmtFixed w d r.z ++
        velText w d r.vel))) := by simp [lineOf, List.append_assoc]
    rw [e, show coordStart = (fmtD 5 (wrap5 r.resnum) ++ (padRight 5 r.resname ++ (padLeft 5 r.name ++
        fmtD 5 (wrap5 r.atomnum)))).length from (head20_length h).symm, List.drop_left]
  have hdots : ((lineOf w d r).drop coordStart).count dot = if vel then 6 else 3 := by
    rw [hdrop]
    simp only [List.count_append, count_dot_fmtFixed _ _ _ hd, count_dot_velText w d vel r.vel h.vel]
    split <;> rfl
  rw [hdots, hlen]
  cases vel with
  | false =>
    simp only [Bool.false_eq_true, if_false, coordStart]
    have e1 : (20 + 3 * w * 1 - 20) / 3 = w := by omega
    rw [e1]
    simp
  | true =>
    simp only [if_true, coordStart]
    have e1 : (20 + 3 * w * 2 - 20) / 6 = w := by omega
    rw [e1]
    simp
    omega

/-! ### `parse_atomline` reads back what `parse_atomlist` wrote -/

theorem slice_field (pre F post : List Nat) (i j : Nat) (hi : pre.length = i) (hj : i + F.length = j) :
    slice (pre ++ (F ++ post)) i j = F := by
  rw [slice_skip pre _ i j (by omega)]
  have e1 : i - pre.length = 0 := by omega
  have e2 : j - pre.length = F.length := by omega
  rw [e1, e2]
  exact slice_head F post _ rfl

theorem strip_padRight_name {s : List Nat} (h : NameOk s) : strip (padRight 5 s) = s := by
  unfold strip padRight
  have := stripBy_padded (p := isSpace) [] s (List.replicate (5 - s.length) sp) (by simp)
    (by intro c hc; rw [(List.mem_replicate.mp hc).2]; decide)
    (by intro c hc; exact h.2.2 c (List.mem_of_mem_head? hc))
    (by intro c hc; exact h.2.2 c (List.mem_of_mem_getLast? hc))
  simpa using this

theorem strip_padLeft_name {s : List Nat} (h : NameOk s) : strip (padLeft 5 s) = s := by
  unfold strip padLeft
  have := stripBy_padded (p := isSpace) (List.replicate (5 - s.length) sp) s [] 
    (by intro c hc; rw [(List.mem_replicate.mp hc).2]; decide) (by simp)
    (by intro c hc; exact h.2.2 c (List.mem_of_mem_head? hc))
    (by intro c hc; exact h.2.2 c (List.mem_of_mem_getLast? hc))
  simpa using this

theorem pyInt_fmtD' (w : Nat) (n : Int) : pyInt (fmtD w n) = .ok n := by
  have := pyInt_fmtD w n [] (by simp)
  simpa using this

theorem pyFloat_fmtFixed' (w d : Nat) (x : Dy) (hd : 1 ≤ d) : pyFloat (fmtFixed w d x) = .ok (roundDec d x) := by
  have := pyFloat_fmtFixed w d x hd [] (by simp)
  simpa using this

/-- per-line round trip: `parse_atomline(parse_atomlist(rec) + "\n")` is the record with wrapped numbers
    and exactly rounded values (`e` = the decimals entry of the format, which the parser ignores) -/
theorem parseAtomline_lineOf {w d : Nat} {vel : Bool} {r : Rec} (h : RecOk w d vel r) (hd : 1 ≤ d) (e : Int) :
    parseAtomline stdParsers (w, e, vel) (lineOf w d r ++ [nl]) = .ok (roundRec d r) := by
  have hlen := lineOf_length h
  have l0 := fmtD5_wrap_length r.resnum
  have l1 := padRight_name_length h.resname
  have l2 := padLeft_name_length h.name
  have l3 := fmtD5_wrap_length r.atomnum
  have lx := fmtFixed_length h.x
  have ly := fmtFixed_length h.y
  have lz := fmtFixed_length h.z
  -- the ten slices
  have s0 : slice (lineOf w d r) 0 5 = fmtD 5 (wrap5 r.resnum) := by
    unfold lineOf; exact slice_head _ _ _ l0
  have s1 : slice (lineOf w d r) 5 10 = padRight 5 r.resname := by
    unfold lineOf; exact slice_field _ _ _ _ _ l0 (by omega)
  have s2 : slice (lineOf w d r) 10 15 = padLeft 5 r.name := by
    have e : lineOf w d r = (fmtD 5 (wrap5 r.resnum) ++ padRight 5 r.resname) ++ (padLeft 5 r.name ++
        (fmtD 5 (wrap5 r.atomnum) ++ (fmtFixed w d r.x ++ (fmtFixed w d r.y ++ (fmtFixed w d r.z ++
        velText w d r.vel))))) := by simp [lineOf, List.append_assoc]
    rw [e]; exact slice_field _ _ _ _ _ (by simp; omega) (by omega)
  have s3 : slice (lineOf w d r) 15 20 = fmtD 5 (wrap5 r.atomnum) := by
    have e : lineOf w d r = (fmtD 5 (wrap5 r.resnum) ++ padRight 5 r.resname ++ padLeft 5 r.name) ++
        (fmtD 5 (wrap5 r.atomnum) ++ (fmtFixed w d r.x ++ (fmtFixed w d r.y ++ (fmtFixed w d r.z ++
        velText w d r.vel)))) := by simp [lineOf, List.append_assoc]
    rw [e]; exact slice_field _ _ _ _ _ (by simp; omega) (by omega)
  have sx : slice (lineOf w d r) 20 (20 + w) = fmtFixed w d r.x := by
    have e : lineOf w d r = (fmtD 5 (wrap5 r.resnum) ++ padRight 5 r.resname ++ padLeft 5 r.name ++
        fmtD 5 (wrap5 r.atomnum)) ++ (fmtFixed w d r.x ++ (fmtFixed w d r.y ++ (fmtFixed w d r.z ++
        velText w d r.vel))) := by simp [lineOf, List.append_assoc]
    rw [e]; exact slice_field _ _ _ _ _ (by simp; omega) (by omega)
  have sy : slice (lineOf w d r) (20 + w) (20 + 2 * w) = fmtFixed w d r.y := by
    have e : lineOf w d r = (fmtD 5 (wrap5 r.resnum) ++ padRight 5 r.resname ++ padLeft 5 r.name ++
        fmtD 5 (wrap5 r.atomnum) ++ fmtFixed w d r.x) ++ (fmtFixed w d r.y ++ (fmtFixed w d r.z ++
        velText w d r.vel)) := by simp [lineOf, List.append_assoc]
    rw [e]; exact slice_field _ _ _ _ _ (by simp; omega) (by omega)
  have sz : slice (lineOf w d r) (20 + 2 * w) (20 + 3 * w) = fmtFixed w d r.z := by
    have e : lineOf w d r = (fmtD 5 (wrap5 r.resnum) ++ padRight 5 r.resname ++ padLeft 5 r.name ++
        fmtD 5 (wrap5 r.atomnum) ++ fmtFixed w d r.x ++ fmtFixed w d r.y) ++ (fmtFixed w d r.z ++
        velText w d r.vel) := by simp [lineOf, List.append_assoc]
    rw [e]; exact slice_field _ _ _ _ _ (by simp; omega) (by omega)
  have hpre : (fmtD 5 (wrap5 r.resnum) ++ padRight 5 r.resname ++ padLeft 5 r.name ++
        fmtD 5 (wrap5 r.atomnum) ++ fmtFixed w d r.x ++ fmtFixed w d r.y ++ fmtFixed w d r.z).length
        = 20 + 3 * w := by simp; omega
  unfold parseAtomline
  rw [getLast?_append_nl]
  simp only [chopNl_append_nl, hlen]
  cases hrv : r.vel with
  | none =>
    have hv : vel = false := by have := h.vel; rw [hrv] at this; simpa [VelOk] using this
    subst hv
    simp only [Bool.false_eq_true, if_false, s0, s1, s2, s3, sx, sy, sz, stdParsers, pyInt_fmtD',
      pyFloat_fmtFixed' _ _ _ hd, strip_padRight_name h.resname, strip_padLeft_name h.name, valueToIO,
      bind, Except.bind, pure, Except.pure, roundRec, roundVel, hrv]
    simp
    omega
  | some t =>
    obtain ⟨a, b, c⟩ := t
    have hvo := h.vel
    rw [hrv] at hvo
    simp only [VelOk] at hvo
    obtain ⟨hv, ha, hb, hc⟩ := hvo
    subst hv
    have la := fmtFixed_length ha
    have lb := fmtFixed_length hb
    have lc := fmtFixed_length hc
    have sa : slice (lineOf w d r) (20 + 3 * w) (20 + 4 * w) = fmtFixed w (d + 1) a := by
      have e : lineOf w d r = (fmtD 5 (wrap5 r.resnum) ++ padRight 5 r.resname ++ padLeft 5 r.name ++
          fmtD 5 (wrap5 r.atomnum) ++ fmtFixed w d r.x ++ fmtFixed w d r.y ++ fmtFixed w d r.z) ++
          (fmtFixed w (d + 1) a ++ (fmtFixed w (d + 1) b ++ fmtFixed w (d + 1) c)) := by
        simp [lineOf, velText, hrv, List.append_assoc]
      rw [e]; exact slice_field _ _ _ _ _ hpre (by omega)
    have sb : slice (lineOf w d r) (20 + 4 * w) (20 + 5 * w) = fmtFixed w (d + 1) b := by
      have e : lineOf w d r = (fmtD 5 (wrap5 r.resnum) ++ padRight 5 r.resname ++ padLeft 5 r.name ++
          fmtD 5 (wrap5 r.atomnum) ++ fmtFixed w d r.x ++ fmtFixed w d r.y ++ fmtFixed w d r.z ++
          fmtFixed w (d + 1) a) ++ (fmtFixed w (d + 1) b ++ fmtFixed w (d + 1) c) := by
        simp [lineOf, velText, hrv, List.append_assoc]
      rw [e]; exact slice_field _ _ _ _ _ (by simp; omega) (by omega)
    have sc : slice (lineOf w d r) (20 + 5 * w) (20 + 6 * w) = fmtFixed w (d + 1) c := by
      have e : lineOf w d r = (fmtD 5 (wrap5 r.resnum) ++ padRight 5 r.resname ++ padLeft 5 r.name ++
          fmtD 5 (wrap5 r.atomnum) ++ fmtFixed w d r.x ++ fmtFixed w d r.y ++ fmtFixed w d r.z ++
          fmtFixed w (d + 1) a ++ fmtFixed w (d + 1) b) ++ (fmtFixed w (d + 1) c ++ []) := by
        simp [lineOf, velText, hrv, List.append_assoc]
      rw [e]; exact slice_field _ _ _ _ _ (by simp; omega) (by omega)
    simp only [if_true, s0, s1, s2, s3, sx, sy, sz, sa, sb, sc, stdParsers, pyInt_fmtD',
      pyFloat_fmtFixed' _ _ _ hd, pyFloat_fmtFixed' _ (d + 1) _ (by omega : 1 ≤ d + 1),
      strip_padRight_name h.resname, strip_padLeft_name h.name, valueToIO,
      bind, Except.bind, pure, Except.pure, roundRec, roundVel, hrv]
    simp
    omega

end GroL
