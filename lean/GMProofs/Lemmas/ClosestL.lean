import GMProofs.Lemmas.EMapListL
/-
  GMProofs.Lemmas.ClosestL — `closestAnchor` returns the lexicographic minimum of
  (distance, index) over the keys.
-/
open V3

/-- lexicographic order on (distance, index) -/
def lexLe (x y : ℝ × Nat) : Prop := x.1 < y.1 ∨ (x.1 = y.1 ∧ x.2 ≤ y.2)

theorem lexLe_refl (x : ℝ × Nat) : lexLe x x := Or.inr ⟨rfl, Nat.le_refl _⟩

theorem lexLe_trans {x y z : ℝ × Nat} (h1 : lexLe x y) (h2 : lexLe y z) : lexLe x z := by
  unfold lexLe at *
  rcases h1 with h1 | ⟨e1, l1⟩ <;> rcases h2 with h2 | ⟨e2, l2⟩
  · exact Or.inl (lt_trans h1 h2)
  · exact Or.inl (e2 ▸ h1)
  · exact Or.inl (e1 ▸ h2)
  · exact Or.inr ⟨e1.trans e2, Nat.le_trans l1 l2⟩

theorem closestAnchorAux_spec (pos : List (V3 ℝ)) (t : V3 ℝ) :
    ∀ (keys : List Nat) (best : Option (ℝ × Nat)) (res : ℝ × Nat),
      closestAnchorAux pos t keys best = some res →
      (∀ b, best = some b → ∃ pb, pos[b.2]? = some pb ∧ b.1 = euclid t pb) →
      (∃ pr, pos[res.2]? = some pr ∧ res.1 = euclid t pr) ∧
      (res.2 ∈ keys ∨ best = some res) ∧
      (∀ b ∈ keys, ∀ pb, pos[b]? = some pb → lexLe res (euclid t pb, b)) ∧
      (∀ b, best = some b → lexLe res b) := by
  intro keys
  induction keys with
  | nil =>
    intro best res h hb
    simp only [closestAnchorAux] at h
    subst h
    exact ⟨hb res rfl, Or.inr rfl, by simp, fun b hb' => by cases hb'; exact lexLe_refl _⟩
  | cons a rest ih =>
    intro best res h hb
    unfold closestAnchorAux at h
    cases hpa : pos[a]? with
    | none => simp [hpa] at h
    | some pa =>
      simp only [hpa] at h
      cases best with
      | none =>
        simp only at h
        obtain ⟨h1, h2, h3, h4⟩ := ih (some (euclid t pa, a)) res h
          (fun b hb' => by cases hb'; exact ⟨pa, hpa, rfl⟩)
        have hra : lexLe res (euclid t pa, a) := h4 _ rfl
        refine ⟨h1, ?_, ?_, by simp⟩
        · rcases h2 with h2 | h2
          · exact Or.inl (List.mem_cons_of_mem _ h2)
          · cases h2; exact Or.inl (by simp)
        · intro b hbm pb hpb
          simp only [List.mem_cons] at hbm
          rcases hbm with rfl | hbm
          · rw [hpa] at hpb; cases hpb; exact hra
          · exact h3 b hbm pb hpb
      | some bb =>
        obtain ⟨db, ab⟩ := bb
        simp only [RS.lt_def, Bool.or_eq_true, Bool.and_eq_true, Bool.not_eq_true', decide_eq_true_eq,
          decide_eq_false_iff_not] at h
        by_cases hc : euclid t pa < db ∨ (¬ db < euclid t pa ∧ a < ab)
        · rw [if_pos hc] at h
          obtain ⟨h1, h2, h3, h4⟩ := ih (some (euclid t pa, a)) res h
            (fun b hb' => by cases hb'; exact ⟨pa, hpa, rfl⟩)
          have hra : lexLe res (euclid t pa, a) := h4 _ rfl
          have hab : lexLe (euclid t pa, a) (db, ab) := by
            rcases hc with hc | ⟨hc1, hc2⟩
            · exact Or.inl hc
            · rcases lt_or_eq_of_le (not_lt.mp hc1) with hlt | heq
              · exact Or.inl hlt
              · exact Or.inr ⟨heq, Nat.le_of_lt hc2⟩
          refine ⟨h1, ?_, ?_, ?_⟩
          · rcases h2 with h2 | h2
            · exact Or.inl (List.mem_cons_of_mem _ h2)
            · cases h2; exact Or.inl (by simp)
          · intro b hbm pb hpb
            simp only [List.mem_cons] at hbm
            rcases hbm with rfl | hbm
            · rw [hpa] at hpb; cases hpb; exact hra
            · exact h3 b hbm pb hpb
          · intro b hb'; cases hb'; exact lexLe_trans hra hab
        · rw [if_neg hc] at h
          obtain ⟨h1, h2, h3, h4⟩ := ih (some (db, ab)) res h hb
          have hrb : lexLe res (db, ab) := h4 _ rfl
          have hba : lexLe (db, ab) (euclid t pa, a) := by
            rw [not_or, not_and_or] at hc
            obtain ⟨hc1, hc2⟩ := hc
            rcases hc2 with hc2 | hc2
            · exact Or.inl (not_not.mp hc2)
            · rcases lt_or_eq_of_le (not_lt.mp hc1) with hlt | heq
              · exact Or.inl hlt
              · exact Or.inr ⟨heq, Nat.le_of_not_lt hc2⟩
          refine ⟨h1, ?_, ?_, h4⟩
          · rcases h2 with h2 | h2
            · exact Or.inl (List.mem_cons_of_mem _ h2)
            · exact Or.inr h2
          · intro b hbm pb hpb
            simp only [List.mem_cons] at hbm
            rcases hbm with rfl | hbm
            · rw [hpa] at hpb; cases hpb; exact lexLe_trans hrb hba
            · exact h3 b hbm pb hpb

/-- `_find_closest_ref`: the chosen key is one of the keys, no key is strictly closer, and among
    equally close keys it has the lowest index -/
theorem closestAnchor_spec {pos : List (V3 ℝ)} {keys : List Nat} {t : V3 ℝ} {a : Nat}
    (h : closestAnchor pos keys t = some a) :
    a ∈ keys ∧ ∃ pa, pos[a]? = some pa ∧
      ∀ b ∈ keys, ∀ pb, pos[b]? = some pb →
        euclid t pa ≤ euclid t pb ∧ (euclid t pb = euclid t pa → a ≤ b) := by
  unfold closestAnchor at h
  simp only [Option.map_eq_some_iff] at h
  obtain ⟨⟨d, a'⟩, hres, rfl⟩ := h
  obtain ⟨⟨pr, hpr, hd⟩, hm, hall, _⟩ := closestAnchorAux_spec pos t keys none (d, a') hres (by simp)
  refine ⟨by simpa using hm, pr, hpr, ?_⟩
  intro b hb pb hpb
  have := hall b hb pb hpb
  simp only at hd
  subst hd
  rcases this with hlt | ⟨heq, hle⟩
  · exact ⟨le_of_lt hlt, fun e => absurd (e ▸ hlt) (lt_irrefl _)⟩
  · exact ⟨le_of_eq heq, fun _ => hle⟩
