import GMProofs.Lemmas.HeapL
/-
  GMProofs.Lemmas.HeapFrame — what each modelled operation may write, what it allocates, and the
  separation invariant over operation lists.
-/

namespace GMHeap

variable {α : Type}

/-! ### traversals are stable under frames -/

section stable
variable {R : Rel α} {W : Nat → Prop} {h h' : Heap α}

theorem Frame.res? (f : Frame R W h h') {r : Nat} {l : List Nat} (hr : h.res? r = some l) :
    h'.res? r = some l := by
  obtain ⟨c', hc', rel⟩ := f.rel r _ (Heap.res?_eq_some.mp hr)
  cases c' <;> simp [CellRel] at rel
  subst rel
  exact Heap.res?_eq_some.mpr hc'

theorem Frame.mtop? (f : Frame R W h h') {t : Nat} {p : String × List Nat} (hr : h.mtop? t = some p) :
    h'.mtop? t = some p := by
  obtain ⟨n, l⟩ := p
  obtain ⟨c', hc', rel⟩ := f.rel t _ (Heap.mtop?_eq_some.mp hr)
  cases c' <;> simp [CellRel] at rel
  obtain ⟨rfl, rfl⟩ := rel
  exact Heap.mtop?_eq_some.mpr hc'

theorem Frame.mol? (f : Frame R W h h') {m : Nat} {p : Nat × List Nat × List Nat}
    (hr : h.mol? m = some p) : h'.mol? m = some p := by
  obtain ⟨t, rs, e⟩ := p
  obtain ⟨c', hc', rel⟩ := f.rel m _ (Heap.mol?_eq_some.mp hr)
  cases c' <;> simp [CellRel] at rel
  obtain ⟨rfl, rfl, rfl⟩ := rel
  exact Heap.mol?_eq_some.mpr hc'

theorem Frame.gro?_isSome (f : Frame R W h h') {g : Nat} {c : AtomGroC α} (hr : h.gro? g = some c) :
    ∃ c', h'.gro? g = some c' ∧ R.g c c' := by
  obtain ⟨c', hc', rel⟩ := f.rel g _ (Heap.gro?_eq_some.mp hr)
  cases c' <;> simp [CellRel] at rel
  exact ⟨_, Heap.gro?_eq_some.mpr hc', rel⟩

theorem Frame.top?_isSome (f : Frame R W h h') {g : Nat} {c : AtomTopC} (hr : h.top? g = some c) :
    ∃ c', h'.top? g = some c' ∧ R.t c c' := by
  obtain ⟨c', hc', rel⟩ := f.rel g _ (Heap.top?_eq_some.mp hr)
  cases c' <;> simp [CellRel] at rel
  exact ⟨_, Heap.top?_eq_some.mpr hc', rel⟩

theorem Frame.readRess (f : Frame R W h h') {rs : List Nat} {p : List (List Nat)}
    (hr : readRess h rs = some p) : GMHeap.readRess h' rs = some p := by
  induction rs generalizing p with
  | nil => simpa [GMHeap.readRess] using hr
  | cons r rs ih =>
    simp only [GMHeap.readRess] at hr ⊢
    cases h1 : h.res? r with
    | none => simp [h1] at hr
    | some l =>
      cases h2 : GMHeap.readRess h rs with
      | none => simp [h1, h2] at hr
      | some ls =>
        simp only [h1, h2] at hr
        simp only [f.res? h1, ih h2]
        exact hr

theorem Frame.molView (f : Frame R W h h') {m : Nat} {v : MolView} (hv : molView h m = some v) :
    GMHeap.molView h' m = some v := by
  unfold GMHeap.molView at hv ⊢
  cases h1 : h.mol? m with
  | none => simp [h1] at hv
  | some p =>
    obtain ⟨t, rs, e⟩ := p
    simp only [h1] at hv
    cases h2 : h.mtop? t with
    | none => simp [h2] at hv
    | some q =>
      cases h3 : GMHeap.readRess h rs with
      | none => simp [h2, h3] at hv
      | some parts =>
        obtain ⟨n, tops⟩ := q
        simp only [h2, h3] at hv
        simp only [f.mol? h1, f.mtop? h2, f.readRess h3]
        exact hv

end stable

/-! ### the cells an operation on an object may assign to -/

def Obj.cells (h : Heap α) : Obj → List Nat
  | .mol m =>
    match molView h m with
    | some v => v.gros ++ v.tops
    | none => []
  | .res r =>
    match h.res? r with
    | some l => l
    | none => []
  | .agro g => [g]
  | .atom t g => [g, t]

/-- the handle denotes an object of its kind -/
def Obj.Valid (h : Heap α) : Obj → Prop
  | .mol m => ∃ v, molView h m = some v
  | .res r => ∃ l, h.res? r = some l
  | .agro _ => True
  | .atom _ _ => True

theorem Obj.cells_frame {R : Rel α} {W : Nat → Prop} {h h' : Heap α} (f : Frame R W h h') {o : Obj}
    (hv : o.Valid h) : o.Valid h' ∧ o.cells h' = o.cells h := by
  cases o with
  | mol m =>
    obtain ⟨v, hv⟩ := hv
    exact ⟨⟨v, f.molView hv⟩, by simp [Obj.cells, hv, f.molView hv]⟩
  | res r =>
    obtain ⟨l, hl⟩ := hv
    exact ⟨⟨l, f.res? hl⟩, by simp [Obj.cells, hl, f.res? hl]⟩
  | agro g => exact ⟨trivial, rfl⟩
  | atom t g => exact ⟨trivial, rfl⟩

/-! ### write sets of the setters -/

theorem collPairs_mem {h : Heap α} {o : Obj} {pairs : List (Option Nat × Nat)} {c : Bool}
    (hp : collPairs h o = .ok (pairs, c)) :
    ∀ p ∈ pairs, p.2 ∈ o.cells h ∧ ∀ t, p.1 = some t → t ∈ o.cells h := by
  cases o with
  | mol m =>
    simp only [collPairs] at hp
    cases hv : molView h m with
    | none => simp [hv] at hp
    | some v =>
      simp only [hv] at hp
      split at hp
      · cases hp
      · injection hp with hp
        injection hp with hp1 hp2
        subst hp1
        intro p hpm
        simp only [List.mem_map] at hpm
        obtain ⟨⟨t, g⟩, hz, rfl⟩ := hpm
        have := List.of_mem_zip hz
        simp only [Obj.cells, hv, List.mem_append]
        refine ⟨Or.inl this.2, ?_⟩
        intro t' ht'
        injection ht' with ht'
        subst ht'
        exact Or.inr this.1
  | res r =>
    simp only [collPairs] at hp
    cases hr : h.res? r with
    | none => simp [hr] at hp
    | some l =>
      simp only [hr] at hp
      injection hp with hp
      injection hp with hp1 hp2
      subst hp1
      intro p hpm
      simp only [List.mem_map] at hpm
      obtain ⟨g, hg, rfl⟩ := hpm
      simp only [Obj.cells, hr]
      exact ⟨hg, fun t ht => by cases ht⟩
  | agro g => simp [collPairs] at hp
  | atom t g => simp [collPairs] at hp

theorem collPairs_valid {h : Heap α} {o : Obj} {pairs : List (Option Nat × Nat)} {c : Bool}
    (hp : collPairs h o = .ok (pairs, c)) : o.Valid h := by
  cases o with
  | mol m =>
    simp only [collPairs] at hp
    cases hv : molView h m with
    | none => simp [hv] at hp
    | some v => exact ⟨v, hv⟩
  | res r =>
    simp only [collPairs] at hp
    cases hr : h.res? r with
    | none => simp [hr] at hp
    | some l => exact ⟨l, hr⟩
  | agro g => trivial
  | atom t g => trivial

theorem mkW_mem {β : Type} {pairs : List (Option Nat × Nat)} {vals : List β}
    {fg : β → AtomGroC α → AtomGroC α} {ft : β → Option (AtomTopC → AtomTopC)} {w : W α}
    (hw : w ∈ mkW pairs vals fg ft) :
    ∃ p ∈ pairs, ∃ v ∈ vals, w = ⟨p.1, p.2, fg v, ft v⟩ := by
  simp only [mkW, List.mem_map] at hw
  obtain ⟨⟨p, v⟩, hz, rfl⟩ := hw
  have := List.of_mem_zip hz
  exact ⟨p, this.1, v, this.2, rfl⟩

theorem writeSet_mkW {β : Type} {h : Heap α} {o : Obj} {pairs : List (Option Nat × Nat)} {c : Bool}
    (hp : collPairs h o = .ok (pairs, c)) (vals : List β)
    (fg : β → AtomGroC α → AtomGroC α) (ft : β → Option (AtomTopC → AtomTopC)) :
    ∀ a ∈ writeSet (mkW pairs vals fg ft), a ∈ o.cells h := by
  intro a ha
  simp only [writeSet, List.mem_flatMap] at ha
  obtain ⟨w, hw, haw⟩ := ha
  obtain ⟨p, hpm, v, _, rfl⟩ := mkW_mem hw
  have hm := collPairs_mem hp p hpm
  simp only [W.addrs, List.mem_cons] at haw
  rcases haw with rfl | haw
  · exact hm.1
  · cases h1 : p.1 with
    | none => simp [h1] at haw
    | some t =>
      cases h2 : ft v with
      | none => simp [h1, h2] at haw
      | some f =>
        simp [h1, h2] at haw
        subst haw
        exact hm.2 _ h1

/-- a loop built by `mkW` from the atoms of `o` writes only cells of `o` -/
theorem frame_loop {β : Type} (h : Heap α) (o : Obj) {pairs : List (Option Nat × Nat)} {c : Bool}
    (hp : collPairs h o = .ok (pairs, c)) (check : Bool) (vals : List β)
    (fg : β → AtomGroC α → AtomGroC α) (ft : β → Option (AtomTopC → AtomTopC)) :
    Frame Rel.any (· ∈ o.cells h) h (applyW check h (mkW pairs vals fg ft)).1 :=
  (frame_applyW Rel.any check h _ (fun _ _ => ⟨fun _ => trivial, fun _ _ _ => trivial⟩)).mono
    (writeSet_mkW hp vals fg ft)

theorem frame_setPositions (h : Heap α) (o : Obj) (ps : List (V3 α)) :
    Frame Rel.any (· ∈ o.cells h) h (setPositions h o ps).1 := by
  unfold setPositions
  cases hp : collPairs h o with
  | error e => exact Frame.refl _ _ _
  | ok pc =>
    obtain ⟨pairs, check⟩ := pc
    simp only
    split
    · exact Frame.refl _ _ _
    · exact frame_loop h o hp _ _ _ _

theorem frame_setVelocities (h : Heap α) (o : Obj) (vs : Option (List (V3 α))) :
    Frame Rel.any (· ∈ o.cells h) h (setVelocities h o vs).1 := by
  unfold setVelocities
  cases hp : collPairs h o with
  | error e => exact Frame.refl _ _ _
  | ok pc =>
    obtain ⟨pairs, check⟩ := pc
    cases vs with
    | none => exact frame_loop h o hp _ _ _ _
    | some vs =>
      simp only
      split
      · exact Frame.refl _ _ _
      · exact frame_loop h o hp _ _ _ _

theorem frame_setIds (h : Heap α) (o : Obj) (ids : List Int) :
    Frame Rel.any (· ∈ o.cells h) h (setIds h o ids).1 := by
  unfold setIds
  cases hp : collPairs h o with
  | error e => exact Frame.refl _ _ _
  | ok pc =>
    obtain ⟨pairs, check⟩ := pc
    simp only
    split
    · exact Frame.refl _ _ _
    · exact frame_loop h o hp _ _ _ _

theorem frame_setResidsInt (h : Heap α) (o : Obj) (n : Int) :
    Frame Rel.any (· ∈ o.cells h) h (setResidsInt h o n).1 := by
  unfold setResidsInt
  cases hp : collPairs h o with
  | error e => exact Frame.refl _ _ _
  | ok pc =>
    obtain ⟨pairs, check⟩ := pc
    exact frame_loop h o hp _ _ _ _

theorem frame_setResnamesStr (h : Heap α) (o : Obj) (s : String) :
    Frame Rel.any (· ∈ o.cells h) h (setResnamesStr h o s).1 := by
  unfold setResnamesStr
  cases hp : collPairs h o with
  | error e => exact Frame.refl _ _ _
  | ok pc =>
    obtain ⟨pairs, check⟩ := pc
    exact frame_loop h o hp _ _ _ _

theorem frame_setResidsList (h : Heap α) (m : Nat) (l : List Int) :
    Frame Rel.any (· ∈ (Obj.mol m).cells h) h (setResidsList h m l).1 := by
  unfold setResidsList
  cases l with
  | nil => exact Frame.refl _ _ _
  | cons x xs =>
    simp only
    cases hv : molView h m with
    | none => exact Frame.refl _ _ _
    | some v =>
      cases hp : collPairs h (.mol m) with
      | error e => exact Frame.refl _ _ _
      | ok pc =>
        obtain ⟨pairs, check⟩ := pc
        simp only
        split
        · exact Frame.refl _ _ _
        · split
          · exact Frame.refl _ _ _
          · exact frame_loop h (.mol m) hp _ _ _ _

theorem frame_setResnamesList (h : Heap α) (m : Nat) (l : List String) :
    Frame Rel.any (· ∈ (Obj.mol m).cells h) h (setResnamesList h m l).1 := by
  unfold setResnamesList
  cases l with
  | nil => exact Frame.refl _ _ _
  | cons x xs =>
    simp only
    cases hv : molView h m with
    | none => exact Frame.refl _ _ _
    | some v =>
      cases hp : collPairs h (.mol m) with
      | error e => exact Frame.refl _ _ _
      | ok pc =>
        obtain ⟨pairs, check⟩ := pc
        simp only
        split
        · exact Frame.refl _ _ _
        · split
          · exact Frame.refl _ _ _
          · exact frame_loop h (.mol m) hp _ _ _ _

theorem frame_setAttr (h : Heap α) (o : Obj) (v : AttrVal α) :
    Frame Rel.any (· ∈ o.cells h) h (setAttr h o v).1 := by
  have anyG : ∀ (f : AtomGroC α → AtomGroC α) g, (Rel.any : Rel α).g g (f g) := fun _ _ => trivial
  have anyT : ∀ (f : AtomTopC → AtomTopC) t, (Rel.any : Rel α).t t (f t) := fun _ _ => trivial
  cases o with
  | mol m => exact Frame.refl _ _ _
  | res r => exact Frame.refl _ _ _
  | agro g =>
    simp only [setAttr]
    cases v.fg with
    | none => exact Frame.refl _ _ _
    | some f => exact (frame_modGro _ h g f (anyG f)).mono (by intro a ha; simp [Obj.cells, ha])
  | atom t g =>
    simp only [setAttr]
    have f1 : Frame Rel.any (· ∈ (Obj.atom t g).cells h) h
        (match v.ft with | some f => h.modTop t f | none => h) := by
      cases v.ft with
      | none => exact Frame.refl _ _ _
      | some f => exact (frame_modTop _ h t f (anyT f)).mono (by intro a ha; simp [Obj.cells, ha])
    refine f1.trans' ?_
    cases v.fg with
    | none => exact Frame.refl _ _ _
    | some f => exact (frame_modGro _ _ g f (anyG f)).mono (by intro a ha; simp [Obj.cells, ha])

section geometry
variable [Scalar α]

theorem frame_moveObj (h : Heap α) (o : Obj) (d : V3 α) :
    Frame Rel.any (· ∈ o.cells h) h (moveObj h o d).1 := by
  unfold moveObj
  cases positionsOf h o with
  | error e => exact Frame.refl _ _ _
  | ok ps => exact frame_setPositions h o _

theorem frame_moveToObj (h : Heap α) (o : Obj) (p : V3 α) :
    Frame Rel.any (· ∈ o.cells h) h (moveToObj h o p).1 := by
  unfold moveToObj
  cases centreOf h o with
  | error e => exact Frame.refl _ _ _
  | ok c => exact frame_moveObj h o _

theorem frame_rotateObj (h : Heap α) (o : Obj) (r : M3 α) :
    Frame Rel.any (· ∈ o.cells h) h (rotateObj h o r).1 := by
  unfold rotateObj
  cases positionsOf h o with
  | error e => exact Frame.refl _ _ _
  | ok ps => exact frame_setPositions h o _

end geometry

end GMHeap
