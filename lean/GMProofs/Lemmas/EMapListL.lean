import GMProofs.Lemmas.RigidL
/-
  GMProofs.Lemmas.EMapListL — from the per-atom laws to `EMap.build` / `EMap.apply` on whole
  molecules (references of three or more atoms).
-/
open V3

/-- every anchor's position differs from the position of its second frame neighbour
    (so `calcule_base` never divides by zero) -/
def DistinctFrames (pos : List (V3 ℝ)) (nbrs : List (List Nat)) : Prop :=
  ∀ (a : Nat) pa nb (i1 i2 : Nat) p2, pos[a]? = some pa → nbrs[a]? = some nb → closestTwo nb = some (i1, i2) →
    pos[i2]? = some p2 → pa ≠ p2

theorem frameAt_spec {pos : List (V3 ℝ)} {nbrs : List (List Nat)} {a : Nat} {F : Frame ℝ}
    (h : frameAt pos nbrs a = some F) :
    ∃ pa nb i1 i2 p1 p2, pos[a]? = some pa ∧ nbrs[a]? = some nb ∧ closestTwo nb = some (i1, i2) ∧
      pos[i1]? = some p1 ∧ pos[i2]? = some p2 ∧ F = calculeBase pa p1 p2 := by
  unfold frameAt at h
  simp only [Option.bind_eq_bind, Option.bind_eq_some_iff, Option.pure_def, Option.some.injEq] at h
  obtain ⟨pa, hpa, nb, hnb, ⟨i1, i2⟩, hc, p1, hp1, p2, hp2, hF⟩ := h
  exact ⟨pa, nb, i1, i2, p1, p2, hpa, hnb, hc, hp1, hp2, hF.symm⟩

theorem refsystems_general {pos : List (V3 ℝ)} (nbrs : List (List Nat)) (rands : List (V3 ℝ))
    (h : 3 ≤ pos.length) : refsystems pos nbrs rands = refsystemsGeneral pos nbrs := by
  unfold refsystems
  have h1 : (pos.length == 1) = false := by simp; omega
  have h2 : (pos.length == 2) = false := by simp; omega
  simp [h1, h2]

theorem lookupFrame_mem {tab : List (Nat × Frame ℝ)} {a : Nat} {F : Frame ℝ}
    (h : lookupFrame tab a = some F) : (a, F) ∈ tab := by
  unfold lookupFrame at h
  simp only [Option.map_eq_some_iff] at h
  obtain ⟨⟨a', F'⟩, hf, rfl⟩ := h
  have hm := List.mem_of_find?_eq_some hf
  have hp := List.find?_some hf
  simp only [beq_iff_eq] at hp
  subst hp
  exact hm

theorem table_entry {pos : List (V3 ℝ)} {nbrs : List (List Nat)} {tab : List (Nat × Frame ℝ)}
    (ht : refsystemsGeneral pos nbrs = some tab) {a : Nat} {F : Frame ℝ} (hm : (a, F) ∈ tab) :
    frameAt pos nbrs a = some F := by
  obtain ⟨a', _, hf⟩ := optMapM_mem _ _ _ ht (a, F) hm
  simp only [Option.map_eq_some_iff] at hf
  obtain ⟨F', hF', he⟩ := hf
  cases he
  exact hF'

/-- an entry of the frame table of `pos` is an orthonormal frame sitting on its anchor -/
theorem table_frame_ok {pos : List (V3 ℝ)} {nbrs : List (List Nat)} {tab : List (Nat × Frame ℝ)}
    (hd : DistinctFrames pos nbrs) (ht : refsystemsGeneral pos nbrs = some tab)
    {a : Nat} {F : Frame ℝ} (h : lookupFrame tab a = some F) :
    F.Orthonormal ∧ pos[a]? = some F.origin := by
  obtain ⟨pa, nb, i1, i2, p1, p2, hpa, hnb, hc, _, hp2, rfl⟩ :=
    frameAt_spec (table_entry ht (lookupFrame_mem h))
  exact ⟨calculeBase_orthonormal _ _ _ (hd a pa nb i1 i2 p2 hpa hnb hc hp2), hpa⟩

/-- what `EMap.build` stores for target atom `j` -/
theorem build_spec {pos : List (V3 ℝ)} {nbrs : List (List Nat)} {rands tgt : List (V3 ℝ)} {s : ℝ}
    {m : EMap ℝ} (hb : EMap.build pos nbrs rands tgt s = some m) :
    ∃ tab, refsystems pos nbrs rands = some tab ∧ m.scale = s ∧
      ∀ (j : Nat) t, tgt[j]? = some t → ∃ (a : Nat) (F : Frame ℝ), m.equiv[j]? = some a ∧
        closestAnchor pos (tab.map (·.1)) t = some a ∧ lookupFrame tab a = some F ∧
        m.proj[j]? = some (project F s t) := by
  unfold EMap.build at hb
  simp only [Option.bind_eq_bind, Option.bind_eq_some_iff, Option.pure_def, Option.some.injEq] at hb
  obtain ⟨tab, htab, per, hper, rfl⟩ := hb
  refine ⟨tab, htab, rfl, ?_⟩
  intro j t ht
  obtain ⟨⟨a, q⟩, hy, hf⟩ := optMapM_get _ _ _ hper j t ht
  simp only [Option.bind_eq_some_iff, Option.some.injEq, Prod.mk.injEq] at hf
  obtain ⟨a', ha', F, hF, rfl, rfl⟩ := hf
  exact ⟨a', F, by simp [hy], ha', hF, by simp [hy]⟩

/-- what `EMap.apply` returns for target atom `j` -/
theorem apply_spec {m : EMap ℝ} {nbrs : List (List Nat)} {argPos rands out : List (V3 ℝ)}
    (ha : m.apply nbrs argPos rands = some out) :
    ∃ tab, refsystems argPos nbrs rands = some tab ∧
      ∀ (j a : Nat) q, m.equiv[j]? = some a → m.proj[j]? = some q →
        ∃ F, lookupFrame tab a = some F ∧ out[j]? = some (restore F q) := by
  unfold EMap.apply at ha
  simp only [Option.bind_eq_bind, Option.bind_eq_some_iff] at ha
  obtain ⟨tab, htab, hout⟩ := ha
  refine ⟨tab, htab, ?_⟩
  intro j a q hja hjq
  have hz : (m.equiv.zip m.proj)[j]? = some (a, q) := by
    rw [List.getElem?_zip_eq_some]; exact ⟨hja, hjq⟩
  obtain ⟨o, ho, hf⟩ := optMapM_get _ _ _ hout j (a, q) hz
  simp only [Option.bind_eq_some_iff, Option.pure_def, Option.some.injEq] at hf
  obtain ⟨F, hF, rfl⟩ := hf
  exact ⟨F, hF, ho⟩

theorem optMapM_keys {β : Type} (g : Nat → Option β) :
    ∀ (l : List Nat) (r : List (Nat × β)),
      optMapM (fun a => (g a).map (fun F => (a, F))) l = some r → r.map (·.1) = l
  | [], r, h => by simp [optMapM] at h; subst h; rfl
  | x :: xs, r, h => by
    unfold optMapM at h
    split at h
    · cases h
    · rename_i y hy
      split at h
      · cases h
      · rename_i ys hys
        cases h
        simp only [Option.map_eq_some_iff] at hy
        obtain ⟨F, _, rfl⟩ := hy
        simp [optMapM_keys g xs ys hys]

theorem refsystemsGeneral_keys {pos : List (V3 ℝ)} {nbrs : List (List Nat)}
    {tab : List (Nat × Frame ℝ)} (ht : refsystemsGeneral pos nbrs = some tab) :
    tab.map (·.1) = anchorsOf nbrs :=
  optMapM_keys _ _ _ ht

/-- `project` is affine in the point: differences of projections -/
theorem project_sub_norm2 {F : Frame ℝ} (h : F.Orthonormal) (s : ℝ) (p1 p2 : V3 ℝ) :
    V3.norm2 (project F s p1 - project F s p2) = s * s * V3.norm2 (p1 - p2) := by
  obtain ⟨⟨cx, cy, cz⟩, ⟨cxy, cxz, cyz⟩⟩ := h.cols
  simp only [project, Frame.mat, gm]
  linear_combination (s * s * (p1.x - p2.x) ^ 2) * cx + (s * s * (p1.y - p2.y) ^ 2) * cy
    + (s * s * (p1.z - p2.z) ^ 2) * cz
    + (2 * s * s * (p1.x - p2.x) * (p1.y - p2.y)) * cxy
    + (2 * s * s * (p1.x - p2.x) * (p1.z - p2.z)) * cxz
    + (2 * s * s * (p1.y - p2.y) * (p1.z - p2.z)) * cyz

/-- `‖v‖ = |s| ‖w‖` from `‖v‖² = s² ‖w‖²` -/
theorem norm_of_norm2 {v w : V3 ℝ} {s : ℝ} (h : V3.norm2 v = s * s * V3.norm2 w) :
    V3.norm v = |s| * V3.norm w := by
  have hv : V3.norm v = Real.sqrt (V3.norm2 v) := rfl
  have hw : V3.norm w = Real.sqrt (V3.norm2 w) := rfl
  rw [hv, hw, h, Real.sqrt_mul (mul_self_nonneg s), Real.sqrt_mul_self_eq_abs]

/-- the frame of an anchor depends only on the positions of the anchor and of its two
    lowest-numbered neighbours -/
theorem frameAt_congr {pos1 pos2 : List (V3 ℝ)} {nbrs : List (List Nat)} {a : Nat}
    (ha : pos1[a]? = pos2[a]?)
    (hn : ∀ nb i1 i2, nbrs[a]? = some nb → closestTwo nb = some (i1, i2) →
      pos1[i1]? = pos2[i1]? ∧ pos1[i2]? = pos2[i2]?) :
    frameAt pos1 nbrs a = frameAt pos2 nbrs a := by
  unfold frameAt
  rw [ha]
  cases hp : pos2[a]? with
  | none => rfl
  | some pa =>
    cases hnb : nbrs[a]? with
    | none => rfl
    | some nb =>
      cases hc : closestTwo nb with
      | none => simp [hc]
      | some ii =>
        obtain ⟨i1, i2⟩ := ii
        obtain ⟨h1, h2⟩ := hn nb i1 i2 hnb hc
        simp [hc, h1, h2]

/-- frames of a rigidly moved molecule: generic anchors are carried along -/
theorem frameAt_rigid {R : M3 ℝ} (hR : R.IsRot) (t : V3 ℝ) {pos : List (V3 ℝ)}
    {nbrs : List (List Nat)} {a : Nat} {F : Frame ℝ} (h : frameAt pos nbrs a = some F) :
    ∃ F', frameAt (pos.map (rigid R t)) nbrs a = some F' ∧ F'.e1 = M3.mulVec R F.e1 ∧
      F'.origin = rigid R t F.origin ∧
      ((∀ pa nb i1 i2 p1, pos[a]? = some pa → nbrs[a]? = some nb → closestTwo nb = some (i1, i2) →
          pos[i1]? = some p1 → ¬ collinearTest F.e1 (p1 - pa)) → F' = Frame.rot R t F) := by
  obtain ⟨pa, nb, i1, i2, p1, p2, hpa, hnb, hc, hp1, hp2, rfl⟩ := frameAt_spec h
  refine ⟨calculeBase (rigid R t pa) (rigid R t p1) (rigid R t p2), ?_, ?_, ?_, ?_⟩
  · unfold frameAt
    simp [List.getElem?_map, hpa, hnb, hc, hp1, hp2]
  · exact (calculeBase_e1_rigid hR.orth t pa p1 p2).1
  · rfl
  · intro hg
    exact calculeBase_rigid_generic hR t pa p1 p2 (hg pa nb i1 i2 p1 hpa hnb hc hp1)
