import GMProofs.Lemmas.HeapCopy
/-
  GMProofs.Lemmas.HeapView — well-formed molecules (`MolWF`), the `Atom` views handed out by
  `mol[k]` / iteration, and label assignment through a shared topology.
-/

namespace GMHeap

variable {α : Type}

/-- a molecule as the constructors build it: consistent `_each_atom_resid`, as many AtomTops as
    AtomGros, pairwise distinct readable AtomGro cells -/
structure MolWF (h : Heap α) (m : Nat) (v : MolView) (cs : List (AtomGroC α)) : Prop where
  view : molView h m = some v
  each : v.each = eachOf 0 v.parts
  len : v.tops.length = v.gros.length
  nodup : v.gros.Nodup
  cells : readGros h v.gros = some cs

theorem eachOf_congr (s : Nat) {ps qs : List (List Nat)} (hl : ps.map List.length = qs.map List.length) :
    eachOf s ps = eachOf s qs := by
  induction ps generalizing s qs with
  | nil =>
    cases qs with
    | nil => rfl
    | cons q qs => simp at hl
  | cons p ps ih =>
    cases qs with
    | nil => simp at hl
    | cons q qs =>
      simp only [List.map_cons, List.cons.injEq] at hl
      simp only [eachOf, hl.1, ih (s + 1) hl.2]

theorem flatten_length_congr {ps qs : List (List Nat)} (hl : ps.map List.length = qs.map List.length) :
    ps.flatten.length = qs.flatten.length := by
  rw [List.length_flatten, List.length_flatten, hl]

/-- freshly constructed molecules are well formed -/
theorem NewMol.wf {h h1 : Heap α} {t m : Nat} {rs : List Nat} (n : NewMol h h1 t rs m) :
    ∃ v cs, MolWF h1 m v cs ∧ v.top = t := by
  obtain ⟨name, tops, ps, css, f1, f2, _, f3, rs', ps', hv, hfrs, hfr, hnd, hrd, hlen, _⟩ := n.old
  obtain ⟨hl, _, _⟩ := matchAll_none f3
  refine ⟨_, css.flatten, ⟨hv, ?_, ?_, hnd, hrd⟩, rfl⟩
  · exact (eachOf_congr 0 hlen).symm
  · simp only
    rw [hl, flatten_length_congr hlen]

theorem MolWF.pairs {h : Heap α} {m : Nat} {v : MolView} {cs : List (AtomGroC α)} (w : MolWF h m v cs) :
    Readable h (.mol m) ((v.tops.zip v.gros).map (fun (t, g) => (some t, g))) true cs := by
  have hs : ((v.tops.zip v.gros).map (fun (t, g) => ((some t : Option Nat), g))).map (·.2) = v.gros := by
    rw [List.map_map]
    have : ((fun (x : Option Nat × Nat) => x.2) ∘ fun (x : Nat × Nat) => ((some x.1 : Option Nat), x.2)) = Prod.snd := by
      funext x; rfl
    rw [this, List.map_snd_zip (Nat.le_of_eq w.len.symm)]
  refine ⟨?_, ?_, ?_⟩
  · simp only [collPairs, w.view]
    rw [if_neg (by simpa using w.len)]
  · rw [hs]; exact w.nodup
  · rw [hs]; exact w.cells

theorem readGros_get {h : Heap α} {gs : List Nat} {cs : List (AtomGroC α)}
    (hr : readGros h gs = some cs) {k g : Nat} (hk : gs[k]? = some g) :
    ∃ c, h.gro? g = some c ∧ cs[k]? = some c := by
  induction gs generalizing cs k with
  | nil => simp at hk
  | cons x xs ih =>
    simp only [readGros] at hr
    cases h1 : h.gro? x with
    | none => simp [h1] at hr
    | some c =>
      cases h2 : readGros h xs with
      | none => simp [h1, h2] at hr
      | some cs' =>
        simp only [h1, h2, Option.some.injEq] at hr
        subst hr
        cases k with
        | zero => simp at hk; subst hk; exact ⟨c, h1, rfl⟩
        | succ k =>
          simp at hk
          obtain ⟨c', e1, e2⟩ := ih h2 hk
          exact ⟨c', e1, by simpa using e2⟩

section views
variable [Scalar α]

/-- `mol[k]` (when it does not raise) is the pair (k-th AtomTop, k-th AtomGro in iteration order) -/
theorem getAtom_view {h h' : Heap α} {m k t g : Nat} {v : MolView} {cs : List (AtomGroC α)}
    (w : MolWF h m v cs) (hget : stepOn h (.mol m) (.getAtom 0 k) = ⟨h', some (.atom t g), none⟩) :
    h' = h ∧ v.tops[k]? = some t ∧ v.gros[k]? = some g := by
  simp only [stepOn, w.view] at hget
  have hg : v.gros = v.parts.flatten := (molView_gros w.view).1
  cases e2 : molItem v k with
  | error e => simp [e2] at hget
  | ok tg =>
    obtain ⟨t0, g0⟩ := tg
    simp only [e2] at hget
    cases e3 : matchErr h t0 g0 with
    | some e => simp [e3] at hget
    | none =>
      simp only [e3, StepR.mk.injEq, Option.some.injEq, Obj.atom.injEq, and_true] at hget
      obtain ⟨rfl, rfl, rfl⟩ := hget
      have hk : k < v.parts.flatten.length := by
        -- molItem succeeded, so `each[k]` exists; each has as many entries as atoms
        unfold molItem at e2
        cases e4 : v.each[k]? with
        | none => simp [e4] at e2
        | some ri =>
          have : k < v.each.length := by
            have := List.getElem?_eq_some_iff.mp e4
            exact this.1
          rw [w.each] at this
          have hlen : ∀ (s : Nat) (ps : List (List Nat)), (eachOf s ps).length = ps.flatten.length := by
            intro s ps
            induction ps generalizing s with
            | nil => rfl
            | cons p ps ih => simp [eachOf, ih]
          rw [hlen] at this
          exact this
      obtain ⟨t1, g1, a1, a2, a3⟩ := molItem_eq w.each hk (by rw [← hg]; exact w.len)
      rw [e2] at a3
      injection a3 with a3
      injection a3 with a3 a4
      subst a3; subst a4
      exact ⟨rfl, a1, by rw [hg]; exact a2⟩

/-- the k-th `Atom` yielded by iteration is the same pair -/
theorem iterAtom_view {h h' : Heap α} {m k t g : Nat} {v : MolView} {cs : List (AtomGroC α)}
    (w : MolWF h m v cs) (hget : stepOn h (.mol m) (.iterAtom 0 k) = ⟨h', some (.atom t g), none⟩) :
    h' = h ∧ v.tops[k]? = some t ∧ v.gros[k]? = some g := by
  simp only [stepOn, w.view] at hget
  rw [if_neg (by simpa using w.len)] at hget
  cases e2 : iterCheck h (v.tops.zip v.gros) k with
  | some e => simp [e2] at hget
  | none =>
    simp only [e2] at hget
    cases e3 : (v.tops.zip v.gros)[k]? with
    | none => simp [e3] at hget
    | some tg =>
      obtain ⟨t0, g0⟩ := tg
      simp only [e3, StepR.mk.injEq, Option.some.injEq, Obj.atom.injEq, and_true] at hget
      obtain ⟨rfl, rfl, rfl⟩ := hget
      rw [List.getElem?_zip_eq_some] at e3
      exact ⟨rfl, e3.1, e3.2⟩

/-- assigning an AtomGro attribute through an `Atom` view of the k-th atom rewrites exactly the
    k-th AtomGro record of the molecule -/
theorem setAttr_view {h : Heap α} {m k t g : Nat} {v : MolView} {cs : List (AtomGroC α)}
    (w : MolWF h m v cs) (hg : v.gros[k]? = some g) (a : AttrVal α) (f : AtomGroC α → AtomGroC α)
    (hf : a.fg = some f) :
    ∃ c, cs[k]? = some c ∧
      MolWF (setAttr h (.atom t g) a).1 m v (cs.set k (f c)) := by
  obtain ⟨c, hc, hck⟩ := readGros_get w.cells hg
  refine ⟨c, hck, ?_⟩
  have fr := frame_setAttr h (.atom t g) a
  have hgro : (setAttr h (.atom t g) a).1.gro? g = some (f c) := by
    simp only [setAttr, hf]
    rw [Heap.gro?_modGro_self]
    cases a.ft with
    | none => simp [hc]
    | some ft => simp [Heap.gro?_modTop, hc]
  have hrest : ∀ g' ∈ v.gros, g' ≠ g → (setAttr h (.atom t g) a).1.gro? g' = h.gro? g' := by
    intro g' _ hne
    simp only [setAttr, hf]
    rw [Heap.gro?_modGro_ne _ _ hne]
    cases a.ft with
    | none => rfl
    | some ft => simp [Heap.gro?_modTop]
  exact ⟨fr.molView w.view, w.each, w.len, w.nodup,
    readGros_update w.nodup hg w.cells hgro hrest⟩

end views

theorem mkW_tops {β : Type} (pairs : List (Option Nat × Nat)) (vals : List β)
    (fg : β → AtomGroC α → AtomGroC α) (ft : β → Option (AtomTopC → AtomTopC))
    (hl : vals.length = pairs.length) :
    (mkW pairs vals fg ft).map (·.top) = pairs.map (·.1) := by
  induction pairs generalizing vals with
  | nil => simp [mkW]
  | cons p ps ih =>
    cases vals with
    | nil => simp at hl
    | cons v vs =>
      simp only [List.length_cons, Nat.add_right_cancel_iff] at hl
      have := ih vs hl
      simp only [mkW, List.zip_cons_cons, List.map_cons] at this ⊢
      rw [this]

/-- `mol.resnames = s` on a well-formed molecule that did not raise: every AtomTop of the molecule
    now carries the residue name `s` -/
theorem setResnamesStr_tops {h : Heap α} {m : Nat} {v : MolView} {cs : List (AtomGroC α)}
    (w : MolWF h m v cs) (htops : ∀ t ∈ v.tops, ∃ c, h.top? t = some c) (s : String)
    (hok : (setResnamesStr h (.mol m) s).2 = none) :
    ∀ t ∈ v.tops, ∃ tc, (setResnamesStr h (.mol m) s).1.top? t = some tc ∧ tc.resname = s := by
  have rd := w.pairs
  unfold setResnamesStr at hok ⊢
  simp only [rd.hpairs] at hok ⊢
  simp only [↓reduceIte] at hok ⊢
  rw [applyW_ok hok]
  intro t ht
  obtain ⟨c, hc⟩ := htops t ht
  let pairs := (v.tops.zip v.gros).map (fun (t, g) => ((some t : Option Nat), g))
  let F : AtomTopC → AtomTopC := fun t => { t with resname := s }
  have hl : (pairs.map (fun _ => s)).length = pairs.length := by simp
  have key := (foldl_write_top_P (fun c => c.resname = s) F (fun _ => rfl)
    (mkW pairs (pairs.map (fun _ => s)) (fun s g => { g with resname := s })
      (fun s => some (fun t => { t with resname := s })))
    (by
      intro w' hw'
      obtain ⟨p, _, x, hx, rfl⟩ := mkW_mem hw'
      simp only [List.mem_map] at hx
      obtain ⟨_, _, rfl⟩ := hx
      exact Or.inl rfl) h).2
  -- the write that hits `t`
  have htop : (some t : Option Nat) ∈ (mkW pairs (pairs.map (fun _ => s))
      (fun s g => ({ g with resname := s } : AtomGroC α))
      (fun s => some (fun t => { t with resname := s }))).map (·.top) := by
    rw [mkW_tops _ _ _ _ hl]
    have : pairs.map (·.1) = v.tops.map some := by
      show ((v.tops.zip v.gros).map _).map _ = _
      rw [List.map_map]
      have e : ((fun (x : Option Nat × Nat) => x.1) ∘ fun (x : Nat × Nat) => ((some x.1 : Option Nat), x.2)) =
          some ∘ Prod.fst := by funext x; rfl
      rw [e, ← List.map_map, List.map_fst_zip (Nat.le_of_eq w.len)]
    rw [this]
    exact List.mem_map.mpr ⟨t, ht, rfl⟩
  obtain ⟨w', hw', hwt⟩ := List.mem_map.mp htop
  have hft : w'.ft = some F := by
    obtain ⟨p, _, x, hx, rfl⟩ := mkW_mem hw'
    simp only [List.mem_map] at hx
    obtain ⟨_, _, rfl⟩ := hx
    rfl
  exact key w' hw' t hwt hft c hc

end GMHeap
