import GMProofs.Lemmas.SysGroL
import GMProofs.Lemmas.GroSessionL
import GMModel.SysGroBytes
/-
  GMProofs.Lemmas.SysGroBytesL — glue between the byte-level reader (C13) and the view (C12).
-/

namespace SGro
open PyStr Gro GroL

theorem ofNat_toNat_small (n : Nat) (hn : n < 128) : (Char.ofNat n).toNat = n := by
  have hv : n.isValidChar := Or.inl (by omega)
  unfold Char.ofNat
  rw [dif_pos hv]
  simp [Char.ofNatAux, Char.toNat, UInt32.toNat_ofNatLT]

/-- on ASCII text the conversion of character codes to characters loses nothing -/
theorem strOfCodes_inj : ∀ (a b : List Nat), (∀ c ∈ a, c < 128) → (∀ c ∈ b, c < 128) →
    strOfCodes a = strOfCodes b → a = b
  | [], [], _, _, _ => rfl
  | [], _ :: _, _, _, h => by simp [strOfCodes] at h
  | _ :: _, [], _, _, h => by simp [strOfCodes] at h
  | x :: a, y :: b, ha, hb, h => by
    simp only [strOfCodes, List.map_cons, List.cons.injEq] at h
    have hxy : x = y := by
      have := congrArg Char.toNat h.1
      rwa [ofNat_toNat_small x (ha x (by simp)), ofNat_toNat_small y (hb y (by simp))] at this
    rw [hxy, strOfCodes_inj a b (fun c hc => ha c (by simp [hc])) (fun c hc => hb c (by simp [hc])) h.2]

/-- the written records as the view sees them: number modulo 100000, names verbatim, payload = position
    in the written list -/
def writtenAtoms : Nat → List Rec → List AtomRec
  | _, [] => []
  | i, r :: rs => ⟨r.resnum % 100000, strOfCodes r.resname, strOfCodes r.name, i⟩ :: writtenAtoms (i + 1) rs

theorem atomsFrom_roundRec (d : Nat) : ∀ (l : List Rec) (i : Nat),
    atomsFrom i (l.map (roundRec d)) = writtenAtoms i l
  | [], _ => rfl
  | r :: rs, i => by
    simp only [List.map_cons, atomsFrom, writtenAtoms, atomsFrom_roundRec d rs]
    rfl

theorem writtenAtoms_length : ∀ (l : List Rec) (i : Nat), (writtenAtoms i l).length = l.length
  | [], _ => rfl
  | _ :: rs, i => by simp [writtenAtoms, writtenAtoms_length rs]

/-- an atom of `writtenAtoms` knows its place: its payload indexes the written record it came from -/
theorem writtenAtoms_mem : ∀ (l : List Rec) (i : Nat) (a : AtomRec), a ∈ writtenAtoms i l →
    i ≤ a.data ∧ ∃ r, l[a.data - i]? = some r ∧ a.resid = r.resnum % 100000 ∧
      a.resname = strOfCodes r.resname ∧ a.name = strOfCodes r.name
  | [], _, _, h => by cases h
  | r :: rs, i, a, h => by
    simp only [writtenAtoms, List.mem_cons] at h
    rcases h with rfl | h
    · exact ⟨Nat.le_refl _, r, by simp, rfl, rfl, rfl⟩
    · obtain ⟨h1, r', h2, h3⟩ := writtenAtoms_mem rs (i + 1) a h
      refine ⟨by omega, r', ?_, h3⟩
      have : a.data - i = (a.data - (i + 1)) + 1 := by omega
      rw [this, List.getElem?_cons_succ]; exact h2

section Congr
variable {κ1 κ2 : Type} (k1 : AtomRec → κ1) (k2 : AtomRec → κ2)

theorem AdjDiffer.congr {recs : List AtomRec}
    (h : ∀ a ∈ recs, ∀ b ∈ recs, (k1 a = k1 b ↔ k2 a = k2 b)) :
    ∀ (gs : List (List AtomRec)), (∀ g ∈ gs, ∀ x ∈ g, x ∈ recs) → AdjDiffer k1 gs → AdjDiffer k2 gs
  | [], _, _ => trivial
  | [_], _, _ => trivial
  | g :: g' :: rest, hm, hadj => by
    refine ⟨?_, AdjDiffer.congr h (g' :: rest) (fun x hx => hm x (by simp [hx])) hadj.2⟩
    intro x hx y hy e
    exact hadj.1 x hx y hy ((h x (hm g (by simp) x hx) y (hm g' (by simp) y hy)).mpr e)

/-- two keys that identify the same records give the same run decomposition -/
theorem IsRunDecomp.congr {recs : List AtomRec} {gs : List (List AtomRec)}
    (h : ∀ a ∈ recs, ∀ b ∈ recs, (k1 a = k1 b ↔ k2 a = k2 b)) (hd : IsRunDecomp k1 recs gs) :
    IsRunDecomp k2 recs gs := by
  have hm : ∀ g ∈ gs, ∀ x ∈ g, x ∈ recs := by
    intro g hg x hx
    rw [← hd.flatten]
    exact List.mem_flatten.mpr ⟨g, hg, hx⟩
  refine ⟨hd.flatten, ?_, AdjDiffer.congr k1 k2 h gs hm hd.adj⟩
  intro g hg
  obtain ⟨hne, hu⟩ := hd.uniform g hg
  exact ⟨hne, fun x hx y hy => (h x (hm g hg x hx) y (hm g hg y hy)).mp (hu x hx y hy)⟩

end Congr

/-- the residue key of the written record an atom came from: (number modulo 100000, name) -/
def writtenKey (l : List Rec) (a : AtomRec) : Option (Int × List Nat) :=
  (l[a.data]?).map (fun r => (r.resnum % 100000, r.resname))

/-- for ASCII residue names, the view's key (number, name) of the atoms of a written file and the key of
    the written records they came from identify the same atoms -/
theorem reskey_iff_writtenKey (l : List Rec) (hascii : ∀ r ∈ l, ∀ c ∈ r.resname, c < 128)
    (a : AtomRec) (ha : a ∈ writtenAtoms 0 l) (b : AtomRec) (hb : b ∈ writtenAtoms 0 l) :
    a.reskey = b.reskey ↔ writtenKey l a = writtenKey l b := by
  obtain ⟨_, ra, hra, ha1, ha2, _⟩ := writtenAtoms_mem l 0 a ha
  obtain ⟨_, rb, hrb, hb1, hb2, _⟩ := writtenAtoms_mem l 0 b hb
  simp only [Nat.sub_zero] at hra hrb
  have hma : ra ∈ l := List.mem_of_getElem? hra
  have hmb : rb ∈ l := List.mem_of_getElem? hrb
  unfold writtenKey AtomRec.reskey
  rw [hra, hrb, ha1, ha2, hb1, hb2]
  simp only [Option.map_some, Option.some.injEq, Prod.mk.injEq]
  constructor
  · rintro ⟨h1, h2⟩
    exact ⟨h1, strOfCodes_inj _ _ (hascii ra hma) (hascii rb hmb) h2⟩
  · rintro ⟨h1, h2⟩
    exact ⟨h1, by rw [h2]⟩

end SGro
