import GMProofs.Lemmas.HeapFrame
/-
  GMProofs.Lemmas.HeapAlloc — the copying constructors: what they allocate (always fresh
  addresses), what the new cells contain, and that nothing else changes.
-/

namespace GMHeap

variable {α : Type}

/-! ### reading lists of cells -/

theorem readGros_frame {R : Rel α} {W : Nat → Prop} {h h' : Heap α} (f : Frame R W h h')
    {gs : List Nat} {cs : List (AtomGroC α)} (hr : readGros h gs = some cs) (hw : ∀ g ∈ gs, ¬ W g) :
    readGros h' gs = some cs := by
  induction gs generalizing cs with
  | nil => simpa [readGros] using hr
  | cons g gs ih =>
    simp only [readGros] at hr ⊢
    cases h1 : h.gro? g with
    | none => simp [h1] at hr
    | some c =>
      cases h2 : readGros h gs with
      | none => simp [h1, h2] at hr
      | some cs' =>
        simp only [h1, h2] at hr
        have hc := Heap.gro?_eq_some.mp h1
        have : h'.gro? g = some c := by
          apply Heap.gro?_eq_some.mpr
          rw [f.same g (Heap.lt_size_of_get? hc) (hw g (List.mem_cons_self ..))]
          exact hc
        simp only [this, ih h2 (fun x hx => hw x (List.mem_cons_of_mem _ hx))]
        exact hr

theorem readTops_frame {R : Rel α} {W : Nat → Prop} {h h' : Heap α} (f : Frame R W h h')
    {ts : List Nat} {cs : List AtomTopC} (hr : readTops h ts = some cs) (hw : ∀ g ∈ ts, ¬ W g) :
    readTops h' ts = some cs := by
  induction ts generalizing cs with
  | nil => simpa [readTops] using hr
  | cons g gs ih =>
    simp only [readTops] at hr ⊢
    cases h1 : h.top? g with
    | none => simp [h1] at hr
    | some c =>
      cases h2 : readTops h gs with
      | none => simp [h1, h2] at hr
      | some cs' =>
        simp only [h1, h2] at hr
        have hc := Heap.top?_eq_some.mp h1
        have : h'.top? g = some c := by
          apply Heap.top?_eq_some.mpr
          rw [f.same g (Heap.lt_size_of_get? hc) (hw g (List.mem_cons_self ..))]
          exact hc
        simp only [this, ih h2 (fun x hx => hw x (List.mem_cons_of_mem _ hx))]
        exact hr

theorem readGros_mem {h : Heap α} {gs : List Nat} {cs : List (AtomGroC α)}
    (hr : readGros h gs = some cs) : ∀ g ∈ gs, ∃ c, h.gro? g = some c := by
  induction gs generalizing cs with
  | nil => intro g hg; cases hg
  | cons g gs ih =>
    simp only [readGros] at hr
    cases h1 : h.gro? g with
    | none => simp [h1] at hr
    | some c =>
      cases h2 : readGros h gs with
      | none => simp [h1, h2] at hr
      | some cs' =>
        intro x hx
        rcases List.mem_cons.mp hx with rfl | hx
        · exact ⟨c, h1⟩
        · exact ih h2 x hx

theorem readTops_mem {h : Heap α} {ts : List Nat} {cs : List AtomTopC}
    (hr : readTops h ts = some cs) : ∀ g ∈ ts, ∃ c, h.top? g = some c := by
  induction ts generalizing cs with
  | nil => intro g hg; cases hg
  | cons g gs ih =>
    simp only [readTops] at hr
    cases h1 : h.top? g with
    | none => simp [h1] at hr
    | some c =>
      cases h2 : readTops h gs with
      | none => simp [h1, h2] at hr
      | some cs' =>
        intro x hx
        rcases List.mem_cons.mp hx with rfl | hx
        · exact ⟨c, h1⟩
        · exact ih h2 x hx

theorem readRess_mem {h : Heap α} {rs : List Nat} {ps : List (List Nat)}
    (hr : readRess h rs = some ps) : ∀ r ∈ rs, ∃ l, h.res? r = some l := by
  induction rs generalizing ps with
  | nil => intro g hg; cases hg
  | cons g gs ih =>
    simp only [readRess] at hr
    cases h1 : h.res? g with
    | none => simp [h1] at hr
    | some c =>
      cases h2 : readRess h gs with
      | none => simp [h1, h2] at hr
      | some cs' =>
        intro x hx
        rcases List.mem_cons.mp hx with rfl | hx
        · exact ⟨c, h1⟩
        · exact ih h2 x hx

theorem readGros_length {h : Heap α} {gs : List Nat} {cs : List (AtomGroC α)}
    (hr : readGros h gs = some cs) : cs.length = gs.length := by
  induction gs generalizing cs with
  | nil => simp [readGros] at hr; subst hr; rfl
  | cons g gs ih =>
    simp only [readGros] at hr
    cases h1 : h.gro? g with
    | none => simp [h1] at hr
    | some c =>
      cases h2 : readGros h gs with
      | none => simp [h1, h2] at hr
      | some cs' =>
        simp only [h1, h2, Option.some.injEq] at hr
        subst hr
        simp [ih h2]

theorem readGros_append {h : Heap α} {a b : List Nat} {ca cb : List (AtomGroC α)}
    (ha : readGros h a = some ca) (hb : readGros h b = some cb) :
    readGros h (a ++ b) = some (ca ++ cb) := by
  induction a generalizing ca with
  | nil => simp [readGros] at ha; subst ha; simpa using hb
  | cons g gs ih =>
    simp only [readGros] at ha
    cases h1 : h.gro? g with
    | none => simp [h1] at ha
    | some c =>
      cases h2 : readGros h gs with
      | none => simp [h1, h2] at ha
      | some cs' =>
        simp only [h1, h2, Option.some.injEq] at ha
        subst ha
        simp [readGros, h1, ih h2]

/-! ### allocation -/

theorem allocList_size (h : Heap α) (cs : List (Cell α)) :
    (h.allocList cs).1.size = h.size + cs.length := by
  induction cs generalizing h with
  | nil => rfl
  | cons c cs ih => simp only [Heap.allocList, ih, Heap.size_alloc, List.length_cons]; omega

theorem allocList_fresh (h : Heap α) (cs : List (Cell α)) :
    ∀ a ∈ (h.allocList cs).2, h.size ≤ a ∧ a < (h.allocList cs).1.size := by
  induction cs generalizing h with
  | nil => intro a ha; cases ha
  | cons c cs ih =>
    intro a ha
    simp only [Heap.allocList] at ha ⊢
    rcases List.mem_cons.mp ha with rfl | ha
    · have := allocList_size (h.alloc c).1 cs
      simp only [Heap.size_alloc] at this
      simp only [Heap.alloc_snd]
      omega
    · have := ih (h.alloc c).1 a ha
      simp only [Heap.size_alloc] at this
      omega

theorem allocList_nodup (h : Heap α) (cs : List (Cell α)) : (h.allocList cs).2.Nodup := by
  induction cs generalizing h with
  | nil => exact List.nodup_nil
  | cons c cs ih =>
    simp only [Heap.allocList]
    refine List.nodup_cons.mpr ⟨?_, ih _⟩
    intro hm
    have := (allocList_fresh (h.alloc c).1 cs _ hm).1
    simp only [Heap.size_alloc, Heap.alloc_snd] at this
    omega

theorem allocList_length (h : Heap α) (cs : List (Cell α)) : (h.allocList cs).2.length = cs.length := by
  induction cs generalizing h with
  | nil => rfl
  | cons c cs ih => simp [Heap.allocList, ih]

theorem allocList_readGros (h : Heap α) (gs : List (AtomGroC α)) :
    readGros (h.allocList (gs.map Cell.gro)).1 (h.allocList (gs.map Cell.gro)).2 = some gs := by
  induction gs generalizing h with
  | nil => rfl
  | cons g gs ih =>
    simp only [List.map_cons, Heap.allocList, readGros, ih]
    have f := frame_allocList (Rel.any : Rel α) (h.alloc (.gro g)).1 (gs.map Cell.gro)
    have h1 : (h.alloc (.gro g)).1.get? h.size = some (.gro g) := by
      rw [Heap.get?_alloc, if_pos rfl]
    have : ((h.alloc (.gro g)).1.allocList (gs.map Cell.gro)).1.gro? (h.alloc (.gro g)).2 = some g := by
      apply Heap.gro?_eq_some.mpr
      rw [Heap.alloc_snd, f.same h.size (by simp) (fun w => w)]
      exact h1
    rw [Heap.alloc_snd] at this
    simp only [Heap.alloc_snd, this]

theorem allocList_readTops (h : Heap α) (ts : List AtomTopC) :
    readTops (h.allocList (ts.map Cell.top)).1 (h.allocList (ts.map Cell.top)).2 = some ts := by
  induction ts generalizing h with
  | nil => rfl
  | cons g gs ih =>
    simp only [List.map_cons, Heap.allocList, readTops, ih]
    have f := frame_allocList (Rel.any : Rel α) (h.alloc (.top g)).1 (gs.map Cell.top)
    have h1 : (h.alloc (.top g)).1.get? h.size = some (.top g) := by
      rw [Heap.get?_alloc, if_pos rfl]
    have : ((h.alloc (.top g)).1.allocList (gs.map Cell.top)).1.top? (h.alloc (.top g)).2 = some g := by
      apply Heap.top?_eq_some.mpr
      rw [Heap.alloc_snd, f.same h.size (by simp) (fun w => w)]
      exact h1
    rw [Heap.alloc_snd] at this
    simp only [Heap.alloc_snd, this]

/-- facts about one freshly built Residue (`Residue.copy()` or a residue read from a file) -/
structure NewRes (h h1 : Heap α) (a : Nat) (cs : List (AtomGroC α)) : Prop where
  frame : ∀ R : Rel α, Frame R NoW h h1
  fresh : h.size ≤ a ∧ a < h1.size
  cell : ∃ as, h1.res? a = some as ∧ (∀ x ∈ as, h.size ≤ x ∧ x < h1.size) ∧ as.Nodup ∧
    readGros h1 as = some cs
  init : residueInitErr cs = none

theorem newRes_of_alloc (h : Heap α) (cs : List (AtomGroC α)) (hi : residueInitErr cs = none) :
    NewRes h ((h.allocList (cs.map Cell.gro)).1.alloc (.res (h.allocList (cs.map Cell.gro)).2)).1
      ((h.allocList (cs.map Cell.gro)).1.alloc (.res (h.allocList (cs.map Cell.gro)).2)).2 cs := by
  have hsz := allocList_size h (cs.map Cell.gro)
  refine ⟨fun R => (frame_allocList R h _).trans' (frame_alloc R _ _), ?_, ?_, hi⟩
  · simp only [Heap.alloc_snd, Heap.size_alloc]; omega
  · refine ⟨(h.allocList (cs.map Cell.gro)).2, ?_, ?_, allocList_nodup _ _, ?_⟩
    · apply Heap.res?_eq_some.mpr
      rw [Heap.alloc_snd, Heap.get?_alloc, if_pos rfl]
    · intro x hx
      have := allocList_fresh h _ x hx
      simp only [Heap.size_alloc]; omega
    · refine readGros_frame (frame_alloc Rel.any _ _) (allocList_readGros h cs) (fun _ _ w => w)

theorem copyResidue_spec {h h1 : Heap α} {r a : Nat} (hc : copyResidue h r = .ok (h1, a)) :
    ∃ gs cs, h.res? r = some gs ∧ readGros h gs = some cs ∧ NewRes h h1 a cs := by
  unfold copyResidue at hc
  cases hr : h.res? r with
  | none => simp [hr] at hc
  | some gs =>
    simp only [hr] at hc
    cases hg : readGros h gs with
    | none => simp [hg] at hc
    | some cs =>
      simp only [hg] at hc
      cases hi : residueInitErr cs with
      | some e => simp [hi] at hc
      | none =>
        simp only [hi] at hc
        injection hc with hc
        have := newRes_of_alloc h cs hi
        have e1 : h1 = ((h.allocList (cs.map Cell.gro)).1.alloc (.res (h.allocList (cs.map Cell.gro)).2)).1 :=
          (congrArg Prod.fst hc).symm
        have e2 : a = ((h.allocList (cs.map Cell.gro)).1.alloc (.res (h.allocList (cs.map Cell.gro)).2)).2 :=
          (congrArg Prod.snd hc).symm
        rw [e1, e2]
        exact ⟨gs, cs, rfl, hg, this⟩

/-- facts about a list of freshly built residues -/
structure NewRess (h h1 : Heap α) (as : List Nat) (css : List (List (AtomGroC α))) : Prop where
  frame : ∀ R : Rel α, Frame R NoW h h1
  fresh : ∀ a ∈ as, h.size ≤ a ∧ a < h1.size
  parts : ∃ ps, readRess h1 as = some ps ∧ (∀ x ∈ ps.flatten, h.size ≤ x ∧ x < h1.size) ∧
    ps.flatten.Nodup ∧ readGros h1 ps.flatten = some css.flatten ∧
    ps.map List.length = css.map List.length
  init : ∀ cs ∈ css, residueInitErr cs = none

theorem NewRess.nil (h : Heap α) : NewRess h h [] [] := by
  refine ⟨fun R => Frame.refl R _ h, ?_, ⟨[], rfl, ?_, List.nodup_nil, rfl, rfl⟩, ?_⟩
  · intro a ha; cases ha
  · intro x hx; simp at hx
  · intro c hc; cases hc

theorem NewRess.cons {h h1 h2 : Heap α} {a : Nat} {cs : List (AtomGroC α)} {as : List Nat}
    {css : List (List (AtomGroC α))} (n1 : NewRes h h1 a cs) (n2 : NewRess h1 h2 as css) :
    NewRess h h2 (a :: as) (cs :: css) := by
  have hle : h.size ≤ h1.size := (n1.frame Rel.any).size_le
  have hle2 : h1.size ≤ h2.size := (n2.frame Rel.any).size_le
  obtain ⟨as1, hres, hfr1, hnd1, hrd1⟩ := n1.cell
  obtain ⟨ps, hps, hfr2, hnd2, hrd2, hlen2⟩ := n2.parts
  refine ⟨fun R => (n1.frame R).trans' (n2.frame R), ?_, ?_, ?_⟩
  · intro x hx
    rcases List.mem_cons.mp hx with rfl | hx
    · exact ⟨n1.fresh.1, Nat.lt_of_lt_of_le n1.fresh.2 hle2⟩
    · have := n2.fresh x hx
      exact ⟨Nat.le_trans hle this.1, this.2⟩
  · refine ⟨as1 :: ps, ?_, ?_, ?_, ?_, ?_⟩
    · simp only [readRess, (n2.frame Rel.any).res? hres, hps]
    · intro x hx
      simp only [List.flatten_cons, List.mem_append] at hx
      rcases hx with hx | hx
      · have := hfr1 x hx
        exact ⟨this.1, Nat.lt_of_lt_of_le this.2 hle2⟩
      · have := hfr2 x hx
        exact ⟨Nat.le_trans hle this.1, this.2⟩
    · simp only [List.flatten_cons]
      refine List.nodup_append.mpr ⟨hnd1, hnd2, ?_⟩
      intro x hx y hy hxy
      subst hxy
      have a1 := (hfr1 x hx).2
      have a2 := (hfr2 x hy).1
      omega
    · simp only [List.flatten_cons]
      refine readGros_append ?_ hrd2
      exact readGros_frame (n2.frame Rel.any) hrd1 (fun _ _ w => w)
    · simp only [List.map_cons, hlen2, readGros_length hrd1]
  · intro c hc
    rcases List.mem_cons.mp hc with rfl | hc
    · exact n1.init
    · exact n2.init c hc

/-- the AtomGro cells of a list of residues, residue by residue -/
def readGross (h : Heap α) : List (List Nat) → Option (List (List (AtomGroC α)))
  | [] => some []
  | p :: ps =>
    match readGros h p, readGross h ps with
    | some c, some cs => some (c :: cs)
    | _, _ => none

theorem readGros_append_inv {h : Heap α} {a b : List Nat} {c : List (AtomGroC α)}
    (hr : readGros h (a ++ b) = some c) :
    ∃ ca cb, readGros h a = some ca ∧ readGros h b = some cb ∧ c = ca ++ cb := by
  induction a generalizing c with
  | nil => exact ⟨[], c, rfl, by simpa using hr, rfl⟩
  | cons g gs ih =>
    simp only [List.cons_append, readGros] at hr
    cases h1 : h.gro? g with
    | none => simp [h1] at hr
    | some x =>
      cases h2 : readGros h (gs ++ b) with
      | none => simp [h1, h2] at hr
      | some cs' =>
        simp only [h1, h2, Option.some.injEq] at hr
        obtain ⟨ca, cb, e1, e2, e3⟩ := ih h2
        refine ⟨x :: ca, cb, by simp [readGros, h1, e1], e2, ?_⟩
        rw [← hr, e3]; rfl

theorem readGross_of_flatten {h : Heap α} {ps : List (List Nat)} {c : List (AtomGroC α)}
    (hr : readGros h ps.flatten = some c) :
    ∃ css, readGross h ps = some css ∧ css.flatten = c := by
  induction ps generalizing c with
  | nil =>
    simp [readGros] at hr
    exact ⟨[], rfl, by simp [hr]⟩
  | cons p ps ih =>
    simp only [List.flatten_cons] at hr
    obtain ⟨ca, cb, e1, e2, e3⟩ := readGros_append_inv hr
    obtain ⟨css, e4, e5⟩ := ih e2
    exact ⟨ca :: css, by simp [readGross, e1, e4], by simp [e5, e3]⟩

theorem readGross_flatten {h : Heap α} {ps : List (List Nat)} {css : List (List (AtomGroC α))}
    (hr : readGross h ps = some css) :
    readGros h ps.flatten = some css.flatten ∧ ps.map List.length = css.map List.length := by
  induction ps generalizing css with
  | nil => simp [readGross] at hr; subst hr; exact ⟨rfl, rfl⟩
  | cons p ps ih =>
    simp only [readGross] at hr
    cases h1 : readGros h p with
    | none => simp [h1] at hr
    | some c =>
      cases h2 : readGross h ps with
      | none => simp [h1, h2] at hr
      | some cs =>
        simp only [h1, h2, Option.some.injEq] at hr
        subst hr
        obtain ⟨e1, e2⟩ := ih h2
        exact ⟨by simpa using readGros_append h1 e1, by simp [e2, readGros_length h1]⟩

theorem copyResidues_spec {h0 h h1 : Heap α} (f0 : ∀ R : Rel α, Frame R NoW h0 h)
    {rs as : List Nat} {ps : List (List Nat)} {css : List (List (AtomGroC α))}
    (hps : readRess h0 rs = some ps) (hcss : readGross h0 ps = some css)
    (hc : copyResidues h rs = .ok (h1, as)) : NewRess h h1 as css := by
  induction rs generalizing h h1 as ps css with
  | nil =>
    simp only [copyResidues] at hc
    injection hc with hc
    injection hc with e1 e2
    subst e1; subst e2
    simp [readRess] at hps; subst hps
    simp [readGross] at hcss; subst hcss
    exact NewRess.nil h
  | cons r rs ih =>
    simp only [copyResidues] at hc
    cases h1c : copyResidue h r with
    | error e => simp [h1c] at hc
    | ok p =>
      obtain ⟨hh, a⟩ := p
      simp only [h1c] at hc
      cases h2c : copyResidues hh rs with
      | error e => simp [h2c] at hc
      | ok q =>
        obtain ⟨hh2, as'⟩ := q
        simp only [h2c] at hc
        injection hc with hc
        injection hc with e1 e2
        subst e1; subst e2
        -- split the hypotheses about the base heap
        simp only [readRess] at hps
        cases e1 : h0.res? r with
        | none => simp [e1] at hps
        | some p0 =>
          cases e2 : readRess h0 rs with
          | none => simp [e1, e2] at hps
          | some ps0 =>
            simp only [e1, e2, Option.some.injEq] at hps
            subst hps
            simp only [readGross] at hcss
            cases e3 : readGros h0 p0 with
            | none => simp [e3] at hcss
            | some c0 =>
              cases e4 : readGross h0 ps0 with
              | none => simp [e3, e4] at hcss
              | some cs0 =>
                simp only [e3, e4, Option.some.injEq] at hcss
                subst hcss
                obtain ⟨gs, cs, hres, hgs, n1⟩ := copyResidue_spec h1c
                have hres' := (f0 Rel.any).res? e1
                rw [hres] at hres'
                injection hres' with hres'
                subst hres'
                have hgs' := readGros_frame (f0 Rel.any) e3 (fun _ _ w => w)
                rw [hgs] at hgs'
                injection hgs' with hgs'
                subst hgs'
                have n2 := ih (fun R => (f0 R).trans' (n1.frame R)) e2 e4 h2c
                exact NewRess.cons n1 n2

/-- `_molecule_top_and_residues_match` succeeded: both lists were readable -/
theorem matchAll_none {h : Heap α} {tops gros : List Nat} (hm : matchAll h tops gros = none) :
    tops.length = gros.length ∧ (∃ ts, readTops h tops = some ts) ∧ ∃ gs, readGros h gros = some gs := by
  unfold matchAll at hm
  split at hm
  · cases hm
  · rename_i hl
    cases e1 : readTops h tops with
    | none => simp [e1] at hm
    | some ts =>
      cases e2 : readGros h gros with
      | none => simp [e1, e2] at hm
      | some gs => exact ⟨by simpa using hl, ⟨ts, rfl⟩, ⟨gs, rfl⟩⟩

/-- facts about a freshly constructed Molecule -/
structure NewMol (h h1 : Heap α) (t : Nat) (rs : List Nat) (m : Nat) : Prop where
  frame : ∀ R : Rel α, Frame R NoW h h1
  fresh : h.size ≤ m ∧ m < h1.size
  old : ∃ name tops ps css, h.mtop? t = some (name, tops) ∧ readRess h rs = some ps ∧
    readGross h ps = some css ∧ matchAll h tops ps.flatten = none ∧
    ∃ rs' ps', molView h1 m = some ⟨t, name, tops, rs', eachOf 0 ps, ps', ps'.flatten⟩ ∧
      (∀ x ∈ rs', h.size ≤ x ∧ x < h1.size) ∧
      (∀ x ∈ ps'.flatten, h.size ≤ x ∧ x < h1.size) ∧ ps'.flatten.Nodup ∧
      readGros h1 ps'.flatten = some css.flatten ∧ ps'.map List.length = ps.map List.length ∧
      (∀ cs ∈ css, residueInitErr cs = none)

theorem molInit_spec {h h1 : Heap α} {t m : Nat} {rs : List Nat}
    (hc : molInit h t rs = .ok (h1, m)) : NewMol h h1 t rs m := by
  unfold molInit at hc
  cases e1 : h.mtop? t with
  | none => simp [e1] at hc
  | some nt =>
    obtain ⟨name, tops⟩ := nt
    cases e2 : readRess h rs with
    | none => simp [e1, e2] at hc
    | some ps =>
      simp only [e1, e2] at hc
      cases e3 : matchAll h tops ps.flatten with
      | some e => simp [e3] at hc
      | none =>
        simp only [e3] at hc
        cases e4 : copyResidues h rs with
        | error e => simp [e4] at hc
        | ok q =>
          obtain ⟨hh, rs'⟩ := q
          simp only [e4] at hc
          injection hc with hc
          obtain ⟨_, _, ⟨gcs, hg⟩⟩ := matchAll_none e3
          obtain ⟨css, hcss, hfl⟩ := readGross_of_flatten hg
          have n := copyResidues_spec (fun R => Frame.refl R _ h) e2 hcss e4
          obtain ⟨ps', hps', hfr, hnd, hrd, hlen⟩ := n.parts
          have hm : m = hh.size := by
            have := congrArg Prod.snd hc; simpa using this.symm
          have hh1 : h1 = (hh.alloc (.mol t rs' (eachOf 0 ps))).1 := by
            have := congrArg Prod.fst hc; simpa using this.symm
          have fa : ∀ R : Rel α, Frame R NoW hh h1 := fun R => hh1 ▸ frame_alloc R hh _
          have hsz : h1.size = hh.size + 1 := by rw [hh1]; simp
          refine ⟨fun R => (n.frame R).trans' (fa R), ?_, ?_⟩
          · have := (n.frame Rel.any).size_le
            omega
          · refine ⟨name, tops, ps, css, e1, e2, hcss, e3, rs', ps', ?_, ?_, ?_, hnd, ?_, ?_, n.init⟩
            · unfold molView
              have : h1.mol? m = some (t, rs', eachOf 0 ps) := by
                apply Heap.mol?_eq_some.mpr
                rw [hh1, hm, Heap.get?_alloc, if_pos rfl]
              simp only [this, ((n.frame Rel.any).trans' (fa Rel.any)).mtop? e1, (fa Rel.any).readRess hps']
            · intro x hx
              have := n.fresh x hx
              omega
            · intro x hx
              have := hfr x hx
              omega
            · exact readGros_frame (fa Rel.any) hrd (fun _ _ w => w)
            · rw [hlen, (readGross_flatten hcss).2]

end GMHeap

namespace GMHeap

variable {α : Type}

theorem NewMol.view {h h1 : Heap α} {t m : Nat} {rs : List Nat} (n : NewMol h h1 t rs m) :
    ∃ v, molView h1 m = some v ∧ v.top = t ∧ (∃ name, h.mtop? t = some (name, v.tops)) ∧
      (∀ x ∈ v.gros, h.size ≤ x ∧ x < h1.size) ∧ v.gros.Nodup := by
  obtain ⟨name, tops, ps, css, e1, _, _, _, rs', ps', hv, _, hfr, hnd, _, _, _⟩ := n.old
  exact ⟨_, hv, rfl, ⟨name, e1⟩, hfr, hnd⟩

theorem copyTop_spec {h h1 : Heap α} {t t' : Nat} (hc : copyTop h t = .ok (h1, t')) :
    (∀ R : Rel α, Frame R NoW h h1) ∧ h.size ≤ t' ∧
    ∃ name tops ts tops', h.mtop? t = some (name, tops) ∧ readTops h tops = some ts ∧
      h1.mtop? t' = some (name, tops') ∧ readTops h1 tops' = some ts ∧
      (∀ x ∈ tops', h.size ≤ x ∧ x < h1.size) := by
  unfold copyTop at hc
  cases e1 : h.mtop? t with
  | none => simp [e1] at hc
  | some nt =>
    obtain ⟨name, tops⟩ := nt
    simp only [e1] at hc
    cases e2 : readTops h tops with
    | none => simp [e2] at hc
    | some ts =>
      simp only [e2] at hc
      injection hc with hc
      have eh : h1 = ((h.allocList (ts.map Cell.top)).1.alloc (.mtop name (h.allocList (ts.map Cell.top)).2)).1 :=
        (congrArg Prod.fst hc).symm
      have et : t' = (h.allocList (ts.map Cell.top)).1.size := (congrArg Prod.snd hc).symm
      have hsz := allocList_size h (ts.map Cell.top)
      refine ⟨fun R => eh ▸ (frame_allocList R h _).trans' (frame_alloc R _ _), by omega,
        name, tops, ts, (h.allocList (ts.map Cell.top)).2, rfl, e2, ?_, ?_, ?_⟩
      · apply Heap.mtop?_eq_some.mpr
        rw [eh, et, Heap.get?_alloc, if_pos rfl]
      · rw [eh]
        exact readTops_frame (frame_alloc Rel.any _ _) (allocList_readTops h ts) (fun _ _ w => w)
      · intro x hx
        have := allocList_fresh h _ x hx
        rw [eh]; simp only [Heap.size_alloc]; omega

theorem allocResidues_spec {h h1 : Heap α} {css : List (List (AtomGroC α))} {rs : List Nat}
    (hc : allocResidues h css = .ok (h1, rs)) : NewRess h h1 rs css := by
  induction css generalizing h h1 rs with
  | nil =>
    simp only [allocResidues] at hc
    injection hc with hc
    injection hc with e1 e2
    subst e1; subst e2
    exact NewRess.nil h
  | cons cs css ih =>
    simp only [allocResidues] at hc
    cases hi : residueInitErr cs with
    | some e => simp [hi] at hc
    | none =>
      simp only [hi] at hc
      cases e2 : allocResidues ((h.allocList (cs.map Cell.gro)).1.alloc
          (.res (h.allocList (cs.map Cell.gro)).2)).1 css with
      | error e => simp [e2] at hc
      | ok q =>
        obtain ⟨h3, rs'⟩ := q
        simp only [e2] at hc
        injection hc with hc
        injection hc with e3 e4
        subst e3; subst e4
        exact NewRess.cons (newRes_of_alloc h cs hi) (ih e2)

theorem readRess_get {h : Heap α} {rs : List Nat} {ps : List (List Nat)}
    (hr : readRess h rs = some ps) {k r : Nat} (hk : rs[k]? = some r) :
    ∃ l, h.res? r = some l ∧ ps[k]? = some l := by
  induction rs generalizing ps k with
  | nil => simp at hk
  | cons x xs ih =>
    simp only [readRess] at hr
    cases h1 : h.res? x with
    | none => simp [h1] at hr
    | some l =>
      cases h2 : readRess h xs with
      | none => simp [h1, h2] at hr
      | some ls =>
        simp only [h1, h2, Option.some.injEq] at hr
        subst hr
        cases k with
        | zero =>
          simp at hk; subst hk
          exact ⟨l, h1, rfl⟩
        | succ k =>
          simp at hk
          obtain ⟨l', e1, e2⟩ := ih h2 hk
          exact ⟨l', e1, by simpa using e2⟩

theorem mem_flatten_of_get {ps : List (List Nat)} {k : Nat} {l : List Nat} (hl : ps[k]? = some l) :
    ∀ x ∈ l, x ∈ ps.flatten := by
  intro x hx
  exact List.mem_flatten.mpr ⟨l, List.mem_of_getElem? hl, hx⟩

theorem molItem_mem {v : MolView} {k t g : Nat} (hm : molItem v k = .ok (t, g)) :
    t ∈ v.tops ∧ g ∈ v.parts.flatten := by
  unfold molItem at hm
  cases e1 : v.each[k]? with
  | none => simp [e1] at hm
  | some ri =>
    simp only [e1] at hm
    cases e2 : v.tops[k]? with
    | none => simp [e2] at hm
    | some t' =>
      cases e3 : v.parts[ri]? with
      | none => simp [e2, e3] at hm
      | some gs =>
        simp only [e2, e3] at hm
        cases e4 : gs[List.count ri (List.take k v.each)]? with
        | none => simp [e4] at hm
        | some g' =>
          simp only [e4] at hm
          injection hm with hm
          injection hm with a b
          subst a; subst b
          exact ⟨List.mem_of_getElem? e2, mem_flatten_of_get e3 _ (List.mem_of_getElem? e4)⟩

theorem molView_gros {h : Heap α} {m : Nat} {v : MolView} (hv : molView h m = some v) :
    v.gros = v.parts.flatten ∧ readRess h v.residues = some v.parts ∧
      h.mol? m = some (v.top, v.residues, v.each) ∧ h.mtop? v.top = some (v.name, v.tops) := by
  unfold molView at hv
  cases h1 : h.mol? m with
  | none => simp [h1] at hv
  | some p =>
    obtain ⟨t, rs, e⟩ := p
    simp only [h1] at hv
    cases h2 : h.mtop? t with
    | none => simp [h2] at hv
    | some q =>
      cases h3 : readRess h rs with
      | none => simp [h2, h3] at hv
      | some parts =>
        obtain ⟨n, tops⟩ := q
        simp only [h2, h3, Option.some.injEq] at hv
        subst hv
        exact ⟨rfl, h3, rfl, h2⟩

/-- a Molecule cell with readable topology and residues is a valid molecule -/
theorem molView_of_parts {h : Heap α} {m t : Nat} {rs e : List Nat} {name : String} {tops : List Nat}
    {ps : List (List Nat)} (h1 : h.mol? m = some (t, rs, e)) (h2 : h.mtop? t = some (name, tops))
    (h3 : readRess h rs = some ps) : molView h m = some ⟨t, name, tops, rs, e, ps, ps.flatten⟩ := by
  unfold molView
  simp only [h1, h2, h3]

end GMHeap
