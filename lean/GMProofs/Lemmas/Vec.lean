import GMProofs.RealScalar
import GMModel.Frame
/-
  GMProofs.Lemmas.Vec — vector-algebra lemmas over ℝ used by C01–C03, C06, C17–C19.
-/

namespace V3

/-- unit vector (as the polynomial relation `linear_combination` consumes) -/
def Unit1 (n : V3 ℝ) : Prop := n.x * n.x + n.y * n.y + n.z * n.z = 1

theorem ext' {a b : V3 ℝ} (hx : a.x = b.x) (hy : a.y = b.y) (hz : a.z = b.z) : a = b := by
  cases a; cases b; simp_all

theorem norm2_nonneg (a : V3 ℝ) : 0 ≤ a.x * a.x + a.y * a.y + a.z * a.z := by
  nlinarith [mul_self_nonneg a.x, mul_self_nonneg a.y, mul_self_nonneg a.z]

theorem norm_eq (a : V3 ℝ) : V3.norm a = Real.sqrt (a.x * a.x + a.y * a.y + a.z * a.z) := by
  simp only [gm]

theorem norm_nonneg (a : V3 ℝ) : 0 ≤ V3.norm a := by
  rw [norm_eq]; exact Real.sqrt_nonneg _

theorem norm_mul_self (a : V3 ℝ) : V3.norm a * V3.norm a = a.x * a.x + a.y * a.y + a.z * a.z := by
  rw [norm_eq]; exact Real.mul_self_sqrt (norm2_nonneg a)

theorem norm_eq_zero_iff (a : V3 ℝ) : V3.norm a = 0 ↔ a = V3.zero := by
  rw [norm_eq, Real.sqrt_eq_zero (norm2_nonneg a)]
  constructor
  · intro h
    have hx : a.x = 0 := by nlinarith [mul_self_nonneg a.x, mul_self_nonneg a.y, mul_self_nonneg a.z]
    have hy : a.y = 0 := by nlinarith [mul_self_nonneg a.x, mul_self_nonneg a.y, mul_self_nonneg a.z]
    have hz : a.z = 0 := by nlinarith [mul_self_nonneg a.x, mul_self_nonneg a.y, mul_self_nonneg a.z]
    exact ext' (by simpa [gm] using hx) (by simpa [gm] using hy) (by simpa [gm] using hz)
  · intro h; subst h; simp [gm]

theorem norm_pos {a : V3 ℝ} (h : a ≠ V3.zero) : 0 < V3.norm a :=
  lt_of_le_of_ne (norm_nonneg a) (fun e => h ((norm_eq_zero_iff a).mp e.symm))

/-- `a/‖a‖` is a unit vector when `a ≠ 0` -/
theorem normalize_unit {a : V3 ℝ} (h : V3.norm a ≠ 0) : Unit1 (V3.divs a (V3.norm a)) := by
  have hs := norm_mul_self a
  unfold Unit1
  simp only [V3.divs, RS.div_def]
  rw [div_mul_div_comm, div_mul_div_comm, div_mul_div_comm, ← add_div, ← add_div, hs.symm]
  exact div_self (mul_ne_zero h h)

theorem sub_ne_zero_of_ne {p q : V3 ℝ} (h : p ≠ q) : q - p ≠ V3.zero := by
  intro e
  apply h
  have : q.x - p.x = 0 ∧ q.y - p.y = 0 ∧ q.z - p.z = 0 := by
    simpa [gm] using e
  exact ext' (by linarith [this.1]) (by linarith [this.2.1]) (by linarith [this.2.2])

/-- Lagrange: with `e1`, `e3` unit and orthogonal, `e2 = e3 × e1` completes a right-handed
    orthonormal triple. -/
theorem triple_of_unit_perp {e1 e3 : V3 ℝ} (h1 : Unit1 e1) (h3 : Unit1 e3)
    (h13 : e1.x * e3.x + e1.y * e3.y + e1.z * e3.z = 0) :
    V3.dot (V3.cross e3 e1) (V3.cross e3 e1) = 1 ∧ V3.dot e1 (V3.cross e3 e1) = 0 ∧
    V3.dot (V3.cross e3 e1) e3 = 0 ∧ M3.det ⟨e1, V3.cross e3 e1, e3⟩ = 1 := by
  unfold Unit1 at h1 h3
  simp only [gm]
  refine ⟨?_, ?_, ?_, ?_⟩
  · linear_combination (e1.x*e1.x+e1.y*e1.y+e1.z*e1.z) * h3 + h1 - (e1.x*e3.x+e1.y*e3.y+e1.z*e3.z) * h13
  · ring
  · ring
  · linear_combination (e1.x*e1.x+e1.y*e1.y+e1.z*e1.z) * h3 + h1 - (e1.x*e3.x+e1.y*e3.y+e1.z*e3.z) * h13

end V3
