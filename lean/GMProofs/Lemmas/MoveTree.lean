import GMProofs.Lemmas.MoveWalk
import Mathlib.Logic.Relation
import Mathlib.Data.Finset.Card
import Mathlib.Data.Finset.Prod
import Mathlib.Data.Finset.Image
/-
  GMProofs.Lemmas.MoveTree — graph-theoretic part of C07 (any scalar type):

  * `WellFormed`, `Adj`, `Connected`, `bondCount`, `IsTree` (tree = connected ∧ n−1 undirected bonds)
  * `visits_reachable`  the walk pops every atom reachable from the moved atom (and only those)
  * `no_back`           a bond is never popped in both directions
  * `tree_pushed`       on a tree every table bond is popped in exactly one direction
  * `move_total`        on a well-formed table the call returns (no Python exception, fuel suffices)
-/

set_option linter.unusedSectionVars false

namespace MoveAtom
variable {α : Type} [Scalar α]

/-- the neighbour indices listed under key `i` (`[]` for a missing key) -/
def nbrKeys (bt : BondTable α) (i : Nat) : List Nat :=
  match bt[i]? with
  | some nb => nb.map Prod.fst
  | none => []

/-- `j` is listed as a neighbour of `i` -/
def Adj (bt : BondTable α) (i j : Nat) : Prop := j ∈ nbrKeys bt i

instance (bt : BondTable α) (i j : Nat) : Decidable (Adj bt i j) :=
  inferInstanceAs (Decidable (j ∈ nbrKeys bt i))

theorem adj_iff {bt : BondTable α} {i j : Nat} :
    Adj bt i j ↔ ∃ nb, bt[i]? = some nb ∧ ∃ b, (j, b) ∈ nb := by
  unfold Adj nbrKeys
  cases h : bt[i]? with
  | none => simp
  | some nb =>
    simp only [List.mem_map, Option.some.injEq, exists_eq_left']
    constructor
    · rintro ⟨⟨k, b⟩, hm, rfl⟩; exact ⟨b, hm⟩
    · rintro ⟨b, hm⟩; exact ⟨(j, b), hm, rfl⟩

/-- the bond table describes a simple undirected graph on `0..n-1` with one length per bond:
    one key per atom, no duplicate neighbour under a key, indices in range, no self-bond, and every
    entry `(i → k, b)` has its mirror `(k → i, b)`. -/
structure WellFormed (bt : BondTable α) (n : Nat) : Prop where
  len : bt.length = n
  nodup : ∀ (i : Nat) (nb : List (Nat × α)), bt[i]? = some nb → (nb.map Prod.fst).Nodup
  range : ∀ (i : Nat) (nb : List (Nat × α)), bt[i]? = some nb → ∀ kb ∈ nb, kb.1 < n
  irrefl : ∀ (i : Nat) (nb : List (Nat × α)), bt[i]? = some nb → ∀ kb ∈ nb, kb.1 ≠ i
  symm : ∀ (i : Nat) (nb : List (Nat × α)), bt[i]? = some nb → ∀ kb ∈ nb, ∃ nb', bt[kb.1]? = some nb' ∧ (i, kb.2) ∈ nb'

def Connected (bt : BondTable α) (n : Nat) : Prop :=
  ∀ u, u < n → ∀ v, v < n → Relation.ReflTransGen (Adj bt) u v

/-- number of undirected bonds = number of pairs `i < j < n` with `j` listed under `i` -/
def bondCount (bt : BondTable α) (n : Nat) : Nat :=
  ((Finset.range n ×ˢ Finset.range n).filter (fun p => p.1 < p.2 ∧ Adj bt p.1 p.2)).card

/-- a labelled tree on `n` atoms: well-formed, connected, exactly `n − 1` bonds -/
structure IsTree (bt : BondTable α) (n : Nat) : Prop where
  wf : WellFormed bt n
  conn : Connected bt n
  count : bondCount bt n = n - 1

theorem WellFormed.adj_symm {bt : BondTable α} {n : Nat} (h : WellFormed bt n) {i j : Nat}
    (hij : Adj bt i j) : Adj bt j i := by
  obtain ⟨nb, hnb, b, hb⟩ := adj_iff.mp hij
  obtain ⟨nb', h1, h2⟩ := h.symm i nb hnb (j, b) hb
  exact adj_iff.mpr ⟨nb', h1, b, h2⟩

/-- with a symmetric table it is enough that everything is reachable from one atom -/
theorem connected_of_root {bt : BondTable α} {n : Nat} (h : WellFormed bt n) (r : Nat)
    (hr : ∀ v, v < n → Relation.ReflTransGen (Adj bt) r v) : Connected bt n := by
  intro u hu v hv
  have hback : Relation.ReflTransGen (Adj bt) u r := by
    have := hr u hu
    clear hu
    induction this with
    | refl => exact Relation.ReflTransGen.refl
    | tail _ hbc ih => exact Relation.ReflTransGen.head (h.adj_symm hbc) ih
  exact hback.trans (hr v hv)

/-- a key determines the length -/
theorem len_unique {nb : List (Nat × α)} (hnd : (nb.map Prod.fst).Nodup) {k : Nat} {b b' : α}
    (h1 : (k, b) ∈ nb) (h2 : (k, b') ∈ nb) : b = b' := by
  induction nb with
  | nil => simp at h1
  | cons x rest ih =>
    rw [List.map_cons, List.nodup_cons] at hnd
    rcases List.mem_cons.mp h1 with e1 | e1 <;> rcases List.mem_cons.mp h2 with e2 | e2
    · rw [← e1] at e2; exact (Prod.mk.inj e2).2.symm ▸ rfl
    · exfalso; apply hnd.1; rw [← e1]; exact List.mem_map.mpr ⟨(k, b'), e2, rfl⟩
    · exfalso; apply hnd.1; rw [← e2]; exact List.mem_map.mpr ⟨(k, b), e1, rfl⟩
    · exact ih hnd.2 e1 e2

/-! ### the walk reaches exactly the component of the moved atom -/

/-- every popped atom is reachable from the moved atom -/
theorem reach_of_good {bt : BondTable α} {a : Nat} : ∀ (l : List (Triple α)), Good a l →
    (∀ t ∈ l, ∃ nb, bt[Triple.parent t]? = some nb ∧ (Triple.child t, Triple.len t) ∈ nb) →
    ∀ t ∈ l, Relation.ReflTransGen (Adj bt) a (Triple.child t)
  | [], _, _, t, h => by simp at h
  | x :: rest, hg, hb, t, h => by
    have ih := reach_of_good rest hg.2 (fun t ht => hb t (List.mem_cons_of_mem _ ht))
    rcases List.mem_cons.mp h with e | e
    · subst e
      obtain ⟨nb, h1, h2⟩ := hb t (by simp)
      have hadj : Adj bt (Triple.parent t) (Triple.child t) := adj_iff.mpr ⟨nb, h1, _, h2⟩
      rcases hg.1 with e1 | e1
      · rw [e1] at hadj
        exact Relation.ReflTransGen.single hadj
      · obtain ⟨t', ht', e'⟩ := List.mem_map.mp e1
        have := ih t' ht'
        rw [e'] at this
        exact this.tail hadj
    · exact ih t e

/-- `worklist_visits_reachable`: at the end of the walk (empty queue) every atom reachable from the
    moved atom through listed, in-range neighbours has been popped (or is the moved atom) -/
theorem visits_reachable {n a : Nat} {bt : BondTable α} {s : St α} (h : WInv n a bt s)
    (hq : s.queue = []) (hrange : ∀ (i : Nat) (nb : List (Nat × α)), bt[i]? = some nb → ∀ kb ∈ nb, kb.1 < n) :
    ∀ v, Relation.ReflTransGen (Adj bt) a v → v = a ∨ v ∈ children s.trace := by
  intro v hv
  induction hv with
  | refl => exact Or.inl rfl
  | @tail b c _ hbc ih =>
    obtain ⟨nb, hnb, bb, hmem⟩ := adj_iff.mp hbc
    have hnw : c ∉ s.wait := h.closed b ih nb hnb (c, bb) hmem
    have hc : c < n := hrange b nb hnb (c, bb) hmem
    have : c ∈ a :: (children s.trace ++ (children s.queue ++ s.wait)) :=
      h.perm.symm.subset (List.mem_range.mpr hc)
    rw [hq] at this
    simp only [children_nil, List.nil_append, List.mem_cons, List.mem_append] at this
    rcases this with e | e | e
    · exact Or.inl e
    · exact Or.inr e
    · exact absurd e hnw

/-- on a connected table nothing is left waiting -/
theorem wait_empty {n a : Nat} {bt : BondTable α} {s : St α} (h : WInv n a bt s)
    (hq : s.queue = []) (hrange : ∀ (i : Nat) (nb : List (Nat × α)), bt[i]? = some nb → ∀ kb ∈ nb, kb.1 < n)
    (hconn : ∀ v, v < n → Relation.ReflTransGen (Adj bt) a v) : s.wait = [] := by
  apply List.eq_nil_iff_forall_not_mem.mpr
  intro v hv
  have hlt : v < n := h.lt (by simp [hv])
  have hnd := h.nodup
  rw [hq] at hnd
  simp only [children_nil, List.nil_append] at hnd
  rw [List.nodup_cons, List.nodup_append] at hnd
  rcases visits_reachable h hq hrange v (hconn v hlt) with e | e
  · exact hnd.1 (by rw [← e]; simp [hv])
  · exact hnd.2.2.2 v e v hv rfl

/-! ### no bond is popped in both directions -/

theorem no_back {a : Nat} : ∀ (l : List (Triple α)), Good a l → (a :: children l).Nodup →
    ∀ t ∈ l, ∀ t' ∈ l, ¬ (Triple.parent t = Triple.child t' ∧ Triple.child t = Triple.parent t')
  | [], _, _, t, h, _, _ => by simp at h
  | x :: rest, hg, hnd, t, ht, t', ht' => by
    have hnd' : (a :: children rest).Nodup := by
      simp only [children_cons] at hnd
      rw [List.nodup_cons] at hnd ⊢
      rw [List.nodup_cons] at hnd
      exact ⟨fun e => hnd.1 (List.mem_cons_of_mem _ e), hnd.2.2⟩
    -- the head's child is fresh: neither the root nor an earlier child
    have hfresh : ∀ y, (y = a ∨ y ∈ children rest) → y ≠ Triple.child x := by
      intro y hy e
      simp only [children_cons] at hnd
      rw [List.nodup_cons, List.nodup_cons] at hnd
      rcases hy with e1 | e1
      · apply hnd.1; rw [← e1, e]; simp
      · apply hnd.2.1; rw [← e]; exact e1
    rintro ⟨h1, h2⟩
    rcases List.mem_cons.mp ht with e | e <;> rcases List.mem_cons.mp ht' with e' | e'
    · subst e; subst e'
      exact hfresh _ hg.1 h1
    · subst e
      exact hfresh _ (Good.parent_mem hg.2 t' e') h2.symm
    · subst e'
      exact hfresh _ (Good.parent_mem hg.2 t e) h1
    · exact no_back rest hg.2 hnd' t e t' e' ⟨h1, h2⟩

/-! ### counting: on a tree every bond is popped -/

/-- orient a pair as (smaller, larger) -/
def orient (p : Nat × Nat) : Nat × Nat := if p.1 < p.2 then p else (p.2, p.1)

theorem orient_eq {p q : Nat × Nat} (h : orient p = orient q) : p = q ∨ p = (q.2, q.1) := by
  unfold orient at h
  obtain ⟨p1, p2⟩ := p
  obtain ⟨q1, q2⟩ := q
  simp only at h ⊢
  split_ifs at h <;> simp only [Prod.mk.injEq] at h ⊢ <;> omega

/-- the (parent, child) pairs of the popped items -/
def edgesOf (l : List (Triple α)) : List (Nat × Nat) :=
  l.map (fun t => (Triple.parent t, Triple.child t))

theorem edgesOf_nodup {l : List (Triple α)} (h : (children l).Nodup) : (edgesOf l).Nodup := by
  have : children l = (edgesOf l).map Prod.snd := by simp [children, edgesOf]
  rw [this] at h
  exact List.Nodup.of_map _ h

/-- `tree_all_edges_pushed` (pair form): on a tree, for every listed bond `i — k` some popped item
    joins `i` and `k` (in one of the two directions) -/
theorem tree_pairs {n a : Nat} {bt : BondTable α} {s : St α} (h : WInv n a bt s)
    (hq : s.queue = []) (ht : IsTree bt n) (ha : a < n) :
    s.wait = [] ∧ s.trace.length = n - 1 ∧
    ∀ i k, Adj bt i k → ∃ t ∈ s.trace,
      (Triple.parent t = i ∧ Triple.child t = k) ∨ (Triple.parent t = k ∧ Triple.child t = i) := by
  have hw : s.wait = [] := wait_empty h hq ht.wf.range (fun v hv => ht.conn a ha v hv)
  have hnd := h.nodup
  have hlen := h.perm.length_eq
  rw [hq, hw] at hnd hlen
  simp only [children_nil, List.append_nil] at hnd hlen
  have htl : s.trace.length = n - 1 := by
    simp [children] at hlen
    omega
  refine ⟨hw, htl, ?_⟩
  -- the Finset of popped pairs and the Finset of oriented table bonds
  let D : Finset (Nat × Nat) := (edgesOf s.trace).toFinset
  let U : Finset (Nat × Nat) :=
    (Finset.range n ×ˢ Finset.range n).filter (fun p => p.1 < p.2 ∧ Adj bt p.1 p.2)
  have hDcard : D.card = n - 1 := by
    rw [List.toFinset_card_of_nodup (edgesOf_nodup (List.nodup_cons.mp hnd).2)]
    simp [edgesOf, htl]
  have hDmem : ∀ p, p ∈ D ↔ ∃ t ∈ s.trace, (Triple.parent t, Triple.child t) = p := by
    intro p; simp [D, edgesOf]
  -- facts about a popped pair
  have hfacts : ∀ t ∈ s.trace, Triple.parent t < n ∧ Triple.child t < n ∧
      Triple.parent t ≠ Triple.child t ∧ Adj bt (Triple.parent t) (Triple.child t) := by
    intro t htm
    obtain ⟨nb, h1, h2⟩ := h.bond t (List.mem_append_left _ htm)
    have hadj : Adj bt (Triple.parent t) (Triple.child t) := adj_iff.mpr ⟨nb, h1, _, h2⟩
    refine ⟨?_, ht.wf.range _ nb h1 _ h2, ?_, hadj⟩
    · rcases h.good.parent_mem t htm with e | e
      · rw [e]; exact ha
      · exact h.lt (List.mem_cons_of_mem _ (List.mem_append_left _ e))
    · exact fun e => ht.wf.irrefl _ nb h1 _ h2 e.symm
  have hsub : D.image orient ⊆ U := by
    intro p hp
    obtain ⟨q, hqD, rfl⟩ := Finset.mem_image.mp hp
    obtain ⟨t, htm, rfl⟩ := (hDmem q).mp hqD
    obtain ⟨f1, f2, f3, f4⟩ := hfacts t htm
    simp only [U, Finset.mem_filter, Finset.mem_product, Finset.mem_range, orient]
    split_ifs with hlt
    · exact ⟨⟨f1, f2⟩, hlt, f4⟩
    · exact ⟨⟨f2, f1⟩, by simp only; omega, ht.wf.adj_symm f4⟩
  have hinj : Set.InjOn orient (D : Set (Nat × Nat)) := by
    intro p hp q hq' hpq
    obtain ⟨t, htm, rfl⟩ := (hDmem p).mp hp
    obtain ⟨t', htm', rfl⟩ := (hDmem q).mp hq'
    rcases orient_eq hpq with e | e
    · exact e
    · exfalso
      simp only [Prod.mk.injEq] at e
      exact no_back s.trace h.good hnd t htm t' htm' e
  have hcard : (D.image orient).card = n - 1 := by
    rw [Finset.card_image_of_injOn hinj, hDcard]
  have hUcard : U.card = n - 1 := ht.count
  have heq : D.image orient = U := Finset.eq_of_subset_of_card_le hsub (by rw [hcard, hUcard])
  intro i k hik
  obtain ⟨nb, hnb, b, hb⟩ := adj_iff.mp hik
  have hk : k < n := ht.wf.range i nb hnb _ hb
  have hne : k ≠ i := ht.wf.irrefl i nb hnb _ hb
  have hi : i < n := by
    have := List.getElem?_eq_some_iff.mp hnb
    rw [← ht.wf.len]; exact this.1
  have hmemU : orient (i, k) ∈ U := by
    simp only [U, Finset.mem_filter, Finset.mem_product, Finset.mem_range, orient]
    split_ifs with hlt
    · exact ⟨⟨hi, hk⟩, hlt, hik⟩
    · exact ⟨⟨hk, hi⟩, by simp only; omega, ht.wf.adj_symm hik⟩
  rw [← heq] at hmemU
  obtain ⟨q, hqD, hqe⟩ := Finset.mem_image.mp hmemU
  obtain ⟨t, htm, rfl⟩ := (hDmem q).mp hqD
  refine ⟨t, htm, ?_⟩
  rcases orient_eq hqe with e | e
  · left; simpa using e
  · right; simpa using e

/-- `tree_all_edges_pushed`: on a tree every table entry `(i → k, b)` is popped — as `(i, k, b)` or as
    `(k, i, b)`, never both -/
theorem tree_pushed {n a : Nat} {bt : BondTable α} {s : St α} (h : WInv n a bt s)
    (hq : s.queue = []) (ht : IsTree bt n) (ha : a < n) :
    ∀ (i : Nat) (nb : List (Nat × α)), bt[i]? = some nb → ∀ kb ∈ nb,
      (((i, kb.1, kb.2) : Triple α) ∈ s.trace ∧ ((kb.1, i, kb.2) : Triple α) ∉ s.trace) ∨
      (((kb.1, i, kb.2) : Triple α) ∈ s.trace ∧ ((i, kb.1, kb.2) : Triple α) ∉ s.trace) := by
  intro i nb hnb kb hkb
  obtain ⟨k, b⟩ := kb
  obtain ⟨hw, _, hall⟩ := tree_pairs h hq ht ha
  have hnd := h.nodup
  rw [hq, hw] at hnd
  simp only [children_nil, List.append_nil] at hnd
  have hnb2 : ∀ t t' : Triple α, t ∈ s.trace → t' ∈ s.trace →
      ¬ (Triple.parent t = Triple.child t' ∧ Triple.child t = Triple.parent t') :=
    fun t t' m m' => no_back s.trace h.good hnd t m t' m'
  obtain ⟨t, htm, hdir⟩ := hall i k (adj_iff.mpr ⟨nb, hnb, b, hkb⟩)
  obtain ⟨nbp, hp1, hp2⟩ := h.bond t (List.mem_append_left _ htm)
  obtain ⟨p, c, l⟩ := t
  simp only [parent_mk, child_mk, len_mk] at hdir hp1 hp2
  rcases hdir with ⟨rfl, rfl⟩ | ⟨rfl, rfl⟩
  · -- popped as (i, k, l): l = b since bt[i] lists k once
    rw [hnb] at hp1; cases hp1
    have : l = b := len_unique (ht.wf.nodup _ nb hnb) hp2 hkb
    subst this
    exact Or.inl ⟨htm, fun hm => hnb2 _ _ htm hm ⟨rfl, rfl⟩⟩
  · -- popped as (k, i, l): bt[k] lists (i, l) and, by symmetry, (i, b)
    obtain ⟨nb', h1, h2⟩ := ht.wf.symm c nb hnb (p, b) hkb
    simp only at h1 h2
    rw [hp1] at h1; cases h1
    have : l = b := len_unique (ht.wf.nodup _ nbp hp1) hp2 h2
    subst this
    exact Or.inr ⟨htm, fun hm => hnb2 _ _ htm hm ⟨rfl, rfl⟩⟩

/-! ### totality on well-formed tables -/

/-- on a well-formed table `move_mol_atom` returns: none of the Python exceptions is raised and
    the loop fuel `n` suffices -/
theorem move_total {pos : List (V3 α)} {bt : BondTable α} {a : Nat} (displ : V3 α)
    (hwf : WellFormed bt pos.length) (ha : a < pos.length) :
    ∃ s, moveMolAtomFull pos bt a displ = .ok s := by
  have hpa : pos[a]? = some pos[a] := List.getElem?_eq_getElem ha
  have hbt : bt[a]? = some (bt[a]'(by rw [hwf.len]; exact ha)) := List.getElem?_eq_getElem _
  generalize bt[a]'(by rw [hwf.len]; exact ha) = nb at hbt
  obtain ⟨r, hr⟩ := pushInit_total a nb ((List.range pos.length).erase a) ([] : List (Triple α))
    (hwf.nodup a nb hbt) (by
      intro kb hkb
      exact (List.mem_erase_of_ne (hwf.irrefl a nb hbt kb hkb)).mpr
        (List.mem_range.mpr (hwf.range a nb hbt kb hkb)))
  have hr' := pushInit_ok _ _ _ _ _ hr
  have hinv := init_winv (p1 := pos[a] + displ) ha hbt
  have hfuel : (pushNbrs a nb ((List.range pos.length).erase a) ([] : List (Triple α))).2.length +
      (pushNbrs a nb ((List.range pos.length).erase a) ([] : List (Triple α))).1.length
        ≤ pos.length := by
    have := hinv.perm.length_eq
    simp [children] at this
    omega
  obtain ⟨s, hs⟩ := run_total hwf.len pos.length _ hinv hfuel
  refine ⟨s, ?_⟩
  unfold moveMolAtomFull
  simp only [hpa, if_pos (List.mem_range.mpr ha), hbt, hr, hr']
  exact hs

end MoveAtom
