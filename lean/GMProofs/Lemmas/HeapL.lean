import GMModel.EMapHeap
/-
  GMProofs.Lemmas.HeapL — frame reasoning for the heap model (C18, C04).

  `Frame R W h h'` : `h'` is a successor of `h` in which
    * no cell disappeared (`size` only grows),
    * every cell of `h` outside the write set `W` is literally unchanged,
    * a cell inside `W` kept its kind: Residue / MoleculeTop / Molecule cells are identical
      (they are immutable), an AtomGro cell is related to its old value by `R.g`, an AtomTop
      cell by `R.t`.
  `R` lets the same lemmas give "anything may have been assigned" (C18) and "only the position /
  only the residue number changed" (C04).
-/

namespace GMHeap

variable {α : Type}

/-! ### primitive reads and writes -/

namespace Heap

@[simp] theorem size_alloc (h : Heap α) (c : Cell α) : (h.alloc c).1.size = h.size + 1 := by
  simp [alloc, size]

@[simp] theorem alloc_snd (h : Heap α) (c : Cell α) : (h.alloc c).2 = h.size := rfl

theorem get?_alloc (h : Heap α) (c : Cell α) (a : Nat) :
    (h.alloc c).1.get? a = if a = h.size then some c else h.get? a := by
  show (h.cells.push c)[a]? = _
  rw [Array.getElem?_push]; rfl

theorem get?_alloc_lt (h : Heap α) (c : Cell α) {a : Nat} (ha : a < h.size) :
    (h.alloc c).1.get? a = h.get? a := by
  rw [get?_alloc, if_neg (Nat.ne_of_lt ha)]

@[simp] theorem size_set (h : Heap α) (a : Nat) (c : Cell α) : (h.set a c).size = h.size := by
  simp [set, size]

theorem get?_set (h : Heap α) (a b : Nat) (c : Cell α) :
    (h.set a c).get? b = if a = b then (if a < h.size then some c else none) else h.get? b := by
  show (h.cells.setIfInBounds a c)[b]? = _
  rw [Array.getElem?_setIfInBounds]; rfl

theorem get?_eq_none {h : Heap α} {a : Nat} (ha : h.size ≤ a) : h.get? a = none := by
  simp [get?, size] at *; exact ha

theorem lt_size_of_get? {h : Heap α} {a : Nat} {c : Cell α} (hc : h.get? a = some c) : a < h.size := by
  apply Nat.lt_of_not_le
  intro hn
  rw [get?_eq_none hn] at hc
  cases hc

theorem gro?_eq_some {h : Heap α} {a : Nat} {g : AtomGroC α} :
    h.gro? a = some g ↔ h.get? a = some (.gro g) := by
  unfold gro?
  split <;> simp_all

theorem top?_eq_some {h : Heap α} {a : Nat} {t : AtomTopC} :
    h.top? a = some t ↔ h.get? a = some (.top t) := by
  unfold top?
  split <;> simp_all

theorem res?_eq_some {h : Heap α} {a : Nat} {l : List Nat} :
    h.res? a = some l ↔ h.get? a = some (.res l) := by
  unfold res?
  split <;> simp_all

theorem mtop?_eq_some {h : Heap α} {a : Nat} {n : String} {l : List Nat} :
    h.mtop? a = some (n, l) ↔ h.get? a = some (.mtop n l) := by
  unfold mtop?
  split <;> simp_all

theorem mol?_eq_some {h : Heap α} {a : Nat} {t : Nat} {rs e : List Nat} :
    h.mol? a = some (t, rs, e) ↔ h.get? a = some (.mol t rs e) := by
  unfold mol?
  split <;> simp_all

@[simp] theorem size_modGro (h : Heap α) (a : Nat) (f : AtomGroC α → AtomGroC α) :
    (h.modGro a f).size = h.size := by
  unfold modGro; split <;> simp

@[simp] theorem size_modTop (h : Heap α) (a : Nat) (f : AtomTopC → AtomTopC) :
    (h.modTop a f).size = h.size := by
  unfold modTop; split <;> simp

theorem get?_modGro_ne (h : Heap α) {a b : Nat} (f : AtomGroC α → AtomGroC α) (hab : b ≠ a) :
    (h.modGro a f).get? b = h.get? b := by
  unfold modGro; split
  · rw [get?_set, if_neg (Ne.symm hab)]
  · rfl

theorem get?_modTop_ne (h : Heap α) {a b : Nat} (f : AtomTopC → AtomTopC) (hab : b ≠ a) :
    (h.modTop a f).get? b = h.get? b := by
  unfold modTop; split
  · rw [get?_set, if_neg (Ne.symm hab)]
  · rfl

theorem get?_modGro_self (h : Heap α) (a : Nat) (f : AtomGroC α → AtomGroC α) :
    (h.modGro a f).get? a =
      match h.get? a with
      | some (.gro g) => some (.gro (f g))
      | x => x := by
  unfold modGro
  cases hg : h.gro? a with
  | some g =>
    have hc := gro?_eq_some.mp hg
    simp only [hc]
    rw [get?_set, if_pos rfl, if_pos (lt_size_of_get? hc)]
  | none =>
    simp only
    cases hc : h.get? a with
    | none => rfl
    | some c =>
      cases c with
      | gro g => have := gro?_eq_some.mpr hc; rw [hg] at this; cases this
      | _ => rfl

theorem get?_modTop_self (h : Heap α) (a : Nat) (f : AtomTopC → AtomTopC) :
    (h.modTop a f).get? a =
      match h.get? a with
      | some (.top t) => some (.top (f t))
      | x => x := by
  unfold modTop
  cases hg : h.top? a with
  | some g =>
    have hc := top?_eq_some.mp hg
    simp only [hc]
    rw [get?_set, if_pos rfl, if_pos (lt_size_of_get? hc)]
  | none =>
    simp only
    cases hc : h.get? a with
    | none => rfl
    | some c =>
      cases c with
      | top g => have := top?_eq_some.mpr hc; rw [hg] at this; cases this
      | _ => rfl

theorem gro?_modGro_self (h : Heap α) (a : Nat) (f : AtomGroC α → AtomGroC α) :
    (h.modGro a f).gro? a = (h.gro? a).map f := by
  unfold gro?
  rw [get?_modGro_self]
  cases h.get? a with
  | none => rfl
  | some c => cases c <;> rfl

theorem gro?_modGro_ne (h : Heap α) {a b : Nat} (f : AtomGroC α → AtomGroC α) (hab : b ≠ a) :
    (h.modGro a f).gro? b = h.gro? b := by
  unfold gro?; rw [get?_modGro_ne h f hab]

theorem top?_modTop_self (h : Heap α) (a : Nat) (f : AtomTopC → AtomTopC) :
    (h.modTop a f).top? a = (h.top? a).map f := by
  unfold top?
  rw [get?_modTop_self]
  cases h.get? a with
  | none => rfl
  | some c => cases c <;> rfl

theorem top?_modTop_ne (h : Heap α) {a b : Nat} (f : AtomTopC → AtomTopC) (hab : b ≠ a) :
    (h.modTop a f).top? b = h.top? b := by
  unfold top?; rw [get?_modTop_ne h f hab]

/-- `modGro` never touches an AtomTop (or any non-AtomGro) cell -/
theorem top?_modGro (h : Heap α) (a b : Nat) (f : AtomGroC α → AtomGroC α) :
    (h.modGro a f).top? b = h.top? b := by
  by_cases hab : b = a
  · subst hab
    unfold top?
    rw [get?_modGro_self]
    cases h.get? b with
    | none => rfl
    | some c => cases c <;> rfl
  · unfold top?; rw [get?_modGro_ne h f hab]

theorem gro?_modTop (h : Heap α) (a b : Nat) (f : AtomTopC → AtomTopC) :
    (h.modTop a f).gro? b = h.gro? b := by
  by_cases hab : b = a
  · subst hab
    unfold gro?
    rw [get?_modTop_self]
    cases h.get? b with
    | none => rfl
    | some c => cases c <;> rfl
  · unfold gro?; rw [get?_modTop_ne h f hab]

end Heap

/-! ### frames -/

/-- what may happen to an AtomGro / AtomTop cell that is written -/
structure Rel (α : Type) where
  g : AtomGroC α → AtomGroC α → Prop
  t : AtomTopC → AtomTopC → Prop
  g_refl : ∀ a, g a a
  t_refl : ∀ a, t a a
  g_trans : ∀ a b c, g a b → g b c → g a c
  t_trans : ∀ a b c, t a b → t b c → t a c

/-- anything may be assigned -/
def Rel.any : Rel α := ⟨fun _ _ => True, fun _ _ => True, fun _ => trivial, fun _ => trivial,
  fun _ _ _ _ _ => trivial, fun _ _ _ _ _ => trivial⟩

def CellRel (R : Rel α) : Cell α → Cell α → Prop
  | .gro a, .gro b => R.g a b
  | .top a, .top b => R.t a b
  | .res l, .res l' => l = l'
  | .mtop n l, .mtop n' l' => n = n' ∧ l = l'
  | .mol t r e, .mol t' r' e' => t = t' ∧ r = r' ∧ e = e'
  | _, _ => False

theorem CellRel.refl (R : Rel α) (c : Cell α) : CellRel R c c := by
  cases c <;> simp [CellRel, R.g_refl, R.t_refl]

theorem CellRel.trans (R : Rel α) {a b c : Cell α} (h1 : CellRel R a b) (h2 : CellRel R b c) :
    CellRel R a c := by
  cases a <;> cases b <;> cases c <;> simp_all [CellRel]
  · exact R.g_trans _ _ _ h1 h2
  · exact R.t_trans _ _ _ h1 h2

structure Frame (R : Rel α) (W : Nat → Prop) (h h' : Heap α) : Prop where
  size_le : h.size ≤ h'.size
  same : ∀ a, a < h.size → ¬ W a → h'.get? a = h.get? a
  rel : ∀ a c, h.get? a = some c → ∃ c', h'.get? a = some c' ∧ CellRel R c c'

theorem Frame.refl (R : Rel α) (W : Nat → Prop) (h : Heap α) : Frame R W h h :=
  ⟨Nat.le_refl _, fun _ _ _ => rfl, fun _ c hc => ⟨c, hc, CellRel.refl R c⟩⟩

theorem Frame.trans {R : Rel α} {W W' : Nat → Prop} {h h1 h2 : Heap α}
    (f1 : Frame R W h h1) (f2 : Frame R W' h1 h2) : Frame R (fun a => W a ∨ W' a) h h2 := by
  refine ⟨Nat.le_trans f1.size_le f2.size_le, ?_, ?_⟩
  · intro a ha hw
    rw [f2.same a (Nat.lt_of_lt_of_le ha f1.size_le) (fun w => hw (Or.inr w)),
      f1.same a ha (fun w => hw (Or.inl w))]
  · intro a c hc
    obtain ⟨c1, h1c, r1⟩ := f1.rel a c hc
    obtain ⟨c2, h2c, r2⟩ := f2.rel a c1 h1c
    exact ⟨c2, h2c, CellRel.trans R r1 r2⟩

theorem Frame.mono {R : Rel α} {W W' : Nat → Prop} {h h' : Heap α} (f : Frame R W h h')
    (hw : ∀ a, W a → W' a) : Frame R W' h h' :=
  ⟨f.size_le, fun a ha hn => f.same a ha (fun w => hn (hw a w)), f.rel⟩

/-- same write set on both sides of a composition -/
theorem Frame.trans' {R : Rel α} {W : Nat → Prop} {h h1 h2 : Heap α}
    (f1 : Frame R W h h1) (f2 : Frame R W h1 h2) : Frame R W h h2 :=
  (f1.trans f2).mono (fun _ hw => hw.elim id id)

def NoW : Nat → Prop := fun _ => False

theorem frame_alloc (R : Rel α) (h : Heap α) (c : Cell α) : Frame R NoW h (h.alloc c).1 := by
  refine ⟨by simp, ?_, ?_⟩
  · intro a ha _; exact Heap.get?_alloc_lt h c ha
  · intro a c' hc
    exact ⟨c', by rw [Heap.get?_alloc_lt h c (Heap.lt_size_of_get? hc)]; exact hc, CellRel.refl R c'⟩

theorem frame_allocList (R : Rel α) (h : Heap α) (cs : List (Cell α)) :
    Frame R NoW h (h.allocList cs).1 := by
  induction cs generalizing h with
  | nil => exact Frame.refl R _ h
  | cons c cs ih =>
    simp only [Heap.allocList]
    exact (frame_alloc R h c).trans' (ih (h.alloc c).1)

theorem frame_modGro (R : Rel α) (h : Heap α) (a : Nat) (f : AtomGroC α → AtomGroC α)
    (hf : ∀ g, R.g g (f g)) : Frame R (· = a) h (h.modGro a f) := by
  refine ⟨by simp, ?_, ?_⟩
  · intro b _ hb; exact Heap.get?_modGro_ne h f hb
  · intro b c hc
    by_cases hab : b = a
    · subst hab
      rw [Heap.get?_modGro_self, hc]
      cases c with
      | gro g => exact ⟨_, rfl, hf g⟩
      | res l => exact ⟨_, rfl, CellRel.refl R _⟩
      | top t => exact ⟨_, rfl, CellRel.refl R _⟩
      | mtop n l => exact ⟨_, rfl, CellRel.refl R _⟩
      | mol t r e => exact ⟨_, rfl, CellRel.refl R _⟩
    · exact ⟨c, by rw [Heap.get?_modGro_ne h f hab]; exact hc, CellRel.refl R c⟩

theorem frame_modTop (R : Rel α) (h : Heap α) (a : Nat) (f : AtomTopC → AtomTopC)
    (hf : ∀ t, R.t t (f t)) : Frame R (· = a) h (h.modTop a f) := by
  refine ⟨by simp, ?_, ?_⟩
  · intro b _ hb; exact Heap.get?_modTop_ne h f hb
  · intro b c hc
    by_cases hab : b = a
    · subst hab
      rw [Heap.get?_modTop_self, hc]
      cases c with
      | top g => exact ⟨_, rfl, hf g⟩
      | res l => exact ⟨_, rfl, CellRel.refl R _⟩
      | gro t => exact ⟨_, rfl, CellRel.refl R _⟩
      | mtop n l => exact ⟨_, rfl, CellRel.refl R _⟩
      | mol t r e => exact ⟨_, rfl, CellRel.refl R _⟩
    · exact ⟨c, by rw [Heap.get?_modTop_ne h f hab]; exact hc, CellRel.refl R c⟩

/-! ### the assignment loop -/

/-- the addresses one loop iteration assigns to -/
def W.addrs (w : W α) : List Nat :=
  w.gro :: (match w.top, w.ft with
    | some t, some _ => [t]
    | _, _ => [])

/-- every assignment of the loop respects `R` -/
def W.Respects (R : Rel α) (w : W α) : Prop :=
  (∀ g, R.g g (w.fg g)) ∧ (∀ f, w.ft = some f → ∀ t, R.t t (f t))

theorem frame_write (R : Rel α) (h : Heap α) (w : W α) (hr : w.Respects R) :
    Frame R (· ∈ w.addrs) h (w.write h) := by
  unfold W.write W.addrs
  rcases hw : w.top with _ | t <;> rcases hf : w.ft with _ | f <;> simp only []
  · exact (frame_modGro R h w.gro w.fg hr.1).mono (by intro a ha; simp [ha])
  · exact (frame_modGro R h w.gro w.fg hr.1).mono (by intro a ha; simp [ha])
  · exact (frame_modGro R h w.gro w.fg hr.1).mono (by intro a ha; simp [ha])
  · refine ((frame_modTop R h t f (hr.2 f hf)).trans (frame_modGro R _ w.gro w.fg hr.1)).mono ?_
    intro a ha
    rcases ha with ha | ha <;> simp [ha]

def writeSet (ws : List (W α)) : List Nat := ws.flatMap W.addrs

theorem frame_applyW (R : Rel α) (check : Bool) (h : Heap α) (ws : List (W α))
    (hr : ∀ w ∈ ws, w.Respects R) : Frame R (· ∈ writeSet ws) h (applyW check h ws).1 := by
  induction ws generalizing h with
  | nil => exact Frame.refl R _ h
  | cons w ws ih =>
    unfold applyW
    split
    · exact Frame.refl R _ h
    · have f1 := frame_write R h w (hr w (List.mem_cons_self ..))
      have f2 := ih (w.write h) (fun w' hw' => hr w' (List.mem_cons_of_mem _ hw'))
      refine (f1.trans f2).mono ?_
      intro a ha
      simp only [writeSet, List.flatMap_cons, List.mem_append]
      exact ha.elim Or.inl Or.inr

end GMHeap
