import GMProofs.Lemmas.HeapStep
/-
  GMProofs.Lemmas.HeapSpec — read-after-write: what the cells of an object contain after an
  assignment loop that did not raise.
-/

namespace GMHeap

variable {α : Type}

theorem W.write_gro?_self (h : Heap α) (w : W α) :
    (w.write h).gro? w.gro = (h.gro? w.gro).map w.fg := by
  unfold W.write
  rw [Heap.gro?_modGro_self]
  split <;> simp [Heap.gro?_modTop]

theorem W.write_gro?_ne (h : Heap α) (w : W α) {g : Nat} (hg : g ≠ w.gro) :
    (w.write h).gro? g = h.gro? g := by
  unfold W.write
  rw [Heap.gro?_modGro_ne _ _ hg]
  split <;> simp [Heap.gro?_modTop]

theorem W.write_top?_none (h : Heap α) (w : W α) (t : Nat) (hf : w.ft = none) :
    (w.write h).top? t = h.top? t := by
  unfold W.write
  rw [Heap.top?_modGro, hf]
  split <;> simp_all

theorem foldl_write_gro?_notin (h : Heap α) (ws : List (W α)) {g : Nat}
    (hg : g ∉ ws.map (·.gro)) : (ws.foldl (fun h w => w.write h) h).gro? g = h.gro? g := by
  induction ws generalizing h with
  | nil => rfl
  | cons w ws ih =>
    simp only [List.map_cons, List.mem_cons, not_or] at hg
    simp only [List.foldl_cons]
    rw [ih _ hg.2, W.write_gro?_ne h w hg.1]

theorem readGros_congr {h h' : Heap α} {gs : List Nat} (hc : ∀ g ∈ gs, h'.gro? g = h.gro? g) :
    readGros h' gs = readGros h gs := by
  induction gs with
  | nil => rfl
  | cons g gs ih =>
    simp only [readGros, hc g (List.mem_cons_self ..),
      ih (fun x hx => hc x (List.mem_cons_of_mem _ hx))]

theorem readTops_congr {h h' : Heap α} {ts : List Nat} (hc : ∀ g ∈ ts, h'.top? g = h.top? g) :
    readTops h' ts = readTops h ts := by
  induction ts with
  | nil => rfl
  | cons g gs ih =>
    simp only [readTops, hc g (List.mem_cons_self ..),
      ih (fun x hx => hc x (List.mem_cons_of_mem _ hx))]

/-- content of the written AtomGro cells after a loop of writes on distinct atoms -/
theorem foldl_write_readGros (h : Heap α) (ws : List (W α)) {cs : List (AtomGroC α)}
    (hnd : (ws.map (·.gro)).Nodup) (hr : readGros h (ws.map (·.gro)) = some cs) :
    readGros (ws.foldl (fun h w => w.write h) h) (ws.map (·.gro)) =
      some (List.zipWith (fun w c => w.fg c) ws cs) := by
  induction ws generalizing h cs with
  | nil => simp [readGros] at hr ⊢
  | cons w ws ih =>
    simp only [List.map_cons, List.nodup_cons] at hnd
    simp only [List.map_cons, readGros] at hr
    cases e1 : h.gro? w.gro with
    | none => simp [e1] at hr
    | some c =>
      cases e2 : readGros h (ws.map (·.gro)) with
      | none => simp [e1, e2] at hr
      | some cs' =>
        simp only [e1, e2, Option.some.injEq] at hr
        subst hr
        simp only [List.foldl_cons, List.map_cons, readGros, List.zipWith_cons_cons]
        have e3 : readGros (w.write h) (ws.map (·.gro)) = some cs' := by
          rw [readGros_congr (h := h)]
          · exact e2
          · intro g hg
            exact W.write_gro?_ne h w (fun e => hnd.1 (e ▸ hg))
        rw [ih (w.write h) hnd.2 e3, foldl_write_gro?_notin _ _ hnd.1, W.write_gro?_self, e1]
        rfl

/-- a loop that only assigns AtomGro attributes leaves every AtomTop as it was -/
theorem foldl_write_top?_none (h : Heap α) (ws : List (W α)) (hf : ∀ w ∈ ws, w.ft = none) (t : Nat) :
    (ws.foldl (fun h w => w.write h) h).top? t = h.top? t := by
  induction ws generalizing h with
  | nil => rfl
  | cons w ws ih =>
    simp only [List.foldl_cons]
    rw [ih _ (fun w' hw' => hf w' (List.mem_cons_of_mem _ hw')),
      W.write_top?_none h w t (hf w (List.mem_cons_self ..))]

/-- a loop that did not raise is the plain sequence of its writes -/
theorem applyW_ok {check : Bool} {h : Heap α} {ws : List (W α)} (hok : (applyW check h ws).2 = none) :
    (applyW check h ws).1 = ws.foldl (fun h w => w.write h) h := by
  induction ws generalizing h with
  | nil => rfl
  | cons w ws ih =>
    unfold applyW at hok ⊢
    split at hok
    · cases hok
    · rename_i e
      simp only [e, List.foldl_cons]
      exact ih hok

/-! ### loops built by `mkW` -/

theorem mkW_gros {β : Type} (pairs : List (Option Nat × Nat)) (vals : List β)
    (fg : β → AtomGroC α → AtomGroC α) (ft : β → Option (AtomTopC → AtomTopC))
    (hl : vals.length = pairs.length) :
    (mkW pairs vals fg ft).map (·.gro) = pairs.map (·.2) := by
  induction pairs generalizing vals with
  | nil => simp [mkW]
  | cons p ps ih =>
    cases vals with
    | nil => simp at hl
    | cons v vs =>
      simp only [List.length_cons, Nat.add_right_cancel_iff] at hl
      have := ih vs hl
      simp only [mkW, List.zip_cons_cons, List.map_cons] at this ⊢
      rw [this]

theorem mkW_zipWith {β : Type} (pairs : List (Option Nat × Nat)) (vals : List β)
    (fg : β → AtomGroC α → AtomGroC α) (ft : β → Option (AtomTopC → AtomTopC))
    (cs : List (AtomGroC α)) (hl : vals.length = pairs.length) :
    List.zipWith (fun w c => w.fg c) (mkW pairs vals fg ft) cs = List.zipWith fg vals cs := by
  induction pairs generalizing vals cs with
  | nil =>
    cases vals with
    | nil => simp [mkW]
    | cons v vs => simp at hl
  | cons p ps ih =>
    cases vals with
    | nil => simp at hl
    | cons v vs =>
      simp only [List.length_cons, Nat.add_right_cancel_iff] at hl
      cases cs with
      | nil => simp [mkW]
      | cons c cs =>
        have := ih vs cs hl
        simp only [mkW, List.zip_cons_cons, List.map_cons, List.zipWith_cons_cons] at this ⊢
        rw [this]

theorem mkW_ft {β : Type} {pairs : List (Option Nat × Nat)} {vals : List β}
    {fg : β → AtomGroC α → AtomGroC α} {w : W α} (hw : w ∈ mkW pairs vals fg (fun _ => none)) :
    w.ft = none := by
  obtain ⟨p, _, v, _, rfl⟩ := mkW_mem hw
  rfl

theorem collPairs_frame {R : Rel α} {W : Nat → Prop} {h h' : Heap α} (f : Frame R W h h') {o : Obj}
    {x : List (Option Nat × Nat) × Bool} (hp : collPairs h o = .ok x) : collPairs h' o = .ok x := by
  cases o with
  | mol m =>
    simp only [collPairs] at hp ⊢
    cases hv : molView h m with
    | none => simp [hv] at hp
    | some v =>
      simp only [hv] at hp
      simp only [f.molView hv]
      exact hp
  | res r =>
    simp only [collPairs] at hp ⊢
    cases hr : h.res? r with
    | none => simp [hr] at hp
    | some l =>
      simp only [hr] at hp
      simp only [f.res? hr]
      exact hp
  | agro g => simp [collPairs] at hp
  | atom t g => simp [collPairs] at hp

/-- what a loop assigning AtomGro attributes leaves behind -/
theorem loop_spec {β : Type} {h : Heap α} {o : Obj} {pairs : List (Option Nat × Nat)} {check c : Bool}
    (hp : collPairs h o = .ok (pairs, c)) (vals : List β) (fg : β → AtomGroC α → AtomGroC α)
    (hl : vals.length = pairs.length) (hnd : (pairs.map (·.2)).Nodup)
    {cs : List (AtomGroC α)} (hr : readGros h (pairs.map (·.2)) = some cs)
    (hok : (applyW check h (mkW pairs vals fg (fun _ => none))).2 = none) :
    let h' := (applyW check h (mkW pairs vals fg (fun _ => none))).1
    readGros h' (pairs.map (·.2)) = some (List.zipWith fg vals cs) ∧
    (∀ t, h'.top? t = h.top? t) ∧ collPairs h' o = .ok (pairs, c) := by
  intro h'
  have e : h' = (mkW pairs vals fg (fun _ => none)).foldl (fun h w => w.write h) h := applyW_ok hok
  have hg := mkW_gros pairs vals fg (fun _ => none) hl
  refine ⟨?_, ?_, ?_⟩
  · rw [e, ← hg, foldl_write_readGros h _ (hg ▸ hnd) (hg ▸ hr), mkW_zipWith _ _ _ _ _ hl]
  · intro t
    rw [e]
    exact foldl_write_top?_none h _ (fun w hw => mkW_ft hw) t
  · exact collPairs_frame (frame_loop h o hp check vals fg _) hp

theorem positionsOf_of_readGros {h : Heap α} {o : Obj} {pairs : List (Option Nat × Nat)} {c : Bool}
    (hp : collPairs h o = .ok (pairs, c)) {cs : List (AtomGroC α)}
    (hr : readGros h (pairs.map (·.2)) = some cs) : positionsOf h o = .ok (cs.map (·.pos)) := by
  unfold positionsOf
  simp only [hp, hr]

theorem zipWith_setpos_pos (ps : List (V3 α)) (cs : List (AtomGroC α)) (hl : ps.length = cs.length) :
    (List.zipWith (fun (p : V3 α) (g : AtomGroC α) => ({ g with pos := p } : AtomGroC α)) ps cs).map
      (·.pos) = ps := by
  induction ps generalizing cs with
  | nil => simp
  | cons p ps ih =>
    cases cs with
    | nil => simp at hl
    | cons c cs =>
      simp only [List.length_cons, Nat.add_right_cancel_iff] at hl
      simp [ih cs hl]

/-- well-formedness needed to read back what was written: the object has readable, pairwise
    distinct AtomGro cells -/
structure Readable (h : Heap α) (o : Obj) (pairs : List (Option Nat × Nat)) (c : Bool)
    (cs : List (AtomGroC α)) : Prop where
  hpairs : collPairs h o = .ok (pairs, c)
  hnodup : (pairs.map (·.2)).Nodup
  hcells : readGros h (pairs.map (·.2)) = some cs

theorem setPositions_spec {h : Heap α} {o : Obj} {pairs : List (Option Nat × Nat)} {c : Bool}
    {cs : List (AtomGroC α)} (rd : Readable h o pairs c cs) (ps : List (V3 α))
    (hok : (setPositions h o ps).2 = none) :
    ps.length = pairs.length ∧
    Readable (setPositions h o ps).1 o pairs c
      (List.zipWith (fun (p : V3 α) (g : AtomGroC α) => ({ g with pos := p } : AtomGroC α)) ps cs) ∧
    positionsOf (setPositions h o ps).1 o = .ok ps ∧
    (∀ t, (setPositions h o ps).1.top? t = h.top? t) := by
  unfold setPositions at hok ⊢
  simp only [rd.hpairs] at hok ⊢
  split at hok
  · cases hok
  · rename_i hl
    have hl : ps.length = pairs.length := by simpa using hl
    simp only [hl, ne_eq, not_true_eq_false, ↓reduceIte]
    obtain ⟨s1, s2, s3⟩ := loop_spec rd.hpairs ps (fun p g => { g with pos := p }) hl rd.hnodup rd.hcells hok
    have hcl := readGros_length rd.hcells
    simp only [List.length_map] at hcl
    refine ⟨trivial, ⟨s3, rd.hnodup, s1⟩, ?_, s2⟩
    rw [positionsOf_of_readGros s3 s1, zipWith_setpos_pos ps cs (by omega)]

section geometry
variable [Scalar α]

theorem moveObj_spec {h : Heap α} {o : Obj} {pairs : List (Option Nat × Nat)} {c : Bool}
    {cs : List (AtomGroC α)} (rd : Readable h o pairs c cs) (d : V3 α)
    (hok : (moveObj h o d).2 = none) :
    positionsOf h o = .ok (cs.map (·.pos)) ∧
    positionsOf (moveObj h o d).1 o = .ok ((cs.map (·.pos)).map (· + d)) := by
  have hpos := positionsOf_of_readGros rd.hpairs rd.hcells
  unfold moveObj at hok ⊢
  simp only [hpos] at hok ⊢
  exact ⟨trivial, (setPositions_spec rd _ hok).2.2.1⟩

theorem moveToObj_spec {h : Heap α} {o : Obj} {pairs : List (Option Nat × Nat)} {c : Bool}
    {cs : List (AtomGroC α)} (rd : Readable h o pairs c cs) (p : V3 α)
    (hok : (moveToObj h o p).2 = none) :
    positionsOf (moveToObj h o p).1 o =
      .ok ((cs.map (·.pos)).map (· + (p - V3.mean (cs.map (·.pos))))) := by
  have hpos := positionsOf_of_readGros rd.hpairs rd.hcells
  unfold moveToObj centreOf at hok ⊢
  simp only [hpos] at hok ⊢
  exact (moveObj_spec rd _ hok).2

theorem rotateObj_spec {h : Heap α} {o : Obj} {pairs : List (Option Nat × Nat)} {c : Bool}
    {cs : List (AtomGroC α)} (rd : Readable h o pairs c cs) (r : M3 α)
    (hok : (rotateObj h o r).2 = none) :
    positionsOf (rotateObj h o r).1 o =
      .ok ((cs.map (·.pos)).map (rotatePoint r (V3.mean (cs.map (·.pos))))) := by
  have hpos := positionsOf_of_readGros rd.hpairs rd.hcells
  unfold rotateObj at hok ⊢
  simp only [hpos] at hok ⊢
  exact (setPositions_spec rd _ hok).2.2.1

end geometry

/-! ### `Molecule.__getitem__` index arithmetic -/

theorem eachOf_item (s : Nat) (ps : List (List Nat)) (k : Nat) (hk : k < ps.flatten.length) :
    ∃ ri gs, (eachOf s ps)[k]? = some (s + ri) ∧ ps[ri]? = some gs ∧
      gs[((eachOf s ps).take k).count (s + ri)]? = ps.flatten[k]? := by
  induction ps generalizing s k with
  | nil => simp at hk
  | cons p rest ih =>
    simp only [eachOf, List.flatten_cons] at hk ⊢
    by_cases hlt : k < p.length
    · refine ⟨0, p, ?_, rfl, ?_⟩
      · rw [List.getElem?_append_left (by simpa using hlt), List.getElem?_replicate, if_pos hlt]; rfl
      · rw [List.take_append_of_le_length (by simp; omega), List.take_replicate,
          Nat.min_eq_left (Nat.le_of_lt hlt), Nat.add_zero, List.count_replicate_self,
          List.getElem?_append_left hlt]
    · have hge : p.length ≤ k := Nat.le_of_not_lt hlt
      have hk' : k - p.length < rest.flatten.length := by
        simp only [List.length_append] at hk; omega
      obtain ⟨ri, gs, e1, e2, e3⟩ := ih (s + 1) (k - p.length) hk'
      refine ⟨ri + 1, gs, ?_, by simpa using e2, ?_⟩
      · rw [List.getElem?_append_right (by simpa using hge), List.length_replicate, e1]
        congr 1; omega
      · have hne : ¬ (s = s + (ri + 1)) := by omega
        rw [List.take_append, List.length_replicate, List.count_append, List.take_replicate,
          List.count_replicate, List.getElem?_append_right hge]
        have : (s == s + (ri + 1)) = false := by simpa using hne
        simp only [this, Bool.false_eq_true, ↓reduceIte, Nat.zero_add]
        have e4 : s + (ri + 1) = s + 1 + ri := by omega
        rw [e4]
        exact e3

/-- for a molecule whose `_each_atom_resid` is consistent with its residues, `mol[k]` is the k-th
    atom in iteration order -/
theorem molItem_eq {v : MolView} (he : v.each = eachOf 0 v.parts) {k : Nat}
    (hk : k < v.parts.flatten.length) (hl : v.tops.length = v.parts.flatten.length) :
    ∃ t g, v.tops[k]? = some t ∧ v.parts.flatten[k]? = some g ∧ molItem v k = .ok (t, g) := by
  obtain ⟨ri, gs, e1, e2, e3⟩ := eachOf_item 0 v.parts k hk
  simp only [Nat.zero_add] at e1 e3
  have ht : k < v.tops.length := by omega
  refine ⟨v.tops[k], v.parts.flatten[k], List.getElem?_eq_getElem ht, List.getElem?_eq_getElem hk, ?_⟩
  unfold molItem
  rw [he]
  simp only [e1, List.getElem?_eq_getElem ht, e2, e3, List.getElem?_eq_getElem hk]

/-! ### single-cell updates -/

theorem readGros_update {h h' : Heap α} {gs : List Nat} {cs : List (AtomGroC α)} {k g : Nat}
    {c' : AtomGroC α} (hnd : gs.Nodup) (hk : gs[k]? = some g) (hr : readGros h gs = some cs)
    (hg : h'.gro? g = some c') (hrest : ∀ g' ∈ gs, g' ≠ g → h'.gro? g' = h.gro? g') :
    readGros h' gs = some (cs.set k c') := by
  induction gs generalizing k cs with
  | nil => simp at hk
  | cons x xs ih =>
    simp only [readGros] at hr
    cases e1 : h.gro? x with
    | none => simp [e1] at hr
    | some c =>
      cases e2 : readGros h xs with
      | none => simp [e1, e2] at hr
      | some cs' =>
        simp only [e1, e2, Option.some.injEq] at hr
        subst hr
        have hnd' := List.nodup_cons.mp hnd
        cases k with
        | zero =>
          simp only [List.getElem?_cons_zero, Option.some.injEq] at hk
          subst hk
          have : readGros h' xs = some cs' := by
            rw [readGros_congr (h := h)]
            · exact e2
            · intro g' hg'
              exact hrest g' (List.mem_cons_of_mem _ hg') (fun e => hnd'.1 (e ▸ hg'))
          simp only [readGros, hg, this, List.set_cons_zero]
        | succ k =>
          simp only [List.getElem?_cons_succ] at hk
          have hne : x ≠ g := fun e => hnd'.1 (e ▸ List.mem_of_getElem? hk)
          have := ih hnd'.2 hk e2 (fun g' hg' hne' => hrest g' (List.mem_cons_of_mem _ hg') hne')
          simp only [readGros, hrest x (List.mem_cons_self ..) hne, e1, this, List.set_cons_succ]

/-! ### topology labels written by a loop -/

theorem W.write_top? (h : Heap α) (w : W α) (t : Nat) :
    (w.write h).top? t =
      match w.top, w.ft with
      | some t', some f => if t = t' then (h.top? t).map f else h.top? t
      | _, _ => h.top? t := by
  unfold W.write
  rw [Heap.top?_modGro]
  rcases w.top with _ | t' <;> rcases w.ft with _ | f <;> simp only []
  by_cases e : t = t'
  · subst e; simp [Heap.top?_modTop_self]
  · simp [e, Heap.top?_modTop_ne _ _ e]

/-- if every topology write of the loop applies `F`, and `P` holds after `F`, then `P` holds at every
    AtomTop the loop wrote (and is kept wherever it held before) -/
theorem foldl_write_top_P (P : AtomTopC → Prop) (F : AtomTopC → AtomTopC) (hP : ∀ c, P (F c))
    (ws : List (W α)) (hall : ∀ w ∈ ws, w.ft = some F ∨ w.ft = none) (h : Heap α) :
    (∀ t c, h.top? t = some c → P c →
      ∃ c', (ws.foldl (fun h w => w.write h) h).top? t = some c' ∧ P c') ∧
    (∀ w ∈ ws, ∀ t, w.top = some t → w.ft = some F → ∀ c, h.top? t = some c →
      ∃ c', (ws.foldl (fun h w => w.write h) h).top? t = some c' ∧ P c') := by
  induction ws generalizing h with
  | nil => exact ⟨fun t c hc hp => ⟨c, hc, hp⟩, fun w hw => by cases hw⟩
  | cons w ws ih =>
    have hall' : ∀ w' ∈ ws, w'.ft = some F ∨ w'.ft = none :=
      fun w' hw' => hall w' (List.mem_cons_of_mem _ hw')
    obtain ⟨ihA, ihB⟩ := ih hall' (w.write h)
    -- one write keeps `some`-ness, and keeps or establishes P
    have step : ∀ t c, h.top? t = some c →
        ∃ c1, (w.write h).top? t = some c1 ∧ (P c → P c1) ∧
          (w.top = some t → w.ft = some F → P c1) := by
      intro t c hc
      rw [W.write_top?]
      rcases e1 : w.top with _ | t' <;> rcases e2 : w.ft with _ | f <;> simp only []
      · exact ⟨c, hc, id, fun e => by cases e⟩
      · exact ⟨c, hc, id, fun e => by cases e⟩
      · exact ⟨c, hc, id, fun _ e => by cases e⟩
      · have hf : f = F := by
          rcases hall w (List.mem_cons_self ..) with e | e
          · rw [e2] at e; injection e
          · rw [e2] at e; cases e
        subst hf
        by_cases e : t = t'
        · subst e
          simp only [↓reduceIte, hc, Option.map_some]
          exact ⟨_, rfl, fun _ => hP c, fun _ _ => hP c⟩
        · simp only [e, ↓reduceIte]
          refine ⟨c, hc, id, fun e' => ?_⟩
          injection e' with e'
          exact absurd e'.symm e
    refine ⟨?_, ?_⟩
    · intro t c hc hp
      obtain ⟨c1, h1, k1, _⟩ := step t c hc
      simp only [List.foldl_cons]
      exact ihA t c1 h1 (k1 hp)
    · intro w' hw' t ht hf c hc
      simp only [List.foldl_cons]
      obtain ⟨c1, h1, _, k2⟩ := step t c hc
      rcases List.mem_cons.mp hw' with rfl | hw'
      · exact ihA t c1 h1 (k2 ht hf)
      · exact ihB w' hw' t ht hf c1 h1

end GMHeap
