import GMModel.TopObj
import GMProofs.Lemmas.ItpL
import GMProofs.Lemmas.GraphL
/-
  GMProofs.Lemmas.TopObjL — lemmas about `GMModel.TopObj`: what `==` compares, the two format
  strings (`'{:5}{}'`, `'{}{}'`), `groupby` over the keys, the setter loops.
-/
set_option linter.unusedSimpArgs false
set_option linter.unusedVariables false

namespace TopObj
open Itp (Str PyErr isWs strip pyInt isBlank)

/-! ### `==` -/

/-- what `AtomTop.__eq__` compares -/
def AtomSame (x y : AtomTop) : Prop :=
  x.index = y.index ∧ x.resname = y.resname ∧ x.name = y.name ∧ ∀ n, n ∈ x.bonds ↔ n ∈ y.bonds

theorem setEq_iff (a b : List Nat) : setEq a b = true ↔ ∀ n, n ∈ a ↔ n ∈ b := by
  unfold setEq
  simp only [Bool.and_eq_true, List.all_eq_true, List.contains_iff_mem]
  constructor
  · intro h n; exact ⟨h.1 n, h.2 n⟩
  · intro h; exact ⟨fun n hn => (h n).mp hn, fun n hn => (h n).mpr hn⟩

theorem atomEq_iff (x y : AtomTop) : atomEq x y = true ↔ AtomSame x y := by
  unfold atomEq AtomSame
  simp only [Bool.and_eq_true, beq_iff_eq, setEq_iff]
  tauto

theorem allZip_iff : ∀ (xs ys : List AtomTop), xs.length = ys.length →
    (allZip xs ys = true ↔ List.Forall₂ AtomSame xs ys)
  | [], [], _ => by simp [allZip]
  | [], _ :: _, h => by simp at h
  | _ :: _, [], h => by simp at h
  | x :: xs, y :: ys, h => by
    simp only [allZip, Bool.and_eq_true, List.forall₂_cons, atomEq_iff]
    rw [allZip_iff xs ys (by simpa using h)]

theorem molEq_iff (a b : MolTop) :
    molEq a b = true ↔ a.name = b.name ∧ List.Forall₂ AtomSame a.atoms b.atoms := by
  unfold molEq
  by_cases hl : a.atoms.length = b.atoms.length
  · by_cases hn : b.name = a.name
    · simp only [hn, hl, beq_self_eq_true, Bool.and_self, if_true, true_and]
      exact allZip_iff _ _ hl
    · have hn' : ¬ a.name = b.name := fun e => hn e.symm
      simp [hn, hn']
  · have : ¬ List.Forall₂ AtomSame a.atoms b.atoms := fun h => hl h.length_eq
    simp [hl, this]

theorem AtomSame.refl (x : AtomTop) : AtomSame x x := ⟨rfl, rfl, rfl, fun _ => Iff.rfl⟩

theorem AtomSame.symm {x y : AtomTop} (h : AtomSame x y) : AtomSame y x :=
  ⟨h.1.symm, h.2.1.symm, h.2.2.1.symm, fun n => (h.2.2.2 n).symm⟩

theorem AtomSame.trans {x y z : AtomTop} (h : AtomSame x y) (g : AtomSame y z) : AtomSame x z :=
  ⟨h.1.trans g.1, h.2.1.trans g.2.1, h.2.2.1.trans g.2.2.1, fun n => (h.2.2.2 n).trans (g.2.2.2 n)⟩

theorem forall2_refl : ∀ l : List AtomTop, List.Forall₂ AtomSame l l
  | [] => .nil
  | x :: xs => .cons (AtomSame.refl x) (forall2_refl xs)

theorem forall2_symm : ∀ {l l' : List AtomTop}, List.Forall₂ AtomSame l l' → List.Forall₂ AtomSame l' l
  | _, _, .nil => .nil
  | _, _, .cons h t => .cons h.symm (forall2_symm t)

theorem forall2_trans : ∀ {l l' l'' : List AtomTop}, List.Forall₂ AtomSame l l' →
    List.Forall₂ AtomSame l' l'' → List.Forall₂ AtomSame l l''
  | _, _, _, .nil, .nil => .nil
  | _, _, _, .cons h t, .cons h' t' => .cons (h.trans h') (forall2_trans t t')

/-- forget the residue numbers -/
def eraseResid (m : MolTop) : MolTop := ⟨m.name, m.atoms.map (fun a => { a with resid := 0 })⟩

theorem forall2_map_resid : ∀ (l l' : List AtomTop),
    List.Forall₂ AtomSame (l.map (fun a => { a with resid := 0 })) (l'.map (fun a => { a with resid := 0 })) ↔
    List.Forall₂ AtomSame l l'
  | [], [] => by simp
  | [], _ :: _ => by simp
  | _ :: _, [] => by simp
  | x :: xs, y :: ys => by
    simp only [List.map_cons, List.forall₂_cons, forall2_map_resid xs ys]
    exact Iff.and (by unfold AtomSame; simp) Iff.rfl

theorem molCopy_eq (m : MolTop) : molCopy m = m := by
  unfold molCopy
  have : m.atoms.map atomCopy = m.atoms := by
    conv => rhs; rw [← List.map_id m.atoms]
    apply List.map_congr_left
    intro a _; rfl
  rw [this]

/-! ### heap link -/

def convV (v : Str × Str × Int × Nat × List Nat) : AtomTop := ⟨v.1, v.2.1, v.2.2.1, v.2.2.2.1, v.2.2.2.2⟩

/-- the object value as a function of `Graph.molValue` -/
def ofValue (v : Str × List (Option (Str × Str × Int × Nat × List Nat))) : Option MolTop :=
  (v.2.mapM (fun (o : Option (Str × Str × Int × Nat × List Nat)) => o.map convV)).map (fun as => ⟨v.1, as⟩)

theorem mapM_map_opt {α β γ : Type} (f : α → β) (g : β → Option γ) :
    ∀ l : List α, (l.map f).mapM g = l.mapM (fun a => g (f a))
  | [] => rfl
  | a :: as => by
    simp only [List.map_cons, List.mapM_cons, mapM_map_opt f g as]

theorem molOf_eq_ofValue (h : Graph.Heap) (m : Graph.MolTop) :
    molOf h m = ofValue (Graph.molValue h m) := by
  unfold molOf ofValue Graph.molValue
  simp only
  rw [mapM_map_opt]
  rfl

theorem molEqH_congr {H H' : Graph.Heap} {m m' : Graph.MolTop}
    (h1 : Graph.molValue H m = Graph.molValue H' m) (h2 : Graph.molValue H m' = Graph.molValue H' m') :
    molEqH H m m' = molEqH H' m m' := by
  unfold molEqH
  rw [molOf_eq_ofValue, molOf_eq_ofValue, molOf_eq_ofValue H', molOf_eq_ofValue H', h1, h2]

/-! ### digits, `'{}'.format(int)` -/

theorem natDigitsAux_fuel : ∀ (f f' n : Nat), n < f → n < f' → natDigitsAux f n = natDigitsAux f' n
  | 0, _, _, h, _ => by omega
  | _, 0, _, _, h => by omega
  | f + 1, f' + 1, n, h, h' => by
    simp only [natDigitsAux]
    by_cases hn : n < 10
    · simp [hn]
    · simp only [hn, if_false]
      rw [natDigitsAux_fuel f f' (n / 10) (by omega) (by omega)]

theorem natDigits_lt {n : Nat} (h : n < 10) : natDigits n = [Char.ofNat (48 + n)] := by
  simp [natDigits, natDigitsAux, h]

theorem natDigits_ge {n : Nat} (h : ¬ n < 10) :
    natDigits n = natDigits (n / 10) ++ [Char.ofNat (48 + n % 10)] := by
  have e : natDigits n = natDigitsAux n (n / 10) ++ [Char.ofNat (48 + n % 10)] := by
    show natDigitsAux (n + 1) n = _
    rw [natDigitsAux]; simp only [h, if_false]
  rw [e, natDigitsAux_fuel n (n / 10 + 1) (n / 10) (by omega) (by omega)]
  rfl

theorem isDigit_ofNat : ∀ d, d < 10 → Itp.isDigit (Char.ofNat (48 + d)) = true := by decide

theorem digitVal_ofNat : ∀ d, d < 10 → (Char.ofNat (48 + d)).toNat - '0'.toNat = d := by decide

theorem natDigits_digits (n : Nat) : ∀ c ∈ natDigits n, Itp.isDigit c = true := by
  induction n using Nat.strong_induction_on with
  | _ n ih =>
    by_cases h : n < 10
    · rw [natDigits_lt h]; intro c hc
      simp only [List.mem_singleton] at hc; subst hc; exact isDigit_ofNat n h
    · rw [natDigits_ge h]; intro c hc
      simp only [List.mem_append, List.mem_singleton] at hc
      rcases hc with hc | hc
      · exact ih (n / 10) (by omega) c hc
      · subst hc; exact isDigit_ofNat _ (Nat.mod_lt _ (by decide))

theorem natDigits_ne_nil (n : Nat) : natDigits n ≠ [] := by
  by_cases h : n < 10
  · rw [natDigits_lt h]; simp
  · rw [natDigits_ge h]; simp

theorem digitsVal_snoc (ds : Str) (c : Char) :
    Itp.digitsVal (ds ++ [c]) = 10 * Itp.digitsVal ds + (c.toNat - '0'.toNat) := by
  unfold Itp.digitsVal; rw [List.foldl_append]; rfl

theorem digitsVal_natDigits (n : Nat) : Itp.digitsVal (natDigits n) = n := by
  induction n using Nat.strong_induction_on with
  | _ n ih =>
    by_cases h : n < 10
    · rw [natDigits_lt h]
      have := digitsVal_snoc [] (Char.ofNat (48 + n))
      simp only [List.nil_append] at this
      rw [this, digitVal_ofNat n h]; simp [Itp.digitsVal]
    · rw [natDigits_ge h, digitsVal_snoc, ih (n / 10) (by omega),
        digitVal_ofNat _ (Nat.mod_lt _ (by decide))]
      omega

theorem digitPart_true_digits : ∀ ds : Str, (∀ c ∈ ds, Itp.isDigit c = true) →
    Itp.digitPart true ds = some ds
  | [], _ => by simp [Itp.digitPart]
  | c :: cs, h => by
    have hc := h c (by simp)
    unfold Itp.digitPart
    simp only [hc, if_true]
    rw [digitPart_true_digits cs (fun x hx => h x (by simp [hx]))]
    rfl

theorem digitPart_false_digits {ds : Str} (hne : ds ≠ []) (h : ∀ c ∈ ds, Itp.isDigit c = true) :
    Itp.digitPart false ds = some ds := by
  cases ds with
  | nil => exact absurd rfl hne
  | cons c cs =>
    have hc := h c (by simp)
    unfold Itp.digitPart
    simp only [hc, if_true]
    rw [digitPart_true_digits cs (fun x hx => h x (by simp [hx]))]
    rfl

theorem pyInt_natDigits (n : Nat) : pyInt (natDigits n) = some (n : Int) := by
  have hne := natDigits_ne_nil n
  have hd := natDigits_digits n
  have hp := digitPart_false_digits hne hd
  have hv := digitsVal_natDigits n
  cases hds : natDigits n with
  | nil => exact absurd hds hne
  | cons c cs =>
    have hc : Itp.isDigit c = true := hd c (by rw [hds]; simp)
    have h1 : c ≠ '+' := by intro e; subst e; revert hc; decide
    have h2 : c ≠ '-' := by intro e; subst e; revert hc; decide
    rw [hds] at hp hv
    unfold pyInt
    split
    rename_i x neg body heq
    split at heq
    · rename_i r he; simp only [List.cons.injEq] at he; exact absurd he.1 h1
    · rename_i r he; simp only [List.cons.injEq] at he; exact absurd he.1 h2
    · simp only [Prod.mk.injEq] at heq
      obtain ⟨rfl, rfl⟩ := heq
      simp [hp, hv]

theorem pyInt_intRepr (i : Int) : pyInt (intRepr i) = some i := by
  cases i with
  | ofNat n => exact pyInt_natDigits n
  | negSucc n =>
    have hp := digitPart_false_digits (natDigits_ne_nil (n + 1)) (natDigits_digits (n + 1))
    have hv := digitsVal_natDigits (n + 1)
    simp only [intRepr]
    unfold pyInt
    simp only [hp, hv]
    rfl

theorem intRepr_inj {i j : Int} (h : intRepr i = intRepr j) : i = j := by
  have h1 := pyInt_intRepr i
  rw [h, pyInt_intRepr j] at h1
  exact (Option.some.inj h1).symm

theorem isWs_of_isDigit {c : Char} (h : Itp.isDigit c = true) : isWs c = false := by
  unfold Itp.isDigit at h
  simp only [Bool.and_eq_true, decide_eq_true_eq] at h
  have h1 : 48 ≤ c.toNat := by
    have := h.1; exact this
  unfold isWs
  simp only [Bool.or_eq_false_iff, Bool.and_eq_false_imp, decide_eq_true_eq, decide_eq_false_iff_not]
  constructor <;> intro _ <;> omega

theorem intRepr_shape (i : Int) : ∃ c ds, intRepr i = c :: ds ∧ (c = '-' ∨ Itp.isDigit c = true) ∧
    (∀ d ∈ ds, Itp.isDigit d = true) := by
  cases i with
  | ofNat n =>
    cases hds : natDigits n with
    | nil => exact absurd hds (natDigits_ne_nil n)
    | cons c cs =>
      have hd := natDigits_digits n
      rw [hds] at hd
      exact ⟨c, cs, by simp [intRepr, hds], Or.inr (hd c (by simp)), fun d hd' => hd d (by simp [hd'])⟩
  | negSucc n => exact ⟨'-', natDigits (n + 1), rfl, Or.inl rfl, natDigits_digits (n + 1)⟩

theorem intRepr_no_ws (i : Int) : ∀ c ∈ intRepr i, isWs c = false := by
  obtain ⟨c, ds, he, hc, hds⟩ := intRepr_shape i
  rw [he]; intro x hx
  simp only [List.mem_cons] at hx
  rcases hx with rfl | hx
  · rcases hc with rfl | hc
    · decide
    · exact isWs_of_isDigit hc
  · exact isWs_of_isDigit (hds x hx)

theorem strip_of_no_ws {s : Str} (h : ∀ c ∈ s, isWs c = false) : strip s = s := by
  have hl : ∀ t : Str, (∀ c ∈ t, isWs c = false) → t.dropWhile isWs = t := by
    intro t ht
    cases t with
    | nil => rfl
    | cons a u => simp [List.dropWhile, ht a (by simp)]
  unfold strip Itp.lstrip Itp.rstrip
  rw [hl s h, hl s.reverse (fun c hc => h c (by simpa using hc)), List.reverse_reverse]

theorem pyIntE_intRepr (i : Int) : pyIntE (intRepr i) = .ok i := by
  unfold pyIntE
  rw [strip_of_no_ws (intRepr_no_ws i), pyInt_intRepr]

/-! ### `'{:5}'.format(str)` -/

theorem isBlank_replicate (k : Nat) : isBlank (List.replicate k ' ') = true := by
  rw [Itp.isBlank_iff]; intro c hc
  rw [List.mem_replicate] at hc; rw [hc.2]; decide

theorem fmt5_length {r : Str} (h : r.length ≤ 5) : (fmt5 r).length = 5 := by
  unfold fmt5; simp only [List.length_append, List.length_replicate]; omega

theorem take5_key {r : Str} (h : r.length ≤ 5) (x : Str) : (fmt5 r ++ x).take 5 = fmt5 r :=
  List.take_left' (fmt5_length h)

theorem drop5_key {r : Str} (h : r.length ≤ 5) (x : Str) : (fmt5 r ++ x).drop 5 = x :=
  List.drop_left' (fmt5_length h)

theorem strip_fmt5 (r : Str) : strip (fmt5 r) = strip r :=
  Itp.strip_append_blank r (isBlank_replicate _)

/-- hypothesis of the getter theorems: the residue name fits the 5 columns and has no blank at
    either end (every whitespace-free token of at most 5 characters qualifies) -/
def WFName (r : Str) : Prop := r.length ≤ 5 ∧ strip r = r

theorem resKey_inj {a b : AtomTop} (ha : WFName a.resname) (hb : WFName b.resname)
    (h : resKey a = resKey b) : a.resname = b.resname ∧ a.resid = b.resid := by
  unfold resKey at h
  have hl : (fmt5 a.resname).length = (fmt5 b.resname).length := by
    rw [fmt5_length ha.1, fmt5_length hb.1]
  obtain ⟨h1, h2⟩ := List.append_inj h hl
  refine ⟨?_, intRepr_inj h2⟩
  rw [← ha.2, ← hb.2, ← strip_fmt5, ← strip_fmt5 b.resname, h1]

/-! ### `'{}{}'.format(resid, resname)` -/

/-- hypothesis of the setter theorems: the residue name does not begin with a digit -/
def NoDigitHead (r : Str) : Prop := ∀ c, r.head? = some c → Itp.isDigit c = false

theorem takeWhile_digits_append : ∀ (ds r : Str), (∀ d ∈ ds, Itp.isDigit d = true) → NoDigitHead r →
    (ds ++ r).takeWhile Itp.isDigit = ds
  | [], r, _, hr => by
    cases r with
    | nil => rfl
    | cons c t => simp [List.takeWhile, hr c rfl]
  | d :: ds, r, hd, hr => by
    simp only [List.cons_append, List.takeWhile, hd d (by simp)]
    rw [takeWhile_digits_append ds r (fun x hx => hd x (by simp [hx])) hr]

theorem residname_inj {a b : AtomTop} (ha : NoDigitHead a.resname) (hb : NoDigitHead b.resname)
    (h : residname a = residname b) : a.resname = b.resname ∧ a.resid = b.resid := by
  unfold residname at h
  obtain ⟨c, ds, he, _, hds⟩ := intRepr_shape a.resid
  obtain ⟨c', ds', he', _, hds'⟩ := intRepr_shape b.resid
  rw [he, he'] at h
  simp only [List.cons_append, List.cons.injEq] at h
  obtain ⟨hc, ht⟩ := h
  have h1 := takeWhile_digits_append ds a.resname hds ha
  have h2 := takeWhile_digits_append ds' b.resname hds' hb
  rw [ht, h2] at h1
  subst h1
  have hr := List.append_cancel_left ht
  refine ⟨hr, intRepr_inj ?_⟩
  rw [he, he', hc]

/-! ### runs -/

/-- a residue as the property means it: consecutive atoms with one residue name and number -/
structure Run where
  resname : Str
  resid : Int
  atoms : List AtomTop

def Run.ok (r : Run) : Prop :=
  r.atoms ≠ [] ∧ ∀ a ∈ r.atoms, a.resname = r.resname ∧ a.resid = r.resid

/-- consecutive runs differ in name or number -/
def AdjDiff : List Run → Prop
  | [] => True
  | [_] => True
  | r :: s :: rest => (r.resname, r.resid) ≠ (s.resname, s.resid) ∧ AdjDiff (s :: rest)

def IsRuns (rs : List Run) : Prop := (∀ r ∈ rs, r.ok) ∧ AdjDiff rs

def flat (rs : List Run) : List AtomTop := (rs.map (·.atoms)).flatten

theorem flat_cons (r : Run) (rs : List Run) : flat (r :: rs) = r.atoms ++ flat rs := by
  simp [flat]

/-- every atom list is the concatenation of its runs -/
theorem exists_runs : ∀ l : List AtomTop, ∃ rs, IsRuns rs ∧ flat rs = l
  | [] => ⟨[], ⟨by simp, trivial⟩, rfl⟩
  | a :: t => by
    obtain ⟨rs, ⟨hok, hadj⟩, hf⟩ := exists_runs t
    cases rs with
    | nil =>
      refine ⟨[⟨a.resname, a.resid, [a]⟩], ⟨?_, trivial⟩, ?_⟩
      · intro r hr; simp only [List.mem_singleton] at hr; subst hr
        exact ⟨by simp, by intro x hx; simp only [List.mem_singleton] at hx; subst hx; exact ⟨rfl, rfl⟩⟩
      · simp [flat] at hf ⊢; exact hf
    | cons r rest =>
      by_cases hp : (a.resname, a.resid) = (r.resname, r.resid)
      · refine ⟨⟨r.resname, r.resid, a :: r.atoms⟩ :: rest, ⟨?_, ?_⟩, ?_⟩
        · intro s hs
          simp only [List.mem_cons] at hs
          rcases hs with rfl | hs
          · refine ⟨by simp, ?_⟩
            intro x hx
            simp only [List.mem_cons] at hx
            rcases hx with rfl | hx
            · simp only [Prod.mk.injEq] at hp; exact hp
            · exact (hok r (by simp)).2 x hx
          · exact hok s (by simp [hs])
        · cases rest with
          | nil => trivial
          | cons s rest' => exact hadj
        · rw [flat_cons] at hf ⊢; simp only [List.cons_append]; rw [hf]
      · refine ⟨⟨a.resname, a.resid, [a]⟩ :: r :: rest, ⟨?_, ⟨hp, hadj⟩⟩, ?_⟩
        · intro s hs
          simp only [List.mem_cons] at hs
          rcases hs with rfl | hs
          · exact ⟨by simp, by intro x hx; simp only [List.mem_singleton] at hx; subst hx; exact ⟨rfl, rfl⟩⟩
          · exact hok s (by simpa using hs)
        · rw [flat_cons]; simp only [List.singleton_append]; rw [hf]

/-! ### `groupby` over a key that is constant on runs and changes between them -/

theorem groupKeys_same (k : Str) (rest : List Str) : groupKeys (k :: k :: rest) = groupKeys (k :: rest) := by
  simp [groupKeys]

theorem groupKeys_diff {k k' : Str} (h : k ≠ k') (rest : List Str) :
    groupKeys (k :: k' :: rest) = k :: groupKeys (k' :: rest) := by
  simp [groupKeys, h]

theorem groupKeys_replicate (k : Str) : ∀ (n : Nat) (rest : List Str),
    groupKeys (k :: (List.replicate n k ++ rest)) = groupKeys (k :: rest)
  | 0, rest => by simp
  | n + 1, rest => by
    simp only [List.replicate_succ, List.cons_append]
    rw [groupKeys_same, groupKeys_replicate k n rest]

theorem map_const {α β : Type} {f : α → β} {k : β} : ∀ {l : List α}, (∀ a ∈ l, f a = k) →
    l.map f = List.replicate l.length k
  | [], _ => rfl
  | a :: t, h => by
    simp only [List.map_cons, List.length_cons, List.replicate_succ, h a (by simp)]
    rw [map_const (fun x hx => h x (by simp [hx]))]

/-- runs w.r.t. a key: `key` is `kr r` on every atom of `r`, and consecutive runs have different
    `kr` -/
def KeyRuns (key : AtomTop → Str) (kr : Run → Str) : List Run → Prop
  | [] => True
  | [r] => r.atoms ≠ [] ∧ ∀ a ∈ r.atoms, key a = kr r
  | r :: s :: rest => (r.atoms ≠ [] ∧ ∀ a ∈ r.atoms, key a = kr r) ∧ kr r ≠ kr s ∧ KeyRuns key kr (s :: rest)

theorem KeyRuns.head {key : AtomTop → Str} {kr : Run → Str} {r : Run} {rs : List Run}
    (h : KeyRuns key kr (r :: rs)) : r.atoms ≠ [] ∧ ∀ a ∈ r.atoms, key a = kr r := by
  cases rs with
  | nil => exact h
  | cons s rest => exact h.1

theorem KeyRuns.tail {key : AtomTop → Str} {kr : Run → Str} {r : Run} {rs : List Run}
    (h : KeyRuns key kr (r :: rs)) : KeyRuns key kr rs := by
  cases rs with
  | nil => trivial
  | cons s rest => exact h.2.2

theorem run_keys {key : AtomTop → Str} {k : Str} {as : List AtomTop} (hne : as ≠ [])
    (h : ∀ a ∈ as, key a = k) : as.map key = k :: List.replicate (as.length - 1) k := by
  rw [map_const h]
  cases as with
  | nil => exact absurd rfl hne
  | cons a t => simp [List.replicate_succ]

theorem groupKeys_runs (key : AtomTop → Str) (kr : Run → Str) : ∀ rs : List Run, KeyRuns key kr rs →
    groupKeys ((flat rs).map key) = rs.map kr
  | [], _ => rfl
  | [r], h => by
    have ⟨hne, hk⟩ := h
    simp only [flat, List.map_cons, List.map_nil, List.flatten_cons, List.flatten_nil, List.append_nil]
    rw [run_keys hne hk]
    have := groupKeys_replicate (kr r) (r.atoms.length - 1) []
    simp only [List.append_nil] at this
    rw [this]; rfl
  | r :: s :: rest, h => by
    obtain ⟨⟨hne, hk⟩, hd, ht⟩ := h
    have ih := groupKeys_runs key kr (s :: rest) ht
    have hs := ht.head
    rw [flat_cons, List.map_append, run_keys hne hk]
    -- the next run starts with its key
    have hnext : ∃ tl, (flat (s :: rest)).map key = kr s :: tl := by
      rw [flat_cons, List.map_append, run_keys hs.1 hs.2]
      exact ⟨_, rfl⟩
    obtain ⟨tl, htl⟩ := hnext
    rw [htl] at ih ⊢
    rw [List.cons_append, groupKeys_replicate, groupKeys_diff hd, ih]
    rfl

/-- `IsRuns` gives `KeyRuns` for every key that separates (resname, resid) pairs on the atoms -/
theorem keyRuns_of_isRuns {key : AtomTop → Str} {kr : Run → Str} :
    ∀ {rs : List Run}, IsRuns rs →
    (∀ r ∈ rs, ∀ a ∈ r.atoms, key a = kr r) →
    (∀ r ∈ rs, ∀ s ∈ rs, kr r = kr s → (r.resname, r.resid) = (s.resname, s.resid)) →
    KeyRuns key kr rs
  | [], _, _, _ => trivial
  | [r], h, hk, _ => ⟨(h.1 r (by simp)).1, hk r (by simp)⟩
  | r :: s :: rest, h, hk, hinj => by
    refine ⟨⟨(h.1 r (by simp)).1, hk r (by simp)⟩, ?_, ?_⟩
    · intro e; exact h.2.1 (hinj r (by simp) s (by simp) e)
    · exact keyRuns_of_isRuns ⟨fun x hx => h.1 x (by simp [hx]), h.2.2⟩
        (fun x hx => hk x (by simp [hx])) (fun x hx y hy => hinj x (by simp [hx]) y (by simp [hy]))

/-! ### the setter loop -/

theorem setLoop_boundary {β : Type} (upd : AtomTop → β → AtomTop) (new : List β) (idx : Nat)
    (actual : Str) (a : AtomTop) (t : List AtomTop) (h : residname a ≠ actual) :
    setLoop upd new idx actual (a :: t) = setLoop upd new (idx + 1) (residname a) (a :: t) := by
  simp [setLoop, h]

theorem setLoop_same {β : Type} (upd : AtomTop → β → AtomTop) (new : List β) (idx : Nat)
    (actual : Str) (v : β) (hv : new[idx]? = some v) : ∀ (R rest : List AtomTop),
    (∀ a ∈ R, residname a = actual) →
    setLoop upd new idx actual (R ++ rest) =
      ((setLoop upd new idx actual rest).1, R.map (fun a => upd a v) ++ (setLoop upd new idx actual rest).2)
  | [], rest, _ => by simp
  | a :: R, rest, h => by
    have ha := h a (by simp)
    simp only [List.cons_append, setLoop, ha, ne_eq, not_true_eq_false, if_false, hv]
    rw [setLoop_same upd new idx actual v hv R rest (fun x hx => h x (by simp [hx]))]
    simp

theorem setLoop_runs {β : Type} (upd : AtomTop → β → AtomTop) (kr : Run → Str) :
    ∀ (rs : List Run) (pre vs : List β) (actual : Str),
    KeyRuns residname kr rs → (∀ r rest, rs = r :: rest → kr r = actual) → vs.length = rs.length →
    setLoop upd (pre ++ vs) pre.length actual (flat rs) =
      (none, (List.zipWith (fun r v => r.atoms.map (fun a => upd a v)) rs vs).flatten)
  | [], pre, vs, actual, _, _, hl => by
    have : vs = [] := by simpa using hl
    subst this; simp [flat, setLoop]
  | r :: rs, pre, vs, actual, hk, ha, hl => by
    cases vs with
    | nil => simp at hl
    | cons v vs =>
      have hact := ha r rs rfl
      have hr := hk.head
      have hv : (pre ++ v :: vs)[pre.length]? = some v := by simp
      rw [flat_cons, setLoop_same upd _ _ actual v hv r.atoms (flat rs)
        (fun a ha' => by rw [hr.2 a ha', hact])]
      cases rs with
      | nil =>
        have : vs = [] := by simpa using hl
        subst this
        simp [flat, setLoop]
      | cons s rest =>
        have hs := hk.tail.head
        have hd : kr r ≠ kr s := hk.2.1
        -- the first atom of the next run opens a new residue
        obtain ⟨a, t, hat⟩ := List.exists_cons_of_ne_nil hs.1
        have hflat : flat (s :: rest) = a :: (t ++ flat rest) := by rw [flat_cons, hat]; rfl
        have hra : residname a ≠ actual := by
          rw [hs.2 a (by rw [hat]; simp), ← hact]; exact fun e => hd e.symm
        have ih := setLoop_runs upd kr (s :: rest) (pre ++ [v]) vs (residname a) hk.tail
          (by intro r' rest' e; simp only [List.cons.injEq] at e; rw [← e.1, hs.2 a (by rw [hat]; simp)])
          (by simpa using hl)
        have hpre : (pre ++ [v]).length = pre.length + 1 := by simp
        rw [hpre, List.append_assoc, List.singleton_append] at ih
        rw [hflat, setLoop_boundary upd _ _ actual a _ hra, ← hflat, ih]
        simp

/-! ### helpers of the property theorems (`Props/C15Extra.lean`) -/

/-- the `'{:5}{}'` key of a residue -/
def keyOf (r : Run) : Str := resKey ⟨[], r.resname, r.resid, 0, []⟩

theorem keyRuns_resKey {rs : List Run} (h : IsRuns rs) (hwf : ∀ r ∈ rs, WFName r.resname) :
    KeyRuns resKey keyOf rs := by
  apply keyRuns_of_isRuns h
  · intro r hr a ha
    obtain ⟨h1, h2⟩ := (h.1 r hr).2 a ha
    simp only [keyOf, resKey, h1, h2]
  · intro r hr s hs e
    have := resKey_inj (a := ⟨[], r.resname, r.resid, 0, []⟩) (b := ⟨[], s.resname, s.resid, 0, []⟩)
      (hwf r hr) (hwf s hs) e
    simp only at this
    rw [this.1, this.2]


/-- the `'{}{}'` identifier of a residue (`AtomTop.residname`) -/
def rnOf (r : Run) : Str := residname ⟨[], r.resname, r.resid, 0, []⟩

theorem keyRuns_residname {rs : List Run} (h : IsRuns rs) (hnd : ∀ r ∈ rs, NoDigitHead r.resname) :
    KeyRuns residname rnOf rs := by
  apply keyRuns_of_isRuns h
  · intro r hr a ha
    obtain ⟨h1, h2⟩ := (h.1 r hr).2 a ha
    simp only [rnOf, residname, h1, h2]
  · intro r hr s hs e
    have := residname_inj (a := ⟨[], r.resname, r.resid, 0, []⟩) (b := ⟨[], s.resname, s.resid, 0, []⟩)
      (hnd r hr) (hnd s hs) e
    simp only at this
    rw [this.1, this.2]

/-- residue-wise reassignment: every atom of residue `k` gets the `k`-th new value -/
def assign {β : Type} (upd : AtomTop → β → AtomTop) (rs : List Run) (new : List β) : List AtomTop :=
  (List.zipWith (fun r v => r.atoms.map (fun a => upd a v)) rs new).flatten

theorem setLoop_spec {β : Type} (upd : AtomTop → β → AtomTop) {rs : List Run} (new : List β)
    (h : IsRuns rs) (hnd : ∀ r ∈ rs, NoDigitHead r.resname) (hl : new.length = rs.length)
    (a0 : AtomTop) (t : List AtomTop) (hf : flat rs = a0 :: t) :
    setLoop upd new 0 (residname a0) (flat rs) = (none, assign upd rs new) := by
  have hk := keyRuns_residname h hnd
  have := setLoop_runs upd rnOf rs [] new (residname a0) hk (by
    intro r rest e
    subst e
    have hr := hk.head
    obtain ⟨a, t', hat⟩ := List.exists_cons_of_ne_nil hr.1
    have : a0 = a := by
      rw [flat_cons, hat] at hf
      simp only [List.cons_append, List.cons.injEq] at hf
      exact hf.1.symm
    rw [this, hr.2 a (by rw [hat]; simp)]) hl
  simpa [assign] using this


theorem indexGo_spec (x : AtomTop) : ∀ (l : List AtomTop) (base : Nat),
    (∀ i, indexGo x base l = .ok i → base ≤ i ∧ (∃ a, l[i - base]? = some a ∧ AtomSame a x) ∧
      ∀ j, j < i - base → ∀ b, l[j]? = some b → ¬ AtomSame b x) ∧
    (indexGo x base l = .error .ValueError ↔ ∀ a ∈ l, ¬ AtomSame a x) ∧
    (∀ e, indexGo x base l = .error e → e = .ValueError)
  | [], base => by
    refine ⟨?_, ?_, ?_⟩
    · intro i h; simp [indexGo] at h
    · simp [indexGo]
    · intro e h; simp [indexGo] at h; exact h.symm
  | a :: t, base => by
    obtain ⟨ih1, ih2, ih3⟩ := indexGo_spec x t (base + 1)
    by_cases ha : atomEq a x = true
    · have hs := (atomEq_iff a x).mp ha
      refine ⟨?_, ?_, ?_⟩
      · intro i h
        simp only [indexGo, ha, if_true, Except.ok.injEq] at h
        subst h
        exact ⟨le_refl _, ⟨a, by simp, hs⟩, by intro j hj; omega⟩
      · simp only [indexGo, ha, if_true]
        constructor
        · intro h; cases h
        · intro h; exact absurd hs (h a (by simp))
      · intro e h; simp [indexGo, ha] at h
    · have hs : ¬ AtomSame a x := fun h => ha ((atomEq_iff a x).mpr h)
      have ha' : atomEq a x = false := by simpa using ha
      refine ⟨?_, ?_, ?_⟩
      · intro i h
        simp only [indexGo, ha', Bool.false_eq_true, if_false] at h
        obtain ⟨h1, ⟨b, hb, hbs⟩, h3⟩ := ih1 i h
        refine ⟨by omega, ⟨b, ?_, hbs⟩, ?_⟩
        · have : i - base = (i - (base + 1)) + 1 := by omega
          rw [this]; simpa using hb
        · intro j hj c hc
          cases j with
          | zero => simp at hc; subst hc; exact hs
          | succ j => simp at hc; exact h3 j (by omega) c hc
      · simp only [indexGo, ha', Bool.false_eq_true, if_false, ih2]
        constructor
        · intro h b hb
          simp only [List.mem_cons] at hb
          rcases hb with rfl | hb
          · exact hs
          · exact h b hb
        · intro h b hb; exact h b (by simp [hb])
      · intro e h
        simp only [indexGo, ha', Bool.false_eq_true, if_false] at h
        exact ih3 e h


/-- the new residues after a successful `resnames = new` -/
def renamed (rs : List Run) (new : List Str) : List Run :=
  List.zipWith (fun r v => ⟨v, r.resid, r.atoms.map (fun a => { a with resname := v })⟩) rs new

theorem flat_renamed : ∀ (rs : List Run) (new : List Str),
    flat (renamed rs new) = assign (fun a v => { a with resname := v }) rs new
  | [], _ => by simp [renamed, assign, flat]
  | _ :: _, [] => by simp [renamed, assign, flat]
  | r :: rs, v :: vs => by
    have ih := flat_renamed rs vs
    simp only [renamed, assign, flat, List.zipWith_cons_cons, List.map_cons, List.flatten_cons] at ih ⊢
    rw [ih]


end TopObj
