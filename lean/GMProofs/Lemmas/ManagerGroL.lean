import GMModel.ManagerGro
import GMProofs.Lemmas.ManagerL
import GMProofs.Lemmas.GroLineL
/-
  GMProofs.Lemmas.ManagerGroL — the op translation `MgrGro.toOps` on the shape of op list that
  `Mgr.extrapolate` produces; well-formedness of the translated records. (core Lean only)
-/
open PyStr Gro Mgr GroL

namespace MgrGro

theorem toOps_cons (o : WOp Box PV) (ops : List (WOp Box PV)) : toOps (o :: ops) = toOp o ++ toOps ops := by
  simp [toOps]

theorem toOps_lines_close (recs : List (GroRec PV)) :
    toOps (recs.map WOp.line ++ [WOp.close]) = (recs.map toRec).map Op.writeLine ++ [Op.close] := by
  induction recs with
  | nil => rfl
  | cons r t ih =>
    simp only [List.map_cons, List.cons_append, toOps_cons, ih, toOp]
    rfl

/-- the script of a successful extrapolation: two setters, the records, close -/
theorem toOps_session (title : String) (box : Box) (recs : List (GroRec PV)) :
    toOps (.openW :: .comment title :: .box box :: (recs.map WOp.line ++ [WOp.close]))
      = [Op.setComment (codes title), Op.setBox (.mat box)] ++
          ((recs.map toRec).map Op.writeLine ++ [Op.close]) := by
  simp only [toOps_cons, toOp, toOps_lines_close]
  rfl

/-- an atom of the mapped system can be written with the default format `(8, 3)`: names of 1–5
    non-blank characters, coordinates that fit `8.3`, and — when the system has velocities — velocities
    that fit `8.4` -/
structure AtomFits (v : Bool) (a : Int × TAtom PV) : Prop where
  resname : NameOk (codes a.2.resname)
  name : NameOk (codes a.2.name)
  x : fitsFixed 8 3 a.2.pos.x = true
  y : fitsFixed 8 3 a.2.pos.y = true
  z : fitsFixed 8 3 a.2.pos.z = true
  vel : v = true → fitsFixed 8 4 a.2.pos.vel.1 = true ∧ fitsFixed 8 4 a.2.pos.vel.2.1 = true ∧
    fitsFixed 8 4 a.2.pos.vel.2.2 = true

theorem recOk_of_fits {v : Bool} {x : Int × TAtom PV} (k : Nat) (hv : x.2.hasVel = v) (h : AtomFits v x) :
    RecOk 8 3 v (toRec (mkRec k x)) := by
  refine ⟨h.resname, h.name, h.x, h.y, h.z, ?_⟩
  show VelOk 8 4 v (if x.2.hasVel then some x.2.pos.vel else none)
  rw [hv]
  cases v with
  | false => simp [VelOk]
  | true =>
    obtain ⟨a, b, c⟩ := h.vel rfl
    simp only [if_true]
    exact ⟨rfl, a, b, c⟩

/-- every atom a well-behaved molecule contributes has the system's velocity flag -/
theorem mapped_hasVel {C : Type} {complete : Corr C PV} {v : Bool} {mol : MolInst C}
    (h : MolOk complete v mol) : ∀ x ∈ mapped complete mol, x.2.hasVel = v := by
  intro x hx
  unfold mapped at hx
  cases hl : complete.lookup mol.species with
  | none => simp [hl] at hx
  | some al =>
    obtain ⟨m, hm, _, _, _, hvel⟩ := h al hl
    simp only [hl, hm] at hx
    obtain ⟨r, hr, hxr⟩ := mem_assignResids hx
    exact hvel r hr x.2 hxr

theorem flatMap_mapped_hasVel {C : Type} {complete : Corr C PV} {v : Bool} {sys : List (MolInst C)}
    (h : ∀ mol ∈ sys, MolOk complete v mol) : ∀ x ∈ sys.flatMap (mapped complete), x.2.hasVel = v := by
  intro x hx
  obtain ⟨mol, hmol, hxm⟩ := List.mem_flatMap.mp hx
  exact mapped_hasVel (h mol hmol) x hxm

theorem mem_number {P : Type} {k : Nat} {l : List (Int × TAtom P)} {r : GroRec P} (h : r ∈ number k l) :
    ∃ j x, x ∈ l ∧ r = mkRec j x := by
  induction l generalizing k with
  | nil => simp [number] at h
  | cons y t ih =>
    simp only [number, List.mem_cons] at h
    rcases h with h | h
    · exact ⟨k, y, by simp, h⟩
    · obtain ⟨j, x, hx, e⟩ := ih h
      exact ⟨j, x, by simp [hx], e⟩

end MgrGro
