import GMProofs.Lemmas.SystemRecL
import GMModel.SystemTop
/-
  GMProofs.Lemmas.SystemTopL — `MoleculeTop.resname_len_list` as a function of the atom list, and the
  concrete `System` loading a list of topologies.  Core Lean only.
-/

namespace SRec
open SGro

/-! ### A. `resname_len_list` -/

/-- a residue name the `.gro` format can hold and `'{:5}'.format` does not distort: at most five
    characters, none of them white space -/
def NameFits (rn : Str) : Prop := rn.length ≤ 5 ∧ ∀ c ∈ rn, isSpace c = false

/-- one step of `sigRuns`: put atom `a` in front of the runs of the rest (`next` = the following atom) -/
def sigCons (a : TopAtom) (next : Option TopAtom) (tail : List (Str × Nat)) : List (Str × Nat) :=
  match next, tail with
  | some b, (_, c) :: tl =>
    if a.resname = b.resname ∧ a.resid = b.resid then (a.resname, c + 1) :: tl else (a.resname, 1) :: tail
  | _, _ => [(a.resname, 1)]

/-- **the residue signature of a topology**: the consecutive runs of atoms with equal
    (residue name, residue number), each as (residue name, number of atoms) -/
def sigRuns : List TopAtom → List (Str × Nat)
  | [] => []
  | a :: rest => sigCons a rest.head? (sigRuns rest)

theorem sigRuns_cons2 (a b : TopAtom) (r : List TopAtom) :
    sigRuns (a :: b :: r) = sigCons a (some b) (sigRuns (b :: r)) := rfl

theorem sigRuns_cons (a : TopAtom) (rest : List TopAtom) :
    ∃ c tl, sigRuns (a :: rest) = (a.resname, c) :: tl := by
  cases rest with
  | nil => exact ⟨1, [], rfl⟩
  | cons b r =>
    obtain ⟨cb, tl, hb⟩ := sigRuns_cons b r
    rw [sigRuns_cons2, hb]
    by_cases h : a.resname = b.resname ∧ a.resid = b.resid
    · exact ⟨cb + 1, tl, by simp [sigCons, h]⟩
    · exact ⟨1, (b.resname, cb) :: tl, by simp [sigCons, h]⟩

theorem sigRuns_head_congr (a b : TopAtom) (r : List TopAtom) (h1 : a.resname = b.resname)
    (h2 : a.resid = b.resid) : sigRuns (a :: r) = sigRuns (b :: r) := by
  simp only [sigRuns, sigCons, h1, h2]

theorem dropWhile_of_head_neg {α : Type} (p : α → Bool) (l : List α)
    (h : ∀ x, l.head? = some x → p x = false) : l.dropWhile p = l := by
  cases l with
  | nil => rfl
  | cons a t => rw [List.dropWhile_cons_of_neg]; simp [h a rfl]

theorem dropWhile_replicate_append {α : Type} (p : α → Bool) (x : α) (hx : p x = true) :
    ∀ (k : Nat) (l : List α), (List.replicate k x ++ l).dropWhile p = l.dropWhile p
  | 0, _ => rfl
  | k + 1, l => by
    rw [List.replicate_succ, List.cons_append, List.dropWhile_cons_of_pos hx,
      dropWhile_replicate_append p x hx k l]

theorem strip_pad (rn : Str) (k : Nat) (h : ∀ c ∈ rn, isSpace c = false) :
    strip (rn ++ List.replicate k ' ') = rn := by
  have hsp : isSpace ' ' = true := by decide
  unfold strip
  cases rn with
  | nil =>
    have : (([] : Str) ++ List.replicate k ' ').dropWhile isSpace = [] := by
      have := dropWhile_replicate_append isSpace ' ' hsp k []
      simpa using this
    rw [this]; rfl
  | cons a t =>
    have e1 : (a :: t ++ List.replicate k ' ').dropWhile isSpace = a :: t ++ List.replicate k ' ' :=
      dropWhile_of_head_neg isSpace _ (by
        intro x hx
        simp only [List.cons_append, List.head?_cons, Option.some.injEq] at hx
        rw [← hx]; exact h a (by simp))
    have e3 : ((a :: t).reverse).dropWhile isSpace = (a :: t).reverse :=
      dropWhile_of_head_neg isSpace _ (by
        intro x hx
        have : x ∈ (a :: t).reverse := List.mem_of_mem_head? hx
        exact h x (List.mem_reverse.mp this))
    rw [e1, List.reverse_append, List.reverse_replicate, dropWhile_replicate_append isSpace ' ' hsp, e3,
      List.reverse_reverse]

theorem pad5_length {rn : Str} (h : rn.length ≤ 5) : (pad5 rn).length = 5 := by
  unfold pad5; simp; omega

theorem topKey_take (a : TopAtom) (h : NameFits a.resname) : strip ((topKey a).take 5) = a.resname := by
  unfold topKey
  rw [List.take_left' (pad5_length h.1)]
  unfold pad5
  exact strip_pad _ _ h.2

theorem intDigits_inj {a b : Int} (h : intDigits a = intDigits b) : a = b := by
  have := intDigits_append_inj a b [] [] (by intro c hc; cases hc) (by intro c hc; cases hc) (by simpa using h)
  exact this.1

theorem topKey_eq_iff (a b : TopAtom) (ha : NameFits a.resname) (hb : NameFits b.resname) :
    topKey a = topKey b ↔ (a.resname = b.resname ∧ a.resid = b.resid) := by
  constructor
  · intro h
    have h1 : a.resname = b.resname := by rw [← topKey_take a ha, ← topKey_take b hb, h]
    have h2 := congrArg (List.drop 5) h
    unfold topKey at h2
    rw [List.drop_left' (pad5_length ha.1), List.drop_left' (pad5_length hb.1)] at h2
    exact ⟨h1, intDigits_inj h2⟩
  · rintro ⟨h1, h2⟩
    unfold topKey; rw [h1, h2]

/-- add `c` to the count of the first run -/
def bumpHead (c : Nat) : List (Str × Nat) → List (Str × Nat)
  | (rn, n) :: tl => (rn, n + c) :: tl
  | [] => []

theorem resnameLenGo_spec : ∀ (rest : List TopAtom) (a0 : TopAtom) (c : Nat) (acc : List (Str × Nat)),
    NameFits a0.resname → (∀ a ∈ rest, NameFits a.resname) →
    resnameLenGo (some (topKey a0, c + 1)) (rest.map topKey) acc =
      .ok (acc ++ bumpHead c (sigRuns (a0 :: rest)))
  | [], a0, c, acc, h0, _ => by
    simp only [List.map_nil, resnameLenGo, topKey_take a0 h0]
    have : bumpHead c (sigRuns [a0]) = [(a0.resname, c + 1)] := by
      simp [sigRuns, sigCons, bumpHead, Nat.add_comm]
    rw [this]
  | b :: r, a0, c, acc, h0, hr => by
    have hb : NameFits b.resname := hr b (by simp)
    have hr' : ∀ a ∈ r, NameFits a.resname := fun a ha => hr a (by simp [ha])
    obtain ⟨cb, tl, hsb⟩ := sigRuns_cons b r
    simp only [List.map_cons, resnameLenGo]
    by_cases hk : topKey b = topKey a0
    · have hk' := (topKey_eq_iff b a0 hb h0).mp hk
      rw [if_neg (by simpa using hk), resnameLenGo_spec r a0 (c + 1) acc h0 hr']
      have e1 : sigRuns (a0 :: r) = sigRuns (b :: r) := sigRuns_head_congr a0 b r hk'.1.symm hk'.2.symm
      have e2 : sigRuns (a0 :: b :: r) = (a0.resname, cb + 1) :: tl := by
        rw [sigRuns_cons2, hsb]; simp [sigCons, hk'.1.symm, hk'.2.symm]
      rw [e1, e2, hsb]
      simp only [bumpHead, hk'.1]
      have : cb + (c + 1) = cb + 1 + c := by omega
      rw [this]
    · have hk' : ¬ (a0.resname = b.resname ∧ a0.resid = b.resid) := by
        intro h; exact hk ((topKey_eq_iff b a0 hb h0).mpr ⟨h.1.symm, h.2.symm⟩)
      rw [if_pos (by simpa using hk), resnameLenGo_spec r b 0 _ hb hr', topKey_take a0 h0]
      have e2 : sigRuns (a0 :: b :: r) = (a0.resname, 1) :: sigRuns (b :: r) := by
        rw [sigRuns_cons2, hsb]; simp [sigCons, hk']
      rw [e2, hsb]
      simp only [bumpHead, List.append_assoc, List.singleton_append, Nat.add_zero]
      have : c + 1 = 1 + c := by omega
      rw [this]

/-- **`MoleculeTop.resname_len_list` is `sigRuns` of the atom list** — for a topology with at least one
    atom whose residue names have at most five characters and no white space (otherwise the
    `'{:5}{}'.format(resname, resid)` keys the Python compares can collide and `[:5].strip()` cuts the name) -/
theorem resnameLenList_spec (t : Top) (hne : t.atoms ≠ []) (hfit : ∀ a ∈ t.atoms, NameFits a.resname) :
    resnameLenList t = .ok (sigRuns t.atoms) := by
  unfold resnameLenList
  cases h : t.atoms with
  | nil => exact absurd h hne
  | cons a0 rest =>
    rw [h] at hfit
    simp only [List.map_cons, resnameLenGo]
    rw [resnameLenGo_spec rest a0 0 [] (hfit a0 (by simp)) (fun a ha => hfit a (by simp [ha]))]
    obtain ⟨c, tl, hs⟩ := sigRuns_cons a0 rest
    rw [hs]; simp [bumpHead]


/-! ### B. the concrete `System` loading a list of topologies -/

theorem addMoleculeTop_frame (s : Sys) (t : Top) :
    (addMoleculeTop s t).2.sg = s.sg ∧ (addMoleculeTop s t).2.gro = s.gro := by
  unfold addMoleculeTop
  cases resnameLenList t with
  | error e => exact ⟨rfl, rfl⟩
  | ok rl =>
    simp only
    cases lookupPattern s.sg.pk rl with
    | error e => exact ⟨rfl, rfl⟩
    | ok p =>
      simp only
      cases firstMatch s.avail p with
      | error e => exact ⟨rfl, rfl⟩
      | ok start =>
        simp only
        cases buildAt s t p.length start with
        | mk r c =>
          cases r with
          | error e => exact ⟨rfl, rfl⟩
          | ok mol =>
            simp only
            cases findAll p s.mols.length (s.avail.length + 1) start (s.avail.drop start) true s.ordered with
            | error e => exact ⟨rfl, rfl⟩
            | ok r => obtain ⟨tl, ord⟩ := r; exact ⟨rfl, rfl⟩

/-- `len(Molecule(top, view[start:start+L]).resnames)`, computed from the list of residues of the view
    (no file, no cursor) -/
def checkPure (gs : List Residue) (t : Top) (L start : Nat) : Except PyErr Nat :=
  match isliceExt gs (some (start : Int)) (some ((start + L : Nat) : Int)) none with
  | .error e => .error e
  | .ok rs => (mkMolecule t rs).map (fun m => m.residues.length)

theorem buildAt_pure (s : Sys) (gs : List Residue) (hL : Loaded s.gro s.sg gs) (t : Top) (L start : Nat) :
    (buildAt s t L start).1.map (fun m => m.residues.length) = checkPure gs t L start := by
  unfold buildAt checkPure
  have := getSlice_spec s.gro s.sg gs hL s.cur (some (start : Int)) (some ((start + L : Nat) : Int)) none
  cases hg : getSlice s.gro s.sg s.cur (some (start : Int)) (some ((start + L : Nat) : Int)) none with
  | mk r c =>
    rw [hg] at this
    simp only at this
    rw [← this]
    cases r <;> rfl

/-- what a successful `add_molecule_top` appends to `different_molecules` -/
theorem addMoleculeTop_ok_mols (s : Sys) (t : Top) (h : (addMoleculeTop s t).1 = .ok ()) :
    ∃ mol, (addMoleculeTop s t).2.mols = s.mols ++ [mol] ∧ mol.top = t := by
  unfold addMoleculeTop at h ⊢
  cases h1 : resnameLenList t with
  | error e => simp [h1] at h
  | ok rl =>
    simp only [h1] at h ⊢
    cases h2 : lookupPattern s.sg.pk rl with
    | error e => simp [h2] at h
    | ok p =>
      simp only [h2] at h ⊢
      cases h3 : firstMatch s.avail p with
      | error e => simp [h3] at h
      | ok start =>
        simp only [h3] at h ⊢
        cases h4 : buildAt s t p.length start with
        | mk r c =>
          simp only [h4] at h ⊢
          cases r with
          | error e => simp at h
          | ok mol =>
            simp only at h ⊢
            have htop : mol.top = t := by
              unfold buildAt at h4
              cases hg : getSlice s.gro s.sg s.cur (some (start : Int)) (some ((start + p.length : Nat) : Int)) none with
              | mk r2 c2 =>
                rw [hg] at h4
                cases r2 with
                | error e => simp at h4
                | ok rs =>
                  simp only [Prod.mk.injEq] at h4
                  exact (mkMolecule_ok h4.1).1
            cases h5 : findAll p s.mols.length (s.avail.length + 1) start (s.avail.drop start) true s.ordered with
            | error e => simp [h5] at h
            | ok r => obtain ⟨tl, ord⟩ := r; exact ⟨mol, rfl, htop⟩

theorem mapM_mkResidue_good : ∀ (rs : List Residue), (∀ r ∈ rs, GoodGroup r) → rs.mapM mkResidue = .ok rs
  | [], _ => rfl
  | r :: rs, h => by
    have hr := h r (by simp)
    rw [List.mapM_cons, mkResidue_ok r hr.1 hr.2, mapM_mkResidue_good rs (fun x hx => h x (by simp [hx]))]
    rfl

/-- **loading topology texts is the abstract `loadAll`**: if every text reads as `T k`, its signature maps
    through the view's dictionary to `pat k`, and the abstract algorithm (with the `Molecule(...)`
    construction computed from the view's residue list) accepts the whole list, then the concrete `System`
    accepts every `add_ftop`, its projection is the abstract state, and `different_molecules` holds the
    topologies in loading order -/
theorem loadTexts_refines (gs : List Residue) (pat : Nat → List Int) (text : Nat → Itp.Str)
    (T : Nat → Itp.TopInfo) :
    ∀ (order : List Nat) (s : Sys) (st' : RecState), Loaded s.gro s.sg gs →
      (∀ k ∈ order, Itp.readTopology (text k) = .ok (T k)) →
      (∀ k ∈ order, ∃ rl, resnameLenList (topOfInfo (T k)) = .ok rl ∧ lookupPattern s.sg.pk rl = .ok (pat k)) →
      loadAll pat (fun k => checkPure gs (topOfInfo (T k)) (pat k).length) s.toRec order = .ok st' →
      ∃ s', loadTexts s (order.map text) = (order.map (fun _ => .ok ()), s') ∧ s'.toRec = st' ∧
        s'.sg = s.sg ∧ s'.gro = s.gro ∧
        s'.mols.map (·.top) = s.mols.map (·.top) ++ order.map (fun k => topOfInfo (T k))
  | [], s, st', _, _, _, h => by
    simp only [loadAll, Except.ok.injEq] at h
    exact ⟨s, rfl, h, rfl, rfl, by simp⟩
  | k :: order, s, st', hL, hread, hpat, h => by
    obtain ⟨rl, h1, h2⟩ := hpat k (by simp)
    rw [loadAll] at h
    have href := addMoleculeTop_rec s (topOfInfo (T k)) rl (pat k) h1 h2
    have hchk : (fun start => (buildAt s (topOfInfo (T k)) (pat k).length start).1.map (fun m => m.residues.length))
        = checkPure gs (topOfInfo (T k)) (pat k).length := by
      funext start; exact buildAt_pure s gs hL _ _ _
    rw [hchk] at href
    cases hadd : addPattern s.toRec (pat k) (checkPure gs (topOfInfo (T k)) (pat k).length) with
    | error e => rw [hadd] at h; cases h
    | ok st1 =>
      rw [hadd] at h href
      simp only at h href
      obtain ⟨hok, hrec⟩ := href
      obtain ⟨hsg, hgro⟩ := addMoleculeTop_frame s (topOfInfo (T k))
      obtain ⟨mol, hmols, hmt⟩ := addMoleculeTop_ok_mols s (topOfInfo (T k)) hok
      generalize hs1 : (addMoleculeTop s (topOfInfo (T k))).2 = s1 at hrec hsg hgro hmols
      obtain ⟨s', hl, ht, hsg', hgro', hm'⟩ := loadTexts_refines gs pat text T order s1 st'
        (by rw [hsg, hgro]; exact hL) (fun j hj => hread j (by simp [hj]))
        (fun j hj => by rw [hsg]; exact hpat j (by simp [hj])) (by rw [hrec]; exact h)
      refine ⟨s', ?_, ht, by rw [hsg', hsg], by rw [hgro', hgro], ?_⟩
      · simp only [List.map_cons, loadTexts, addFtopText, hread k (by simp)]
        cases hres : addMoleculeTop s (topOfInfo (T k)) with
        | mk r s2 =>
          rw [hres] at hok hs1
          simp only at hok hs1
          subst hok hs1
          simp only [hl]
      · rw [hm', hmols]; simp [hmt]

end SRec
