import GMModel.ExchangeMap
/- `sortNat` (model of `sorted(set)`) returns a sorted permutation of its input. -/

theorem mem_insertSorted (x y : Nat) : ∀ l : List Nat, y ∈ insertSorted x l ↔ y = x ∨ y ∈ l
  | [] => by simp [insertSorted]
  | z :: zs => by
    unfold insertSorted
    split
    · simp
    · simp only [List.mem_cons, mem_insertSorted x y zs]; exact or_left_comm

theorem mem_sortNat (y : Nat) : ∀ l : List Nat, y ∈ sortNat l ↔ y ∈ l
  | [] => by simp [sortNat]
  | z :: zs => by
    have ih := mem_sortNat y zs
    unfold sortNat at ih ⊢
    simp only [List.foldr_cons, mem_insertSorted, List.mem_cons, ih]

theorem insertSorted_sorted (x : Nat) : ∀ l : List Nat, l.Pairwise (· ≤ ·) → (insertSorted x l).Pairwise (· ≤ ·)
  | [], _ => by simp [insertSorted]
  | z :: zs, h => by
    unfold insertSorted
    split
    · rename_i hxz
      rw [List.pairwise_cons] at h ⊢
      refine ⟨?_, List.pairwise_cons.mpr h⟩
      intro a ha
      simp only [List.mem_cons] at ha
      rcases ha with rfl | ha
      · exact hxz
      · exact Nat.le_trans hxz (h.1 a ha)
    · rename_i hxz
      rw [List.pairwise_cons] at h ⊢
      refine ⟨?_, insertSorted_sorted x zs h.2⟩
      intro a ha
      rw [mem_insertSorted] at ha
      rcases ha with rfl | ha
      · omega
      · exact h.1 a ha

theorem sortNat_sorted : ∀ l : List Nat, (sortNat l).Pairwise (· ≤ ·)
  | [] => by simp [sortNat]
  | z :: zs => by
    have ih := sortNat_sorted zs
    unfold sortNat at ih ⊢
    simp only [List.foldr_cons]
    exact insertSorted_sorted z _ ih

theorem length_insertSorted (x : Nat) : ∀ l : List Nat, (insertSorted x l).length = l.length + 1
  | [] => by simp [insertSorted]
  | z :: zs => by
    unfold insertSorted
    split
    · simp
    · simp [length_insertSorted x zs]

theorem length_sortNat : ∀ l : List Nat, (sortNat l).length = l.length
  | [] => by simp [sortNat]
  | z :: zs => by
    have ih := length_sortNat zs
    unfold sortNat at ih ⊢
    simp only [List.foldr_cons, length_insertSorted, ih, List.length_cons]
