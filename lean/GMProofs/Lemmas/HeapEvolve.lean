import GMProofs.Lemmas.HeapEMap
/-
  GMProofs.Lemmas.HeapEvolve — histories of calls and COORDINATE assignments keep every label:
  an AtomGro may only change its position, an AtomTop only its residue number, everything else
  is immutable.  (Used to show that the target's labels seen by a call after any such history are
  the construction-time ones.)
-/

namespace GMHeap

variable {α F P : Type}

/-- only the position of an AtomGro / only the residue number of an AtomTop may differ -/
def Rpos : Rel α where
  g := fun a b => b = { a with pos := b.pos }
  t := fun a b => b = { a with resid := b.resid }
  g_refl := fun a => by cases a; rfl
  t_refl := fun a => by cases a; rfl
  g_trans := fun a b c h1 h2 => by
    cases a; cases b; cases c
    simp only [AtomGroC.mk.injEq] at h1 h2 ⊢
    obtain ⟨a1, a2, a3, a4, _, a6⟩ := h1
    obtain ⟨b1, b2, b3, b4, _, b6⟩ := h2
    exact ⟨b1.trans a1, b2.trans a2, b3.trans a3, b4.trans a4, trivial, b6.trans a6⟩
  t_trans := fun a b c h1 h2 => by
    cases a; cases b; cases c
    simp only [AtomTopC.mk.injEq] at h1 h2 ⊢
    obtain ⟨a1, a2, _, a4, a5⟩ := h1
    obtain ⟨b1, b2, _, b4, b5⟩ := h2
    exact ⟨b1.trans a1, b2.trans a2, trivial, b4.trans a4, b5.trans a5⟩

/-- `h'` is a label-preserving successor of `h` -/
def Evolves (h h' : Heap α) : Prop := ∃ W, Frame (Rpos : Rel α) W h h'

theorem Evolves.refl (h : Heap α) : Evolves h h := ⟨NoW, Frame.refl _ _ _⟩

theorem Evolves.trans {h h1 h2 : Heap α} (a : Evolves h h1) (b : Evolves h1 h2) : Evolves h h2 := by
  obtain ⟨W1, f1⟩ := a
  obtain ⟨W2, f2⟩ := b
  exact ⟨_, f1.trans f2⟩

theorem Evolves.of_alloc {h h' : Heap α} (f : ∀ R : Rel α, Frame R NoW h h') : Evolves h h' := ⟨_, f _⟩

/-! ### coordinate assignments -/

theorem evolves_posLoop (check : Bool) (h : Heap α) (pairs : List (Option Nat × Nat)) (ps : List (V3 α)) :
    Evolves h (applyW check h (mkW pairs ps (fun p g => { g with pos := p }) (fun _ => none))).1 := by
  refine ⟨_, frame_applyW Rpos check h _ ?_⟩
  intro w hw
  obtain ⟨p, _, v, _, rfl⟩ := mkW_mem hw
  exact ⟨fun g => rfl, fun f hf => by cases hf⟩

theorem evolves_setPositions (h : Heap α) (o : Obj) (ps : List (V3 α)) :
    Evolves h (setPositions h o ps).1 := by
  unfold setPositions
  cases collPairs h o with
  | error e => exact Evolves.refl h
  | ok pc =>
    obtain ⟨pairs, check⟩ := pc
    simp only
    split
    · exact Evolves.refl h
    · exact evolves_posLoop check h pairs ps

theorem evolves_setAttr_pos (h : Heap α) (o : Obj) (p : V3 α) : Evolves h (setAttr h o (.pos p)).1 := by
  cases o with
  | mol m => exact Evolves.refl h
  | res r => exact Evolves.refl h
  | agro g =>
    simp only [setAttr, AttrVal.fg]
    exact ⟨_, frame_modGro Rpos h g _ (fun _ => rfl)⟩
  | atom t g =>
    simp only [setAttr, AttrVal.fg, AttrVal.ft]
    exact ⟨_, frame_modGro Rpos h g _ (fun _ => rfl)⟩

section geometry
variable [Scalar α]

theorem evolves_moveObj (h : Heap α) (o : Obj) (d : V3 α) : Evolves h (moveObj h o d).1 := by
  unfold moveObj
  cases positionsOf h o with
  | error e => exact Evolves.refl h
  | ok ps => exact evolves_setPositions h o _

theorem evolves_moveToObj (h : Heap α) (o : Obj) (p : V3 α) : Evolves h (moveToObj h o p).1 := by
  unfold moveToObj
  cases centreOf h o with
  | error e => exact Evolves.refl h
  | ok c => exact evolves_moveObj h o _

theorem evolves_rotateObj (h : Heap α) (o : Obj) (r : M3 α) : Evolves h (rotateObj h o r).1 := by
  unfold rotateObj
  cases positionsOf h o with
  | error e => exact Evolves.refl h
  | ok ps => exact evolves_setPositions h o _

end geometry

/-! ### allocation-only operations -/

theorem evolves_allocOk_molInit {h0 h : Heap α} (f0 : ∀ R : Rel α, Frame R NoW h0 h) (t : Nat)
    (rs : List Nat) : Evolves h0 (allocOk (molInit h t rs) h0 Obj.mol).heap := by
  cases hc : molInit h t rs with
  | error e => exact Evolves.refl h0
  | ok p =>
    obtain ⟨h1, a⟩ := p
    exact Evolves.of_alloc (fun R => (f0 R).trans' ((molInit_spec hc).frame R))

/-- the operations a C04 history may contain besides calls: coordinate assignments and everything that
    only allocates (copies, hand-outs, views, loading) -/
def CoordHeapOp : Op α → Prop
  | .move .. | .moveTo .. | .rotate .. | .setPos .. => True
  | .copy _ | .deepCopy _ | .molWith .. | .getAtom .. | .iterAtom .. | .getResidue .. | .newMol .. => True
  | .setAttr _ (.pos _) => True
  | _ => False

section step
variable [Scalar α]

theorem evolves_stepOn (h : Heap α) (o : Obj) (op : Op α) (hop : CoordHeapOp op) :
    Evolves h (stepOn h o op).heap := by
  have stay : ∀ e : PyErr, Evolves h (⟨h, none, some e⟩ : StepR α).heap := fun _ => Evolves.refl h
  cases op with
  | newMol name tops residues => exact stay _
  | move i d => exact evolves_moveObj h o d
  | moveTo i p => exact evolves_moveToObj h o p
  | rotate i r => exact evolves_rotateObj h o r
  | setPos i ps => exact evolves_setPositions h o ps
  | setVel i vs => exact hop.elim
  | setIds i ids => exact hop.elim
  | setResidsL i l => exact hop.elim
  | setResidsI i n => exact hop.elim
  | setResnamesL i l => exact hop.elim
  | setResnamesS i s => exact hop.elim
  | setAttr i v =>
    cases v with
    | pos p => exact evolves_setAttr_pos h o p
    | vel v => exact hop.elim
    | atomid n => exact hop.elim
    | groResid n => exact hop.elim
    | topResid n => exact hop.elim
    | resname s => exact hop.elim
    | name s => exact hop.elim
  | copy i =>
    cases o with
    | mol m =>
      simp only [stepOn]
      cases h.mol? m with
      | none => exact stay _
      | some p =>
        obtain ⟨t, rs, e⟩ := p
        exact evolves_allocOk_molInit (fun R => Frame.refl R _ h) t rs
    | res r =>
      simp only [stepOn]
      cases hc : copyResidue h r with
      | error e => exact stay _
      | ok p =>
        obtain ⟨h1, a⟩ := p
        obtain ⟨_, _, _, _, n⟩ := copyResidue_spec hc
        exact Evolves.of_alloc n.frame
    | agro g =>
      simp only [stepOn]
      cases h.gro? g with
      | none => exact stay _
      | some c => exact Evolves.of_alloc (fun R => frame_alloc R h _)
    | atom t g =>
      simp only [stepOn]
      cases h.gro? g with
      | none => exact stay _
      | some c =>
        simp only
        split
        · exact stay _
        · exact Evolves.of_alloc (fun R => frame_alloc R h _)
  | deepCopy i =>
    cases o with
    | mol m =>
      simp only [stepOn]
      cases h.mol? m with
      | none => exact stay _
      | some p =>
        obtain ⟨t, rs, e⟩ := p
        simp only
        cases e2 : copyTop h t with
        | error e => exact stay _
        | ok q =>
          obtain ⟨h1, t'⟩ := q
          exact evolves_allocOk_molInit (copyTop_spec e2).1 t' rs
    | res r => exact stay _
    | agro g => exact stay _
    | atom t g => exact stay _
  | molWith i residues =>
    cases o with
    | mol m =>
      simp only [stepOn]
      cases h.mol? m with
      | none => exact stay _
      | some p =>
        obtain ⟨t, rs0, e⟩ := p
        simp only
        cases e2 : allocResidues h residues with
        | error e => exact stay _
        | ok q =>
          obtain ⟨h1, rs⟩ := q
          exact evolves_allocOk_molInit (allocResidues_spec e2).frame t rs
    | res r => exact stay _
    | agro g => exact stay _
    | atom t g => exact stay _
  | getAtom i k =>
    cases o with
    | mol m =>
      simp only [stepOn]
      cases molView h m with
      | none => exact stay _
      | some v =>
        simp only
        cases molItem v k with
        | error e => exact stay _
        | ok tg =>
          obtain ⟨t, g⟩ := tg
          simp only
          cases matchErr h t g <;> exact Evolves.refl h
    | res r =>
      simp only [stepOn]
      cases h.res? r with
      | none => exact stay _
      | some gs =>
        simp only
        cases gs[k]? <;> exact Evolves.refl h
    | agro g => exact stay _
    | atom t g => exact stay _
  | iterAtom i k =>
    cases o with
    | mol m =>
      simp only [stepOn]
      cases molView h m with
      | none => exact stay _
      | some v =>
        simp only
        split
        · exact stay _
        · cases iterCheck h (v.tops.zip v.gros) k with
          | some e => exact stay _
          | none =>
            simp only
            cases (v.tops.zip v.gros)[k]? <;> exact Evolves.refl h
    | res r => exact stay _
    | agro g => exact stay _
    | atom t g => exact stay _
  | getResidue i k =>
    cases o with
    | mol m =>
      simp only [stepOn]
      cases h.mol? m with
      | none => exact stay _
      | some p =>
        obtain ⟨t, rs, e⟩ := p
        simp only
        cases rs[k]? <;> exact Evolves.refl h
    | res r => exact stay _
    | agro g => exact stay _
    | atom t g => exact stay _

theorem evolves_newMol (h : Heap α) (name : String) (tops : List AtomTopC)
    (residues : List (List (AtomGroC α))) : Evolves h (newMol h name tops residues).heap := by
  unfold newMol
  simp only
  cases e2 : allocResidues ((h.allocList (tops.map Cell.top)).1.alloc
      (.mtop name (h.allocList (tops.map Cell.top)).2)).1 residues with
  | error e => exact Evolves.refl h
  | ok q =>
    obtain ⟨h3, rs⟩ := q
    simp only
    exact evolves_allocOk_molInit
      (fun R => ((frame_allocList R h _).trans' (frame_alloc R _ _)).trans' ((allocResidues_spec e2).frame R))
      _ rs

theorem evolves_step (h : Heap α) (env : List Obj) (op : Op α) (hop : CoordHeapOp op) :
    Evolves h (step h env op).heap := by
  cases op with
  | newMol name tops residues => exact evolves_newMol h name tops residues
  | _ =>
    simp only [step, Op.target]
    split
    · exact Evolves.refl h
    · exact evolves_stepOn h _ _ hop

end step

/-! ### calls -/

theorem evolves_of_Rc {W : Nat → Prop} {h h' : Heap α} (f : Frame (Rc : Rel α) W h h')
    (hg : ∀ a, a < h.size → h'.gro? a = h.gro? a) : Evolves h h' := by
  refine ⟨W, f.size_le, f.same, ?_⟩
  intro a c hc
  obtain ⟨c', hc', rel⟩ := f.rel a c hc
  cases c with
  | gro g =>
    have : h'.gro? a = some g := by
      rw [hg a (Heap.lt_size_of_get? hc)]; exact Heap.gro?_eq_some.mpr hc
    exact ⟨.gro g, Heap.gro?_eq_some.mp this, Rpos.g_refl g⟩
  | top t =>
    cases c' <;> simp [CellRel] at rel
    exact ⟨_, hc', rel⟩
  | res l =>
    cases c' <;> simp [CellRel] at rel
    exact ⟨_, hc', by simpa [CellRel] using rel⟩
  | mtop n l =>
    cases c' <;> simp [CellRel] at rel
    exact ⟨_, hc', by simpa [CellRel] using rel⟩
  | mol t r e =>
    cases c' <;> simp [CellRel] at rel
    exact ⟨_, hc', by simpa [CellRel] using rel⟩

theorem evolves_call (G : Geo α F P) (h : Heap α) (E : EMap F P) (arg : Option Obj) :
    Evolves h (call G h E arg).heap := by
  cases arg with
  | none => exact Evolves.refl h
  | some o =>
    cases o with
    | res r => exact Evolves.refl h
    | agro g => exact Evolves.refl h
    | atom t g => exact Evolves.refl h
    | mol m =>
      simp only [call]
      cases molEq h E.ref m with
      | error e => exact Evolves.refl h
      | ok b =>
        cases b with
        | false => exact Evolves.refl h
        | true =>
          simp only
          rcases calcRefs G h m E.table with ⟨tb, _ | er⟩
          · obtain ⟨f, hg⟩ := finishCall_frame G h { E with table := tb } m
            exact evolves_of_Rc f hg
          · exact Evolves.refl h

/-- the operations of a C04 history: calls (accepted or rejected) and coordinate / allocation
    heap operations -/
def CoordOp : EOp α → Prop
  | .call _ => True
  | .callOther => True
  | .op o => CoordHeapOp o

theorem evolves_erun [Scalar α] (G : Geo α F P) (s : EState α F P) (ops : List (EOp α))
    (hops : ∀ op ∈ ops, CoordOp op) : Evolves s.heap (erun G s ops).heap := by
  induction ops generalizing s with
  | nil => exact Evolves.refl _
  | cons op ops ih =>
    simp only [erun]
    have h1 : Evolves s.heap (estep G s op).1.heap := by
      have hop := hops op (List.mem_cons_self ..)
      cases op with
      | call i =>
        simp only [estep]
        cases s.env[i]? with
        | none => exact Evolves.refl _
        | some o => exact evolves_call G _ _ _
      | callOther => exact evolves_call G _ _ _
      | op o => exact evolves_step _ _ _ hop
    exact h1.trans (ih _ (fun op' h' => hops op' (List.mem_cons_of_mem _ h')))

/-! ### what a label-preserving successor preserves -/

/-- everything of an AtomGro record except the position -/
def groLabels (c : AtomGroC α) : Int × String × String × Int × Option (V3 α) :=
  (c.resid, c.resname, c.name, c.atomid, c.vel)

theorem Evolves.gro {h h' : Heap α} (e : Evolves h h') {a : Nat} {c : AtomGroC α}
    (hc : h.gro? a = some c) : ∃ c', h'.gro? a = some c' ∧ groLabels c' = groLabels c := by
  obtain ⟨W, f⟩ := e
  obtain ⟨c', hc', rel⟩ := f.gro?_isSome hc
  refine ⟨c', hc', ?_⟩
  have : c' = { c with pos := c'.pos } := rel
  rw [this]; rfl

theorem Evolves.top {h h' : Heap α} (e : Evolves h h') {a : Nat} {c : AtomTopC}
    (hc : h.top? a = some c) :
    ∃ c', h'.top? a = some c' ∧ c'.name = c.name ∧ c'.resname = c.resname ∧ c'.index = c.index ∧
      c'.bonds = c.bonds := by
  obtain ⟨W, f⟩ := e
  obtain ⟨c', hc', rel⟩ := f.top?_isSome hc
  refine ⟨c', hc', ?_⟩
  have : c' = { c with resid := c'.resid } := rel
  rw [this]; exact ⟨rfl, rfl, rfl, rfl⟩

theorem Evolves.molView {h h' : Heap α} (e : Evolves h h') {m : Nat} {v : MolView}
    (hv : GMHeap.molView h m = some v) : GMHeap.molView h' m = some v := by
  obtain ⟨W, f⟩ := e
  exact f.molView hv

theorem Evolves.readGros {h h' : Heap α} (e : Evolves h h') {gs : List Nat} {cs : List (AtomGroC α)}
    (hr : GMHeap.readGros h gs = some cs) :
    ∃ cs', GMHeap.readGros h' gs = some cs' ∧ cs'.map groLabels = cs.map groLabels := by
  induction gs generalizing cs with
  | nil =>
    simp [GMHeap.readGros] at hr; subst hr
    exact ⟨[], rfl, rfl⟩
  | cons g gs ih =>
    simp only [GMHeap.readGros] at hr
    cases h1 : h.gro? g with
    | none => simp [h1] at hr
    | some c =>
      cases h2 : GMHeap.readGros h gs with
      | none => simp [h1, h2] at hr
      | some cs0 =>
        simp only [h1, h2, Option.some.injEq] at hr
        subst hr
        obtain ⟨c', hc', hl⟩ := e.gro h1
        obtain ⟨cs', hcs', hls⟩ := ih h2
        exact ⟨c' :: cs', by simp [GMHeap.readGros, hc', hcs'], by simp [hl, hls]⟩

/-- name, residue name, index and bonds of an AtomTop (everything but its residue number) -/
def topLabels (c : AtomTopC) : String × String × Nat × List Nat := (c.name, c.resname, c.index, c.bonds)

theorem Evolves.readTops {h h' : Heap α} (e : Evolves h h') {ts : List Nat} {cs : List AtomTopC}
    (hr : GMHeap.readTops h ts = some cs) :
    ∃ cs', GMHeap.readTops h' ts = some cs' ∧ cs'.map topLabels = cs.map topLabels := by
  induction ts generalizing cs with
  | nil =>
    simp [GMHeap.readTops] at hr; subst hr
    exact ⟨[], rfl, rfl⟩
  | cons g gs ih =>
    simp only [GMHeap.readTops] at hr
    cases h1 : h.top? g with
    | none => simp [h1] at hr
    | some c =>
      cases h2 : GMHeap.readTops h gs with
      | none => simp [h1, h2] at hr
      | some cs0 =>
        simp only [h1, h2, Option.some.injEq] at hr
        subst hr
        obtain ⟨c', hc', a1, a2, a3, a4⟩ := e.top h1
        obtain ⟨cs', hcs', hls⟩ := ih h2
        exact ⟨c' :: cs', by simp [GMHeap.readTops, hc', hcs'], by simp [topLabels, a1, a2, a3, a4, hls]⟩

end GMHeap
