import GMProofs.Lemmas.GroWriterL
/-
  A whole writer session followed by the reader (core Lean only).
-/
open PyStr PyStrL Gro

namespace GroL

theorem run_append (s : WState) (a b : List Op) :
    run s (a ++ b) = ((run (run s a).1 b).1, (run s a).2 ++ (run (run s a).1 b).2) := by
  induction a generalizing s with
  | nil => simp [run]
  | cons op t ih => simp only [List.cons_append, run, ih]

/-- declared count = number of records, or (count back-filled) fewer than 10⁹ records -/
def CountOk (s : WState) (n : Nat) : Prop :=
  match s.natoms with
  | none => n < 10 ^ 9
  | some m => m = (n : Int)

/-- the bytes of a complete session started from a `Pristine` state -/
theorem session_bytes {s : WState} (hs : Pristine s) (r0 : Rec) (rest : List Rec) (w d : Nat) (vel : Bool)
    (hf : s.effFormat = (w, d)) (hr : ∀ r ∈ r0 :: rest, RecOk w d vel r) (ht : TitleOk s.effComment)
    (hcount : CountOk s (r0 :: rest).length) :
    (run s ((r0 :: rest).map Op.writeLine ++ [Op.close])).1.bytes
        = groBytes s.effComment (countFinal s (r0 :: rest).length) ((r0 :: rest).map (lineOf w d))
            (dumpLattice s.box) ∧
      ∀ e ∈ (run s ((r0 :: rest).map Op.writeLine ++ [Op.close])).2, e = none := by
  obtain ⟨s1, hs1, hw1⟩ := setup_step hs r0 w d vel hf (hr r0 (by simp)) ht
  obtain ⟨hw2, he2⟩ := writing_run rest hw1 (fun r h => hr r (by simp [h]))
  have hL : ∀ r ∈ r0 :: rest, (lineOf w d r).length = (lineOf w d r0).length := by
    intro r h
    rw [lineOf_length (hr r h), lineOf_length (hr r0 (by simp))]
  obtain ⟨s3, hs3, hb3⟩ := close_step hw2 (by simp) hL hcount
  rw [run_append]
  simp only [List.map_cons, run, hs1]
  simp only [List.singleton_append] at hb3 hs3
  rw [hs3]
  refine ⟨hb3, ?_⟩
  intro e he
  simp only [List.mem_append, List.mem_cons, List.not_mem_nil, or_false] at he
  rcases he with (he | he) | he
  · exact he
  · exact he2 e he
  · exact he

theorem countFinal_chars (s : WState) (n : Nat) : ∀ c ∈ countFinal s n, NumCh c := by
  unfold countFinal
  split
  · exact fmtD_chars _ _
  · intro c hc
    rcases intBody_chars _ c hc with h | h
    · exact Or.inr (Or.inl h)
    · exact Or.inr (Or.inr (Or.inr h))

theorem pyInt_countFinal (s : WState) (n : Nat) (h : CountOk s n) :
    pyInt (countFinal s n ++ [nl]) = .ok (n : Int) := by
  unfold countFinal
  unfold CountOk at h
  have hnl : ∀ c ∈ [nl], isCSpace c = true := by intro c hc; simp at hc; subst hc; decide
  split
  · exact pyInt_fmtD _ _ _ hnl
  · rename_i m hm
    rw [hm] at h
    simp only at h
    rw [h]
    have := pyInt_padded [] [nl] (n : Int) (by simp) hnl
    simpa using this

theorem mapM_parse_lines (w d : Nat) (vel : Bool) (e : Int) (hd : 1 ≤ d) (recs : List Rec)
    (hr : ∀ r ∈ recs, RecOk w d vel r) :
    (recs.map (lineOf w d)).mapM (fun l => parseAtomline stdParsers (w, e, vel) (l ++ [nl]))
      = .ok (recs.map (roundRec d)) := by
  induction recs with
  | nil => rfl
  | cons r t ih =>
    simp only [List.map_cons, List.mapM_cons, parseAtomline_lineOf (hr r (by simp)) hd e,
      ih (fun x hx => hr x (by simp [hx])), bind, Except.bind, pure, Except.pure]

/-- reading back a complete session -/
theorem session_read {s : WState} (r0 : Rec) (rest : List Rec) (w d : Nat) (vel : Bool) (hd : 1 ≤ d)
    (hr : ∀ r ∈ r0 :: rest, RecOk w d vel r) (ht : TitleOk s.effComment)
    (hcount : CountOk s (r0 :: rest).length) :
    groRead stdParsers (groBytes s.effComment (countFinal s (r0 :: rest).length) ((r0 :: rest).map (lineOf w d))
        (dumpLattice s.box))
      = .ok ⟨s.effComment ++ [nl], (r0 :: rest).map (roundRec d), roundBox s.box⟩ := by
  have hpre : PreOk stdParsers s.effComment (countFinal s (r0 :: rest).length) ((r0 :: rest).map (lineOf w d))
      (lineOf w d r0).length := by
    constructor
    · exact ht
    · intro h; exact (countFinal_chars _ _ _ h).ne_nl rfl
    · intro l hl
      obtain ⟨r, hrm, rfl⟩ := List.mem_map.mp hl
      exact ⟨lineOf_no_nl (hr r hrm), by rw [lineOf_length (hr r hrm), lineOf_length (hr r0 (by simp))]⟩
    · simp
    · have := pyInt_countFinal s (r0 :: rest).length hcount
      simpa [stdParsers] using this
  have htl : takeLine (dumpLattice s.box ++ [nl]) = dumpLattice s.box ++ [nl] :=
    takeLine_append_nl _ [] (dumpLattice_no_nl _)
  unfold groBytes
  exact groRead_pre stdParsers s.effComment (countFinal s (r0 :: rest).length) (dumpLattice s.box ++ [nl])
    ((r0 :: rest).map (lineOf w d)) (lineOf w d r0).length (lineOf w d r0) (rest.map (lineOf w d))
    (w, (w : Int) - 5, vel) (roundBox s.box) ((r0 :: rest).map (roundRec d)) hpre (by simp)
    (determineFormat_lineOf (hr r0 (by simp)) hd) (by rw [htl]; simp)
    (by rw [htl]; exact extractLattice_dumpLattice _)
    (mapM_parse_lines w d vel _ hd _ hr)

end GroL
