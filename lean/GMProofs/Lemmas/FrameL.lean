import GMProofs.Lemmas.Vec
import Mathlib.Tactic.SplitIfs
/-
  GMProofs.Lemmas.FrameL — `frameThird` returns a unit vector orthogonal to a unit `vec1`,
  in each of its three branches; consequences for `calculeBase`.
-/
open V3

/-- the test `norm w <= 1e-6 * norm u` of `calcule_base` over ℝ -/
def collinearTest (vec1 u : V3 ℝ) : Prop :=
  V3.norm (V3.cross vec1 u) ≤ (1 : ℝ) / 10 ^ 6 * V3.norm u

theorem frameThird_generic {vec1 u : V3 ℝ} (h : ¬ collinearTest vec1 u) :
    frameThird vec1 u = V3.divs (V3.cross vec1 u) (V3.norm (V3.cross vec1 u)) := by
  unfold collinearTest at h
  unfold frameThird
  simp only [RS.le_def, RS.ofDec_def, RS.mul_def, Int.cast_one, decide_eq_true_eq]
  rw [if_neg h]

theorem frameThird_z {vec1 u : V3 ℝ} (h : collinearTest vec1 u) (hz : vec1.x = 0 ∧ vec1.y = 0) :
    frameThird vec1 u = ⟨1, 0, 0⟩ := by
  unfold collinearTest at h
  unfold frameThird
  simp only [RS.le_def, RS.ofDec_def, RS.mul_def, Int.cast_one, decide_eq_true_eq, RS.isZero_def,
    Bool.and_eq_true, RS.zero_def, RS.one_def]
  rw [if_pos h, if_pos hz]

theorem frameThird_xy {vec1 u : V3 ℝ} (h : collinearTest vec1 u) (hz : ¬ (vec1.x = 0 ∧ vec1.y = 0)) :
    frameThird vec1 u =
      V3.divs ⟨vec1.y, -vec1.x, 0⟩ (Real.sqrt (vec1.x * vec1.x + vec1.y * vec1.y)) := by
  unfold collinearTest at h
  unfold frameThird
  simp only [RS.le_def, RS.ofDec_def, RS.mul_def, Int.cast_one, decide_eq_true_eq, RS.isZero_def,
    Bool.and_eq_true, RS.zero_def, RS.neg_def, Scalar.hypot, RS.sqrt_def, RS.add_def]
  rw [if_pos h, if_neg hz]

theorem frameThird_unit_perp {vec1 : V3 ℝ} (u : V3 ℝ) (h1 : Unit1 vec1) :
    Unit1 (frameThird vec1 u) ∧
    vec1.x * (frameThird vec1 u).x + vec1.y * (frameThird vec1 u).y + vec1.z * (frameThird vec1 u).z = 0 := by
  by_cases hc : collinearTest vec1 u
  · by_cases hz : vec1.x = 0 ∧ vec1.y = 0
    · rw [frameThird_z hc hz]
      refine ⟨by unfold Unit1; norm_num, ?_⟩
      simp [hz.1]
    · rw [frameThird_xy hc hz]
      have hpos : 0 < vec1.x * vec1.x + vec1.y * vec1.y := by
        rcases not_and_or.mp hz with h | h
        · nlinarith [mul_self_pos.mpr h, mul_self_nonneg vec1.y]
        · nlinarith [mul_self_pos.mpr h, mul_self_nonneg vec1.x]
      have hs : Real.sqrt (vec1.x * vec1.x + vec1.y * vec1.y) ≠ 0 :=
        (Real.sqrt_pos.mpr hpos).ne'
      have hss := Real.mul_self_sqrt hpos.le
      constructor
      · unfold Unit1
        simp only [V3.divs, RS.div_def]
        rw [div_mul_div_comm, div_mul_div_comm, div_mul_div_comm, ← add_div, ← add_div, hss]
        rw [div_eq_one_iff_eq hpos.ne']
        ring
      · simp only [V3.divs, RS.div_def]
        field_simp
        ring
  · rw [frameThird_generic hc]
    have hw : V3.norm (V3.cross vec1 u) ≠ 0 := by
      intro e
      apply hc
      unfold collinearTest
      rw [e]
      have := V3.norm_nonneg u
      positivity
    refine ⟨V3.normalize_unit hw, ?_⟩
    simp only [V3.divs, RS.div_def]
    rw [← mul_div_assoc, ← mul_div_assoc, ← mul_div_assoc, ← add_div, ← add_div]
    rw [div_eq_zero_iff]; left
    simp only [gm]; ring

/-- in the exactly-collinear case the cross product vanishes, so `u` is a multiple of `vec1` -/
theorem cross_zero_parallel {vec1 u : V3 ℝ} (h1 : Unit1 vec1) (hw : V3.cross vec1 u = V3.zero) :
    u = V3.smul (V3.dot vec1 u) vec1 := by
  unfold Unit1 at h1
  have h : vec1.y * u.z - vec1.z * u.y = 0 ∧ vec1.z * u.x - vec1.x * u.z = 0 ∧
      vec1.x * u.y - vec1.y * u.x = 0 := by simpa [gm] using hw
  obtain ⟨ha, hb, hc⟩ := h
  apply V3.ext' <;> simp only [gm]
  · linear_combination (-u.x) * h1 + vec1.z * hb - vec1.y * hc
  · linear_combination (-u.y) * h1 - vec1.z * ha + vec1.x * hc
  · linear_combination (-u.z) * h1 + vec1.y * ha - vec1.x * hb

theorem frameThird_perp_smul {e1 : V3 ℝ} (u : V3 ℝ) (h1 : Unit1 e1) (k : ℝ) :
    V3.dot (frameThird e1 u) (V3.smul k e1) = 0 := by
  obtain ⟨_, h13⟩ := frameThird_unit_perp u h1
  generalize frameThird e1 u = e3 at *
  simp only [V3.dot, V3.smul, RS.mul_def, RS.add_def]
  linear_combination k * h13

/-- `frameThird e1 u ⟂ u` in the generic branch and when `e1 × u = 0` -/
theorem frameThird_perp_u {e1 : V3 ℝ} (u : V3 ℝ) (h1 : Unit1 e1)
    (hc : ¬ collinearTest e1 u ∨ V3.cross e1 u = V3.zero) :
    V3.dot (frameThird e1 u) u = 0 := by
  obtain ⟨_, h13⟩ := frameThird_unit_perp u h1
  rcases hc with hg | hw
  · rw [frameThird_generic hg]
    simp only [V3.dot, V3.divs, RS.mul_def, RS.add_def, RS.div_def]
    rw [div_mul_eq_mul_div, div_mul_eq_mul_div, div_mul_eq_mul_div, ← add_div, ← add_div,
      div_eq_zero_iff]
    left; simp only [gm]; ring
  · have hu := cross_zero_parallel h1 hw
    generalize frameThird e1 u = e3 at *
    rw [hu]
    simp only [V3.dot, V3.smul, RS.mul_def, RS.add_def]
    linear_combination (e1.x * u.x + e1.y * u.y + e1.z * u.z) * h13

/-- Bessel + Lagrange: for orthonormal `e1 ⟂ e3`, `|e3·u| ≤ ‖e1 × u‖` -/
theorem dot_le_cross_norm {e1 e3 : V3 ℝ} (u : V3 ℝ) (h1 : Unit1 e1) (h3 : Unit1 e3)
    (h13 : e1.x * e3.x + e1.y * e3.y + e1.z * e3.z = 0) :
    |V3.dot e3 u| ≤ V3.norm (V3.cross e1 u) := by
  apply abs_le_of_sq_le_sq _ (V3.norm_nonneg _)
  rw [sq, sq, V3.norm_mul_self]
  unfold Unit1 at h1 h3
  simp only [gm]
  have key : (u.x * u.x + u.y * u.y + u.z * u.z)
      - (e1.x * u.x + e1.y * u.y + e1.z * u.z) ^ 2 - (e3.x * u.x + e3.y * u.y + e3.z * u.z) ^ 2
      = (u.x - (e1.x * u.x + e1.y * u.y + e1.z * u.z) * e1.x - (e3.x * u.x + e3.y * u.y + e3.z * u.z) * e3.x) ^ 2
      + (u.y - (e1.x * u.x + e1.y * u.y + e1.z * u.z) * e1.y - (e3.x * u.x + e3.y * u.y + e3.z * u.z) * e3.y) ^ 2
      + (u.z - (e1.x * u.x + e1.y * u.y + e1.z * u.z) * e1.z - (e3.x * u.x + e3.y * u.y + e3.z * u.z) * e3.z) ^ 2 := by
    linear_combination (-(e1.x * u.x + e1.y * u.y + e1.z * u.z) ^ 2) * h1
      + (-(e3.x * u.x + e3.y * u.y + e3.z * u.z) ^ 2) * h3
      + (-2 * (e1.x * u.x + e1.y * u.y + e1.z * u.z) * (e3.x * u.x + e3.y * u.y + e3.z * u.z)) * h13
  have lag : (e1.y * u.z - e1.z * u.y) * (e1.y * u.z - e1.z * u.y)
      + (e1.z * u.x - e1.x * u.z) * (e1.z * u.x - e1.x * u.z)
      + (e1.x * u.y - e1.y * u.x) * (e1.x * u.y - e1.y * u.x)
      = (u.x * u.x + u.y * u.y + u.z * u.z) - (e1.x * u.x + e1.y * u.y + e1.z * u.z) ^ 2 := by
    linear_combination (u.x * u.x + u.y * u.y + u.z * u.z) * h1
  rw [lag]
  nlinarith [sq_nonneg (u.x - (e1.x * u.x + e1.y * u.y + e1.z * u.z) * e1.x - (e3.x * u.x + e3.y * u.y + e3.z * u.z) * e3.x),
    sq_nonneg (u.y - (e1.x * u.x + e1.y * u.y + e1.z * u.z) * e1.y - (e3.x * u.x + e3.y * u.y + e3.z * u.z) * e3.y),
    sq_nonneg (u.z - (e1.x * u.x + e1.y * u.y + e1.z * u.z) * e1.z - (e3.x * u.x + e3.y * u.y + e3.z * u.z) * e3.z)]
