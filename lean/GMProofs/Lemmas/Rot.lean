import GMProofs.Lemmas.Vec
/-
  GMProofs.Lemmas.Rot — identities of `rotCore n c s` for a unit `n` and `c² + s² = 1`.
  The `linear_combination` cofactors were produced by `tools/rot_certs.py` (sympy `reduced`
  against the Gröbner basis {n·n − 1, c² + s² − 1}); Lean re-checks them with `ring`.
-/

open V3

theorem rotCore_orth (n : V3 ℝ) (c s : ℝ) (hN : Unit1 n) (hT : c * c + s * s = 1) :
    M3.mul (rotCore n c s) (M3.transpose (rotCore n c s)) = M3.eye := by
  unfold Unit1 at hN
  simp only [rotCore, gm, M3.mk.injEq, V3.mk.injEq]
  refine ⟨⟨?_, ?_, ?_⟩, ⟨?_, ?_, ?_⟩, ⟨?_, ?_, ?_⟩⟩
  · linear_combination (c^2*n.x^2 - c^2 - 2*c*n.x^2 + n.x^2 + 1) * hN + (n.y^2 + n.z^2) * hT
  · linear_combination (c^2*n.x*n.y - 2*c*n.x*n.y + n.x*n.y) * hN + (-n.x*n.y) * hT
  · linear_combination (c^2*n.x*n.z - 2*c*n.x*n.z + n.x*n.z) * hN + (-n.x*n.z) * hT
  · linear_combination (c^2*n.x*n.y - 2*c*n.x*n.y + n.x*n.y) * hN + (-n.x*n.y) * hT
  · linear_combination (c^2*n.y^2 - 2*c*n.y^2 + n.y^2 + s^2) * hN + (1 - n.y^2) * hT
  · linear_combination (c^2*n.y*n.z - 2*c*n.y*n.z + n.y*n.z) * hN + (-n.y*n.z) * hT
  · linear_combination (c^2*n.x*n.z - 2*c*n.x*n.z + n.x*n.z) * hN + (-n.x*n.z) * hT
  · linear_combination (c^2*n.y*n.z - 2*c*n.y*n.z + n.y*n.z) * hN + (-n.y*n.z) * hT
  · linear_combination (c^2*n.z^2 - 2*c*n.z^2 + n.z^2 + s^2) * hN + (1 - n.z^2) * hT

/-- `Rᵀ R = 1` as well (same certificate applied to `-s`) -/
theorem rotCore_transpose (n : V3 ℝ) (c s : ℝ) :
    M3.transpose (rotCore n c s) = rotCore n c (-s) := by
  simp only [rotCore, gm, M3.mk.injEq, V3.mk.injEq]
  refine ⟨⟨?_, ?_, ?_⟩, ⟨?_, ?_, ?_⟩, ⟨?_, ?_, ?_⟩⟩ <;> ring

theorem rotCore_orth' (n : V3 ℝ) (c s : ℝ) (hN : Unit1 n) (hT : c * c + s * s = 1) :
    M3.mul (M3.transpose (rotCore n c s)) (rotCore n c s) = M3.eye := by
  have h := rotCore_orth n c (-s) hN (by linear_combination hT)
  rw [rotCore_transpose n c (-s), neg_neg] at h
  rw [rotCore_transpose]; exact h

theorem rotCore_det (n : V3 ℝ) (c s : ℝ) (hN : Unit1 n) (hT : c * c + s * s = 1) :
    M3.det (rotCore n c s) = 1 := by
  unfold Unit1 at hN
  simp only [rotCore, gm]
  linear_combination (-c^3 + c^2 - c*n.x^2*s^2 - c*n.y^2*s^2 - c*n.z^2*s^2 + n.x^2*s^2 + n.y^2*s^2 + n.z^2*s^2 + s^2) * hN + (1) * hT

theorem rotCore_fix (n : V3 ℝ) (c s : ℝ) (hN : Unit1 n) :
    M3.mulVec (rotCore n c s) n = n ∧ M3.vecMul n (rotCore n c s) = n := by
  unfold Unit1 at hN
  constructor
  · apply V3.ext' <;> simp only [rotCore, gm]
    · linear_combination (-c*n.x + n.x) * hN
    · linear_combination (-c*n.y + n.y) * hN
    · linear_combination (-c*n.z + n.z) * hN
  · apply V3.ext' <;> simp only [rotCore, gm]
    · linear_combination (-c*n.x + n.x) * hN
    · linear_combination (-c*n.y + n.y) * hN
    · linear_combination (-c*n.z + n.z) * hN

theorem rotCore_fix_smul (n : V3 ℝ) (c s k : ℝ) (hN : Unit1 n) :
    M3.mulVec (rotCore n c s) (V3.smul k n) = V3.smul k n ∧
    M3.vecMul (V3.smul k n) (rotCore n c s) = V3.smul k n := by
  unfold Unit1 at hN
  constructor
  · apply V3.ext' <;> simp only [rotCore, gm]
    · linear_combination (k * (-c*n.x + n.x)) * hN
    · linear_combination (k * (-c*n.y + n.y)) * hN
    · linear_combination (k * (-c*n.z + n.z)) * hN
  · apply V3.ext' <;> simp only [rotCore, gm]
    · linear_combination (k * (-c*n.x + n.x)) * hN
    · linear_combination (k * (-c*n.y + n.y)) * hN
    · linear_combination (k * (-c*n.z + n.z)) * hN

theorem rotCore_trace (n : V3 ℝ) (c s : ℝ) (hN : Unit1 n) :
    M3.trace (rotCore n c s) = 1 + 2 * c := by
  unfold Unit1 at hN
  simp only [rotCore, gm]
  linear_combination (1 - c) * hN

theorem rotCore_comp (n : V3 ℝ) (c s c2 s2 : ℝ) (hN : Unit1 n) :
    M3.mul (rotCore n c s) (rotCore n c2 s2) = rotCore n (c * c2 - s * s2) (s * c2 + c * s2) := by
  unfold Unit1 at hN
  simp only [rotCore, gm, M3.mk.injEq, V3.mk.injEq]
  refine ⟨⟨?_, ?_, ?_⟩, ⟨?_, ?_, ?_⟩, ⟨?_, ?_, ?_⟩⟩
  · linear_combination (c*c2*n.x^2 - c*n.x^2 - c2*n.x^2 + n.x^2 - s*s2) * hN
  · linear_combination (c*c2*n.x*n.y - c*n.x*n.y - c2*n.x*n.y + n.x*n.y) * hN
  · linear_combination (c*c2*n.x*n.z - c*n.x*n.z - c2*n.x*n.z + n.x*n.z) * hN
  · linear_combination (c*c2*n.x*n.y - c*n.x*n.y - c2*n.x*n.y + n.x*n.y) * hN
  · linear_combination (c*c2*n.y^2 - c*n.y^2 - c2*n.y^2 + n.y^2 - s*s2) * hN
  · linear_combination (c*c2*n.y*n.z - c*n.y*n.z - c2*n.y*n.z + n.y*n.z) * hN
  · linear_combination (c*c2*n.x*n.z - c*n.x*n.z - c2*n.x*n.z + n.x*n.z) * hN
  · linear_combination (c*c2*n.y*n.z - c*n.y*n.z - c2*n.y*n.z + n.y*n.z) * hN
  · linear_combination (c*c2*n.z^2 - c*n.z^2 - c2*n.z^2 + n.z^2 - s*s2) * hN
