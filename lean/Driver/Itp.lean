import Driver.Proto
import GMModel.Itp
import GMModel.Graph
/- Driver.Itp — ops for `_itp_parse.py`, `_top_parsers.py`, `_components_top.py`, `are_connected`
   (C16, C15). -/

namespace DItp
open Itp Graph

def wrS (s : Str) : String := Wr.bytes (s.map (fun c => UInt8.ofNat c.toNat))

def rdS : Rd Str := do
  let b ← Rd.bytes
  pure (b.map (fun u => Char.ofNat u.toNat))

/-- canonical dump of the parsed object, built the same way by the harness from the real `ItpFile`:
    header lines verbatim, `\x00`, then per section `S name \n`, per line of `_lines`
    `L content.strip() \x01 comment.strip() \n`, and `C <number of content lines> \n`. -/
def dump (f : ItpFile) : Str :=
  f.header.flatten ++ [Char.ofNat 0] ++
  (f.secs.map (fun s =>
    ['S', ' '] ++ s.name ++ ['\n'] ++
    (s.lines.map (fun l => ['L', ' '] ++ l.contentS ++ [Char.ofNat 1] ++ l.commentS ++ ['\n'])).flatten ++
    ['C', ' '] ++ (toString s.contentLines.length).toList ++ ['\n'])).flatten

def wrTop (t : TopInfo) : String :=
  s!"{wrS t.name} " ++
  Wr.list (fun (a : AtomInfo) => s!"{wrS a.name} {wrS a.resname} {a.resid}") t.atoms ++ " " ++
  Wr.list (fun (b : Nat × Nat) => s!"{b.1} {b.2}") t.bonds

def wrAdj (adj : Adj) : String :=
  Wr.list (fun (s : List Nat) => Wr.list toString (s.toArray.qsort (· < ·)).toList) adj

def rdAdj : Rd Adj := Rd.listOf (Rd.listOf Rd.nat)

def wrErr (e : PyErr) : String := s!"err {e.name}"

def topOut (r : Except PyErr TopInfo) : String :=
  match r with
  | .error e => s!"E {e.name}"
  | .ok t =>
    match buildAdj t.atoms.length t.bonds with
    | .error e => s!"T {wrTop t} E {e.name}"
    | .ok adj =>
      let c := match areConnected adj with
        | .ok b => Wr.bool b
        | .error e => e.name
      s!"T {wrTop t} A {wrAdj adj} {c}"

def rdOp : Rd Op := do
  let k ← Rd.tok
  match k with
  | "c" => do let a ← Rd.nat; let b ← Rd.nat; pure (.connect a b)
  | "a" => do let a ← Rd.nat; let x ← Rd.nat; pure (.bondsAdd a x)
  | "d" => do let a ← Rd.nat; let x ← Rd.nat; pure (.bondsDiscard a x)
  | "n" => do let a ← Rd.nat; let s ← rdS; pure (.setName a s)
  | "r" => do let a ← Rd.nat; let s ← rdS; pure (.setResname a s)
  | "i" => do let a ← Rd.nat; let r ← Rd.int; pure (.setResid a r)
  | _ => throw s!"bad heap op '{k}'"

def Op.relocate (addr : Nat → Nat) : Op → Op
  | .connect a b => .connect (addr a) (addr b)
  | .bondsAdd a x => .bondsAdd (addr a) x
  | .bondsDiscard a x => .bondsDiscard (addr a) x
  | .setName a n => .setName (addr a) n
  | .setResname a n => .setResname (addr a) n
  | .setResid a r => .setResid (addr a) r

def wrMolValue (h : Heap) (m : MolTop) : String :=
  Wr.list (fun a =>
    match atomValue h a with
    | some (n, r, i, x, e) =>
      s!"{wrS n} {wrS r} {i} {x} {Wr.list toString (e.toArray.qsort (· < ·)).toList}"
    | none => "dangling") m.atoms

def handle : Handler
  | "itp_rt" => some do
      let b ← Rd.bytes; Rd.done
      match decode b with
      | .error e => pure (wrErr e)
      | .ok t =>
        match parse t with
        | .error e => pure (wrErr e)
        | .ok fA =>
          let g := write fA
          let top := topOut (topInfo fA)
          match parse g with
          | .error e => pure s!"ok {wrS g} {wrS (dump fA)} R {e.name} {top}"
          | .ok fB =>
            let h := write fB
            pure s!"ok {wrS g} {wrS (dump fA)} K {wrS (dump fB)} {wrS h} {topOut (topInfo fB)} {top}"
  | "itp_orig" => some do     -- the unrepaired code: first write only
      let b ← Rd.bytes; Rd.done
      match decode b with
      | .error e => pure (wrErr e)
      | .ok t =>
        match Orig.parse t with
        | .error e => pure (wrErr e)
        | .ok fA => pure s!"ok {wrS (Orig.write fA)}"
  | "itp_top" => some do
      let b ← Rd.bytes; Rd.done
      match decode b with
      | .error e => pure (wrErr e)
      | .ok t => pure s!"ok {topOut (readTopology t)}"
  | "graph_conn" => some do
      let adj ← rdAdj; Rd.done
      match areConnected adj with
      | .ok r => pure s!"ok {Wr.bool r}"
      | .error e => pure (wrErr e)
  | "graph_rec" => some do    -- the original recursive walk with a frame limit
      let limit ← Rd.nat; let adj ← rdAdj; Rd.done
      match Graph.Orig.areConnected adj limit with
      | .ok (r, d) => pure s!"ok {Wr.bool r} {d}"
      | .error e => pure (wrErr e)
  | "heap_copy" => some do
      -- atoms: name resname resid bonds… ; then ops on the copy (side=1) or the original (side=0)
      let name ← rdS
      let atoms ← Rd.listOf (do
        let n ← rdS; let r ← rdS; let i ← Rd.int; let e ← Rd.listOf Rd.nat
        pure ((⟨n, r, i⟩ : AtomInfo), e))
      let side ← Rd.nat
      let ops ← Rd.listOf rdOp
      Rd.done
      let (h0, m) := allocMol [] name atoms
      match molCopy h0 m with
      | none => pure "err dangling"
      | some (h1, m') =>
        let tgt := if side = 0 then m else m'
        match ops.mapM (fun o => if (Op.targets o).all (· < tgt.atoms.length) then some o else none) with
        | none => pure "err IndexError"
        | some ops =>
          let addr := fun i => match tgt.atoms[i]? with | some a => a | none => 0
          let h2 := applyOps h1 (ops.map (Op.relocate addr))
          pure s!"ok {wrS m.name} {wrMolValue h1 m} {wrMolValue h1 m'} {wrMolValue h2 m} {wrMolValue h2 m'}"
  | _ => none

end DItp
