import Driver.Proto
import GMModel.Frame
/- Driver.Geom — ops for `_auxilliary.py` (C17, shared by C01–C03). -/

namespace DGeom

def frameOut (f : Frame Float) : String :=
  s!"{Wr.v3 f.e1} {Wr.v3 f.e2} {Wr.v3 f.e3} {Wr.v3 f.origin}"

def handle : Handler
  | "rotmat" => some do
      let axis ← Rd.v3; let theta ← Rd.float; Rd.done
      pure s!"ok {Wr.m3 (rotationMatrix axis theta)}"
  | "frame" => some do
      let p0 ← Rd.v3; let p1 ← Rd.v3; let p2 ← Rd.v3; Rd.done
      pure s!"ok {calculeBaseBranch p0 p1 p2} {frameOut (calculeBase p0 p1 p2)}"
  | _ => none

end DGeom
