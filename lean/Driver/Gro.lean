import Driver.Proto
import GMModel.Gro
/-
  Driver.Gro — ops for `gaddlemaps/parsers/__init__.py` (C13, C14).

  token formats
    dy     : `<sign 0|1> <mantissa> <exponent>`            value (-1)^s · m · 2^e
    pynum  : `F <sign> <mantissa> <e10>` | `I <sign>` | `N <sign>`
    rec    : `<resnum> <hex resname> <hex name> <atomnum> <dy x> <dy y> <dy z> <0|1> [<dy vx> <dy vy> <dy vz>]`
    op     : `c <hex>` | `b3 <dy>×3` | `b9 <dy>×9` | `bx` | `n <int>` | `f <w> <d>` | `w <rec>` | `s <hex line>`
             | `t <len>` | `x`
    rop    : `c <hex>` | `b3 <dy>×3` | `b9 <dy>×9` | `bx` | `n <int>` | `f <w> <d>` | `k <index>` | `l <parsed 0|1>`
    fd     : `N` | `D - <fv 0|1|2>` | `D P <w> <d> <fv 0|1|2>`        (`format_dict`; fv 2 = None)
    tup    : `r <rec>` | `o <len>`
-/

namespace DGro
open PyStr Gro

/-- bytes of the protocol ↔ character codes of the model -/
def rdBytes : Rd (List Nat) := do
  let b ← Rd.bytes
  pure (b.map (·.toNat))

def wrBytes (l : List Nat) : String := Wr.bytes (l.map UInt8.ofNat)

def rdDy : Rd Dy := do
  let s ← Rd.nat; let m ← Rd.nat; let e ← Rd.int
  pure ⟨s != 0, m, e⟩

def rdRec : Rd Rec := do
  let resnum ← Rd.int
  let resname ← rdBytes
  let name ← rdBytes
  let atomnum ← Rd.int
  let x ← rdDy; let y ← rdDy; let z ← rdDy
  let v ← Rd.nat
  if v != 0 then
    let vx ← rdDy; let vy ← rdDy; let vz ← rdDy
    pure ⟨resnum, resname, name, atomnum, x, y, z, some (vx, vy, vz)⟩
  else
    pure ⟨resnum, resname, name, atomnum, x, y, z, none⟩

def rdBox9 : Rd Box := do
  let a ← rdDy; let b ← rdDy; let c ← rdDy
  let d ← rdDy; let e ← rdDy; let f ← rdDy
  let g ← rdDy; let h ← rdDy; let i ← rdDy
  pure ⟨a, b, c, d, e, f, g, h, i⟩

def rdOp : Rd Op := do
  let k ← Rd.tok
  match k with
  | "c" => pure (.setComment (← rdBytes))
  | "b3" => do
    let a ← rdDy; let b ← rdDy; let c ← rdDy
    pure (.setBox (.vec a b c))
  | "b9" => pure (.setBox (.mat (← rdBox9)))
  | "n" => pure (.setNatoms (← Rd.int))
  | "f" => do
    let w ← Rd.nat; let d ← Rd.nat
    pure (.setPosFmt w d)
  | "w" => pure (.writeLine (← rdRec))
  | "x" => pure .close
  | "bx" => pure .setBoxBadShape
  | "s" => pure (.writeStr (← rdBytes))
  | "t" => pure (.writeTup (← Rd.nat))
  | _ => throw s!"bad op kind '{k}'"

def rdROp : Rd ROp := do
  let k ← Rd.tok
  match k with
  | "c" => pure (.setComment (← rdBytes))
  | "b3" => do
    let a ← rdDy; let b ← rdDy; let c ← rdDy
    pure (.setBox (.vec a b c))
  | "b9" => pure (.setBox (.mat (← rdBox9)))
  | "bx" => pure .setBoxBadShape
  | "n" => pure (.setNatoms (← Rd.int))
  | "f" => do
    let w ← Rd.nat; let d ← Rd.nat
    pure (.setPosFmt w d)
  | "k" => pure (.seekAtom (← Rd.int))
  | "l" => pure (.readline (← Rd.bool))
  | _ => throw s!"bad reader op kind '{k}'"

def rdFv : Rd (Option Bool) := do
  let fv ← Rd.nat
  pure (if fv == 2 then none else some (fv == 1))

def rdFmtDict : Rd (Option FmtDict) := do
  let k ← Rd.tok
  match k with
  | "N" => pure none
  | "D" => do
    let p ← Rd.tok
    match p with
    | "-" => pure (some ⟨none, ← rdFv⟩)
    | "P" => do
      let w ← Rd.nat; let d ← Rd.nat
      pure (some ⟨some (w, d), ← rdFv⟩)
    | _ => throw s!"bad position format '{p}'"
  | _ => throw s!"bad format_dict '{k}'"

def rdTup : Rd Tup := do
  let k ← Rd.tok
  match k with
  | "r" => pure (.ofRec (← rdRec))
  | "o" => pure (.other (← Rd.nat))
  | _ => throw s!"bad tuple kind '{k}'"

def wrBool (b : Bool) : String := if b then "1" else "0"

def wrNum : PyNum → String
  | .fin s m e => s!"F {wrBool s} {m} {e}"
  | .inf s => s!"I {wrBool s}"
  | .nan s => s!"N {wrBool s}"

def wrRRec (r : RRec) : String :=
  let base := s!"{r.resnum} {wrBytes r.resname} {wrBytes r.name} {r.atomnum} {wrNum r.x} {wrNum r.y} {wrNum r.z}"
  match r.vel with
  | none => base ++ " 0"
  | some (a, b, c) => base ++ s!" 1 {wrNum a} {wrNum b} {wrNum c}"

def wrRBox (b : RBox) : String :=
  " ".intercalate ([b.m00, b.m01, b.m02, b.m10, b.m11, b.m12, b.m20, b.m21, b.m22].map wrNum)

def wrErrOpt : Option PyErr → String
  | none => "-"
  | some e => e.name

def wrExcept {α : Type} (f : α → String) : Except PyErr α → String
  | .ok a => "ok " ++ f a
  | .error e => "err " ++ e.name

def wrDyOpt : Option Dy → String
  | none => "X"
  | some x => s!"F {wrBool x.neg} {x.man} {x.exp}"

/-- result of a reader op, then `tell()` and `_current_atom`: `U` | `L <hex>` | `P <rrec>` | `E <err>` -/
def wrRRes (x : Except PyErr RVal × Nat × Int) : String :=
  let v :=
    match x.1 with
    | .error e => "E " ++ e.name
    | .ok .unit => "U"
    | .ok (.raw l) => "L " ++ wrBytes l
    | .ok (.parsed r) => "P " ++ wrRRec r
  s!"{v} {x.2.1} {x.2.2}"

/-- header of an opened file -/
def wrRState (st : RState) : String :=
  s!"{wrBytes st.title} {st.natoms} {st.initPos} {st.lineSize} {st.fmt.1} {st.fmt.2.1} {wrBool st.fmt.2.2} {wrRBox st.box}"

/-- `open` then `readlines`: `err E` | `ok <hdr> rerr E` | `ok <hdr> recs n …` -/
def readAll (bs : List Nat) : String :=
  match loadAndVerify stdParsers bs with
  | .error e => "err " ++ e.name
  | .ok st =>
    match readRecords stdParsers st.fmt bs st.natoms.toNat st.initPos with
    | .error e => s!"ok {wrRState st} rerr {e.name}"
    | .ok recs => s!"ok {wrRState st} recs {Wr.list wrRRec recs}"

/-- verdict on one byte prefix relative to the records of the complete file:
    `E <err>` (open fails) | `R <err>` (readlines fails) | `A <same 0|1> <box>` -/
def prefixVerdict (full : Option (List RRec)) (bs : List Nat) (k : Nat) : String :=
  match loadAndVerify stdParsers (bs.take k) with
  | .error e => "E " ++ e.name
  | .ok st =>
    match readRecords stdParsers st.fmt (bs.take k) st.natoms.toNat st.initPos with
    | .error e => "R " ++ e.name
    | .ok recs => s!"A {wrBool (some recs == full)} {wrRBox st.box}"

def handle : Handler
  | "ps_fmtf" => some do
      let w ← Rd.nat; let d ← Rd.nat; let x ← rdDy; Rd.done
      pure s!"ok {wrBytes (fmtFixed w d x)}"
  | "ps_fmtd" => some do
      let w ← Rd.nat; let n ← Rd.int; Rd.done
      pure s!"ok {wrBytes (fmtD w n)}"
  | "ps_int" => some do
      let b ← rdBytes; Rd.done
      pure (wrExcept (fun (n : Int) => toString n) (pyInt b))
  | "ps_float" => some do
      let b ← rdBytes; Rd.done
      pure (wrExcept wrNum (pyFloat b))
  | "ps_split" => some do
      let b ← rdBytes; Rd.done
      pure s!"ok {Wr.list wrBytes (split b)}"
  | "ps_strip" => some do
      let b ← rdBytes; Rd.done
      pure s!"ok {wrBytes (strip b)}"
  | "gro_line" => some do
      let w ← Rd.nat; let d ← Rd.nat; let fv ← Rd.nat; let r ← rdRec; Rd.done
      let fvo : Option Bool := if fv == 2 then none else some (fv == 1)
      pure (wrExcept wrBytes (parseAtomlist (w, d) fvo r))
  | "gro_parseline" => some do
      let nfig ← Rd.nat; let vel ← Rd.bool; let b ← rdBytes; Rd.done
      pure (wrExcept wrRRec (parseAtomline stdParsers (nfig, (nfig : Int) - 5, vel) b))
  | "gro_detfmt" => some do
      let b ← rdBytes; Rd.done
      pure (wrExcept (fun (f : Nat × Int × Bool) => s!"{f.1} {f.2.1} {wrBool f.2.2}") (determineFormat b))
  | "gro_dumplat" => some do
      let b ← rdBox9; Rd.done
      pure s!"ok {wrBytes (dumpLattice b)}"
  | "gro_extlat" => some do
      let b ← rdBytes; Rd.done
      pure (wrExcept wrRBox (extractLattice pyFloat b))
  | "gro_alist" => some do
      let fd ← rdFmtDict; let t ← rdTup; Rd.done
      pure (wrExcept wrBytes (parseAtomlistG fd t))
  | "gro_parseauto" => some do
      let b ← rdBytes; Rd.done
      pure (wrExcept wrRRec (parseAtomlineAuto stdParsers b))
  | "ps_float_dy" => some do
      let b ← rdBytes; Rd.done
      pure (wrExcept (fun (q : PyNum) => wrDyOpt q.toDy) (pyFloat b))
  | "gro_rsession" => some do
      let b ← rdBytes; let ops ← Rd.listOf rdROp; Rd.done
      match ropen stdParsers b with
      | .error e => pure ("err " ++ e.name)
      | .ok s =>
        let (_, rs) := rrun stdParsers b s ops
        pure s!"ok {wrRState s.hdr} {Wr.list wrRRes rs}"
  | "gro_write" => some do
      let ops ← Rd.listOf rdOp; Rd.done
      let (s, es) := run WState.init ops
      pure s!"ok {Wr.list wrErrOpt es} {wrBytes s.bytes}"
  | "gro_snap" => some do
      let ops ← Rd.listOf rdOp; Rd.done
      pure s!"ok {Wr.list wrBytes (snapshots WState.init ops)}"
  | "gro_read" => some do
      let b ← rdBytes; Rd.done
      pure (readAll b)
  | "gro_prefix" => some do
      let b ← rdBytes; let ks ← Rd.listOf Rd.nat; Rd.done
      let full : Option (List RRec) :=
        match groRead stdParsers b with
        | .ok d => some d.recs
        | .error _ => none
      pure ("ok " ++ " ".intercalate (ks.map (prefixVerdict full b)))
  | _ => none

end DGro
