import Driver.Proto
import GMModel.ExchangeMap
/- Driver.EMap — ops for `_exchage_map.py` (C01–C03). -/

namespace DEMap

def natList : Rd (List Nat) := Rd.listOf Rd.nat

/-- `emap <pos> <nbrs> <rands_build> <tgt> <s> <argPos> <rands_apply>`
    → `ok <equiv> <mapped positions>` | `err none` -/
def handle : Handler
  | "emap" => some do
      let pos ← Rd.listOf Rd.v3
      let nbrs ← Rd.listOf natList
      let rb ← Rd.listOf Rd.v3
      let tgt ← Rd.listOf Rd.v3
      let s ← Rd.float
      let arg ← Rd.listOf Rd.v3
      let ra ← Rd.listOf Rd.v3
      Rd.done
      match EMap.build pos nbrs rb tgt s with
      | none => pure "err build"
      | some m =>
        match m.apply nbrs arg ra with
        | none => pure "err apply"
        | some out => pure s!"ok {Wr.list toString m.equiv} {Wr.list Wr.v3 out}"
  | _ => none

end DEMap
