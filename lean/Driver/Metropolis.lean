import Driver.Proto
import GMModel.Metropolis
import GMModel.Align
import GMModel.AlignFull
/-
  Driver.Metropolis — ops for `_backend.py` (`accept_metropolis`, the search loop; C09) and
  `_alignment.py` (`align_molecules`; C06).

  The model's parameters are instantiated from what the harness recorded on the implementation:

  * `chi2Fn`  := lookup in the recorded table `(configuration handed to the objective ↦ value)`,
                 matching a configuration to 1e-9 (the model's rotation proposal may differ from
                 numpy's BLAS product in the last bits); a miss yields NaN (→ reported mismatch);
  * `moveFn`  := consume the draws `move_mol_atom` made (`randint`, then `rand(3)` or `choice`,
                 then `normal`) and return the implementation's own result recorded for exactly
                 those draws — the type-2 proposal itself is C07's correspondence, here it is input.
-/

namespace DMC

abbrev Cfg := List (V3 Float)

/-! #### readers -/

def draw : Rd (Draw Float) := do
  let tag ← Rd.tok
  match tag with
  | "c" => pure (.choice (← Rd.int))
  | "i" => pure (.randint (← Rd.int))
  | "n1" => pure (.normal1 (← Rd.float))
  | "n3" => pure (.normal3 (← Rd.v3))
  | "u3" => pure (.uniform3 (← Rd.v3))
  | "r1" => pure (.rand1 (← Rd.float))
  | "r3" => pure (.rand3 (← Rd.v3))
  | t => throw s!"bad draw tag '{t}'"

def tape : Rd (Tape Float) := Rd.listOf draw
def cfg : Rd Cfg := Rd.listOf Rd.v3
def ints : Rd (List Int) := Rd.listOf Rd.int

structure MoveEntry where
  idx : Int
  normalBits : UInt64
  test : Cfg

def moveEntry : Rd MoveEntry := do
  let i ← Rd.int; let x ← Rd.float; let t ← cfg
  pure ⟨i, x.toBits, t⟩

def chi2Entry : Rd (Cfg × Float) := do
  let c ← cfg; let v ← Rd.float
  pure (c, v)

/-! #### instantiation of the model's parameters from the recorded tables -/

def closeF (a b : Float) : Bool :=
  let m := max 1.0 (max a.abs b.abs)
  (a - b).abs ≤ 1e-9 * m

def closeV (a b : V3 Float) : Bool := closeF a.x b.x && closeF a.y b.y && closeF a.z b.z

def closeCfg : Cfg → Cfg → Bool
  | [], [] => true
  | a :: as, b :: bs => closeV a b && closeCfg as bs
  | _, _ => false

def nan : Float := 0.0 / 0.0

def chi2Table (tbl : Array (Cfg × Float)) (c : Cfg) : Float :=
  match tbl.find? (fun e => closeCfg e.1 c) with
  | some e => e.2
  | none => nan

def moveTable (tbl : Array MoveEntry) : MoveFn Float := fun _held tp =>
  match tp with
  | .randint i :: .rand3 _ :: .normal1 x :: rest
  | .randint i :: .choice _ :: .normal1 x :: rest =>
    match tbl.find? (fun e => e.idx == i && e.normalBits == x.toBits) with
    | some e => .ok (e.test, rest)
    | none => .error .moveErr
  | _ => .error .desync

/-! #### writers -/

def wcfg (c : Cfg) : String := Wr.list Wr.v3 c

def errName : MCErr → String
  | .desync => "desync"
  | .unboundTest => "UnboundLocalError"
  | .moveErr => "moveErr"
  | .outOfFuel => "outOfFuel"

def kindTag : PropKind Float → String
  | .transl _ => "0"
  | .rot _ _ => "1"
  | .move => "2"

def stateOut (s : MCState Float) : String :=
  s!"{wcfg s.held} {Wr.float s.chi2} {Wr.float s.chi2Min} {s.counter}"

def alignErrName : AlignErr → String
  | .ioError => "OSError"
  | .valueError => "ValueError"
  | .indexError => "IndexError"
  | .mc e => "mc:" ++ errName e

/-! #### molecules -/

def natList : Rd (List Nat) := Rd.listOf Rd.nat

def mol : Rd (Mol Float) := do
  let pos ← cfg
  let names ← Rd.listOf Rd.str
  let bonds ← Rd.listOf natList
  pure ⟨pos, names, bonds⟩

def restrList : Rd (List (Int × Int)) := Rd.listOf (do let a ← Rd.int; let b ← Rd.int; pure (a, b))

/-- `-1` = `None`, else a list -/
def optInts : Rd (Option (List Int)) := do
  let flag ← Rd.int
  if flag < 0 then pure none else
    let l ← ints
    pure (some l)

/-- `-1` = `None`, else a restraint list -/
def optRestr : Rd (Option (List (Int × Int))) := do
  let flag ← Rd.int
  if flag < 0 then pure none else
    let l ← restrList
    pure (some l)

def layout : Rd ResLayout := Rd.listOf (do let n ← Rd.str; let k ← Rd.nat; pure (n, k))

def wrestr (l : List (Int × Int)) : String := Wr.list (fun r => s!"{r.1} {r.2}") l
def wints (l : List Int) : String := Wr.list (fun i => toString i) l
def wbinfo (t : BondsInfo Float) : String :=
  Wr.list (fun row => Wr.list (fun e => s!"{e.1} {Wr.float e.2}") row) t

def planOut (p : AlignPlan Float) : String :=
  s!"plan {Wr.bool p.smallIsStart} {wcfg p.start'.pos} {wcfg p.fixedPos} {wrestr p.restr} " ++
  s!"{wcfg p.mobilePos} {wbinfo p.bondsInfo} {p.nSteps} {Wr.float p.width} {wints p.simType}"

/-! #### ops -/

def handle : Handler
  /- mc_accept e0 e1 <tape> → ok <accept> <tokens consumed> <acceptDefined> -/
  | "mc_accept" => some do
      let e0 ← Rd.float; let e1 ← Rd.float; let tp ← tape; Rd.done
      match acceptMetropolis e0 e1 tp with
      | .ok (a, rest) => pure s!"ok {Wr.bool a} {tp.length - rest.length} {Wr.bool (acceptDefined e1)}"
      | .error e => pure s!"err {errName e}"
  /- mc_init <held0> chi2 → ok <state> -/
  | "mc_init" => some do
      let h ← cfg; let c ← Rd.float; Rd.done
      pure s!"ok {stateOut (mcInit (fun _ => c) h)}"
  /- mc_step <held> chi2 chi2min counter nsteps <simtype> <tape> <moves> <chi2 table>
       → ok continue_pre kind <test> chi2new accept <post state> continue_post leftover defined -/
  | "mc_step" => some do
      let held ← cfg; let chi2 ← Rd.float; let chi2Min ← Rd.float; let counter ← Rd.nat
      let nSteps ← Rd.nat; let simType ← ints; let tp ← tape
      let moves ← Rd.listOf moveEntry; let chis ← Rd.listOf chi2Entry; Rd.done
      let st : MCState Float := ⟨held, chi2, chi2Min, counter⟩
      match mcStep (chi2Table chis.toArray) (moveTable moves.toArray) simType st tp with
      | .error e => pure s!"err {errName e}"
      | .ok (s, rest) =>
        let defined := acceptDefined s.chi2New &&
          (match s.kind with
           | .rot axis _ => rotateDefined held axis
           | _ => true)
        pure (s!"ok {Wr.bool (mcContinue nSteps st)} {kindTag s.kind} {wcfg s.test} " ++
          s!"{Wr.float s.chi2New} {Wr.bool s.accepted} {stateOut s.post} " ++
          s!"{Wr.bool (mcContinue nSteps s.post)} {rest.length} {Wr.bool defined}")
  /- mc_run <held0> nsteps <simtype> <tape> <moves> <chi2 table>
       → ok nsteps_done <accept bits> <kinds> <final state> <returned> leftover -/
  | "mc_run" => some do
      let held0 ← cfg; let nSteps ← Rd.nat; let simType ← ints; let tp ← tape
      let moves ← Rd.listOf moveEntry; let chis ← Rd.listOf chi2Entry; Rd.done
      let chi2Fn := chi2Table chis.toArray
      let moveFn := moveTable moves.toArray
      match mcRun chi2Fn moveFn simType nSteps (tp.length + 1) held0 tp with
      | .error e => pure s!"err {errName e}"
      | .ok r =>
        let acc := String.ofList (r.steps.map (fun s => if s.accepted then '1' else '0'))
        let kinds := String.join (r.steps.map (fun s => kindTag s.kind))
        let ret := match mcMinimize chi2Fn moveFn simType nSteps held0 tp with
          | .ok (c, _) => wcfg c
          | .error _ => "0"
        pure s!"ok {r.steps.length} a{acc} k{kinds} {stateOut r.final} {ret} {r.rest.length}"
  /- align_plan stepsFactor <start> <end> <restr> <deform|None> ignoreH → ok early <start'> | ok plan … -/
  | "align_plan" => some do
      let sf ← Rd.nat; let s ← mol; let e ← mol; let restr ← restrList
      let deform ← optInts; let ign ← Rd.bool; Rd.done
      match alignPrepare sf s e restr deform ign with
      | .error err => pure s!"err {alignErrName err}"
      | .ok (.early s') => pure s!"ok early {wcfg s'.pos}"
      | .ok (.plan p) => pure s!"ok {planOut p}"
  /- align_run stepsFactor sigma <start> <end> <restr> <deform|None> ignoreH <tape> <moves> <chi2 table>
       → ok <start pos> <end pos> leftover -/
  | "align_run" => some do
      let sf ← Rd.nat; let sigma ← Rd.float; let s ← mol; let e ← mol; let restr ← restrList
      let deform ← optInts; let ign ← Rd.bool; let tp ← tape
      let moves ← Rd.listOf moveEntry; let chis ← Rd.listOf chi2Entry; Rd.done
      let chi2Of := fun (_ : List (V3 Float)) (_ : Cfg) (_ : List (Int × Int)) => chi2Table chis.toArray
      let moveOf := fun (_ : BondsInfo Float) (_ : Float) => moveTable moves.toArray
      match alignMolecules chi2Of moveOf sf sigma s e restr deform ign tp with
      | .error err => pure s!"err {alignErrName err}"
      | .ok (s', e', rest) => pure s!"ok {wcfg s'.pos} {wcfg e'.pos} {rest.length}"
  /- align_plan_g stepsFactor <start> <end> <layout start> <layout end> <restr|None> <deform|None> ignoreH autoGuess
       → as align_plan (the `restrictions=None` path included) -/
  | "align_plan_g" => some do
      let sf ← Rd.nat; let s ← mol; let e ← mol; let ls ← layout; let le ← layout; let restr ← optRestr
      let deform ← optInts; let ign ← Rd.bool; let ag ← Rd.bool; Rd.done
      match alignPrepareG sf s e ls le restr deform ign ag with
      | .error err => pure s!"err {alignErrName err}"
      | .ok (.early s') => pure s!"ok early {wcfg s'.pos}"
      | .ok (.plan p) => pure s!"ok {planOut p}"
  /- align_run_g stepsFactor sigma <start> <end> <layouts> <restr|None> <deform|None> ignoreH autoGuess <tape> <moves> <chi2 table>
       → ok <start pos> <end pos> leftover -/
  | "align_run_g" => some do
      let sf ← Rd.nat; let sigma ← Rd.float; let s ← mol; let e ← mol; let ls ← layout; let le ← layout
      let restr ← optRestr; let deform ← optInts; let ign ← Rd.bool; let ag ← Rd.bool; let tp ← tape
      let moves ← Rd.listOf moveEntry; let chis ← Rd.listOf chi2Entry; Rd.done
      let chi2Of := fun (_ : List (V3 Float)) (_ : Cfg) (_ : List (Int × Int)) => chi2Table chis.toArray
      let moveOf := fun (_ : BondsInfo Float) (_ : Float) => moveTable moves.toArray
      match alignMoleculesG chi2Of moveOf sf sigma s e ls le restr deform ign ag tp with
      | .error err => pure s!"err {alignErrName err}"
      | .ok (s', e', rest) => pure s!"ok {wcfg s'.pos} {wcfg e'.pos} {rest.length}"
  /- guess_restr <layout start> <layout end> autoGuess → ok <restr> | err cannotGuess -/
  | "guess_restr" => some do
      let ls ← layout; let le ← layout; let ag ← Rd.bool; Rd.done
      match guessRestrictions ls le ag with
      | .error _ => pure "err cannotGuess"
      | .ok r => pure s!"ok {wrestr r}"
  /- mc_wrap installed <held0> nsteps <simtype> <tape> <moves> <chi2 table>
       → ok <warnings> <viaCompiled> (R <returned> leftover | X <error>) : the PUBLIC wrapper `minimize_molecules` -/
  | "mc_wrap" => some do
      let installed ← Rd.bool
      let held0 ← cfg; let nSteps ← Rd.nat; let simType ← ints; let tp ← tape
      let moves ← Rd.listOf moveEntry; let chis ← Rd.listOf chi2Entry; Rd.done
      let out := minimizeMolecules installed (fun _ _ => .error .moveErr)
        (chi2Table chis.toArray) (moveTable moves.toArray) simType nSteps held0 tp
      match out.result with
      | .ok (c, rest) => pure s!"ok {out.warnings} {Wr.bool out.viaCompiled} R {wcfg c} {rest.length}"
      | .error e => pure s!"ok {out.warnings} {Wr.bool out.viaCompiled} X {errName e}"
  /- backend_check installed warnMissing → ok <flag> <warnings> -/
  | "backend_check" => some do
      let installed ← Rd.bool; let wm ← Rd.bool; Rd.done
      let r := checkBackendInstalled installed wm
      pure s!"ok {Wr.bool r.1} {r.2}"
  | _ => none

end DMC
