import Driver.Proto
import GMModel.EMapGeo
import GMModel.HeapX
/-
  Driver.Heap — op `heapseq`: runs a whole operation sequence of the heap model (C18, C04) and
  reports, after every operation, its outcome and the observation of every handle whose
  observation changed (delta encoding; the harness rebuilds the full model snapshot).

  request : heapseq <nops> <op>…
    newmol <name> <ntop> {<name> <resname> <resid> <nb> <b>…} <nres> {<nat> {<gro>}}
    molwith i <nres> {<nat> {<gro>}}
    copy i | deepcopy i | getatom i k | iteratom i k | getres i k
    move i <v3> | moveto i <v3> | rotate i <m3>
    setpos i <n> <v3>… | setvel i 0 | setvel i 1 <n> <v3>… | setids i <n> <int>…
    resids_l i <n> <int>… | resids_i i <int> | resnames_l i <n> <str>… | resnames_s i <str>
    setattr i (pos <v3> | vel 0 | vel 1 <v3> | atomid n | gro_resid n | top_resid n | resname s | name s)
    build <ref> <tgt> <scale>        (ExchangeMap(env[ref], env[tgt], scale))
    call i | callother
    setattrn i <name> <pyval> | getattrn i <name> | eq i j | mkatom i j <viaTop> | remove i j
    add i j | radd0 i                                  (GMModel.HeapX)
  <pyval> = int n | str s | vec <v3> | none | nats <n> k… | bool b | opaque
  <gro> = <resid> <resname> <name> <atomid> <x> <y> <z> (0 | 1 <vx> <vy> <vz>)

  response: ok { <status> [E <n> {j a} ] [K <n> {key}] [V <pyval>] <nchanged> { <idx> <obs> } }
            (V: only after a successful getattrn / eq)
  <obs> = M <name> <n> {<gro> <top>} | R <n> {<gro>} | G <gro> | A <gro> <top> | X
        | MR <name> <ntop> {<top>} <nres> {<n> {<gro>}}     (a Molecule with fewer AtomGros than AtomTops)
  <top> = <tname> <tresname> <tresid> <index> <nb> <b>…

  op `atomroute <name>` : ok <tag of GMHeap.route name>
-/

open GMHeap

namespace DHeap

inductive DOp where
  | h (o : Op Float)
  | x (o : XOp Float)
  | build (r t : Nat) (scale : Float)
  | call (i : Nat)
  | callOther

def rdGro : Rd (AtomGroC Float) := do
  let resid ← Rd.int; let resname ← Rd.str; let name ← Rd.str; let atomid ← Rd.int
  let pos ← Rd.v3
  let f ← Rd.nat
  let vel ← if f == 0 then pure none else do let v ← Rd.v3; pure (some v)
  pure ⟨resid, resname, name, atomid, pos, vel⟩

def rdResidues : Rd (List (List (AtomGroC Float))) := Rd.listOf (Rd.listOf rdGro)

def rdTops : Rd (List AtomTopC) := do
  let n ← Rd.nat
  let mut acc : Array AtomTopC := #[]
  for i in [0:n] do
    let name ← Rd.str; let resname ← Rd.str; let resid ← Rd.int
    let bonds ← Rd.listOf Rd.nat
    acc := acc.push ⟨name, resname, resid, i, bonds⟩
  pure acc.toList

def rdAttr : Rd (AttrVal Float) := do
  let k ← Rd.tok
  match k with
  | "pos" => do let v ← Rd.v3; pure (.pos v)
  | "vel" => do
    let f ← Rd.nat
    if f == 0 then pure (.vel none) else do let v ← Rd.v3; pure (.vel (some v))
  | "atomid" => do let n ← Rd.int; pure (.atomid n)
  | "gro_resid" => do let n ← Rd.int; pure (.groResid n)
  | "top_resid" => do let n ← Rd.int; pure (.topResid n)
  | "resname" => do let s ← Rd.str; pure (.resname s)
  | "name" => do let s ← Rd.str; pure (.name s)
  | _ => throw s!"bad attr '{k}'"

def rdPyVal : Rd (PyVal Float) := do
  let k ← Rd.tok
  match k with
  | "int" => do let n ← Rd.int; pure (.int n)
  | "str" => do let s ← Rd.str; pure (.str s)
  | "vec" => do let v ← Rd.v3; pure (.vec v)
  | "none" => pure .none
  | "nats" => do let l ← Rd.listOf Rd.nat; pure (.nats l)
  | "bool" => do let b ← Rd.bool; pure (.bool b)
  | "opaque" => pure .opaque
  | _ => throw s!"bad pyval '{k}'"

def pyValTok : PyVal Float → String
  | .int n => s!"int {n}"
  | .str s => s!"str {Wr.str s}"
  | .vec v => s!"vec {Wr.v3 v}"
  | .none => "none"
  | .nats l => "nats " ++ Wr.list toString l
  | .bool b => s!"bool {Wr.bool b}"
  | .opaque => "opaque"

def rdOp : Rd DOp := do
  let k ← Rd.tok
  match k with
  | "newmol" => do
    let name ← Rd.str; let tops ← rdTops; let rs ← rdResidues
    pure (.h (.newMol name tops rs))
  | "molwith" => do let i ← Rd.nat; let rs ← rdResidues; pure (.h (.molWith i rs))
  | "copy" => do let i ← Rd.nat; pure (.h (.copy i))
  | "deepcopy" => do let i ← Rd.nat; pure (.h (.deepCopy i))
  | "getatom" => do let i ← Rd.nat; let j ← Rd.nat; pure (.h (.getAtom i j))
  | "iteratom" => do let i ← Rd.nat; let j ← Rd.nat; pure (.h (.iterAtom i j))
  | "getres" => do let i ← Rd.nat; let j ← Rd.nat; pure (.h (.getResidue i j))
  | "move" => do let i ← Rd.nat; let v ← Rd.v3; pure (.h (.move i v))
  | "moveto" => do let i ← Rd.nat; let v ← Rd.v3; pure (.h (.moveTo i v))
  | "rotate" => do let i ← Rd.nat; let m ← Rd.m3; pure (.h (.rotate i m))
  | "setpos" => do let i ← Rd.nat; let l ← Rd.listOf Rd.v3; pure (.h (.setPos i l))
  | "setvel" => do
    let i ← Rd.nat; let f ← Rd.nat
    if f == 0 then pure (.h (.setVel i none))
    else do let l ← Rd.listOf Rd.v3; pure (.h (.setVel i (some l)))
  | "setids" => do let i ← Rd.nat; let l ← Rd.listOf Rd.int; pure (.h (.setIds i l))
  | "resids_l" => do let i ← Rd.nat; let l ← Rd.listOf Rd.int; pure (.h (.setResidsL i l))
  | "resids_i" => do let i ← Rd.nat; let n ← Rd.int; pure (.h (.setResidsI i n))
  | "resnames_l" => do let i ← Rd.nat; let l ← Rd.listOf Rd.str; pure (.h (.setResnamesL i l))
  | "resnames_s" => do let i ← Rd.nat; let s ← Rd.str; pure (.h (.setResnamesS i s))
  | "setattr" => do let i ← Rd.nat; let v ← rdAttr; pure (.h (.setAttr i v))
  | "setattrn" => do let i ← Rd.nat; let a ← Rd.str; let v ← rdPyVal; pure (.x (.setAttrN i a v))
  | "getattrn" => do let i ← Rd.nat; let a ← Rd.str; pure (.x (.getAttrN i a))
  | "eq" => do let i ← Rd.nat; let j ← Rd.nat; pure (.x (.eq i j))
  | "mkatom" => do let i ← Rd.nat; let j ← Rd.nat; let b ← Rd.bool; pure (.x (.mkAtom i j b))
  | "remove" => do let i ← Rd.nat; let j ← Rd.nat; pure (.x (.removeAtom i j))
  | "add" => do let i ← Rd.nat; let j ← Rd.nat; pure (.x (.add i j))
  | "radd0" => do let i ← Rd.nat; pure (.x (.radd0 i))
  | "build" => do let r ← Rd.nat; let t ← Rd.nat; let s ← Rd.float; pure (.build r t s)
  | "call" => do let i ← Rd.nat; pure (.call i)
  | "callother" => pure .callOther
  | _ => throw s!"bad heap op '{k}'"

def groTok (g : AtomGroC Float) : String :=
  s!"{g.resid} {Wr.str g.resname} {Wr.str g.name} {g.atomid} {Wr.v3 g.pos} " ++
  (match g.vel with
   | none => "0"
   | some v => s!"1 {Wr.v3 v}")

def topTok (t : AtomTopC) : String :=
  s!"{Wr.str t.name} {Wr.str t.resname} {t.resid} {t.index} " ++ Wr.list toString t.bonds

/-- a Molecule whose residues hold fewer atoms than its topology (after `remove_atom`) -/
def obsRagged (h : Heap Float) (v : MolView) (ts : List AtomTopC) : String :=
  match v.parts.mapM (readGros h) with
  | none => "X"
  | some css =>
    let a := ts.foldl (fun acc t => acc ++ " " ++ topTok t) s!"MR {Wr.str v.name} {ts.length}"
    css.foldl (fun acc cs => cs.foldl (fun acc g => acc ++ " " ++ groTok g) (acc ++ s!" {cs.length}"))
      (a ++ s!" {css.length}")

def obs (h : Heap Float) : Obj → String
  | .mol m =>
    match molView h m with
    | none => "X"
    | some v =>
      match readTops h v.tops, readGros h v.gros with
      | some ts, some gs =>
        if ts.length ≠ gs.length then obsRagged h v ts else
        (ts.zip gs).foldl (fun acc (t, g) => acc ++ " " ++ groTok g ++ " " ++ topTok t)
          s!"M {Wr.str v.name} {gs.length}"
      | _, _ => "X"
  | .res r =>
    match h.res? r with
    | none => "X"
    | some l =>
      match readGros h l with
      | some gs => gs.foldl (fun acc g => acc ++ " " ++ groTok g) s!"R {gs.length}"
      | none => "X"
  | .agro g =>
    match h.gro? g with
    | some c => "G " ++ groTok c
    | none => "X"
  | .atom t g =>
    match h.top? t, h.gro? g with
    | some tc, some gc => "A " ++ groTok gc ++ " " ++ topTok tc
    | _, _ => "X"

structure DState where
  heap : Heap Float
  env : List Obj
  emap : Option (EMap (Frame Float) (V3 Float))
  scale : Float
  prev : Array String

def errTok : Option PyErr → String
  | none => "ok"
  | some e => e.toString

def natsTok (tag : String) (l : List Nat) : String :=
  l.foldl (fun acc k => acc ++ " " ++ toString k) s!"{tag} {l.length}"

def sortNat (l : List Nat) : List Nat := (l.toArray.qsort (· < ·)).toList

def keysTok (E : EMap (Frame Float) (V3 Float)) : String :=
  natsTok "K" (sortNat (E.table.map (·.1)))

def equivTok (E : EMap (Frame Float) (V3 Float)) : String :=
  let ps := (E.equiv.toArray.qsort (fun a b => a.1 < b.1)).toList
  ps.foldl (fun acc p => acc ++ s!" {p.1} {p.2}") s!"E {ps.length}"

/-- observation deltas of the whole environment -/
def deltas (s : DState) : DState × String :=
  let (prev, out, n) := s.env.zipIdx.foldl (fun (acc : Array String × String × Nat) (o, i) =>
    let (prev, out, n) := acc
    let ob := obs s.heap o
    if i < prev.size then
      if prev[i]! == ob then (prev, out, n) else (prev.set! i ob, out ++ s!" {i} {ob}", n + 1)
    else (prev.push ob, out ++ s!" {i} {ob}", n + 1)) (s.prev, "", 0)
  ({ s with prev := prev }, s!"{n}{out}")

def runOp (s : DState) : DOp → DState × String
  | .h o =>
    -- through the extended layer: identical to `step` unless the target is a Molecule that lost an
    -- atom / a Residue that lost all of them
    let r := stepX s.heap s.env (.base o)
    let s1 := { s with heap := r.heap, env := pushRetX s.env r }
    let (s2, d) := deltas s1
    (s2, s!"{errTok r.err} {d}")
  | .x o =>
    let r := stepX s.heap s.env o
    let s1 := { s with heap := r.heap, env := pushRetX s.env r }
    let (s2, d) := deltas s1
    match r.val with
    | some v => (s2, s!"{errTok r.err} V {pyValTok v} {d}")
    | none => (s2, s!"{errTok r.err} {d}")
  | .build r t scale =>
    match s.env[r]?, s.env[t]? with
    | some (.mol rm), some (.mol tm) =>
      let (E, e) := build (concreteGeo scale) s.heap rm tm
      let s1 := { s with emap := some E, scale := scale }
      let (s2, d) := deltas s1
      (s2, s!"{errTok e} {equivTok E} {keysTok E} {d}")
    | _, _ => (s, "Internal E 0 K 0 0")
  | .call i =>
    match s.emap with
    | none => (s, "Internal K 0 0")
    | some E =>
      let r := call (concreteGeo s.scale) s.heap E s.env[i]?
      let env := match r.ret with
        | some m => s.env ++ [.mol m]
        | none => s.env
      let s1 := { s with heap := r.heap, env := env, emap := some r.emap }
      let (s2, d) := deltas s1
      (s2, s!"{errTok r.err} {keysTok r.emap} {d}")
  | .callOther =>
    match s.emap with
    | none => (s, "Internal K 0 0")
    | some E =>
      let r := call (concreteGeo s.scale) s.heap E none
      let s1 := { s with heap := r.heap, emap := some r.emap }
      let (s2, d) := deltas s1
      (s2, s!"{errTok r.err} {keysTok r.emap} {d}")

def handle : Handler
  | "heapseq" => some do
      let n ← Rd.nat
      let mut s : DState := ⟨Heap.empty, [], none, 1.0, #[]⟩
      let mut out : String := "ok"
      for _ in [0:n] do
        let op ← rdOp
        let (s', o) := runOp s op
        s := s'
        out := out ++ " " ++ o
      Rd.done
      pure out
  | "atomroute" => some do
      let a ← Rd.str
      Rd.done
      pure s!"ok {(route a).tag}"
  | _ => none

end DHeap
