import Driver.Proto
import GMModel.SysGro
import GMModel.SystemRec
import GMModel.SysGroBytes
import Driver.Gro
/-
  Driver.SysGro — ops for `SystemGro` (C12) and `System` (C11).

  request  `sysgro <mode> <records> <nops> <op>…`
     mode    : 0 = repaired grouping key (resid, resname), 1 = unrepaired (`residname` string)
     records : n, then n × (resid:int resname:str name:str); record i gets `data = i`
     op      : `g <int>` | `s <a> <b> <c>` (int or `n` for None) | `in` | `ix <j>`
  response `ok E <err>`                       (constructor raised)
         | `ok I <dump> <nops> <result>…`
     dump    : templates (list of residues) pk (list of resname len idx) ordered (list of idx count)
               offsets (`E err` | `L` list of idx start len) len composition (`E err` | `L` list) kinds
               cursor (pos cur)
     residue : len d…
     result  : (`E <err>` | `R` list of residues) pos cur

  request  `sysgrob <bytes:hex> <nops> <op>…`   — the raw bytes of the .gro file (`sysGroOfBytes`)
  response `ok G <err>`                       (`GroFile(path)` raised)
         | `ok E <err>`                       (`SystemGro.__init__` raised)
         | `ok I <title:hex> <natoms> <box: 9 pynum> <recs: list of rrec (Driver.Gro)> <dump> <nops> <result>…`
     (dump / result as for `sysgro`; a residue lists the positions of its atoms in `recs`)

  request  `system <records> <ntops> <top>… <nops> <sop>…`
     top     : name:str natoms (name:str resname:str resid:int)…
     sop     : `g <int>` | `s <a> <b> <c>` | `it`
  response `ok E <err>` | `ok I <kinds> <ntops> <add>… <nops> <sresult>…`
     add     : (`A` | `E <err>`) <state>     state = nmols ordered(list of m start amount) avail(list of int)
                                            len instances(`E err` | `L` list of m a b) composition(`E err`|`L` list)
     sresult : `E <err>` | `M` list of (molidx, list of residues)
-/

namespace DSysGro
open SGro SRec

def rdStr : Rd Str := do
  let s ← Rd.str
  pure s.toList

def rdOptInt : Rd (Option Int) := do
  let t ← Rd.tok
  if t == "n" then pure none else
  match t.toInt? with
  | some n => pure (some n)
  | none => throw s!"bad optional int '{t}'"

def rdRecords : Rd (List AtomRec) := do
  let n ← Rd.nat
  let mut acc : Array AtomRec := Array.mkEmpty n
  for i in [0:n] do
    let resid ← Rd.int
    let resname ← rdStr
    let name ← rdStr
    acc := acc.push ⟨resid, resname, name, i⟩
  pure acc.toList

def rdOp : Rd Op := do
  let t ← Rd.tok
  match t with
  | "g" => pure (.get (← Rd.int))
  | "s" => do
      let a ← rdOptInt; let b ← rdOptInt; let c ← rdOptInt
      pure (.slice a b c)
  | "in" => pure .iterNew
  | "ix" => pure (.iterNext (← Rd.nat))
  | _ => throw s!"bad op '{t}'"

def wStr (s : Str) : String := Wr.str (String.ofList s)
def wNat (n : Nat) : String := toString n
def wInt (n : Int) : String := toString n
def wRes (r : Residue) : String := Wr.list (fun (a : AtomRec) => wNat a.data) r
def wErr (e : PyErr) : String := s!"E {e.name}"
def wCur (c : Cursor) : String := s!"{c.pos} {c.cur}"

def wExcept {β : Type} (tag : String) (w : β → String) : Except PyErr β → String
  | .error e => wErr e
  | .ok x => s!"{tag} {w x}"

/-- the effective dictionary: first binding of every key -/
def effPk (pk : List ((Str × Nat) × Nat)) : List ((Str × Nat) × Nat) :=
  pk.foldl (fun acc kv => if acc.any (fun q => q.1 == kv.1) then acc else acc ++ [kv]) []

def dumpSG (sg : SG) (c : Cursor) : String :=
  let t := Wr.list wRes sg.templates
  let pk := Wr.list (fun (kv : (Str × Nat) × Nat) => s!"{wStr kv.1.1} {kv.1.2} {kv.2}") (effPk sg.pk)
  let ord := Wr.list (fun (p : Nat × Nat) => s!"{p.1} {p.2}") sg.ordered
  let offs := wExcept "L" (Wr.list (fun (o : Nat × Nat × Nat) => s!"{o.1} {o.2.1} {o.2.2}")) sg.offsets
  let comp := wExcept "L" (Wr.list (fun (q : Str × Nat) => s!"{wStr q.1} {q.2}")) sg.composition
  let kinds := Wr.list wNat sg.kinds
  s!"{t} {pk} {ord} {offs} {sg.len} {comp} {kinds} {wCur c}"

def runOps (f : GroRd) (sg : SG) (st : St) (ops : List Op) : String := Id.run do
  let mut st := st
  let mut out := toString ops.length
  for op in ops do
    let (r, st') := step f sg st op
    st := st'
    out := out ++ " " ++ wExcept "R" (Wr.list wRes) r ++ " " ++ wCur st.cur
  pure out

def rdTop : Rd Top := do
  let name ← rdStr
  let n ← Rd.nat
  let mut acc : Array TopAtom := Array.mkEmpty n
  for _ in [0:n] do
    let an ← rdStr
    let rn ← rdStr
    let rid ← Rd.int
    acc := acc.push ⟨an, rn, rid⟩
  pure ⟨name, acc.toList⟩

def rdSOp : Rd SOp := do
  let t ← Rd.tok
  match t with
  | "g" => pure (.get (← Rd.int))
  | "s" => do
      let a ← rdOptInt; let b ← rdOptInt; let c ← rdOptInt
      pure (.slice a b c)
  | "it" => pure .iterAll
  | _ => throw s!"bad sop '{t}'"

def wEntry (e : Entry) : String := s!"{e.1} {e.2.1} {e.2.2}"

def dumpSys (s : Sys) : String :=
  let ord := Wr.list wEntry s.ordered
  let av := Wr.list wInt s.avail
  let inst := wExcept "L" (Wr.list wEntry) s.toRec.instances
  let comp := wExcept "L" (Wr.list (fun (q : Str × Nat) => s!"{wStr q.1} {q.2}")) s.composition
  s!"{s.mols.length} {ord} {av} {s.toRec.len} {inst} {comp}"

def wMol (m : Nat × Mol) : String := s!"{m.1} {Wr.list wRes m.2.residues}"

def handle : Handler
  | "sysgro" => some do
      let mode ← Rd.nat
      let recs ← rdRecords
      let ops ← Rd.listOf rdOp
      Rd.done
      let f : GroRd := ⟨[], recs, 0⟩
      let (r, c) := if mode == 0 then SGro.init f ⟨0, 0⟩ else SGro.initUnrepaired f ⟨0, 0⟩
      match r with
      | .error e => pure s!"ok {wErr e}"
      | .ok sg => pure s!"ok I {dumpSG sg c} {runOps f sg ⟨c, []⟩ ops}"
  | "sysgrob" => some do
      let bytes ← DGro.rdBytes
      let ops ← Rd.listOf rdOp
      Rd.done
      match sysGroOfBytes bytes with
      | .error (.gro e) => pure s!"ok G {e.name}"
      | .error (.view e) => pure s!"ok {wErr e}"
      | .ok v =>
        pure s!"ok I {DGro.wrBytes v.commentLine} {v.nAtoms} {DGro.wrRBox v.boxMatrix} {Wr.list DGro.wrRRec v.data.recs} {dumpSG v.sg v.cur} {runOps v.file v.sg ⟨v.cur, []⟩ ops}"
  | "system" => some do
      let recs ← rdRecords
      let tops ← Rd.listOf rdTop
      let ops ← Rd.listOf rdSOp
      Rd.done
      let f : GroRd := ⟨[], recs, 0⟩
      match Sys.init f with
      | .error e => pure s!"ok {wErr e}"
      | .ok s0 =>
        let mut s := s0
        let mut out := s!"ok I {Wr.list wNat s0.sg.kinds} {tops.length}"
        for t in tops do
          let (r, s') := addMoleculeTop s t
          s := s'
          out := out ++ " " ++ (match r with | .ok () => "A" | .error e => wErr e) ++ " " ++ dumpSys s
        out := out ++ s!" {ops.length}"
        for op in ops do
          let (r, s') := s.access op
          s := s'
          out := out ++ " " ++ wExcept "M" (Wr.list wMol) r
        pure out
  | _ => none

end DSysGro
