import Driver.Proto
import GMModel.Manager
import GMModel.Cli
/-
  Driver.Manager — ops for `_manager.py` (C05) and `_cli.py` (C20).

  Coordinates are opaque to these models: they travel as the bit patterns (`nat` tokens) and are
  echoed back unchanged.
-/

namespace DManager

open Mgr Cli

/-! ### C05 -/

abbrev Pos := List Nat          -- bit patterns of x y z (velocities are not transmitted)
abbrev Conf := Bool × List (List (TAtom Pos))   -- (species test passes, recorded `_restore_molecule()`)

def rdAtom : Rd (TAtom Pos) := do
  let resname ← Rd.str; let name ← Rd.str; let atomid ← Rd.int; let hv ← Rd.bool
  let x ← Rd.nat; let y ← Rd.nat; let z ← Rd.nat
  pure ⟨resname, name, atomid, hv, [x, y, z]⟩

def rdMol : Rd (MolInst Conf) := do
  let sp ← Rd.str
  let resids ← Rd.listOf Rd.int
  let acc ← Rd.bool
  let rs ← Rd.listOf (Rd.listOf rdAtom)
  pure ⟨sp, resids, (acc, rs)⟩

/-- every species uses the map "replay what the implementation's map returned for this molecule" -/
def replayMap : EMap Conf Pos := ⟨fun mol => mol.conf.1, fun mol => mol.conf.2⟩

def rdAlign : Rd (String × Align Conf Pos) := do
  let name ← Rd.str; let hs ← Rd.bool; let he ← Rd.bool; let hm ← Rd.bool
  pure (name, ⟨hs, he, if hm then some replayMap else none⟩)

def wrOp : WOp (List Nat) Pos → String
  | .openW => "O"
  | .comment s => s!"C {Wr.str s}"
  | .box b => s!"B {Wr.list toString b}"
  | .line r =>
    s!"L {r.resid} {Wr.str r.resname} {Wr.str r.name} {r.number} {Wr.bool r.hasVel} {Wr.list toString r.pos}"
  | .close => "X"

def errCode : Option PyErr → Nat
  | none => 0
  | some e => e.code

/-! ### C20 -/

def rdTriple : Rd (String × String × String) := do
  let a ← Rd.str; let b ← Rd.str; let c ← Rd.str
  pure (a, b, c)

def rdOptStr : Rd (Option String) := do
  let h ← Rd.bool
  let s ← Rd.str
  pure (if h then some s else none)

def wrOptStr : Option String → String
  | none => "0 -"
  | some s => s!"1 {Wr.str s}"

def errOfCode (n : Nat) : PyErr :=
  match n with
  | 1 => .SystemError | 2 => .ValueError | 3 => .TypeError
  | 4 => .IOError | 5 => .KeyError | _ => .IndexError

def wrInfo (p : String × Info) : String :=
  s!"{Wr.str p.1} {Wr.str p.2.topCG} {wrOptStr p.2.topAA} {wrOptStr p.2.coorAA}"

def wrTriple (t : String × String × String) : String :=
  s!"{Wr.str t.1} {Wr.str t.2.1} {Wr.str t.2.2}"

def rdInfo : Rd (String × Info) := do
  let n ← Rd.str; let cg ← Rd.str; let aa ← rdOptStr; let co ← rdOptStr
  pure (n, ⟨cg, aa, co⟩)

def handle : Handler
  | "extrapolate" => some do
      let title ← Rd.str
      let extOk ← Rd.bool
      let box ← Rd.listOf Rd.nat
      let corr ← Rd.listOf rdAlign
      let sys ← Rd.listOf rdMol
      Rd.done
      let r := extrapolate (B := List Nat) corr sys title box extOk
      pure s!"ok {errCode r.err} {Wr.list wrOp r.ops}"
  | "title" => some do
      let t ← Rd.str; Rd.done
      match writtenTitle t.toList with
      | none => pure "ok 0 -"
      | some l => pure s!"ok 1 {Wr.str (String.ofList l)}"
  | "classify" => some do
      let te ← Rd.listOf Rd.str; let ce ← Rd.listOf Rd.str; let files ← Rd.listOf Rd.str
      Rd.done
      let r := classify te ce files
      pure s!"ok {Wr.list Wr.str r.1} {Wr.list Wr.str r.2}"
  | "sortmol" => some do
      let repaired ← Rd.bool
      let knownOk ← Rd.bool
      let tops ← Rd.listOf Rd.str
      let coords ← Rd.listOf Rd.str
      let known ← Rd.listOf rdTriple
      -- parse table: file, ok?, name-or-error-code
      let parse ← Rd.listOf (do let f ← Rd.str; let ok ← Rd.bool; let n ← Rd.str; let c ← Rd.nat; pure (f, ok, n, c))
      let loads ← Rd.listOf Rd.str
      let conflicts ← Rd.listOf (do let a ← Rd.str; let t ← Rd.str; pure (a, t))
      let ff ← Rd.listOf (do let c ← Rd.str; let t ← Rd.str; pure (c, t))
      Rd.done
      let env : Env := {
        parseTop := fun f =>
          match parse.find? (fun p => p.1 == f) with
          | some (_, true, n, _) => .ok n
          | some (_, false, _, c) => .error (errOfCode c)
          | none => .error .IOError
        loadsAfter := fun added f =>
          loads.contains f && !added.contains f && !conflicts.any (fun p => p.2 == f && added.contains p.1)
        fromFiles := fun c t => ff.contains (c, t) }
      let base := known.map (·.1)
      match sortMolecules env repaired tops coords known knownOk with
      | .error e => pure s!"err {e.code}"
      | .ok d =>
        -- warnings of the second loop, recomputed on the same intermediate state
        let tops1 := tops.filter (fun f => !isKnownTop known f)
        let w := match parseAll env repaired tops1 with
          | .ok tm => let r1 := loop1 env base tm [] []; loop2Warnings r1.1 tm r1.2
          | .error _ => 0
        pure s!"ok {w} {Wr.list wrInfo d}"
  | "mainmols" => some do
      let explicit ← Rd.listOf rdTriple
      let hasAuto ← Rd.bool
      let info ← Rd.listOf rdInfo
      let hasEx ← Rd.bool
      let ex ← Rd.listOf Rd.str
      Rd.done
      let auto := if hasAuto then some info else none
      let exclude := if hasEx then some ex else none
      pure s!"ok {countMols info} {Wr.list wrTriple (mainMolecules explicit auto exclude)}"
  | "outpath" => some do
      let ref ← Rd.str; let out ← rdOptStr; Rd.done
      pure s!"ok {Wr.str (String.ofList (outPath ref.toList (out.map String.toList)))}"
  | _ => none

end DManager
