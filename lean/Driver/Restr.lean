import Driver.Proto
import GMModel.Routing
/-
  Driver.Restr — ops for the restraint plumbing / option routing (C10).
  Positions are instantiated as `P := Nat`: the index of the atom in its own molecule, so the
  response says *which atoms* reach the optimiser.

  token grammar
    mol      := connected hasBonds nres { resname natoms { atomname } }
    pairs    := n { i j }
    optpairs := 0 | 1 pairs
    optints  := 0 | 1 n { int }
    prepout  := nocall | call swapped <n fixedIdx…> <n mobileIdx…> pairs <n deform…> nsteps
    molid    := label name natoms { resname atomname index top_resid }      (label: the harness' number of the object)
    setarg   := N | X | M molid                                             (None | not a Molecule | a Molecule)
    setop    := S setarg | E setarg
    optlabel := - | label
-/

namespace DRestr
open Restr

def err : PyErr → String
  | .ioError => "OSError"
  | .valueError => "ValueError"
  | .keyError => "KeyError"
  | .typeError => "TypeError"

def rdMol : Rd (Mol Nat) := do
  let conn ← Rd.bool
  let hb ← Rd.bool
  let nres ← Rd.nat
  let mut residues : Array (Residue Nat) := #[]
  let mut idx := 0
  for _ in [0:nres] do
    let rn ← Rd.str
    let na ← Rd.nat
    let mut atoms : Array (Atom Nat) := #[]
    for _ in [0:na] do
      let an ← Rd.str
      atoms := atoms.push ⟨an.toList, idx⟩
      idx := idx + 1
    residues := residues.push ⟨rn.toList, atoms.toList⟩
  pure ⟨residues.toList, conn, hb⟩

def rdPair : Rd Pair := do
  let i ← Rd.int; let j ← Rd.int; pure (i, j)

def rdOpt {β : Type} (item : Rd β) : Rd (Option β) := do
  if (← Rd.bool) then pure (some (← item)) else pure none

def wrPairs (l : List Pair) : String := Wr.list (fun (p : Pair) => s!"{p.1} {p.2}") l
def wrNats (l : List Nat) : String := Wr.list toString l
def wrInts (l : List Int) : String := Wr.list toString l

def wrPrep : PrepOut Nat → String
  | .noCall => "nocall"
  | .call sw o =>
    s!"call {Wr.bool sw} {wrNats o.fixedPos} {wrNats o.mobilePos} {wrPairs o.restr} {wrInts o.deform} {o.nSteps}"

def rdIdx : Rd IdxVal := do
  match (← Rd.tok) with
  | "I" => pure (.int (← Rd.int))
  | "S" => pure .nonInt
  | t => throw s!"bad idx kind '{t}'"

def rdEntry : Rd Entry := do
  match (← Rd.tok) with
  | "X" => pure .nonPair
  | "P" => do let a ← rdIdx; let b ← rdIdx; pure (.pair a b)
  | t => throw s!"bad entry kind '{t}'"

def rdRestrArg : Rd RestrArg := do
  match (← Rd.tok) with
  | "F" => pure .falsy
  | "N" => pure .nonIterable
  | "L" => pure (.list (← Rd.listOf rdEntry))
  | t => throw s!"bad restr kind '{t}'"

def rdDefElem : Rd DefElem := do
  match (← Rd.tok) with
  | "I" => pure (.int (← Rd.int))
  | "S" => pure .other
  | t => throw s!"bad deform element kind '{t}'"

def rdDefArg : Rd DefArg := do
  match (← Rd.tok) with
  | "F" => pure .falsy
  | "O" => pure .other
  | "L" => pure (.seq (← Rd.listOf rdDefElem))
  | t => throw s!"bad deform kind '{t}'"

def rdIgnArg : Rd IgnArg := do
  match (← Rd.tok) with
  | "B" => pure (.bool (← Rd.bool))
  | "O" => pure .other
  | t => throw s!"bad ignore kind '{t}'"

def rdDict {β : Type} (item : Rd β) : Rd (Dict β) :=
  Rd.listOf (do let k ← Rd.str; let v ← item; pure (k.toList, v))

def rdSpecies : Rd (Species Nat) := do
  let name ← Rd.str
  let start ← rdMol
  let e ← rdOpt rdMol
  pure ⟨name.toList, start, e⟩

def wrRoute (r : RouteOut Nat) : String :=
  let calls := Wr.list (fun (c : PStr × PrepOut Nat) => s!"{Wr.str (String.ofList c.1)} {wrPrep c.2}") r.calls
  match r.err with
  | none => s!"{calls} noerr"
  | some e => s!"{calls} err {err e}"

def handle1 : Handler
  | "c10_element" => some do
      let name ← Rd.str; Rd.done
      match element name.toList with
      | .ok e => pure s!"ok {Wr.str (String.ofList e)}"
      | .error e => pure s!"err {err e}"
  | "c10_split" => some do
      let len ← Rd.nat; let parts ← Rd.nat; Rd.done
      pure s!"ok {Wr.list wrNats (splitList (List.range len) parts)}"
  | "c10_resguess" => some do
      let l1 ← Rd.nat; let l2 ← Rd.nat; let o1 ← Rd.nat; let o2 ← Rd.nat; Rd.done
      pure s!"ok {wrPairs (guessResidueLen l1 l2 o1 o2)}"
  | "c10_protein" => some do
      let m1 ← rdMol; let m2 ← rdMol; Rd.done
      match guessProtein m1 m2 with
      | .ok l => pure s!"ok {wrPairs l}"
      | .error e => pure s!"err {err e}"
  | "c10_remh" => some do
      let m ← rdMol; let r ← Rd.listOf rdPair; Rd.done
      match removeHydrogens m r with
      | .ok (pos, l) => pure s!"ok {wrNats pos} {wrPairs l}"
      | .error e => pure s!"err {err e}"
  | "c10_prep" => some do
      let s ← rdMol; let e ← rdMol
      let r ← rdOpt (Rd.listOf rdPair)
      let d ← rdOpt (Rd.listOf Rd.int)
      let ign ← Rd.bool; let auto ← Rd.bool; Rd.done
      match alignPrep s e r d ign auto with
      | .ok out => pure s!"ok {wrPrep out}"
      | .error e => pure s!"err {err e}"
  | "c10_route" => some do
      let sys ← Rd.listOf rdSpecies
      let r ← rdOpt (rdDict rdRestrArg)
      let d ← rdOpt (rdDict rdDefArg)
      let h ← rdOpt (rdDict rdIgnArg)
      Rd.done
      pure s!"ok {wrRoute (managerAlign sys r d h)}"
  | "c10_route_pre" => some do
      let sys ← Rd.listOf rdSpecies
      let r ← rdDict (rdOpt (Rd.listOf rdPair))
      let d ← rdOpt (rdDict rdDefArg)
      let h ← rdOpt (rdDict rdIgnArg)
      Rd.done
      pure s!"ok {wrRoute (managerAlignPreparsed sys r d h)}"
  | _ => none

/-- a molecule as the setters see it: the harness' label of the object and what `__eq__` compares -/
abbrev LMol := Nat × MolId

def rdAtomId : Rd AtomId := do
  let rn ← Rd.str; let an ← Rd.str; let i ← Rd.int; let r ← Rd.int
  pure ⟨rn.toList, an.toList, i, r⟩

def rdMolId : Rd LMol := do
  let label ← Rd.nat
  let name ← Rd.str
  let atoms ← Rd.listOf rdAtomId
  pure (label, ⟨name.toList, atoms⟩)

def rdSetArg : Rd (SetArg LMol) := do
  match (← Rd.tok) with
  | "N" => pure .none
  | "X" => pure .nonMolecule
  | "M" => pure (.mol (← rdMolId))
  | t => throw s!"bad setter argument kind '{t}'"

def rdSetOp : Rd (SetOp LMol) := do
  match (← Rd.tok) with
  | "S" => pure (.start (← rdSetArg))
  | "E" => pure (.end_ (← rdSetArg))
  | t => throw s!"bad setter op kind '{t}'"

def wrLabel : Option LMol → String
  | none => "-"
  | some m => toString m.1

def wrState (st : AliState LMol) : String := s!"{wrLabel st.start} {wrLabel st.end_}"

def wrOutcome : Option PyErr → String
  | none => "noerr"
  | some e => err e

def handle2 : Handler
  | "c10_parse_guess" => some do
      let sys ← Rd.listOf rdSpecies
      let r ← rdOpt (rdDict rdRestrArg)
      let g ← Rd.bool
      Rd.done
      match parseRestrictionsG sys r g with
      | .error e => pure s!"err {err e}"
      | .ok d =>
        let item := fun (kv : PStr × Option (List Pair)) =>
          match kv.2 with
          | none => s!"{Wr.str (String.ofList kv.1)} 0"
          | some l => s!"{Wr.str (String.ofList kv.1)} 1 {wrPairs l}"
        pure s!"ok {Wr.list item d}"
  | "c10_route_guess" => some do
      let sys ← Rd.listOf rdSpecies
      let r ← rdOpt (rdDict rdRestrArg)
      let d ← rdOpt (rdDict rdDefArg)
      let h ← rdOpt (rdDict rdIgnArg)
      let g ← Rd.bool
      Rd.done
      pure s!"ok {wrRoute (managerAlignGuess sys r d h g)}"
  | "c10_setops" => some do
      -- `Alignment(start, end)` followed by a history of assignments, each in its own `try`
      let s0 ← rdSetArg; let e0 ← rdSetArg
      let ops ← Rd.listOf rdSetOp
      Rd.done
      match newAlignment (·.2) s0 e0 with
      | .error e => pure s!"err {err e}"
      | .ok st =>
        let r := runOps (·.2) st ops
        pure s!"ok {wrState st} {wrState r.1} {Wr.list wrOutcome r.2}"
  | "c10_align_state" => some do
      let s ← rdOpt rdMol; let e ← rdOpt rdMol
      let r ← rdOpt (Rd.listOf rdPair)
      let d ← rdOpt (Rd.listOf Rd.int)
      let ign ← Rd.bool; let auto ← Rd.bool; Rd.done
      match alignMolecules ⟨s, e⟩ r d ign auto with
      | .ok out => pure s!"ok {wrPrep out}"
      | .error e => pure s!"err {err e}"
  | "c10_add_end" => some do
      let corr ← Rd.listOf (do
        let k ← Rd.str
        let s ← rdOpt rdMolId
        let e ← rdOpt rdMolId
        pure (k.toList, (⟨s, e⟩ : AliState LMol)))
      let a ← rdSetArg
      Rd.done
      match addEndMolecule (·.2) corr a with
      | .error e => pure s!"err {err e}"
      | .ok c =>
        pure s!"ok {Wr.list (fun (kv : PStr × AliState LMol) => s!"{Wr.str (String.ofList kv.1)} {wrState kv.2}") c}"
  | "c10_add_ends" => some do
      let corr ← Rd.listOf (do
        let k ← Rd.str
        let s ← rdOpt rdMolId
        let e ← rdOpt rdMolId
        pure (k.toList, (⟨s, e⟩ : AliState LMol)))
      let args ← Rd.listOf rdSetArg
      Rd.done
      let r := addEndMolecules (·.2) corr args
      pure s!"ok {Wr.list (fun (kv : PStr × AliState LMol) => s!"{Wr.str (String.ofList kv.1)} {wrState kv.2}") r.1} {wrOutcome r.2}"
  | _ => none

/-- all C10 ops (registered in `Driver/Main.lean` as `DRestr.handle`) -/
def handle : Handler := fun op =>
  match handle1 op with
  | some r => some r
  | none => handle2 op

end DRestr
