import Driver.Proto
import GMModel.ManagerSM
/-
  Driver.ManagerSM — `mgrsm`: a whole `Manager` session (C05/C20 state machine, `GMModel.ManagerSM`).

  request : mols(list Mol) sys(list: name resids(list int)) ops(list Op)
     Mol  = name(hex) top inst hasVel residues(list of list of atom: resname(hex) name(hex) index topResid)
     Arg  = 0 (None) | 1 (not a Molecule) | 2 Mol
     Op   = A Arg | E key(hex) Arg | C scale(nat: float bits) | G keys(list hex) | X extOk
          | M args(list Arg)      (`add_end_molecules(*args)` = `MgrSM.addEnds`, one row)
  response: `ok <table0> <n> { <errcode> <aligned(list hex)> <table> }*n`
     table = list of entry: key(hex) optMol(start) optMol(end) optMap ; optMol = 0 | 1 Mol ;
     optMap = 0 | 1 Mol(ref) Mol(target) scale
-/

namespace DManagerSM

open MgrSM

def rdAtom : Rd AtomSig := do
  let resname ← Rd.str; let name ← Rd.str; let index ← Rd.int; let tr ← Rd.int
  pure ⟨resname, name, index, tr⟩

def rdMol : Rd Mol := do
  let name ← Rd.str; let top ← Rd.nat; let inst ← Rd.nat; let hv ← Rd.bool
  let residues ← Rd.listOf (Rd.listOf rdAtom)
  pure ⟨name, top, inst, hv, residues⟩

def rdArg : Rd Arg := do
  let k ← Rd.nat
  match k with
  | 0 => pure .none
  | 1 => pure .notMol
  | 2 => do let m ← rdMol; pure (.mol m)
  | _ => throw s!"bad arg kind {k}"

/-- a call of the session: one `Op`, or `add_end_molecules(*args)` -/
inductive DOp where
  | one (o : Op Nat)
  | many (args : List Arg)

def rdOp : Rd DOp := do
  let k ← Rd.tok
  match k with
  | "A" => do let a ← rdArg; pure (.one (.addEnd a))
  | "E" => do let key ← Rd.str; let a ← rdArg; pure (.one (.setEnd key a))
  | "C" => do let s ← Rd.nat; pure (.one (.calcMaps s))
  | "G" => do let keys ← Rd.listOf Rd.str; pure (.one (.align keys))
  | "X" => do let e ← Rd.bool; pure (.one (.extrapolate e))
  | "M" => do let args ← Rd.listOf rdArg; pure (.many args)
  | _ => throw s!"bad op kind {k}"

def dstep (st : State Nat) : DOp → State Nat × Option Mgr.PyErr
  | .one o => step st o
  | .many args => let r := addEnds st.table args; ({ st with table := r.1 }, r.2)

def wrAtom (a : AtomSig) : String :=
  s!"{Wr.str a.resname} {Wr.str a.name} {a.index} {a.topResid}"

def wrMol (m : Mol) : String :=
  s!"{Wr.str m.name} {m.top} {m.inst} {Wr.bool m.hasVel} {Wr.list (Wr.list wrAtom) m.residues}"

def wrOptMol : Option Mol → String
  | none => "0"
  | some m => s!"1 {wrMol m}"

def wrOptMap : Option (MapRec Nat) → String
  | none => "0"
  | some m => s!"1 {wrMol m.ref} {wrMol m.target} {m.scale}"

def wrEntry (p : String × Entry Nat) : String :=
  s!"{Wr.str p.1} {wrOptMol p.2.start} {wrOptMol p.2.end_} {wrOptMap p.2.map}"

def wrTable (t : Table Nat) : String := Wr.list wrEntry t

def errCode : Option Mgr.PyErr → Nat
  | none => 0
  | some e => e.code

/-- the species `align_molecules` aligns in the state BEFORE the call (empty for the other ops / on error) -/
def alignedOf (st : State Nat) : DOp → List String
  | .one (.align keys) =>
    match alignTargets st.table keys with
    | .ok names => names
    | .error _ => []
  | _ => []

def wrTrace (st : State Nat) : List DOp → String
  | [] => ""
  | o :: rest =>
    let r := dstep st o
    s!" {errCode r.2} {Wr.list Wr.str (alignedOf st o)} {wrTable r.1.table}" ++ wrTrace r.1 rest

def handle : Handler
  | "mgrsm" => some do
      let mols ← Rd.listOf rdMol
      let sys ← Rd.listOf (do let n ← Rd.str; let r ← Rd.listOf Rd.int; pure (n, r))
      let ops ← Rd.listOf rdOp
      Rd.done
      let st : State Nat := init mols sys
      pure s!"ok {wrTable st.table} {ops.length}{wrTrace st ops}"
  | _ => none

end DManagerSM
