import Driver.Proto
import GMModel.MoveAtom
/- Driver.MoveAtom — ops for `_transform_molecule.py` (C07; `move` is also used by C09/C06).

   move     <pos: n (x y z)*> <table: m (cnt (k b)*)*> <a> <displ: x y z>
            → ok <defined> <pos: n (x y z)*> <trace: k (i j b)*>        (trace in pop order)
   displ    <pos> <table> <a> <sigma_scale> <tape: k item*>
            item = ri <k> | r3 <x y z> | ch <s> | no <x>
            → ok <branch> <sigma> <defined> <displ: x y z> <unused draws>
   movetape <pos> <table> <sigma_scale> <tape>
            → ok <a> <branch> <sigma> <ddefined> <displ> <unused draws> <defined> <pos> <trace>
   errors   → err <IndexError|KeyError|ValueError|Desync|Fuel>
-/

namespace DMove
open MoveAtom

def rdTable : Rd (BondTable Float) :=
  Rd.listOf (Rd.listOf (do let k ← Rd.nat; let b ← Rd.float; pure (k, b)))

def rdDraw : Rd (Draw Float) := do
  let t ← Rd.tok
  match t with
  | "ri" => do let k ← Rd.nat; pure (.randint k)
  | "r3" => do let v ← Rd.v3; pure (.rand3 v)
  | "ch" => do let s ← Rd.int; pure (.choice s)
  | "no" => do let x ← Rd.float; pure (.normal x)
  | _ => throw s!"bad draw kind '{t}'"

def wrTriple (t : Triple Float) : String := s!"{t.1} {t.2.1} {Wr.float t.2.2}"

def wrState (s : St Float) : String :=
  s!"{Wr.bool s.defined} {Wr.list Wr.v3 s.pos} {Wr.list wrTriple s.trace.reverse}"

def wrDispl (d : DisplOut Float) : String :=
  s!"{d.branch} {Wr.float d.sigma} {Wr.bool d.defined} {Wr.v3 d.displ} {d.rest.length}"

def handle : Handler
  | "move" => some do
      let pos ← Rd.listOf Rd.v3; let bt ← rdTable; let a ← Rd.nat; let d ← Rd.v3; Rd.done
      match moveMolAtomFull pos bt a d with
      | .ok s => pure s!"ok {wrState s}"
      | .error e => pure s!"err {e.name}"
  | "displ" => some do
      let pos ← Rd.listOf Rd.v3; let bt ← rdTable; let a ← Rd.nat; let ss ← Rd.float
      let tape ← Rd.listOf rdDraw; Rd.done
      match findAtomRandomDispl pos bt a ss tape with
      | .ok d => pure s!"ok {wrDispl d}"
      | .error e => pure s!"err {e.name}"
  | "movetape" => some do
      let pos ← Rd.listOf Rd.v3; let bt ← rdTable; let ss ← Rd.float
      let tape ← Rd.listOf rdDraw; Rd.done
      match moveMolAtomTape pos bt ss tape with
      | .ok (a, d, s) => pure s!"ok {a} {wrDispl d} {wrState s}"
      | .error e => pure s!"err {e.name}"
  | _ => none

end DMove
