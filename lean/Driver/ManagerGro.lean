import Driver.Proto
import Driver.Gro
import GMModel.ManagerGro
/-
  Driver.ManagerGro — `extrapolate_bytes`: `Mgr.extrapolate` composed with the byte-level `GroFile`
  writer (`MgrGro.fileBytes`): the bytes the composed model predicts for the output file (C05 × C13).

  request: title(hex) extOk box(9 dy) corr(list: name hs he hm) mols(list: species resids accepts
           residues(list of list of atom: resname name atomid hasVel x y z [vx vy vz as dy when hasVel]))
  response: `ok <errcode> <hex bytes> <n writer exceptions>`
-/

namespace DManagerGro
open Mgr MgrGro PyStr Gro

abbrev Conf := Bool × List (List (TAtom PV))

def rdAtom : Rd (TAtom PV) := do
  let resname ← Rd.str; let name ← Rd.str; let atomid ← Rd.int; let hv ← Rd.bool
  let x ← DGro.rdDy; let y ← DGro.rdDy; let z ← DGro.rdDy
  if hv then
    let a ← DGro.rdDy; let b ← DGro.rdDy; let c ← DGro.rdDy
    pure ⟨resname, name, atomid, hv, ⟨x, y, z, (a, b, c)⟩⟩
  else
    pure ⟨resname, name, atomid, hv, ⟨x, y, z, (.zero, .zero, .zero)⟩⟩

def rdMol : Rd (MolInst Conf) := do
  let sp ← Rd.str
  let resids ← Rd.listOf Rd.int
  let acc ← Rd.bool
  let rs ← Rd.listOf (Rd.listOf rdAtom)
  pure ⟨sp, resids, (acc, rs)⟩

def replayMap : EMap Conf PV := ⟨fun mol => mol.conf.1, fun mol => mol.conf.2⟩

def rdAlign : Rd (String × Align Conf PV) := do
  let name ← Rd.str; let hs ← Rd.bool; let he ← Rd.bool; let hm ← Rd.bool
  pure (name, ⟨hs, he, if hm then some replayMap else none⟩)

def errCode : Option Mgr.PyErr → Nat
  | none => 0
  | some e => e.code

def handle : Handler
  | "extrapolate_bytes" => some do
      let title ← Rd.str
      let extOk ← Rd.bool
      let box ← DGro.rdBox9
      let corr ← Rd.listOf rdAlign
      let sys ← Rd.listOf rdMol
      Rd.done
      let r := extrapolate (B := Box) corr sys title box extOk
      let w := run WState.init (toOps r.ops)
      pure s!"ok {errCode r.err} {DGro.wrBytes w.1.bytes} {(w.2.filter Option.isSome).length}"
  | _ => none

end DManagerGro
