import Driver.SysGro
import GMModel.SysStr
/-
  Driver.SysGroX — `sysgro` / `system` (Driver.SysGro) with the operations of `GMModel.SysStr` (C12, C11; WPI).

  request  `sysgrox <records> <nops> <xop>…`      (repaired grouping key)
     xop     : every op of `sysgro`, and `o` (index of another type) | `str` | `ps <k>` (poke: seek_atom(k)) |
               `pn` (poke: next()) | `pr` (poke: readline(parsed=False))
  response `ok E <err>` | `ok I <dump> <nops> <xresult>…`
     xresult : (`E <err>` | `R` list of residues | `T` <hex text> | `A` <d> | `U`) pos cur

  request  `systemx <records> <ntops> <top>… <nops> <sxop>…`
     sxop    : every sop of `system`, and `o` | `str`
  response as `system`, with sresult also `T` <hex text>

  request  `compstr <n> {<name:str> <count>}` → `ok <hex text>`      (`SGro.compositionStr`)
-/

namespace DSysGroX
open SGro SRec DSysGro

def xNames : List String := ["o", "str", "ps", "pn", "pr"]

def rdXOp : Rd XOp := do
  match (← get) with
  | k :: _ =>
    if xNames.contains k then do
      let _ ← Rd.tok
      match k with
      | "o" => pure .getOther
      | "str" => pure .str
      | "ps" => do pure (.pokeSeek (← Rd.nat))
      | "pn" => pure .pokeNext
      | _ => pure .pokeRaw
    else do pure (.base (← DSysGro.rdOp))
  | [] => throw "unexpected end of line"

def wXVal : XVal → String
  | .residues l => "R " ++ Wr.list wRes l
  | .text s => "T " ++ wStr s
  | .atom a => s!"A {a.data}"
  | .unit => "U"

def wXRes : XRes → String
  | .error e => wErr e
  | .ok v => wXVal v

def runXOps (f : GroRd) (sg : SG) (st : St) (ops : List XOp) : String := Id.run do
  let mut st := st
  let mut out := toString ops.length
  for op in ops do
    let (r, st') := xstep f sg st op
    st := st'
    out := out ++ " " ++ wXRes r ++ " " ++ wCur st.cur
  pure out

def rdSXOp : Rd SXOp := do
  match (← get) with
  | k :: _ =>
    if k == "o" then do let _ ← Rd.tok; pure .getOther
    else if k == "str" then do let _ ← Rd.tok; pure .str
    else do pure (.base (← DSysGro.rdSOp))
  | [] => throw "unexpected end of line"

def wSXRes : Except PyErr SXVal → String
  | .error e => wErr e
  | .ok (.mols l) => "M " ++ Wr.list wMol l
  | .ok (.text s) => "T " ++ wStr s

def handle : Handler
  | "sysgrox" => some do
      let recs ← rdRecords
      let ops ← Rd.listOf rdXOp
      Rd.done
      let f : GroRd := ⟨[], recs, 0⟩
      let (r, c) := SGro.init f ⟨0, 0⟩
      match r with
      | .error e => pure s!"ok {wErr e}"
      | .ok sg => pure s!"ok I {dumpSG sg c} {runXOps f sg ⟨c, []⟩ ops}"
  | "systemx" => some do
      let recs ← rdRecords
      let tops ← Rd.listOf rdTop
      let ops ← Rd.listOf rdSXOp
      Rd.done
      let f : GroRd := ⟨[], recs, 0⟩
      match Sys.init f with
      | .error e => pure s!"ok {wErr e}"
      | .ok s0 =>
        let mut s := s0
        let mut out := s!"ok I {Wr.list wNat s0.sg.kinds} {tops.length}"
        for t in tops do
          let (r, s') := addMoleculeTop s t
          s := s'
          out := out ++ " " ++ (match r with | .ok () => "A" | .error e => wErr e) ++ " " ++ dumpSys s
        out := out ++ s!" {ops.length}"
        for op in ops do
          let (r, s') := s.accessX op
          s := s'
          out := out ++ " " ++ wSXRes r
        pure out
  | "compstr" => some do
      let c ← Rd.listOf (do let n ← rdStr; let k ← Rd.nat; pure (n, k))
      Rd.done
      pure ("ok " ++ wStr (compositionStr c))
  | _ => none

end DSysGroX
