import Driver.Gro
import GMModel.GroOpen
/-
  Driver.GroOpen — ops for `GMModel.GroOpen` (C13, WPI).

  gro_dispatch <nreg> {<parser> (N | L <n> <ext:str>…)} <n> <fname:str>…
        → ok { (P <parser> | E <err>) }          registrations applied in order ON TOP of the standard registry
  gro_mode <mode:str> <exists 0|1>
        → ok (E <err> | O <fmode:str> <warned> <loaded> <writable>)
  gro_fileobj <fmode:str> <pos> <bytes> <rops>
        → err <E> | ok <hdr> <results>            as `gro_rsession`, every file position shifted by <pos>
  gro_wsession <n> <xop>…      xop = every op of `gro_write`, and `gn` | `gp` | `gc` | `k <index>`
        → ok <n> { E <err> | U | I <int> | F <w> <d> | S <hex> } <hex bytes>
-/

namespace DGroOpen
open PyStr Gro DGro

def rdExts : Rd (Option (List String)) := do
  let k ← Rd.tok
  match k with
  | "N" => pure none
  | "L" => do pure (some (← Rd.listOf Rd.str))
  | _ => throw s!"bad extensions '{k}'"

def xNames : List String := ["gn", "gp", "gc", "k"]

def rdWOpX : Rd WOpX := do
  match (← get) with
  | k :: _ =>
    if xNames.contains k then do
      let _ ← Rd.tok
      match k with
      | "gn" => pure .getNatoms
      | "gp" => pure .getPosFmt
      | "gc" => pure .getComment
      | _ => do pure (.seekAtom (← Rd.int))
    else do pure (.base (← DGro.rdOp))
  | [] => throw "unexpected end of line"

def wrWRes : Except PyErr WVal → String
  | .error e => "E " ++ e.name
  | .ok .unit => "U"
  | .ok (.int n) => s!"I {n}"
  | .ok (.fmt w d) => s!"F {w} {d}"
  | .ok (.text s) => "S " ++ wrBytes s

def shiftRes (p : Nat) (x : Except PyErr RVal × Nat × Int) : Except PyErr RVal × Nat × Int := (x.1, x.2.1 + p, x.2.2)

def handle : Handler
  | "gro_dispatch" => some do
      let regs ← Rd.listOf (do let p ← Rd.nat; let e ← rdExts; pure (p, e))
      let names ← Rd.listOf Rd.str
      Rd.done
      let reg := regs.foldl (fun r (pe : Nat × Option (List String)) => register r pe.2 pe.1) stdRegistry
      pure ("ok " ++ " ".intercalate (names.map (fun f =>
        match dispatch reg f with
        | .ok p => s!"P {p}"
        | .error e => "E " ++ e.name)))
  | "gro_mode" => some do
      let m ← Rd.str; let ex ← Rd.bool
      Rd.done
      match groOpenPath m.toList ex with
      | .error e => pure ("ok E " ++ e.name)
      | .ok o => pure s!"ok O {Wr.str (String.ofList o.fmode)} {wrBool o.warned} {wrBool o.loaded} {wrBool o.writable}"
  | "gro_fileobj" => some do
      let fm ← Rd.str; let pos ← Rd.nat; let b ← rdBytes; let ops ← Rd.listOf rdROp
      Rd.done
      match ropenObj stdParsers fm.toList b pos with
      | .error e => pure ("err " ++ e.name)
      | .ok s =>
        let (_, rs) := rrun stdParsers (b.drop pos) s ops
        pure s!"ok {wrRState { s.hdr with initPos := s.hdr.initPos + pos }} {Wr.list wrRRes (rs.map (shiftRes pos))}"
  | "gro_wsession" => some do
      let ops ← Rd.listOf rdWOpX
      Rd.done
      let (s, rs) := wrunX WState.init ops
      pure s!"ok {Wr.list wrWRes rs} {wrBytes s.bytes}"
  | _ => none

end DGroOpen
