import Driver.Comparative
import GMModel.HeapY
/-
  Driver.HeapY — op `heapseqy`: `heapseq` (Driver.Heap) + the operations of `GMModel.HeapY` (C18, WPI).

  request : heapseqy <nops> <op>…       every op of `heapseq`, and
    writegro i <fname>                   env[i].write_gro(fname)
    updtop i j                           env[i].update_from_molecule_top(env[j].molecule_top)
    molset i <name> <pyval>              setattr(env[i], name, value)        (env[i] a Molecule)
    molget i <name>                      getattr(env[i], name)
    index i j                            env[i].index(env[j])
    hash i                               hash(env[i])
    idsbad i n                           env[i].atoms_ids = [1.5] * n
    resnamebad i                         env[i].resname = 7

  response: as `heapseq`; after the status of a `writegro`:  `W N` | `W F <fname> <hex bytes>`;
            `V <pyval>` after a successful molget / index / hash.

  op `molroute <name>`       : ok <tag of GMHeap.molRoute name>
  op `dirunion <a> <b> <c>`  : ok <list of str>      (three lists of names; `GMHeap.dirUnion`, sorted)
-/

open GMHeap

namespace DHeapY

inductive YD where
  | d (o : DHeap.DOp)
  | y (o : YOp Float)

def yNames : List String := ["writegro", "updtop", "molset", "molget", "index", "hash", "idsbad", "resnamebad"]

def rdOp : Rd YD := do
  match (← get) with
  | k :: _ =>
    if yNames.contains k then do
      let _ ← Rd.tok
      match k with
      | "writegro" => do let i ← Rd.nat; let f ← Rd.str; pure (.y (.writeGro i f))
      | "updtop" => do let i ← Rd.nat; let j ← Rd.nat; pure (.y (.updateTop i j))
      | "molset" => do let i ← Rd.nat; let a ← Rd.str; let v ← DHeap.rdPyVal; pure (.y (.molSetAttr i a v))
      | "molget" => do let i ← Rd.nat; let a ← Rd.str; pure (.y (.molGetAttr i a))
      | "index" => do let i ← Rd.nat; let j ← Rd.nat; pure (.y (.index i j))
      | "idsbad" => do let i ← Rd.nat; let n ← Rd.nat; pure (.y (.setIdsNonInt i n))
      | "resnamebad" => do let i ← Rd.nat; pure (.y (.resnameNonStr i))
      | _ => do let i ← Rd.nat; pure (.y (.hash i))
    else do pure (.d (← DHeap.rdOp))
  | [] => throw "unexpected end of line"

def runY (s : DHeap.DState) (o : YOp Float) : DHeap.DState × String :=
  let r := stepY DCmp.floatToDy s.heap s.env o
  let s1 := { s with heap := r.heap, env := pushRetY s.env r }
  let (s2, d) := DHeap.deltas s1
  let w := match o with
    | .writeGro .. =>
      (match r.file with
       | some (f, b) => s!" W F {Wr.str f} {DGro.wrBytes b}"
       | none => " W N")
    | _ => ""
  match r.val with
  | some v => (s2, s!"{DHeap.errTok r.err}{w} V {DHeap.pyValTok v} {d}")
  | none => (s2, s!"{DHeap.errTok r.err}{w} {d}")

def sortStr (l : List String) : List String := (l.toArray.qsort (· < ·)).toList

def handle : Handler
  | "heapseqy" => some do
      let n ← Rd.nat
      let mut s : DHeap.DState := ⟨Heap.empty, [], none, 1.0, #[]⟩
      let mut out : String := "ok"
      for _ in [0:n] do
        let op ← rdOp
        let (s', o) := match op with
          | .d o => DHeap.runOp s o
          | .y o => runY s o
        s := s'
        out := out ++ " " ++ o
      Rd.done
      pure out
  | "molroute" => some do
      let a ← Rd.str
      Rd.done
      pure s!"ok {(molRoute a).tag}"
  | "dirunion" => some do
      let a ← Rd.listOf Rd.str; let b ← Rd.listOf Rd.str; let c ← Rd.listOf Rd.str
      Rd.done
      pure ("ok " ++ Wr.list Wr.str (sortStr (dirUnion a b c)))
  | _ => none

end DHeapY
