import Driver.Proto
import GMModel.Pbc
/- Driver.Pbc — op for `Residue.distance_to` (C19).

   pbc_dist <self vlist> <target: 0 x y z | 1 vlist> <box: 0 | 1 m3 inv(0/1)>
       → ok <distance> <wrapped separation v3> | err <LinAlgError|ValueError>
-/

namespace DPbc
open Pbc

def handle : Handler
  | "pbc_dist" => some do
      let self ← Rd.listOf Rd.v3
      let tk ← Rd.nat
      let target : Target Float ← (if tk == 0 then do let p ← Rd.v3; pure (Target.point p)
                                  else do let l ← Rd.listOf Rd.v3; pure (Target.residue l))
      let bk ← Rd.nat
      let box : Option (M3 Float × Bool) ← (if bk == 0 then pure none
                                            else do let m ← Rd.m3; let i ← Rd.bool; pure (some (m, i)))
      Rd.done
      match separation self target box with
      | .error e => pure s!"err {e.name}"
      | .ok v => pure s!"ok {Wr.float (V3.norm v)} {Wr.v3 v}"
  | _ => none

end DPbc
