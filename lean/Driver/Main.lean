import Driver.Proto
import Driver.Geom
import Driver.EMap
import Driver.MoveAtom
import Driver.Chi2
import Driver.Pbc
import Driver.Restr
import Driver.Manager
import Driver.SysGro
import Driver.Itp
import Driver.Heap
import Driver.Gro
import Driver.ManagerGro
import Driver.Metropolis
import Driver.ManagerSM
import Driver.ItpX
import Driver.Comparative
import Driver.HeapY
import Driver.SysGroX
import Driver.GroOpen
/-
  gmdriver — reads request lines on stdin, writes one response line per request on stdout.
-/

def handlers : List Handler := [DGeom.handle, DEMap.handle, DMove.handle, DChi2.handle, DPbc.handle, DRestr.handle, DManager.handle, DSysGro.handle, DItp.handle, DHeap.handle, DGro.handle, DManagerGro.handle, DMC.handle, DManagerSM.handle, DItpX.handle, DCmp.handle, DHeapY.handle, DSysGroX.handle, DGroOpen.handle]

def dispatch (op : String) : Option (Rd String) :=
  handlers.findSome? (fun h => h op)

def processLine (line : String) : String :=
  match (line.splitOn " ").filter (· ≠ "") with
  | id :: op :: args =>
    match dispatch op with
    | none => s!"{id} bad unknown-op {op}"
    | some rd =>
      match rd.run args with
      | .ok (out, _) => s!"{id} {out}"
      | .error e => s!"{id} bad {e}"
  | _ => "? bad malformed-line"

partial def loop (hin hout : IO.FS.Stream) : IO Unit := do
  let line ← hin.getLine
  if line.isEmpty then return ()
  let l := (line.trimAsciiEnd).toString
  if !l.isEmpty then
    hout.putStrLn (processLine l)
  loop hin hout

def main : IO Unit := do
  let hin ← IO.getStdin
  let hout ← IO.getStdout
  loop hin hout
  hout.flush
