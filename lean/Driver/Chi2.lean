import Driver.Proto
import GMModel.Chi2
/- Driver.Chi2 — ops for `_backend.py` `Chi2Calculator` (C08).

   chi2_new  <fixed vlist> <mobile0 vlist> <restr: n (i j)*>
       → ok 0
       | ok 1 <len_mol2> <sorted set_restriction2> <_mol1_not_restriction vlist> <_mol1_restriction vlist>
       | ok 2 <_mol1_restriction vlist> <n_cg_far_fact>
       | err new <IndexError|ValueError> | err domain OutOfDomain
   chi2_call <fixed vlist> <mobile0 vlist> <restr> <mobile vlist>
       → ok <path> <value> <n_cg_far | x>  | err new <E> | err call <E> | err domain OutOfDomain
-/

namespace DChi2
open Chi2

def restr : Rd (Option (List (Nat × Nat))) := do
  let l ← Rd.listOf (do let a ← Rd.int; let b ← Rd.int; pure (a, b))
  if l.any (fun p => p.1 < 0 || p.2 < 0) then pure none
  else pure (some (l.map (fun p => (p.1.toNat, p.2.toNat))))

def sortNat (l : List Nat) : List Nat := (l.toArray.qsort (· < ·)).toList

def handle : Handler
  | "chi2_new" => some do
      let fixed ← Rd.listOf Rd.v3; let mobile0 ← Rd.listOf Rd.v3; let r ← restr; Rd.done
      match r with
      | none => pure "err domain OutOfDomain"
      | some r =>
        match Calc.new fixed mobile0 r with
        | .error e => pure s!"err new {e.name}"
        | .ok (.plain _) => pure "ok 0"
        | .ok (.withRestr _ s n nr rs) =>
          pure s!"ok 1 {n} {Wr.list toString (sortNat s)} {Wr.list Wr.v3 nr} {Wr.list Wr.v3 rs}"
        | .ok (.onlyRestr _ rs f) => pure s!"ok 2 {Wr.list Wr.v3 rs} {Wr.float f}"
  | "chi2_call" => some do
      let fixed ← Rd.listOf Rd.v3; let mobile0 ← Rd.listOf Rd.v3; let r ← restr
      let mobile ← Rd.listOf Rd.v3; Rd.done
      match r with
      | none => pure "err domain OutOfDomain"
      | some r =>
        match Calc.new fixed mobile0 r with
        | .error e => pure s!"err new {e.name}"
        | .ok c =>
          match c.call mobile with
          | .error e => pure s!"err call {e.name}"
          | .ok v =>
            let k := match c.nCgFar mobile with | some k => toString k | none => "x"
            pure s!"ok {c.pathId} {Wr.float v} {k}"
  | _ => none

end DChi2
