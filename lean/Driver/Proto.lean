import GMModel.Vec3
/-
  Driver.Proto — token reader / writer for the line protocol.

  request : `<case-id> <op> <tok> <tok> …`     (space separated, no empty tokens)
  response: `<case-id> ok <tok> …`  |  `<case-id> err <PyErr>`  |  `<case-id> bad <message>`

  token kinds (decided by the op, not self-describing):
    float  : IEEE-754 bits as a decimal UInt64
    int    : decimal, optional leading '-'
    str    : lowercase hex of the UTF-8 bytes, or "-" for the empty string
    list   : length (nat) followed by that many items
-/

abbrev Rd := StateT (List String) (Except String)

namespace Rd

def tok : Rd String := do
  match (← get) with
  | [] => throw "unexpected end of line"
  | t :: ts => set ts; pure t

def nat : Rd Nat := do
  let t ← tok
  match t.toNat? with
  | some n => pure n
  | none => throw s!"bad nat '{t}'"

def int : Rd Int := do
  let t ← tok
  match t.toInt? with
  | some n => pure n
  | none => throw s!"bad int '{t}'"

def float : Rd Float := do
  let n ← nat
  pure (Float.ofBits n.toUInt64)

def bool : Rd Bool := do
  let n ← nat
  pure (n != 0)

def v3 : Rd (V3 Float) := do
  let x ← float; let y ← float; let z ← float
  pure ⟨x, y, z⟩

def m3 : Rd (M3 Float) := do
  let a ← v3; let b ← v3; let c ← v3
  pure ⟨a, b, c⟩

def listOf {β : Type} (item : Rd β) : Rd (List β) := do
  let n ← nat
  let mut acc : Array β := Array.mkEmpty n
  for _ in [0:n] do
    acc := acc.push (← item)
  pure acc.toList

def hexVal (c : Char) : Option Nat :=
  if '0' ≤ c ∧ c ≤ '9' then some (c.toNat - '0'.toNat)
  else if 'a' ≤ c ∧ c ≤ 'f' then some (c.toNat - 'a'.toNat + 10)
  else none

def unhex (s : String) : Option (List UInt8) :=
  let rec go : List Char → List UInt8 → Option (List UInt8)
    | [], acc => some acc.reverse
    | [_], _ => none
    | a :: b :: rest, acc =>
      match hexVal a, hexVal b with
      | some x, some y => go rest (UInt8.ofNat (16 * x + y) :: acc)
      | _, _ => none
  go s.toList []

/-- a hex-encoded byte string ("-" = empty) -/
def bytes : Rd (List UInt8) := do
  let t ← tok
  if t == "-" then pure [] else
  match unhex t with
  | some b => pure b
  | none => throw s!"bad hex '{t}'"

/-- a hex-encoded ASCII/Latin-1 string as a `String` (one char per byte) -/
def str : Rd String := do
  let b ← bytes
  pure (String.ofList (b.map (fun u => Char.ofNat u.toNat)))

def done : Rd Unit := do
  match (← get) with
  | [] => pure ()
  | t :: _ => throw s!"trailing token '{t}'"

end Rd

namespace Wr

def float (x : Float) : String := toString x.toBits.toNat
def bool (b : Bool) : String := if b then "1" else "0"
def v3 (v : V3 Float) : String := s!"{float v.x} {float v.y} {float v.z}"
def m3 (m : M3 Float) : String := s!"{v3 m.r0} {v3 m.r1} {v3 m.r2}"
def list {β : Type} (item : β → String) (l : List β) : String :=
  l.foldl (fun acc b => acc ++ " " ++ item b) (toString l.length)

def hexDigit (n : Nat) : Char :=
  if n < 10 then Char.ofNat ('0'.toNat + n) else Char.ofNat ('a'.toNat + n - 10)

def bytes (b : List UInt8) : String :=
  if b.isEmpty then "-" else
  String.ofList (b.flatMap (fun u => [hexDigit (u.toNat / 16), hexDigit (u.toNat % 16)]))

def str (s : String) : String :=
  bytes (s.toList.map (fun c => UInt8.ofNat c.toNat))

end Wr

/-- An op handler: given the op name, maybe a reader producing the response payload
    (`ok …` / `err …`). -/
abbrev Handler := String → Option (Rd String)
