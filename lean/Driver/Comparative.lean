import Driver.Heap
import Driver.Gro
import GMModel.Comparative
/-
  Driver.Comparative — op `ali_session`: a session with ONE `Alignment` object on the heap model
  (`GMModel.Comparative`; C06 / work package WPH), and op `agro_line` (`AtomGro.gro_line`).

  request : ali_session <nops> <op>…
    newmol …                       as in `heapseq` (pushes the loaded Molecule on the environment)
    hop <heapseq op>               any base operation of `heapseq` on the environment
    setstart (N | O | M i)         `alignment.start = None | a non-Molecule | env[i]`
    setend   (N | O | M i)         (a successful assignment of a Molecule pushes the STORED copy on the environment)
    alignchk                       the unset check at the head of `align_molecules`
    initmap <scale>                `init_exchange_map(scale)`
    cmp (N | F <name>)             `write_comparative_gro(fname)`

  response: ok { <status> <extra> <nenv> {<obs>} (S <obs> | N) (E <obs> | N) }
    extra of initmap : `E <n> {j a} K <n> {key} R <ref env index or -1> T <tgt env index or -1>`
    extra of cmp     : `(F <name> | N) <hex bytes>`
    extra of others  : nothing

  request : agro_line <gro> → ok P <rec as written by the writer model> | err …   (parsed=True: the record)
                               then `T (ok <hex> | err <E>)`                        (parsed=False: the text)
-/

open GMHeap

namespace DCmp

/-- the exact dyadic value of a double; `none` for `nan` / `±inf` -/
def floatToDy (x : Float) : Option PyStr.Dy :=
  let b := x.toBits.toNat
  let sign := b / 2 ^ 63 != 0
  let e : Nat := (b / 2 ^ 52) % 2048
  let frac : Nat := b % 2 ^ 52
  if e == 2047 then none
  else if e == 0 then some ⟨sign, frac, -1074⟩
  else some ⟨sign, frac + 2 ^ 52, (e : Int) - 1075⟩

abbrev FAli := Cmp.Ali (Frame Float) (V3 Float)

inductive SOp where
  | newmol (name : String) (tops : List AtomTopC) (rs : List (List (AtomGroC Float)))
  | hop (o : Op Float)
  | setStart (a : Option (Option Nat))      -- none = None, some none = other, some (some i) = env[i]
  | setEnd (a : Option (Option Nat))
  | alignChk
  | initMap (scale : Float)
  | cmp (fname : Option String)

def rdArg : Rd (Option (Option Nat)) := do
  let k ← Rd.tok
  match k with
  | "N" => pure none
  | "O" => pure (some none)
  | "M" => do let i ← Rd.nat; pure (some (some i))
  | _ => throw s!"bad setter argument '{k}'"

def rdSOp : Rd SOp := do
  let k ← Rd.tok
  match k with
  | "newmol" => do
    let name ← Rd.str; let tops ← DHeap.rdTops; let rs ← DHeap.rdResidues
    pure (.newmol name tops rs)
  | "hop" => do
    match (← DHeap.rdOp) with
    | .h o => pure (.hop o)
    | _ => throw "hop: not a base heap operation"
  | "setstart" => do pure (.setStart (← rdArg))
  | "setend" => do pure (.setEnd (← rdArg))
  | "alignchk" => pure .alignChk
  | "initmap" => do pure (.initMap (← Rd.float))
  | "cmp" => do
    let k ← Rd.tok
    match k with
    | "N" => pure (.cmp none)
    | "F" => do pure (.cmp (some (← Rd.str)))
    | _ => throw s!"bad file name kind '{k}'"
  | _ => throw s!"bad session op '{k}'"

structure SState where
  heap : Heap Float
  env : List Obj
  ali : FAli
  scale : Float

def setArg (env : List Obj) : Option (Option Nat) → Cmp.SetArg
  | none => .none
  | some none => .other
  | some (some i) => Cmp.SetArg.ofObj env[i]?

def obsOpt (h : Heap Float) (tag : String) : Option Nat → String
  | none => "N"
  | some m => s!"{tag} {DHeap.obs h (.mol m)}"

def snapshot (s : SState) : String :=
  let envs := s.env.foldl (fun acc o => acc ++ " " ++ DHeap.obs s.heap o) (toString s.env.length)
  s!"{envs} {obsOpt s.heap "S" s.ali.start} {obsOpt s.heap "E" s.ali.end_}"

def envIndex (env : List Obj) (m : Nat) : Int :=
  match env.findIdx? (· == Obj.mol m) with
  | some i => i
  | none => -1

def runSOp (s : SState) : SOp → SState × String
  | .newmol name tops rs =>
    let r := newMol s.heap name tops rs
    ({ s with heap := r.heap, env := pushRet s.env r }, DHeap.errTok r.err)
  | .hop o =>
    let r := step s.heap s.env o
    ({ s with heap := r.heap, env := pushRet s.env r }, DHeap.errTok r.err)
  | .setStart a =>
    let (h1, a1, e) := Cmp.setStart s.heap s.ali (setArg s.env a)
    let env := match e, a, a1.start with
      | none, some (some _), some c => s.env ++ [.mol c]
      | _, _, _ => s.env
    ({ s with heap := h1, ali := a1, env := env }, DHeap.errTok e)
  | .setEnd a =>
    let (h1, a1, e) := Cmp.setEnd s.heap s.ali (setArg s.env a)
    let env := match e, a, a1.end_ with
      | none, some (some _), some c => s.env ++ [.mol c]
      | _, _, _ => s.env
    ({ s with heap := h1, ali := a1, env := env }, DHeap.errTok e)
  | .alignChk =>
    match s.ali.start, s.ali.end_ with
    | some _, some _ => (s, "ok")
    | _, _ => (s, "ValueError")
  | .initMap scale =>
    let (a1, e) := Cmp.initExchangeMap (concreteGeo scale) s.heap s.ali
    let extra := match e, a1.emap with
      | none, some E =>
        s!"{DHeap.equivTok E} {DHeap.keysTok E} R {envIndex s.env E.ref} T {envIndex s.env E.tgt}"
      | _, _ => "E 0 K 0 R -1 T -1"
    ({ s with ali := a1, scale := scale }, s!"{DHeap.errTok e} {extra}")
  | .cmp fname =>
    let r := Cmp.writeComparative floatToDy s.heap s.ali fname
    let f := match r.file with
      | some n => s!"F {Wr.str n}"
      | none => "N"
    ({ s with heap := r.heap }, s!"{DHeap.errTok r.err} {f} {DGro.wrBytes r.bytes}")

def rdGroRec : Rd (AtomGroC Float) := DHeap.rdGro

def wrDy (x : PyStr.Dy) : String := s!"{DGro.wrBool x.neg} {x.man} {x.exp}"

def wrRec (r : Gro.Rec) : String :=
  let base := s!"{r.resnum} {DGro.wrBytes r.resname} {DGro.wrBytes r.name} {r.atomnum} {wrDy r.x} {wrDy r.y} {wrDy r.z}"
  match r.vel with
  | none => base ++ " 0"
  | some (a, b, c) => base ++ s!" 1 {wrDy a} {wrDy b} {wrDy c}"

def handle : Handler
  | "ali_session" => some do
      let n ← Rd.nat
      let mut s : SState := ⟨Heap.empty, [], {}, 1.0⟩
      let mut out : String := "ok"
      for _ in [0:n] do
        let op ← rdSOp
        let (s', o) := runSOp s op
        s := s'
        out := out ++ " " ++ o ++ " " ++ snapshot s
      Rd.done
      pure out
  | "agro_line" => some do
      let c ← rdGroRec; Rd.done
      let p := match Cmp.groRec floatToDy c with
        | some r => "P " ++ wrRec r
        | none => "X"
      let t := match Cmp.groLineText floatToDy c with
        | .ok l => "T ok " ++ DGro.wrBytes l
        | .error e => "T err " ++ e.toString
      pure s!"ok {p} {t}"
  | _ => none

end DCmp
