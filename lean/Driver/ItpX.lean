import Driver.Proto
import Driver.Itp
import GMModel.TopObj
import GMModel.ItpTyped
/- Driver.ItpX — ops for the rest of `_components_top.py` (`GMModel.TopObj`, C15) and of
   `_itp_parse.py` / `read_topology` (`GMModel.ItpTyped`, C16). -/

namespace DItpX
open Itp DItp

/-! ### C15: `MoleculeTop` / `AtomTop` values -/

def rdAtom : Rd TopObj.AtomTop := do
  let n ← rdS; let r ← rdS; let i ← Rd.int; let x ← Rd.nat; let e ← Rd.listOf Rd.nat
  pure ⟨n, r, i, x, e⟩

def rdMol : Rd TopObj.MolTop := do
  let n ← rdS
  let as ← Rd.listOf rdAtom
  pure ⟨n, as⟩

def sorted (l : List Nat) : List Nat := (l.toArray.qsort (· < ·)).toList

def wrAtom (a : TopObj.AtomTop) : String :=
  s!"{wrS a.name} {wrS a.resname} {a.resid} {a.index} {Wr.list toString (sorted a.bonds)}"

def wrAtoms (as : List TopObj.AtomTop) : String := Wr.list wrAtom as

def wrE (e : Option PyErr) : String :=
  match e with
  | none => "-"
  | some x => x.name

def exc {α : Type} (f : α → String) : Except PyErr α → String
  | .ok a => s!"K {f a}"
  | .error e => s!"E {e.name}"

/-! ### C16: typed values -/

def wrFloat : PyFloat → String
  | .nan => "nan"
  | .inf neg => if neg then "inf1" else "inf0"
  | .dec neg man e => s!"d {Wr.bool neg} {man} {e}"

def wrVal : ItpT.Val → String
  | .int i => s!"i {i}"
  | .str s => s!"s {wrS s}"
  | .flt f => s!"f {wrFloat f}"
  | .none => "n"
  | .bool b => s!"b {Wr.bool b}"
  | .other => "o"

def wrRes : ItpT.Res → String
  | .one v => wrVal v
  | .many l => "l " ++ Wr.list wrVal l

def rdVal : Rd ItpT.Val := do
  let k ← Rd.tok
  match k with
  | "i" => do let i ← Rd.int; pure (.int i)
  | "s" => do let s ← rdS; pure (.str s)
  | "f" => do
      let t ← Rd.tok
      match t with
      | "nan" => pure (.flt .nan)
      | "inf0" => pure (.flt (.inf false))
      | "inf1" => pure (.flt (.inf true))
      | "d" => do let n ← Rd.bool; let m ← Rd.nat; let e ← Rd.int; pure (.flt (.dec n m e))
      | _ => throw s!"bad float '{t}'"
  | "n" => pure .none
  | "b" => do let b ← Rd.bool; pure (.bool b)
  | "o" => pure .other
  | _ => throw s!"bad val '{k}'"

/-- a script step on the parsed file object -/
inductive Cmd
  | get (sec : Str) (idx : Nat) (attr : String)
  | set (sec : Str) (idx : Nat) (attr : String) (v : ItpT.Val)
  | rewrite                      -- `itp.write(g); itp = ItpFile(g)`
  | copy                         -- `itp = itp.copy()`
  | dump                         -- the object through its public API

def rdCmd : Rd Cmd := do
  let k ← Rd.tok
  match k with
  | "g" => do let s ← rdS; let i ← Rd.nat; let a ← Rd.str; pure (.get s i a)
  | "s" => do let s ← rdS; let i ← Rd.nat; let a ← Rd.str; let v ← rdVal; pure (.set s i a v)
  | "W" => pure .rewrite
  | "C" => pure .copy
  | "D" => pure .dump
  | _ => throw s!"bad cmd '{k}'"

/-- dump of the typed object: as `DItp.dump` on the `ItpLine` part, with the size of each
    section's list part taken from the `listed` flags -/
def dumpT (f : ItpT.TFile) : Str :=
  f.header.flatten ++ [Char.ofNat 0] ++
  (f.secs.map (fun s =>
    ['S', ' '] ++ s.name ++ ['\n'] ++
    (s.lines.map (fun l => ['L', ' '] ++ l.base.contentS ++ [Char.ofNat 1] ++ l.base.commentS ++ ['\n'])).flatten ++
    ['C', ' '] ++ (toString s.listPart.length).toList ++ ['\n'])).flatten

def runCmds (f : ItpT.TFile) (backing : Except PyErr Str) : List Cmd → List String → List String
  | [], acc => acc.reverse
  | c :: cs, acc =>
    match c with
    | .get s i a =>
      let r := match (f.lineAt s i).bind (fun l => l.getAttr a) with
        | .ok v => s!"K {wrRes v}"
        | .error e => s!"E {e.name}"
      runCmds f backing cs (r :: acc)
    | .set s i a v =>
      match f.edit ⟨s, i, a, v⟩ with
      | .ok f' => runCmds f' backing cs ("K" :: acc)
      | .error e => runCmds f backing cs (s!"E {e.name}" :: acc)
    | .rewrite =>
      let g := ItpT.writeT f
      match ItpT.rewriteT f with
      | .ok f' => runCmds f' (.ok (universalNl g)) cs (s!"K {wrS g}" :: acc)
      | .error e => (s!"R {wrS g} {e.name}" :: acc).reverse       -- the object is gone
    | .dump => runCmds f backing cs (s!"K {wrS (dumpT f)}" :: acc)
    | .copy =>
      match ItpT.copyT backing with
      | .ok f' => runCmds f' backing cs ("K" :: acc)
      | .error e => runCmds f backing cs (s!"E {e.name}" :: acc)

def rdMode : Rd ItpT.NlMode := do
  let k ← Rd.tok
  match k with
  | "u" => pure .universal
  | "l" => pure .lf
  | _ => throw s!"bad mode '{k}'"

def rdOptS : Rd (Option Str) := do
  let k ← Rd.tok
  match k with
  | "N" => pure none
  | "S" => do let s ← rdS; pure (some s)
  | _ => throw s!"bad option '{k}'"

def handle : Handler
  | "top_eq" => some do
      let a ← rdMol; let b ← rdMol; Rd.done
      pure s!"ok {Wr.bool (TopObj.molEqArg a (.mol b))} {Wr.bool (TopObj.molNeArg a (.mol b))} {Wr.bool (TopObj.molEqArg b (.mol a))} {Wr.bool (TopObj.molEqArg a .other)} {Wr.bool (TopObj.molNeArg a .other)} {Wr.list (fun (p : TopObj.AtomTop × TopObj.AtomTop) => Wr.bool (TopObj.atomEq p.1 p.2)) (a.atoms.zip b.atoms)}"
  | "top_res" => some do
      let m ← rdMol; let k ← Rd.int; Rd.done
      let rn := Wr.list wrS (TopObj.resnames m)
      let ri := exc (Wr.list toString) (TopObj.resids m)
      let rl := exc (Wr.list (fun (p : Str × Nat) => s!"{wrS p.1} {p.2}")) (TopObj.resnameLenList m)
      let per := Wr.list (fun (a : TopObj.AtomTop) =>
        s!"{wrS (TopObj.residname a)} {TopObj.atomHash a} {Wr.list toString (TopObj.closestAtoms a k)} {Wr.list toString (TopObj.closestAtoms a 2)}") m.atoms
      let strs := Wr.list (fun (a : TopObj.AtomTop) => s!"{wrS (TopObj.atomStr a)} {Wr.bool (TopObj.atomEqArg a none)}") m.atoms
      pure s!"ok {rn} {ri} {rl} {per} {wrAtoms (TopObj.molCopy m).atoms} {wrS (TopObj.molStr m)} {strs}"
  | "top_setres" => some do
      let m ← rdMol
      let kind ← Rd.tok
      let isList ← Rd.bool
      match kind with
      | "n" => do
          let new ← Rd.listOf rdS; Rd.done
          let (e, m') := TopObj.setResnames m isList new
          pure s!"ok {wrE e} {wrAtoms m'.atoms}"
      | "i" => do
          let new ← Rd.listOf Rd.int; Rd.done
          let (e, m') := TopObj.setResids m isList new
          pure s!"ok {wrE e} {wrAtoms m'.atoms}"
      | _ => throw s!"bad setter kind '{kind}'"
  | "top_index" => some do
      let m ← rdMol; let x ← rdAtom; let i ← Rd.int; Rd.done
      pure s!"ok {exc toString (TopObj.molIndex m x)} {exc wrAtom (TopObj.getItem m i)} {m.atoms.length}"
  | "itpx_float" => some do
      let t ← rdS; Rd.done
      match pyFloat t with
      | some f => pure s!"ok K {wrFloat f} {Wr.bool (pyFloatOk t)}"
      | none => pure s!"ok E {Wr.bool (pyFloatOk t)}"
  | "itpx_readatom" => some do
      let t ← rdS; Rd.done
      pure s!"ok {exc wrRes (ItpT.readItpAtom t)}"
  | "itpx_section" => some do
      let name ← rdS; let lines ← Rd.listOf rdS; Rd.done
      match ItpT.mkSection name lines with
      | .error e => pure s!"ok E {e.name}"
      | .ok s => pure s!"ok K {wrS s.str} {wrS s.repr} {s.listPart.length} {s.lines.length} {wrS s.name}"
  | "itpx_file" => some do
      -- path, newline mode of the file object, lines already consumed, bytes, script
      let path ← rdS; let mode ← rdMode; let skip ← Rd.nat; let b ← Rd.bytes
      let cmds ← Rd.listOf rdCmd; Rd.done
      match (ItpT.fileObjText mode b skip).bind ItpT.parseT with
      | .error e => pure s!"ok E {e.name}"
      | .ok f =>
        let outs := runCmds f (decode b) cmds []
        pure s!"ok K {wrS (ItpT.fileRepr path)} {wrS f.str} {outs.length} {" ".intercalate outs}"
  | "itpx_readtop" => some do
      -- path, file_format, how the content arrives (P = path: M missing | F bytes; O = file object: mode skip bytes)
      let path ← rdS; let ff ← rdOptS
      let src ← Rd.tok
      let text : Except PyErr Str ← match src with
        | "M" => pure (.error .OSError)
        | "F" => do let b ← Rd.bytes; pure (decode b)
        | "O" => do let mode ← rdMode; let skip ← Rd.nat; let b ← Rd.bytes; pure (ItpT.fileObjText mode b skip)
        | _ => throw s!"bad source '{src}'"
      Rd.done
      match ItpT.readTopologyX path ff text with
      | .error e => pure s!"ok E {e.name}"
      | .ok t => pure s!"ok T {wrTop t}"
  | _ => none

end DItpX
