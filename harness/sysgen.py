"""harness.sysgen — shared by C12 (SystemGro) and C11 (System):

  * writers for real `.gro` / `.itp` files (independent of gaddlemaps' own writers),
  * an independent parser of the raw `.gro` bytes (the oracle's view of the file),
  * the token codec for the `sysgro` / `system` driver ops,
  * canonical views of gaddlemaps objects (atoms → tuples, exceptions → class-name enum).

Nothing here imports gaddlemaps at module level.
"""
from __future__ import annotations

import os
import random

from .common import hexs

# ----------------------------------------------------------------------------- files


def atom_coords(seed: int, n: int, vel: bool):
    """deterministic coordinates (and velocities) for n atoms: values that are exact in %8.3f / %8.4f"""
    r = random.Random(f"coords-{seed}")
    pos = [[r.randint(-9999, 99999) / 1000.0 for _ in range(3)] for _ in range(n)]
    vels = [[r.randint(-99999, 99999) / 10000.0 for _ in range(3)] for _ in range(n)] if vel else None
    if vels:
        # some atoms AT REST (0.0000 0.0000 0.0000: a frozen group, a freshly built system): a velocity that is zero is
        # still a velocity (seed C12-11: `if velocities.any()` takes it for "no velocity columns")
        r2 = random.Random(f"rest-{seed}")
        for i in range(n):
            if r2.random() < 0.12:
                vels[i] = [0.0, 0.0, 0.0]
    if seed % 3 == 1:
        # values that FILL their field (`%8.3f` of a coordinate <= -100 or >= 1000 nm, `%8.4f` of a velocity <= -10 or
        # >= 100): legal, and the number then touches the previous column with no blank in between — only a reader
        # that cuts the record at fixed columns gets them (seed C12-15: `atomline[20:].split()`)
        r3 = random.Random(f"full-{seed}")
        for i in range(n):
            if r3.random() < 0.3:
                for j in range(3):
                    if r3.random() < 0.5:
                        pos[i][j] = r3.choice([r3.randint(-999999, -100000), r3.randint(1000000, 9999999)]) / 1000.0
                    if vels and r3.random() < 0.3:
                        vels[i][j] = r3.choice([r3.randint(-999999, -100000), r3.randint(1000000, 9999999)]) / 10000.0
    return pos, vels


def expand_atoms(residues):
    """residues: [[resid, resname, [atomname…]], …] → flat [(resid, resname, name)]"""
    out = []
    for resid, resname, names in residues:
        for nm in names:
            out.append((int(resid), resname, nm))
    return out


def write_gro(path, title, residues, coordseed, vel, box=(3.0, 4.0, 5.0), atomid_start=1, wide=False):
    atoms = expand_atoms(residues)
    pos, vels = atom_coords(coordseed, len(atoms), vel)
    lines = [title, "%5d" % len(atoms)]
    for i, (resid, resname, name) in enumerate(atoms):
        aid = (atomid_start + i) % 100000
        s = "%5d%-5s%5s%5d" % (resid % 100000, resname, name, aid)
        # wide: the high-precision layout %16.11f, positions only — 68 columns, as long as %8.3f with velocities
        s += ("%16.11f%16.11f%16.11f" if wide else "%8.3f%8.3f%8.3f") % tuple(pos[i])
        if vel and not wide:
            s += "%8.4f%8.4f%8.4f" % tuple(vels[i])
        lines.append(s)
    lines.append(("%10.5f" * len(box)) % tuple(box))     # 3 numbers, or 9 in GROMACS order for a triclinic cell
    with open(path, "w", newline="\n") as f:
        f.write("\n".join(lines) + "\n")
    return len(atoms)


def parse_gro_raw(path, width=8):
    """independent parse of the raw bytes: title (with terminator), natoms, atom tuples, box, sizes"""
    data = open(path, "rb").read().decode("latin-1")
    lines = data.split("\n")
    title = lines[0] + "\n"
    n = int(lines[1])
    atoms = []
    for l in lines[2:2 + n]:
        nf = (len(l) - 20) // width
        vals = [float(l[20 + width * k:20 + width + width * k]) for k in range(nf)]
        atoms.append((int(l[0:5]), l[5:10].strip(), l[10:15].strip(), int(l[15:20]),
                      tuple(vals[:3]), tuple(vals[3:6]) if nf == 6 else None))
    box = [float(x) for x in lines[2 + n].split()]
    return {"title": title, "natoms": n, "atoms": atoms, "box": box,
            "init": len(lines[0]) + 1 + len(lines[1]) + 1,
            "linesize": (len(lines[2]) + 1) if n else 0, "size": len(data)}


def runs_of(atoms):
    """maximal runs of equal (resid, resname): [(start, len)]"""
    runs = []
    for i, a in enumerate(atoms):
        if i and (a[0], a[1]) == (atoms[i - 1][0], atoms[i - 1][1]):
            runs[-1][1] += 1
        else:
            runs.append([i, 1])
    return [tuple(r) for r in runs]


def write_itp(path, name, residues, resnrs=None):
    """residues: [[resname, [atomname…]], …]; resnr = 1, 2, … (or `resnrs`, one per residue); chain bonds"""
    lines = ["[ moleculetype ]", "; Name nrexcl", f"{name} 3", "", "[ atoms ]",
             "; nr type resnr residue atom cgnr charge mass"]
    k = 0
    for ri, (resname, names) in enumerate(residues):
        for nm in names:
            k += 1
            rnr = ri + 1 if resnrs is None else resnrs[ri]
            lines.append(f"{k:6d} C {rnr:5d} {resname:>6s} {nm:>6s} {k:5d}  0.000  12.011")
    lines += ["", "[ bonds ]"]
    for i in range(1, k):
        lines.append(f"{i:6d} {i + 1:6d} 1")
    with open(path, "w", newline="\n") as f:
        f.write("\n".join(lines) + "\n")


# ----------------------------------------------------------------------------- canonical views

def atom_tuple(a):
    """AtomGro → the oracle's tuple"""
    v = None if a.velocity is None else tuple(float(x) for x in a.velocity)
    return (int(a.resid), str(a.resname), str(a.name), int(a.atomid),
            tuple(float(x) for x in a.position), v)


def atom_tuple_of_line(t):
    """a parsed line as `GroFile.next()` returns it → the oracle's tuple"""
    v = tuple(float(x) for x in t[7:10]) if len(t) == 10 else None
    return (int(t[0]), str(t[1]), str(t[2]), int(t[3]), tuple(float(x) for x in t[4:7]), v)


def residue_tuples(res):
    return [atom_tuple(a) for a in res]


def same_atom(a, b) -> bool:
    """atom tuples equal, floats compared bit for bit"""
    from .grogen import same_float
    if a[:4] != b[:4] or (a[5] is None) != (b[5] is None):
        return False
    fa = list(a[4]) + (list(a[5]) if a[5] is not None else [])
    fb = list(b[4]) + (list(b[5]) if b[5] is not None else [])
    return len(fa) == len(fb) and all(same_float(x, y) for x, y in zip(fa, fb))


def err_name(e: BaseException) -> str:
    n = type(e).__name__
    return "OSError" if n in ("IOError", "OSError") else n


# ----------------------------------------------------------------------------- protocol

def tok_records(atoms3):
    """atoms3: [(resid, resname, name)]"""
    out = [str(len(atoms3))]
    for resid, resname, name in atoms3:
        out.append(f"{int(resid)} {hexs(resname)} {hexs(name)}")
    return " ".join(out)


def tok_opt(x):
    return "n" if x is None else str(int(x))


def tok_ops(ops):
    out = [str(len(ops))]
    for op in ops:
        if op[0] == "g":
            out.append(f"g {int(op[1])}")
        elif op[0] == "s":
            out.append(f"s {tok_opt(op[1])} {tok_opt(op[2])} {tok_opt(op[3])}")
        elif op[0] == "in":
            out.append("in")
        elif op[0] == "ix":
            out.append(f"ix {int(op[1])}")
        elif op[0] == "it":
            out.append("it")
        elif op[0] in ("o", "str", "pn", "pr"):      # GMModel.SysStr (sysgrox / systemx)
            out.append(op[0])
        elif op[0] == "ps":
            out.append(f"ps {int(op[1])}")
        else:
            raise ValueError(op)
    return " ".join(out)


class Toks:
    """cursor over the response tokens"""

    def __init__(self, toks):
        self.t, self.i = toks, 0

    def tok(self):
        x = self.t[self.i]
        self.i += 1
        return x

    def int(self):
        return int(self.tok())

    def str(self):
        x = self.tok()
        return "" if x == "-" else bytes.fromhex(x).decode("latin-1")

    def list(self, item):
        return [item() for _ in range(self.int())]

    def residue(self):
        return self.list(self.int)

    def num(self):
        """pynum token group of Driver.Gro → python float (correctly rounded from the exact decimal)"""
        from .grogen import dec_to_float
        import math
        k = self.tok()
        sgn = self.int()
        if k == "I":
            return -math.inf if sgn else math.inf
        if k == "N":
            return math.nan
        m = self.int()
        e = self.int()
        return dec_to_float(sgn, m, e)

    def rrec(self):
        """rrec of Driver.Gro → the oracle's atom tuple"""
        resnum = self.int()
        resname = self.str()
        name = self.str()
        atomnum = self.int()
        pos = (self.num(), self.num(), self.num())
        vel = (self.num(), self.num(), self.num()) if self.int() else None
        return (resnum, resname, name, atomnum, pos, vel)

    def done(self):
        return self.i == len(self.t)


def other_index(kind, n=0):
    """an index that is neither `int` nor `slice`"""
    import numpy as np
    return {"npint": np.int64(0), "float": 0.0, "str": "0", "none": None, "tuple": (0,), "list": [0],
            "npint-neg": np.int64(-1), "npuint": np.uint8(0), "ellipsis": Ellipsis}[kind]


OTHER_KINDS = ["npint", "float", "str", "none", "tuple", "list", "npint-neg", "npuint", "ellipsis"]


def expected_str(comp):
    """`str(view)` for a composition {name: count}, written out from the docstring-less format of `__str__`"""
    return "Simulation system with:\n\n" + "\n".join("%-6s: %d" % (k, v) for k, v in sorted(comp.items()))


# ----------------------------------------------------------------------------- slices / indices

def rand_index(rng, n):
    k = rng.random()
    if k < 0.45:
        return rng.randrange(0, max(1, n))
    if k < 0.8:
        return -rng.randrange(1, n + 1)
    if k < 0.9:
        return rng.choice([n, n + 1, -n - 1, -n - 2, n + rng.randint(0, 50), -n - rng.randint(1, 50)])
    return rng.choice([0, -1, n - 1, -n])


def rand_slice(rng, n, max_items=None):
    def bound():
        k = rng.random()
        if k < 0.2:
            return None
        if k < 0.9:
            return rng.randint(-n - 3, n + 3)
        return rng.choice([0, -1, n, -n, n + 10, -n - 10])
    step = rng.choice([None, None, 1, 1, 2, 3, -1, -1, -2, -3, 5, -7, rng.randint(-n - 2, n + 2)])
    if rng.random() < 0.03:
        step = 0
    a, b = bound(), bound()
    if max_items is not None and step != 0:
        # keep the number of selected items small for big files: narrow the window
        if len(range(n)[slice(a, b, step)]) > max_items:
            st = step or 1
            lo = rng.randrange(0, n)
            a, b = lo, lo + st * max_items
            if b < 0:
                b = None          # negative step running off the front: at most max_items items remain
    return a, b, step
