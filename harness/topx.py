"""harness.topx — work package WPE: the rest of the topology OBJECT (C15) and of the .itp line classes (C16).

C15 case kinds (dispatched from props/c15.py):
  {"kind": "eq",  "a": struct, "b": struct, "mut": "resid", "edits": [...]}
        struct = {"name": str, "atoms": [[name, resname, resid], ...], "bonds": [[i, j], ...], "numbers": [...]}
        both rendered to .itp files and loaded with the REAL MoleculeTop; `==` / `!=` between A, its copy and B
  {"kind": "res", "a": struct, "attr_edits": [[i, "resname"|"resid"|"name", value], ...], "k": int,
                  "sets": [["n"|"i", is_list, [values...]], ...], "probe": [...]}
        resnames / resids / resname_len_list / residname / hash / closest_atoms / copy, then the setters
  {"kind": "readtop", "a": struct, "fname": "x.itp", "file_format": None|str, "how": "path"|"obj"|"missing",
                      "mode": "u"|"l", "skip": k, "crlf": bool}
        read_topology / MoleculeTop on a path or an open file object, explicit format, unknown extension

C16 case kinds (dispatched from props/c16.py):
  {"kind": "typed", "data": text, "how": "path"|"obj", "mode": "u"|"l", "skip": k, "script": [cmd...]}
        cmd = ["g", sec, idx, attr] | ["s", sec, idx, attr, val] | ["W"] | ["D"] | ["C"];  val = tagged value, see enc_val
  {"kind": "section", "name": str, "lines": [str...]}
  {"kind": "float", "tok": str}
  {"kind": "atomline", "line": str}

Oracles (only what a property TEXT says; everything else is model-vs-code):
  C15 "Copying a topology yields an equal but independent object":  copy == original, not (copy != original),
      both ways; `!=` is the negation of `==` on every pair; the copy still equals the original after the
      OTHER, independently loaded molecule was edited.
  C15 "Loading a topology gives the molecule name, the atoms … and a bond graph": whatever way the file is
      handed over (path, upper-case extension, explicit format, open file object) the result is the file's.
  C16 (sanity of the typed API, not a clause of the property text): a successful `setattr` is read back by
      `getattr`.
"""
from __future__ import annotations

import math
import os
import warnings
from decimal import Decimal
from fractions import Fraction

from .common import hexs, unhexs
from . import common
from . import itpgen as G

# ============================================================================ values


def errname(e):
    return "OSError" if isinstance(e, OSError) else type(e).__name__


def canon_val(v):
    """Python value -> tagged, JSON-able, comparable"""
    if isinstance(v, bool):
        return ["b", int(v)]
    if isinstance(v, int):
        return ["i", v]
    if isinstance(v, str):
        return ["s", v]
    if isinstance(v, float):
        if math.isnan(v):
            return ["f", "nan"]
        return ["f", common.fbits(v)]
    if v is None:
        return ["n"]
    if isinstance(v, list):
        return ["l", [canon_val(x) for x in v]]
    return ["o"]


def py_val(t):
    """tagged value of a case dict -> the Python object handed to the library"""
    k = t[0]
    if k == "b":
        return bool(t[1])
    if k == "i":
        return int(t[1])
    if k == "s":
        return t[1]
    if k == "f":
        return float("nan") if t[1] == "nan" else common.unfbits(t[1])
    if k == "n":
        return None
    return object()


def enc_val(t) -> str:
    """tagged value -> driver tokens (floats as EXACT decimals)"""
    k = t[0]
    if k == "b":
        return f"b {int(t[1])}"
    if k == "i":
        return f"i {int(t[1])}"
    if k == "s":
        return "s " + hexs(t[1])
    if k == "n":
        return "n"
    if k == "o":
        return "o"
    if k == "f":
        if t[1] == "nan":
            return "f nan"
        x = common.unfbits(t[1])
        if math.isinf(x):
            return "f inf1" if x < 0 else "f inf0"
        sign, digits, exp = Decimal(x).as_tuple()
        man = int("".join(map(str, digits)))
        if math.copysign(1.0, x) < 0:
            sign = 1
        return f"f d {sign} {man} {exp}"
    raise ValueError(t)


def model_float(toks, i):
    """parse Driver.ItpX.wrFloat -> (canonical float value, next index)"""
    t = toks[i]
    if t == "nan":
        return ["f", "nan"], i + 1
    if t == "inf0":
        return ["f", common.fbits(float("inf"))], i + 1
    if t == "inf1":
        return ["f", common.fbits(float("-inf"))], i + 1
    assert t == "d"
    neg, man, e = int(toks[i + 1]), int(toks[i + 2]), int(toks[i + 3])
    # CPython's float(str) is the correctly rounded value of the exact decimal; int/int true division is too
    if man == 0:
        x = 0.0
    elif abs(e) > 5000:
        x = float("inf") if e > 0 else 0.0
    else:
        fr = Fraction(man) * (Fraction(10) ** e)
        try:
            x = fr.numerator / fr.denominator
        except OverflowError:
            x = float("inf")
    if neg:
        x = -x
    return ["f", common.fbits(x)], i + 4


def model_val(toks, i):
    k = toks[i]
    if k == "i":
        return ["i", int(toks[i + 1])], i + 2
    if k == "s":
        return ["s", unhexs(toks[i + 1])], i + 2
    if k == "f":
        return model_float(toks, i + 1)
    if k == "n":
        return ["n"], i + 1
    if k == "b":
        return ["b", int(toks[i + 1])], i + 2
    if k == "o":
        return ["o"], i + 1
    raise ValueError(f"bad model value {toks[i:i + 3]}")


def model_res(toks, i):
    if toks[i] == "l":
        n = int(toks[i + 1])
        i += 2
        out = []
        for _ in range(n):
            v, i = model_val(toks, i)
            out.append(v)
        return ["l", out], i
    return model_val(toks, i)


# ============================================================================ C15: structures and files

RES_OK = ["MOL", "RES", "LIG", "W", "SOL", "AB", "ABCDE", "A1B2C", "AB1", "X9"]
RES_LONG = ["ABCDEF", "ABCDE1", "ABCDE12", "POPCXX", "LONGNAME7"]
RES_DIGIT = ["1AB", "11", "2", "1A", "12AB"]


def gen_struct(rng, n=None, flavour="ok"):
    """a topology with explicit residues. flavour: ok (every resname <= 5 chars, not digit-initial),
    long (some > 5 chars), digit (some digit-initial), collide (adjacent residues whose format keys collide)"""
    n = n or rng.randint(1, 9)
    atoms = []
    if flavour == "collide" and n >= 2:
        pairs = [(("ABCDE1", 2), ("ABCDE", 12)), (("1AB", 1), ("AB", 11)), (("ABCDE", 1), ("ABCDE1", 1)),
                 (("ABCDEF", 3), ("ABCDE", 3)), (("AB", 1), ("AB", 1)), (("21", 1), ("1", 12)), (("12AB", 1), ("2AB", 11)),
                 (("ABCDE9", 9), ("ABCDE", 99))]
        (r1, i1), (r2, i2) = rng.choice(pairs)
        k = rng.randint(1, n - 1)
        for j in range(n):
            r, i = (r1, i1) if j < k else (r2, i2)
            atoms.append([f"C{j}", r, i])
    else:
        pool = {"ok": RES_OK, "long": RES_OK + RES_LONG, "digit": RES_OK + RES_DIGIT}.get(flavour, RES_OK)
        resid = rng.choice([1, 1, 1, 5, 99, 9999, 0, -2])
        rn = rng.choice(pool)
        for j in range(n):
            if j and rng.random() < 0.4:
                how = rng.random()
                if how < 0.5:
                    resid += rng.choice([1, 1, 2, 10, -1])
                    if rng.random() < 0.5:
                        rn = rng.choice(pool)
                elif how < 0.8:
                    rn = rng.choice(pool)           # same number, other name
                else:
                    resid = rng.choice([1, resid])  # numbering restarts
            atoms.append([rng.choice(["C", "CA", "N", "O1", "H"]) + (str(j) if rng.random() < 0.7 else ""), rn, resid])
    cls = rng.choice(["tree", "chain", "cyclic", "forest", "empty", "star"])
    bonds = [list(e) for e in G.gen_graph(rng, n, cls)] if n > 1 else []
    nr, numbers = 0, []
    gap = rng.random() < 0.5
    for _ in range(n):
        nr += rng.choice([1, 1, 2, 5]) if gap else 1
        numbers.append(nr)
    return {"name": rng.choice(["MOL", "POLY", "X1", "SDS"]), "atoms": atoms, "bonds": bonds, "numbers": numbers}


def render_top(s, rng=None, crlf=False) -> str:
    sp = (lambda: " " * rng.randint(1, 4)) if rng else (lambda: " ")
    L = ["; made by harness.topx", "[ moleculetype ]", f"{s['name']}{sp()}3", "", "[ atoms ]"]
    for (nm, rn, ri), nr in zip(s["atoms"], s["numbers"]):
        L.append(sp().join([str(nr), "C", str(ri), rn, nm, str(nr), "0.0", "12.0"]))
    if s["bonds"]:
        L.append("[ bonds ]")
        for a, b in s["bonds"]:
            L.append(f"{s['numbers'][a]}{sp()}{s['numbers'][b]} 1")
    text = "\n".join(L) + "\n"
    return text.replace("\n", "\r\n") if crlf else text


MUTS = ["none", "name", "atom-name", "resname", "resid", "bond-add", "bond-del", "order", "length", "renumber"]


def mutate(rng, s, mut):
    """a near-miss of s differing in exactly the named respect (or None when not applicable)"""
    import copy
    t = copy.deepcopy(s)
    n = len(t["atoms"])
    i = rng.randrange(n)
    if mut == "none":
        return t
    if mut == "renumber":                           # other file numbers, same positions
        t["numbers"] = [x * 3 + 1 for x in t["numbers"]]
        return t
    if mut == "name":
        t["name"] = t["name"] + "X"
    elif mut == "atom-name":
        t["atoms"][i][0] += "x"
    elif mut == "resname":
        t["atoms"][i][1] = "ZZ" if t["atoms"][i][1] != "ZZ" else "YY"
    elif mut == "resid":
        t["atoms"][i][2] += rng.choice([1, -1, 10])
    elif mut == "bond-add":
        und = {frozenset(b) for b in t["bonds"]}
        cand = [(a, b) for a in range(n) for b in range(a, n) if frozenset((a, b)) not in und]
        if not cand:
            return None
        t["bonds"].append(list(rng.choice(cand)))
    elif mut == "bond-del":
        und = {}
        for b in t["bonds"]:
            und.setdefault(frozenset(b), []).append(b)
        if not und:
            return None
        k = rng.choice(sorted(und, key=sorted))
        t["bonds"] = [b for b in t["bonds"] if frozenset(b) != k]
    elif mut == "order":
        if n < 2:
            return None
        j = rng.choice([x for x in range(n) if x != i])
        if t["atoms"][i] == t["atoms"][j]:
            return None
        perm = list(range(n))
        perm[i], perm[j] = j, i                      # old position -> new position
        t["atoms"][i], t["atoms"][j] = t["atoms"][j], t["atoms"][i]
        t["bonds"] = [[perm[a], perm[b]] for a, b in t["bonds"]]
    elif mut == "length":
        t["atoms"].append(["ZZ", t["atoms"][-1][1], t["atoms"][-1][2]])
        t["numbers"].append(t["numbers"][-1] + 1)
    return t


def gen_c15(ctx):
    rng = ctx.rng
    # ---- equality: a topology, its copy, near-misses
    for _ in range(ctx.n(260, 8000)):
        a = gen_struct(rng, flavour=rng.choice(["ok", "ok", "long", "digit"]))
        mut = rng.choice(MUTS)
        b = mutate(rng, a, mut)
        if b is None:
            mut, b = "none", mutate(rng, a, "none")
        n = len(a["atoms"])
        edits = []
        for _ in range(rng.randint(0, 3)):
            k = rng.choice(["name", "resname", "resid", "bond-add", "bond-discard", "connect", "molname", "resid-same",
                            "name-same"])
            edits.append([rng.choice(["copy", "orig"]), k, rng.randrange(n), rng.randrange(n + 2)])
        yield {"kind": "eq", "a": a, "b": b, "mut": mut, "edits": edits}
    # ---- residue getters / setters
    for _ in range(ctx.n(420, 12000)):
        fl = rng.choice(["ok", "ok", "ok", "long", "digit", "collide"])
        a = gen_struct(rng, n=rng.choice([1, 2, 3, 4]) if rng.random() < 0.3 else None, flavour=fl)
        n = len(a["atoms"])
        attr_edits = []
        if rng.random() < 0.2:                       # values no file can carry: blanks inside / around, empty
            for _ in range(rng.randint(1, 2)):
                attr_edits.append([rng.randrange(n), "resname",
                                   rng.choice(["A B", " AB", "AB ", "", "     ", "AB  1", "ABCDE 7", "\tX"])])
        nres = None
        sets = []
        for _ in range(rng.randint(1, 3)):
            kind = rng.choice(["n", "i"])
            how = rng.choice(["right", "right", "right", "short", "long", "notlist", "empty"])
            sets.append([kind, how, rng.randrange(1 << 30)])
        yield {"kind": "res", "a": a, "flavour": fl, "attr_edits": attr_edits, "k": rng.choice([0, 1, 2, 3, 5, -1, -2]),
               "sets": sets, "clear": rng.random() < 0.03}
    # ---- read_topology dispatch
    for _ in range(ctx.n(160, 5000)):
        a = gen_struct(rng)
        fname = rng.choice(["mol.itp", "mol.ITP", "mol.Itp", "mol.top", "mol", "itp", "a.b.itp", "mol.itp.bak",
                            "x.gro", ".itp", "mol."])
        ff = rng.choice([None, None, None, "itp", "ITP", "gro", "Itp", "", ".itp"])
        how = rng.choice(["path", "path", "obj", "obj", "missing"])
        yield {"kind": "readtop", "a": a, "fname": fname, "file_format": ff, "how": how,
               "mode": rng.choice(["u", "u", "l"]), "skip": rng.choice([0, 0, 0, 1, 2, 5]),
               "crlf": rng.random() < 0.25, "moltop": rng.random() < 0.5}


# ---------------------------------------------------------------------------- C15 evaluation

def snap_atoms(mol):
    return [[a.name, a.resname, a.resid, a.index, sorted(a.bonds)] for a in mol.atoms]


def enc_mol(name, atoms) -> str:
    out = [hexs(name), str(len(atoms))]
    for nm, rn, ri, idx, bs in atoms:
        out += [hexs(nm), hexs(rn), str(ri), str(idx), str(len(bs))] + [str(b) for b in bs]
    return " ".join(out)


def dec_atoms(toks, i):
    n = int(toks[i])
    i += 1
    out = []
    for _ in range(n):
        nm, rn, ri, idx, d = unhexs(toks[i]), unhexs(toks[i + 1]), int(toks[i + 2]), int(toks[i + 3]), int(toks[i + 4])
        out.append([nm, rn, ri, idx, [int(x) for x in toks[i + 5:i + 5 + d]]])
        i += 5 + d
    return out, i


_cnt = [0]


def _load(ctx, s, crlf=False, fname=None):
    from gaddlemaps.components import MoleculeTop
    _cnt[0] += 1
    f = os.path.join(ctx.scratch, fname or f"topx_{_cnt[0] % 4}.itp")
    common.decoy(f, "itp")
    with open(f, "wb") as fh:
        fh.write(render_top(s, crlf=crlf).encode("ascii"))
    try:
        mol = MoleculeTop(f)
    finally:
        os.unlink(f)
    # the topology loaded from a path must be the one just written there (the decoy load above makes a per-path memo
    # answer with the decoy — seed C15-2); everything below assumes it, so say it instead of crashing on an index
    want = [(a_[0], a_[1], a_[2]) for a_ in s["atoms"]]
    got = [(a.name, a.resname, a.resid) for a in mol.atoms]
    if got != want:
        ctx.oracle_fail("load:topology-differs-from-the-file-just-written", {"kind": "top-spec", "spec": s},
                        {"got": got[:6], "want": want[:6]})
        raise LoadMismatch()
    return mol


class LoadMismatch(Exception):
    pass


def _apply_edit(mol, e):
    _, k, i, x = e
    n = len(mol.atoms)
    a = mol.atoms[i % n]
    if k == "name":
        a.name = a.name + "q"
    elif k == "name-same":
        a.name = str(a.name)
    elif k == "resname":
        a.resname = "QQ"
    elif k == "resid":
        a.resid = a.resid + 7
    elif k == "resid-same":
        a.resid = int(a.resid)
    elif k == "bond-add":
        a.bonds.add(x)
    elif k == "bond-discard":
        a.bonds.discard(x)
    elif k == "connect":
        a.connect(mol.atoms[x % n])
    elif k == "molname":
        mol.name = mol.name + "_"


def eval_c15(ctx, case):
    try:
        return _eval_c15(ctx, case)
    except LoadMismatch:
        ctx.case(case, nontrivial=False)
        return None


def _eval_c15(ctx, case):
    kind = case["kind"]
    if kind == "eq":
        return _eval_eq(ctx, case)
    if kind == "res":
        return _eval_res(ctx, case)
    if kind == "readtop":
        return _eval_readtop(ctx, case)
    raise ValueError(kind)


def _eq_obs(x, y):
    """everything `==` shows for the ordered pair (x, y)"""
    return [int(x == y), int(x != y), int(y == x), int(x == "MoleculeTop"), int(x != 3.5),
            [int(p == q) for p, q in zip(x.atoms, y.atoms)]]


def _ask_eq(ctx, case, what, sx, sy, obs):
    def cb(status, toks, case, obs=obs, what=what):
        if status != "ok":
            ctx.disagree(case, what, obs, toks)
            return
        n = int(toks[5])
        m = [int(toks[0]), int(toks[1]), int(toks[2]), int(toks[3]), int(toks[4]), [int(t) for t in toks[6:6 + n]]]
        if m != obs:
            ctx.disagree(case, what, obs, m)
    ctx.model.ask("top_eq", enc_mol(*sx) + " " + enc_mol(*sy), cb, case)


def _eval_eq(ctx, case):
    a, b = case["a"], case["b"]
    ctx.case(case, nontrivial=len(a["atoms"]) >= 2)
    ctx.count("eq:mut:" + case["mut"])
    A, B = _load(ctx, a), _load(ctx, b)
    cp = A.copy()
    ctx.oracle_ok(4)
    if not (cp == A) or (cp != A) or not (A == cp) or (A != cp):
        ctx.oracle_fail("copy:not-equal", case, {"a": a})
    if cp is A or any(x is y for x, y in zip(cp.atoms, A.atoms)) or any(x.bonds is y.bonds for x, y in zip(cp.atoms, A.atoms)):
        ctx.oracle_fail("copy:shares-objects", case, {"a": a})
    pairs = [("A,B", A, B), ("A,copy", A, cp), ("copy,B", cp, B)]
    for what, x, y in pairs:
        obs = _eq_obs(x, y)
        if obs[0] == obs[1]:
            ctx.oracle_fail("eq:ne-is-not-negation", case, {"pair": what})
        if what == "A,B":
            ctx.count(f"eq:{case['mut']}:" + ("equal" if obs[0] else "different"))
        _ask_eq(ctx, case, "== / != (" + what + ")", (x.name, snap_atoms(x)), (y.name, snap_atoms(y)), obs)
    # editing the independently loaded B never touches the pair (A, copy)
    _apply_edit(B, ["b", "resname", 0, 0])
    if not (cp == A):
        ctx.oracle_fail("copy:unequal-after-editing-a-third-object", case, {})
    # edits on one side: the pair stays equal until an edit of a compared field
    for e in case["edits"]:
        _apply_edit(cp if e[0] == "copy" else A, e)
        obs = _eq_obs(A, cp)
        ctx.count("eq:after-edit:" + e[1] + ":" + ("equal" if obs[0] else "different"))
        if obs[0] == obs[1]:
            ctx.oracle_fail("eq:ne-is-not-negation", case, {"edit": e})
        _ask_eq(ctx, case, "== after edit " + str(e), (A.name, snap_atoms(A)), (cp.name, snap_atoms(cp)), obs)
    # index / getitem / len
    probe = ctx.rng.choice(list(cp.atoms) + list(B.atoms))
    try:
        ridx = ["K", A.index(probe)]
    except Exception as ex:      # noqa: BLE001
        ridx = ["E", errname(ex)]
    gi = ctx.rng.randint(-len(A.atoms) - 2, len(A.atoms) + 1)
    try:
        g = A[gi]
        rget = ["K", [g.name, g.resname, g.resid, g.index, sorted(g.bonds)]]
    except Exception as ex:      # noqa: BLE001
        rget = ["E", errname(ex)]
    ctx.count("index:" + (ridx[0] if ridx[0] == "K" else ridx[1]))
    ctx.count("getitem:" + (rget[0] if rget[0] == "K" else rget[1]))
    obs = [ridx, rget, len(A)]

    def cbi(status, toks, case, obs=obs):
        i = 0
        if toks[i] == "K":
            r1, i = ["K", int(toks[i + 1])], i + 2
        else:
            r1, i = ["E", toks[i + 1]], i + 2
        if toks[i] == "K":
            nm, rn, ri, idx, d = unhexs(toks[i + 1]), unhexs(toks[i + 2]), int(toks[i + 3]), int(toks[i + 4]), int(toks[i + 5])
            r2 = ["K", [nm, rn, ri, idx, [int(x) for x in toks[i + 6:i + 6 + d]]]]
            i += 6 + d
        else:
            r2, i = ["E", toks[i + 1]], i + 2
        m = [r1, r2, int(toks[i])]
        if m != obs:
            ctx.disagree(case, "index / __getitem__ / len", obs, m)
    pa = [probe.name, probe.resname, probe.resid, probe.index, sorted(probe.bonds)]
    ctx.model.ask("top_index", enc_mol(A.name, snap_atoms(A)) + " " +
                  " ".join([hexs(pa[0]), hexs(pa[1]), str(pa[2]), str(pa[3]), str(len(pa[4]))] + [str(x) for x in pa[4]])
                  + f" {gi}", cbi, case)


def spec_runs(atoms):
    """independent reading: maximal runs of consecutive atoms with the same (resname, resid)"""
    runs = []
    for nm, rn, ri, idx, bs in atoms:
        if runs and runs[-1][0] == (rn, ri):
            runs[-1][1] += 1
        else:
            runs.append([(rn, ri), 1])
    return runs


def wf_atoms(atoms):
    """the well-formedness hypothesis of `resnames_are_runs` / the setter specs"""
    return all(len(rn) <= 5 and rn == rn.strip() and not rn[:1].isdigit() and not any(c.isspace() for c in rn)
               for _, rn, _, _, _ in atoms)


def _try(f):
    try:
        return ["K", f()]
    except Exception as ex:      # noqa: BLE001
        return ["E", errname(ex)]


def _eval_res(ctx, case):
    import random
    a = case["a"]
    ctx.case(case, nontrivial=len(a["atoms"]) >= 2)
    mol = _load(ctx, a)
    for i, attr, v in case["attr_edits"]:
        setattr(mol.atoms[i], attr, v)
    if case.get("clear"):
        mol.atoms.clear()            # the empty molecule (no file gives it): `self[0]` / `old_resname[0]` branches
        ctx.count("res:empty-molecule")
    atoms0 = snap_atoms(mol)
    wf = wf_atoms(atoms0)
    ctx.count("res:flavour:" + case.get("flavour", "?"))
    ctx.count("res:wf" if wf else "res:not-wf")
    k = case["k"]
    rn = _try(lambda: list(mol.resnames))
    ri = _try(lambda: list(mol.resids))
    rl = _try(lambda: [[x, n] for x, n in mol.resname_len_list])
    per = [[x.residname, hash(x), x.closest_atoms(k), x.closest_atoms()] for x in mol.atoms]
    cp = snap_atoms(mol.copy())
    strs = [str(mol), repr(mol), [[str(x), repr(x), int(x == 3), int(x == "atom"), int(not (x != None))] for x in mol.atoms]]  # noqa: E711
    runs = spec_runs(atoms0)
    # counters: what the string grouping does outside the hypothesis (reported, not an oracle: no property text)
    if rn[0] == "K":
        want = [r[0][0] for r in runs]
        if rn[1] == want:
            ctx.count("resnames:=runs")
        elif len(rn[1]) < len(want):
            ctx.count("resnames:MERGED-residues" + (":wf" if wf else ""))
        elif len(rn[1]) == len(want):
            ctx.count("resnames:altered-names" + (":wf" if wf else ""))
        else:
            ctx.count("resnames:SPLIT-residues" + (":wf" if wf else ""))
    if ri[0] == "K":
        want = [r[0][1] for r in runs]
        ctx.count("resids:=runs" if ri[1] == want else "resids:DIFFER-from-runs" + (":wf" if wf else ""))
    else:
        ctx.count("resids:" + ri[1] + (":wf" if wf else ""))
    if wf:
        # theorem resnames_are_runs / resids_are_runs, evaluated on the real code (sanity oracle of the hypothesis)
        ctx.oracle_ok(2)
        if rn != ["K", [r[0][0] for r in runs]]:
            ctx.oracle_fail("resnames:not-the-runs-on-wellformed-input", case, {"got": rn, "runs": runs})
        if ri != ["K", [r[0][1] for r in runs]]:
            ctx.oracle_fail("resids:not-the-runs-on-wellformed-input", case, {"got": ri, "runs": runs})

    def cb(status, toks, case):
        i = 0
        n = int(toks[i])
        m_rn = ["K", [unhexs(t) for t in toks[i + 1:i + 1 + n]]]
        i += 1 + n
        if toks[i] == "K":
            n = int(toks[i + 1])
            m_ri = ["K", [int(t) for t in toks[i + 2:i + 2 + n]]]
            i += 2 + n
        else:
            m_ri, i = ["E", toks[i + 1]], i + 2
        if toks[i] == "K":
            n = int(toks[i + 1])
            i += 2
            lst = []
            for _ in range(n):
                lst.append([unhexs(toks[i]), int(toks[i + 1])])
                i += 2
            m_rl = ["K", lst]
        else:
            m_rl, i = ["E", toks[i + 1]], i + 2
        n = int(toks[i])
        i += 1
        m_per = []
        for _ in range(n):
            rname, h = unhexs(toks[i]), int(toks[i + 1])
            i += 2
            d = int(toks[i])
            c1 = [int(t) for t in toks[i + 1:i + 1 + d]]
            i += 1 + d
            d = int(toks[i])
            c2 = [int(t) for t in toks[i + 1:i + 1 + d]]
            i += 1 + d
            m_per.append([rname, h, c1, c2])
        m_cp, i = dec_atoms(toks, i)
        ms = unhexs(toks[i])
        n = int(toks[i + 1])
        i += 2
        m_strs = [ms, ms, []]
        for _ in range(n):
            a_s, e = unhexs(toks[i]), int(toks[i + 1])
            m_strs[2].append([a_s, a_s, e, e, e])
            i += 2
        if strs != m_strs:
            ctx.disagree(case, "str / repr / atom == non-atom", strs, m_strs)
        for what, x, y in (("resnames", rn, m_rn), ("resids", ri, m_ri), ("resname_len_list", rl, m_rl),
                           ("residname/hash/closest_atoms", per, m_per), ("copy()", cp, m_cp)):
            if x != y:
                ctx.disagree(case, what, x, y)
    ctx.model.ask("top_res", enc_mol(mol.name, atoms0) + f" {k}", cb, case)

    # setters, one after the other on the same object (state carries over)
    for kind, how, seed in case["sets"]:
        r = random.Random(seed)
        cur = snap_atoms(mol)
        cnt = _try(lambda: len(mol.resnames if kind == "n" else mol.resids))
        nres = cnt[1] if cnt[0] == "K" else r.randint(0, 3)
        length = {"right": nres, "short": max(0, nres - 1), "long": nres + 1, "notlist": nres, "empty": 0}[how]
        if kind == "n":
            new = [r.choice(["NEW", "R2", "ABCDE", "X", "ABCDEF", "1Z", "A B"]) if r.random() < 0.4 else f"N{j}" for j in range(length)]
        else:
            base = r.choice([1, 10, -3, 99998])
            new = [base + j if r.random() < 0.8 else base for j in range(length)]
        arg = tuple(new) if how == "notlist" else list(new)
        try:
            if kind == "n":
                mol.resnames = arg
            else:
                mol.resids = arg
            err = None
        except Exception as ex:      # noqa: BLE001
            err = errname(ex)
        after = snap_atoms(mol)
        ctx.count(f"set:{kind}:{how}:" + (err or "ok"))
        wf_before = wf_atoms(cur)
        runs = spec_runs(cur)
        if err is None and wf_before and how == "right":
            # theorem resnames_setter_spec / resids_setter_spec on the real code
            ctx.oracle_ok()
            want = []
            for (key, ln), v in zip(runs, new):
                want += [v] * ln
            got = [x[1] if kind == "n" else x[2] for x in after]
            rest_same = all((x[0], x[3], x[4], x[2] if kind == "n" else x[1]) == (y[0], y[3], y[4], y[2] if kind == "n" else y[1])
                            for x, y in zip(cur, after))
            if got != want or not rest_same:
                ctx.oracle_fail("setter:not-run-wise-on-wellformed-input", case, {"kind": kind, "new": new, "got": got})
        elif err is None and how == "right":
            want = []
            for (key, ln), v in zip(runs, new):
                want += [v] * ln
            got = [x[1] if kind == "n" else x[2] for x in after]
            ctx.count(f"set:{kind}:outside-wf:" + ("run-wise" if got == want else "NOT-run-wise"))

        def cbs(status, toks, case, err=err, after=after, kind=kind, new=new):
            m_err = None if toks[0] == "-" else toks[0]
            m_atoms, _ = dec_atoms(toks, 1)
            if m_err != err:
                ctx.disagree(case, f"setter {kind} exception", err, m_err)
            if m_atoms != after:
                ctx.disagree(case, f"atoms after setter {kind} {new}", after, m_atoms)
        enc_new = " ".join([str(len(new))] + ([hexs(x) for x in new] if kind == "n" else [str(x) for x in new]))
        ctx.model.ask("top_setres", enc_mol(mol.name, cur) + f" {kind} {0 if how == 'notlist' else 1} " + enc_new, cbs, case)


def _eval_readtop(ctx, case):
    from gaddlemaps.components import MoleculeTop
    from gaddlemaps.parsers import read_topology
    a = case["a"]
    ctx.case(case, nontrivial=len(a["atoms"]) >= 2)
    d = os.path.join(ctx.scratch, "rt")
    os.makedirs(d, exist_ok=True)
    f = os.path.join(d, case["fname"])
    data = render_top(a, crlf=case["crlf"]).encode("ascii")
    how, ff, mode, skip = case["how"], case["file_format"], case["mode"], case["skip"]
    if how == "missing":
        if os.path.exists(f):
            os.unlink(f)
    else:
        with open(f, "wb") as fh:
            fh.write(data)
    fh = None
    try:
        if how == "obj":
            fh = open(f, encoding="utf-8") if mode == "u" else open(f, newline="\n")
            for _ in range(skip):
                fh.readline()
            arg = fh
        else:
            arg = f
        if case["moltop"]:
            def run():
                m = MoleculeTop(arg, file_format=ff) if ff is not None else MoleculeTop(arg)
                assert m.ftop == f, "MoleculeTop.ftop is not the path / the file object's name"
                pairs = set()
                for x in m.atoms:
                    for j in x.bonds:
                        pairs.add(frozenset((x.index, j)))
                return m.name, [(x.name, x.resname, x.resid) for x in m.atoms], None, pairs
        else:
            def run():
                nm, atoms, bonds = read_topology(arg, file_format=ff) if ff is not None else read_topology(arg)
                return nm, [tuple(x) for x in atoms], [(int(p), int(q)) for p, q in bonds], {frozenset(p) for p in bonds}
        try:
            res = ["K", run()]
        except AssertionError:
            raise
        except Exception as ex:      # noqa: BLE001
            res = ["E", errname(ex)]
    finally:
        if fh is not None and not fh.closed:
            fh.close()
        if os.path.exists(f):
            os.unlink(f)
    ext = case["fname"].split(".")[-1] if ff is None else ff
    known = ext in ("itp", "ITP")
    ctx.count(f"readtop:{how}:" + ("known-ext" if known else "unknown-ext") + (":format-given" if ff is not None else "")
              + ":" + (res[0] if res[0] == "K" else res[1]))
    # oracle: the whole file, handed over in any supported way, gives the file's topology; an unsupported format is refused
    whole = how == "path" or (how == "obj" and skip == 0)
    if whole and how != "missing":
        ctx.oracle_ok()
        if known:
            want_pairs = {frozenset(p) for p in a["bonds"]}
            ok = (res[0] == "K" and res[1][0] == a["name"] and [list(x) for x in res[1][1]] == a["atoms"]
                  and res[1][3] == want_pairs)
            if not ok:
                ctx.oracle_fail("load:" + how + (":format-given" if ff is not None else "") + (":crlf" if case["crlf"] else ""),
                                case, {"got": res if res[0] == "E" else "wrong topology"})
        elif res != ["E", "ValueError"]:
            ctx.oracle_fail("load:unknown-format-not-refused", case, {"got": res[0]})

    def cb(status, toks, case, res=res):
        if toks[0] == "E":
            m = ["E", toks[1]]
        else:
            name = unhexs(toks[1])
            n = int(toks[2])
            i = 3
            atoms = []
            for _ in range(n):
                atoms.append((unhexs(toks[i]), unhexs(toks[i + 1]), int(toks[i + 2])))
                i += 3
            k = int(toks[i])
            i += 1
            bonds = []
            for _ in range(k):
                bonds.append((int(toks[i]), int(toks[i + 1])))
                i += 2
            m = ["K", (name, atoms, bonds, {frozenset(p) for p in bonds})]
        if res[0] == "K" and m[0] == "K":
            same = res[1][0] == m[1][0] and res[1][1] == m[1][1] and res[1][3] == m[1][3] and \
                (res[1][2] is None or res[1][2] == m[1][2])
        else:
            same = res == m
        if not same:
            ctx.disagree(case, "read_topology dispatch", res if res[0] == "E" else [res[1][0], res[1][1][:4]],
                         m if m[0] == "E" else [m[1][0], m[1][1][:4]])
    src = "M" if how == "missing" else ("F " + hexs(data) if how == "path" else f"O {mode} {skip} {hexs(data)}")
    ctx.model.ask("itpx_readtop", f"{hexs(f)} " + ("N" if ff is None else "S " + hexs(ff)) + " " + src, cb, case)


# ============================================================================ C16: typed lines, sections, files

def _all_lines(section):
    """every line object of a section, comment / preprocessor lines included: the private list when it is there under
    its name, else the public `lines` (a new list of the SAME line objects)"""
    v = getattr(section, "_lines", None)
    return v if v is not None else section.lines


def sec_lines(text):
    """independent reading: section name -> raw physical lines that belong to it (repeated names gathered)"""
    secs, cur = {}, None
    for line in G.phys_lines(text):
        n = G.header_name(line)
        if n is not None:
            cur = n
            secs.setdefault(n, [])
        elif cur is not None and cur != "header":
            secs[cur].append(line)
        elif cur == "header":
            pass
    return secs


def sec_kind(name):
    if name == "atoms":
        return "atoms"
    if name in ("bonds", "constraints", "pairs"):
        return "bonds"
    if name in "moleculetype":
        return "mt"
    return "plain"


GET = {
    "atoms": ["number", "type", "resid", "resname", "name", "cgnr", "charge", "mass", "pair_interaction", "aux_name",
              "parsed_line"],
    "bonds": ["atom_from", "atom_to", "funct", "const0", "const1", "const2", "const-1", "const 1", "const", "constx",
              "const1_0", "const_1", "const+0", "const7"],
    "mt": ["name", "nrexcl"],
    "plain": [],
}
COMMON = ["content", "comment", "line"]
FLOATS = [0.0, -0.0, 1.0, -0.5, 0.1, 12.011, 1e-3, 1e300, 5e-324, float("inf"), float("-inf"), float("nan"), 72.0]


def _fv(x):
    return canon_val(float(x))


def gen_val(rng, want=None):
    k = want or rng.choice(["f", "f", "i", "s", "n", "b"])
    if k == "f":
        return _fv(rng.choice(FLOATS))
    if k == "i":
        return ["i", rng.choice([0, 1, 2, 3, -1, 10, 99999])]
    if k == "s":
        return ["s", rng.choice(["NEW", "A B", "", "x1", "MOL2", "has;semi", " lead"])]
    if k == "n":
        return ["n"]
    return ["b", rng.choice([0, 1])]


NEW_CONTENT = {
    "atoms": ["5 X 2 RES NN 1 0.5 1.0", "7 C 1 M C 1", "x y z", "5 X 2 RES NN", "  9 C 3 R N 4 -1  "],
    "bonds": ["1 2", "2 1 6 0.1 100", "1", "a b", " 3 4 1 "],
    "mt": ["NEW 2", "NEW", "NEW 0", "A B 3"],
    "plain": ["a b c", "1 2 3 4", "x"],
}
ANY_CONTENT = ["", "   ", "1 2 ; inner", "[ bonds ]", "#define X", "two\nlines", "tail ;"]
NEW_COMMENT = ["note", " spaced ", "", "  ", "a ; b", "#hash", "with\nnewline", "[ x ]"]


def gen_script(rng, text):
    secs = sec_lines(text)
    names = [n for n in secs if secs[n]]
    script = []
    if not names:
        return [["D"], ["W"], ["D"]]
    targets = []
    for _ in range(rng.randint(1, 4)):
        n = rng.choice(names)
        # prefer lines with content
        idxs = list(range(len(secs[n])))
        withc = [i for i in idxs if G.item(secs[n][i]) and G.item(secs[n][i])[0] == "ln" and G.item(secs[n][i])[1]]
        i = rng.choice(withc) if withc and rng.random() < 0.8 else rng.choice(idxs + [len(idxs)])
        targets.append((n, i))

    def gets(n, i):
        kind = sec_kind(n)
        pool = GET[kind] + COMMON
        for at in rng.sample(pool, min(len(pool), rng.randint(2, 6))):
            script.append(["g", n, i, at])
        if rng.random() < 0.3:
            other = rng.choice([x for k2 in GET for x in GET[k2] if k2 != kind] + ["nosuch"])
            if not (kind == "bonds" and other.startswith("const")) and other not in GET[kind]:
                script.append(["g", n, i, other])

    for n, i in targets:
        gets(n, i)
    for n, i in targets:
        kind = sec_kind(n)
        for _ in range(rng.randint(0, 3)):
            r = rng.random()
            if r < 0.55 and kind == "atoms":
                script.append(["s", n, i, rng.choice(["charge", "mass", "pair_interaction", "aux_name"]), gen_val(rng)])
            elif r < 0.55 and kind == "mt":
                at = rng.choice(["name", "nrexcl"])
                script.append(["s", n, i, at, gen_val(rng, rng.choice(["s", "i", "s", "i", "f", "n", "b"]))])
            elif r < 0.65 and kind in ("atoms", "bonds"):
                ro = {"atoms": ["number", "type", "resid", "resname", "name", "cgnr", "parsed_line"],
                      "bonds": ["atom_from", "atom_to", "funct"]}[kind]
                script.append(["s", n, i, rng.choice(ro), gen_val(rng)])
            elif r < 0.8:
                c = rng.choice(NEW_CONTENT[kind]) if rng.random() < 0.8 else rng.choice(ANY_CONTENT)
                script.append(["s", n, i, "content", ["s", c]])
            elif r < 0.95:
                script.append(["s", n, i, "comment", ["s", rng.choice(NEW_COMMENT)]])
            else:
                script.append(["s", n, i, "line", ["s", "x"]])
    for n, i in targets:
        gets(n, i)
    script.append(["D"])
    if rng.random() < 0.25:
        script += [["C"], ["D"]]             # the copy re-reads the file: the edits are not in it
        for n, i in targets:
            gets(n, i)
    script.append(["W"])
    script.append(["D"])
    for n, i in targets:
        gets(n, i)
    r = rng.random()
    if r < 0.3:
        script.append(["W"])
        script.append(["D"])
    elif r < 0.5:
        script += [["C"], ["D"]]             # after a rewrite `fitp` is the written file
    return script


FLOAT_TOKS = ["1", "-1", "+1", "0", "-0", "1.", ".5", "-.5", "+.5e1", "1e5", "1E5", "1e+5", "1e-5", "1.5e3", "1_0", "1_0.5",
              "1_0.5_0", "1__0", "_1", "1_", "1._5", "1_.5", "1e1_0", "1e_1", "e5", "1e", "1e+", ".", "", "-", "+", "inf",
              "-inf", "+INF", "Infinity", "-infinity", "infinit", "nan", "-nan", "NaN", "nane", "0x10", "1e400", "-1e400",
              "1e-400", "4.9e-324", "2.4703282292062327e-324", "2.4703282292062328e-324", "1.7976931348623157e308",
              "1.7976931348623159e308", "0.1", "0.30000000000000004", "9007199254740993", "12.011", "1,5", "1 ", "--1",
              "1.5.2", "1e5e2", "00012", "1d5", "١"]


def gen_c16(ctx):
    rng = ctx.rng
    base = "[ moleculetype ]\nMOL 1 ; mt\n[ atoms ]\n1 C 1 MOL C1 1 0.5 12.0 x y ; a\n2 C 1 MOL C2 2\n; only comment\n\n" \
           "[ bonds ]\n1 2 1 0.153 gb_27 1e5 ; b\n2 1\n#ifdef X\n[ angles ]\n1 2 1 5\n"
    # directed: every getter / setter of every class once
    directed = []
    for at in GET["atoms"] + COMMON + ["nosuch"]:
        directed.append(["g", "atoms", 0, at])
        directed.append(["g", "atoms", 1, at])
        directed.append(["g", "atoms", 2, at])
    for at in GET["bonds"] + COMMON + ["name"]:
        directed.append(["g", "bonds", 0, at])
        directed.append(["g", "bonds", 1, at])
        directed.append(["g", "bonds", 2, at])
    for at in GET["mt"] + COMMON + ["charge"]:
        directed.append(["g", "moleculetype", 0, at])
    directed += [["g", "angles", 0, "content"], ["g", "angles", 0, "funct"], ["g", "angles", 5, "content"],
                 ["g", "nosuch", 0, "content"]]
    sets = [["s", "atoms", 0, "charge", _fv(-0.25)], ["s", "atoms", 0, "mass", ["n"]], ["s", "atoms", 1, "mass", _fv(1.008)],
            ["s", "atoms", 2, "charge", ["i", 1]], ["s", "atoms", 0, "pair_interaction", ["o"]],
            ["s", "atoms", 1, "aux_name", ["s", "aux"]], ["s", "atoms", 0, "name", ["s", "Z"]],
            ["s", "moleculetype", 0, "name", ["s", "NEWMOL"]], ["s", "moleculetype", 0, "name", ["s", "A B"]],
            ["s", "moleculetype", 0, "name", ["i", 3]], ["s", "moleculetype", 0, "nrexcl", ["i", 3]],
            ["s", "moleculetype", 0, "nrexcl", ["i", 0]], ["s", "moleculetype", 0, "nrexcl", ["s", "2"]],
            ["s", "moleculetype", 0, "nrexcl", ["b", 1]], ["s", "moleculetype", 0, "nrexcl", ["b", 0]],
            ["s", "moleculetype", 0, "nrexcl", _fv(2.0)],
            ["s", "bonds", 0, "funct", ["i", 2]], ["s", "bonds", 0, "content", ["s", "2 1 6 0.2"]],
            ["s", "bonds", 1, "comment", ["s", "new comment"]], ["s", "atoms", 1, "line", ["s", "x"]],
            ["s", "atoms", 1, "content", ["s", "2 N 7 NEW N2 2 -1.0"]]]
    yield {"kind": "typed", "data": base, "how": "path", "mode": "u", "skip": 0,
           "script": directed + sets + directed + [["D"], ["W"], ["D"]] + directed + [["C"], ["D"]], "cls": "directed"}
    yield {"kind": "typed", "data": base, "how": "path", "mode": "u", "skip": 0,
           "script": sets + [["D"], ["C"], ["D"]] + directed, "cls": "directed-copy"}
    for how, mode, skip in [("obj", "u", 0), ("obj", "l", 0), ("obj", "u", 1), ("obj", "u", 3), ("obj", "l", 2)]:
        yield {"kind": "typed", "data": base.replace("\n", "\r\n") if mode == "l" else base, "how": how, "mode": mode,
               "skip": skip, "script": directed[:30] + [["D"], ["C"], ["D"], ["W"], ["D"], ["C"], ["D"]], "cls": "directed-obj"}
    for _ in range(ctx.n(420, 15000)):
        r = rng.random()
        if r < 0.5:
            text = G.gen_itp_text(rng)["data"]
        elif r < 0.85:
            text = G.gen_topology(rng, rng.randint(1, 8), rng.choice(G.GRAPH_CLASSES))["data"]
        else:
            text = base
        how = rng.choice(["path", "path", "obj"])
        mode = rng.choice(["u", "u", "l"]) if how == "obj" else "u"
        skip = rng.choice([0, 0, 1, 2, 4]) if how == "obj" else 0
        plain = text.replace("\r\n", "\n").replace("\r", "\n")
        if how == "obj":
            # the script addresses the lines the object will see (after the consumed ones)
            lines = G.phys_lines(plain if mode == "u" else text)
            seen = "".join(lines[skip:])
        else:
            seen = plain
        yield {"kind": "typed", "data": text, "how": how, "mode": mode, "skip": skip,
               "script": gen_script(rng, seen.replace("\r\n", "\n") if mode == "u" else seen), "cls": "gen"}
    # ItpSection built directly
    good = {"atoms": ["1 C 1 MOL C1 1\n", " 2 C 1 MOL C2 2 0.1 1.0 ; c\n", "; c\n", "\n", "#ifdef A\n", "3 C 2 R N 3 -1"],
            "bonds": ["1 2\n", "2 3 1 0.1 ; c\n", ";c\n", "\n"],
            "moleculetype": ["MOL 3\n", "; name nrexcl\n", "\n"],
            "angles": ["1 2 3 1\n", "free text ; c\n", "#endif\n", "\n"]}
    bad = {"atoms": ["1 C x MOL C1 1\n", "1 C\n"], "bonds": ["1\n", "1 x\n"], "moleculetype": ["MOL\n", "MOL 0\n"],
           "angles": []}
    for _ in range(ctx.n(150, 4000)):
        name = rng.choice(list(good) + ["pairs", "constraints", "type", "", "Atoms", "molecule"])
        k = name if name in good else {"pairs": "bonds", "constraints": "bonds", "type": "moleculetype", "": "moleculetype",
                                       "molecule": "moleculetype"}.get(name, "angles")
        lines = [rng.choice(good[k]) for _ in range(rng.randint(0, 6))]
        r = rng.random()
        if r < 0.15 and bad[k]:
            lines.insert(rng.randrange(len(lines) + 1), rng.choice(bad[k]))
        elif r < 0.25:
            lines.insert(rng.randrange(len(lines) + 1), rng.choice(["[ bonds ]\n", "[x]", "[ a ] ; c\n", " [ indented ]\n"]))
        yield {"kind": "section", "name": name, "lines": lines}
    for t in FLOAT_TOKS:
        yield {"kind": "float", "tok": t}
    for _ in range(ctx.n(200, 6000)):
        # random decimal literals, incl. ties of the decimal -> binary rounding
        ip = "".join(rng.choice("0123456789") for _ in range(rng.randint(0, 18)))
        fp = "".join(rng.choice("0123456789") for _ in range(rng.randint(0, 20)))
        t = rng.choice(["", "", "-", "+"]) + ip + (("." + fp) if rng.random() < 0.7 else "")
        if rng.random() < 0.4:
            t += rng.choice("eE") + rng.choice(["", "-", "+"]) + str(rng.choice([0, 1, 5, 22, 23, 300, 308, 309, 324, 400]))
        if rng.random() < 0.1 and len(t) > 2:
            k = rng.randrange(1, len(t))
            t = t[:k] + "_" + t[k:]
        yield {"kind": "float", "tok": t}
    alines = ["1 C 1 MOL C1 1", "1 C 1 MOL C1 1 0.5", "1 C 1 MOL C1 1 0.5 12.0", "1 C 1 MOL C1 1 0.5 12.0 e1 e2", "  7 opls_1 -3 R N 2 1e-3 ; c",
              "", "; only comment", "1 C 1 MOL C1", "1 C 1 MOL C1 x", "1 C 1 MOL C1 1 q", "1 C 1 MOL C1 1 1 m", "[ atoms ]",
              "#define", "1_0 C +2 M N 3 inf nan", "1 C 1 MOL C1 1 ;0.5 12.0", "1 C 1 MOL C1 1 0.5;12.0"]
    for l in alines:
        yield {"kind": "atomline", "line": l}
        yield {"kind": "atomline", "line": l + "\n"}


# ---------------------------------------------------------------------------- C16 evaluation

def eval_c16(ctx, case):
    kind = case["kind"]
    if kind == "typed":
        return _eval_typed(ctx, case)
    if kind == "section":
        return _eval_section(ctx, case)
    if kind == "float":
        return _eval_float(ctx, case)
    if kind == "atomline":
        return _eval_atomline(ctx, case)
    raise ValueError(kind)


def _dump_obj(itp):
    from .props.c16 import dump_obj
    return dump_obj(itp)


def _eval_typed(ctx, case):
    from gaddlemaps.parsers import ItpFile
    data = case["data"].encode("latin-1")
    try:
        data.decode("ascii")
    except UnicodeDecodeError:
        ctx.count("typed:skipped-non-ascii")
        return
    ctx.case({"bytes": data, "script": case["script"], "how": [case["how"], case["mode"], case["skip"]]},
             nontrivial=any(c[0] == "s" for c in case["script"]))
    ctx.count("typed:" + case["how"] + (":" + case["mode"] + f":skip{min(case['skip'], 1)}" if case["how"] == "obj" else ""))
    _cnt[0] += 1
    f = os.path.join(ctx.scratch, f"typed_{_cnt[0] % 3}.itp")
    g = os.path.join(ctx.scratch, f"typed_{_cnt[0] % 3}_w.itp")
    common.decoy(f, "itp")
    with open(f, "wb") as fh:
        fh.write(data)
    fh = None
    outs = []
    head = None
    try:
        if case["how"] == "obj":
            fh = open(f, encoding="utf-8") if case["mode"] == "u" else open(f, newline="\n")
            for _ in range(case["skip"]):
                fh.readline()
            arg = fh
        else:
            arg = f
        try:
            itp = ItpFile(arg)
        except Exception as ex:      # noqa: BLE001
            head = ["E", errname(ex)]
            itp = None
        if itp is not None:
            if fh is not None and not fh.closed:
                ctx.count("typed:file-object-left-open")
            head = ["K", repr(itp), str(itp)]
            for c in case["script"]:
                if c[0] == "g":
                    _, sec, idx, at = c
                    try:
                        line = _all_lines(itp[sec])[idx]
                        with warnings.catch_warnings():
                            warnings.simplefilter("ignore")
                            outs.append(["K", canon_val(getattr(line, at))])
                        ctx.count("get:" + at.split("0")[0] + ":ok")
                    except Exception as ex:      # noqa: BLE001
                        outs.append(["E", errname(ex)])
                        ctx.count("get:" + (at if not at.startswith("const") else "const*") + ":" + errname(ex))
                elif c[0] == "s":
                    _, sec, idx, at, v = c
                    try:
                        line = _all_lines(itp[sec])[idx]
                        pv = py_val(v)
                        with warnings.catch_warnings(record=True) as w:
                            warnings.simplefilter("always")
                            setattr(line, at, pv)
                        outs.append(["K"])
                        ctx.count("set:" + at + ":ok")
                        if at == "content":
                            ctx.count("set:content:warned" if w else "set:content:NO-WARNING")
                        # sanity oracle: a successful set is read back (mass=None reads as AttributeError by design)
                        ctx.oracle_ok()
                        try:
                            back = getattr(line, at)
                            okb = (canon_val(back) == canon_val(pv.strip() if at in ("content", "comment") else pv)) \
                                if v[0] != "o" else back is pv
                        except AttributeError:
                            okb = at == "mass" and pv is None
                        if not okb:
                            ctx.oracle_fail("typed:set-not-read-back:" + at, case, {"cmd": c})
                    except Exception as ex:      # noqa: BLE001
                        outs.append(["E", errname(ex)])
                        ctx.count("set:" + at + ":" + errname(ex))
                elif c[0] == "D":
                    outs.append(["K", _dump_obj(itp)])
                elif c[0] == "C":
                    try:
                        cp = itp.copy()
                        assert cp is not itp
                        itp = cp
                        outs.append(["K"])
                        ctx.count("copy:ok")
                    except AssertionError:
                        raise
                    except Exception as ex:      # noqa: BLE001
                        outs.append(["E", errname(ex)])
                        ctx.count("copy:" + errname(ex))
                elif c[0] == "W":
                    try:
                        itp.write(g)
                    except Exception as ex:      # noqa: BLE001  (writing a loaded topology back never raises)
                        ctx.oracle_fail("typed:write-raises-" + errname(ex), case, {"error": repr(ex)[:200]})
                        outs.append(["E", errname(ex)])
                        break
                    del itp
                    written = open(g, "rb").read().decode("latin-1")
                    try:
                        itp = ItpFile(g)
                        outs.append(["K", written])
                        ctx.count("rewrite:ok")
                    except Exception as ex:      # noqa: BLE001
                        outs.append(["R", written, errname(ex)])
                        ctx.count("rewrite:reread-" + errname(ex))
                        break
    finally:
        if fh is not None and not fh.closed:
            fh.close()
        for p in (f, g):
            if os.path.exists(p):
                os.unlink(p)
    if head[0] == "E":
        ctx.count("typed:load-" + head[1])

    def cb(status, toks, case, head=head, outs=outs, f=f):
        if toks[0] == "E":
            if head != ["E", toks[1]]:
                ctx.disagree(case, "ItpFile(file) exception", head, toks[1])
            return
        if head[0] == "E":
            ctx.disagree(case, "ItpFile(file) exception", head, "loaded")
            return
        if head[1] != unhexs(toks[1]) or head[2] != unhexs(toks[2]):
            ctx.disagree(case, "repr / str of the ItpFile", head[1:], [unhexs(toks[1]), unhexs(toks[2])])
        n = int(toks[3])
        i = 4
        m = []
        for _ in range(n):
            t = toks[i]
            if t == "E":
                m.append(["E", toks[i + 1]])
                i += 2
            elif t == "R":
                m.append(["R", unhexs(toks[i + 1]), toks[i + 2]])
                i += 3
            else:
                i += 1
                m.append(None)       # filled below: depends on the command
                # look ahead by the command kind
                c = case["script"][len(m) - 1]
                if c[0] == "g":
                    v, i = model_res(toks, i)
                    m[-1] = ["K", v]
                elif c[0] in ("s", "C"):
                    m[-1] = ["K"]
                else:
                    m[-1] = ["K", unhexs(toks[i])]
                    i += 1
        if len(m) != len(outs):
            ctx.disagree(case, "script length", len(outs), len(m))
            return
        for j, (x, y) in enumerate(zip(outs, m)):
            if x != y:
                ctx.disagree(case, "script step %d %s" % (j, case["script"][j]), x, y)
                break
    enc = []
    for c in case["script"]:
        if c[0] == "g":
            enc.append(f"g {hexs(c[1])} {c[2]} {hexs(c[3])}")
        elif c[0] == "s":
            enc.append(f"s {hexs(c[1])} {c[2]} {hexs(c[3])} {enc_val(c[4])}")
        else:
            enc.append(c[0])
    ctx.model.ask("itpx_file", f"{hexs(f)} {case['mode']} {case['skip']} {hexs(data)} {len(enc)} " + " ".join(enc), cb, case)


def _eval_section(ctx, case):
    from gaddlemaps.parsers import ItpSection
    ctx.case(case, nontrivial=len(case["lines"]) >= 2)
    try:
        s = ItpSection(case["name"], list(case["lines"]))
        res = ["K", str(s), repr(s), len(s), len(s.lines), s.section_name]
        assert getattr(s, "_lines", None) is None or s.lines is not s._lines
    except AssertionError:
        raise
    except Exception as ex:      # noqa: BLE001
        res = ["E", errname(ex)]
    ctx.count("section:" + (res[0] if res[0] == "K" else res[1]))

    def cb(status, toks, case, res=res):
        m = ["E", toks[1]] if toks[0] == "E" else ["K", unhexs(toks[1]), unhexs(toks[2]), int(toks[3]), int(toks[4]), unhexs(toks[5])]
        if m != res:
            ctx.disagree(case, "ItpSection(name, lines)", res, m)
    ctx.model.ask("itpx_section", " ".join([hexs(case["name"]), str(len(case["lines"]))] + [hexs(l) for l in case["lines"]]), cb, case)


def _eval_float(ctx, case):
    t = case["tok"]
    try:
        t.encode("ascii")
    except UnicodeEncodeError:
        ctx.count("float:skipped-non-ascii")
        return
    if not t or any(c.isspace() for c in t):
        ctx.count("float:skipped-not-a-token")
        return
    ctx.case(case, nontrivial=True)
    try:
        res = ["K", canon_val(float(t))]
    except ValueError:
        res = ["E"]
    ctx.count("float:" + ("ok" if res[0] == "K" else "ValueError"))

    def cb(status, toks, case, res=res):
        if toks[0] == "K":
            v, i = model_float(toks, 1)
            m = ["K", v]
            okflag = toks[i]
        else:
            m = ["E"]
            okflag = toks[1]
        if m != res:
            ctx.disagree(case, "float(token)", res, m)
        if (okflag == "1") != (res[0] == "K"):
            ctx.disagree(case, "pyFloatOk(token)", res[0], okflag)
    ctx.model.ask("itpx_float", hexs(t), cb, case)


def _eval_atomline(ctx, case):
    from gaddlemaps.parsers import ItpLineAtom
    ctx.case(case, nontrivial=True)
    try:
        res = ["K", canon_val(ItpLineAtom.read_itp_atom(case["line"]))]
    except Exception as ex:      # noqa: BLE001
        res = ["E", errname(ex)]
    ctx.count("read_itp_atom:" + (res[0] if res[0] == "K" else res[1]))

    def cb(status, toks, case, res=res):
        if toks[0] == "E":
            m = ["E", toks[1]]
        else:
            v, _ = model_res(toks, 1)
            m = ["K", v]
        if m != res:
            ctx.disagree(case, "ItpLineAtom.read_itp_atom", res, m)
    ctx.model.ask("itpx_readatom", hexs(case["line"]), cb, case)
