"""C06 — alignment moves molecules only by structure-preserving transformations.

Cases:
  {"kind": "align", "start": MOL, "end": MOL, "restr": [[i,j]..], "deform": null | [..], "ignore_h": bool,
   "steps_factor": k, "seed": S, "cls": "..."}       MOL = {"res": str, "names": [..], "pos": [[3]..], "bonds": [[a,b]..]}
  {"kind": "shipped", "pair": "BF4" | "BMIM", "swap": bool, ... same options ...}

Real `Molecule` objects are built from .gro/.itp files written into the scratch directory and loaded
through gaddlemaps' own parsers; `Alignment(start, end).align_molecules(...)` is run under
`harness.mcwrap.Recorder`.  Checked on every case:
  * oracle = the clauses of the property on the real code (larger molecule only translated / untouched,
    bonded distances of the other molecule, all pairwise distances without single-atom moves, names and
    order, finiteness, bit-identical repeat under the same seed, caller's objects unmodified);
  * model  = `alignPrepare` (everything handed to `minimize_molecules`), the search (transition level +
    whole run, as C09) and the whole `alignMolecules` (final coordinates of both molecules).
"""
import os

import numpy as np

from ..common import fbits, hexs, unfbits
from .. import mcwrap
from ..mcwrap import Recorder, GrammarError, parse_run, check_run, cfg_tokens, Reader, same_bits, close_cfg

RULE = ("align: start/end molecules with random-tree bond graphs of 1..40 atoms (either larger, equal sizes, "
        "1-atom molecules), atom names with random hydrogens (H, H1, HA.., CH3, digits first), generic and "
        "lattice coordinates, restraint lists empty/partial/duplicated/out-of-filter, deformation tuple None or "
        "every non-empty subset (type 2 only with >= 2 mobile atoms), ignore_hydrogens on/off, STEPS_FACTOR "
        "1..50, np.random.seed per case; shipped BF4 and BMIM AA/CG pairs in both orders; a small malformed "
        "stream (disconnected mobile molecule, fixed molecule without bonds / only hydrogens). Non-trivial = "
        "the search ran at least one iteration; distinct by canonical hash.")

TOL = 1e-9
SUBSETS = [(0,), (1,), (2,), (0, 1), (0, 2), (1, 2), (0, 1, 2)]
HNAMES = ["H", "H1", "H2", "H12", "H3"]
HEAVY = ["C1", "C2", "N1", "O1", "CA", "CH3", "HA", "HB1", "OH", "1HB", "S", "P4", "Q01", "B1"]


def _mol(rng, n, res, scale, h_frac, lattice=False, connected=True, bonded=True):
    names = []
    for i in range(n):
        if rng.random() < h_frac:
            names.append(rng.choice(HNAMES))
        else:
            names.append(rng.choice(HEAVY))
    if lattice:
        pts = set()
        while len(pts) < n:
            pts.add(tuple(float(rng.randint(-4, 4)) * 0.25 for _ in range(3)))
        pos = [list(p) for p in pts]
        rng.shuffle(pos)
    else:
        pos = [[rng.uniform(0, 1) * scale for _ in range(3)] for _ in range(n)]
    bonds = [[rng.randrange(i), i] for i in range(1, n)] if bonded else []
    if not connected and n >= 3:
        bonds = bonds[:-1]
    # random relabelling so that parents do not always precede children
    perm = list(range(n))
    rng.shuffle(perm)
    bonds = [[perm[a], perm[b]] for a, b in bonds]
    return {"res": res, "names": names, "pos": pos, "bonds": bonds}


def _restr(rng, ns, ne):
    k = rng.random()
    if k < 0.4:
        return []
    if k < 0.7:
        return [[rng.randrange(ns), rng.randrange(ne)] for _ in range(rng.randint(1, 4))]
    if k < 0.85:
        i = rng.randrange(ns)
        return [[i, rng.randrange(ne)] for _ in range(2)] + [[rng.randrange(ns), rng.randrange(ne)]]
    return [[i, rng.randrange(ne)] for i in range(ns)]


def _opts(rng, n_mobile):
    subs = [s for s in SUBSETS if n_mobile >= 2 or 2 not in s]
    deform = None if rng.random() < 0.25 else list(rng.choice(subs))
    return {"deform": deform, "ignore_h": rng.random() < 0.6,
            "steps_factor": rng.choice([1, 2, 3, 5, 5, 8, 10, 20, 50]), "seed": rng.randrange(2 ** 31)}


def generate(ctx):
    rng = ctx.rng
    # shipped pairs
    for pair in ("BF4", "BMIM"):
        for swap in (False, True):
            for _ in range(ctx.n(1, 6)):
                c = {"kind": "shipped", "pair": pair, "swap": swap, "restr": [], "cls": f"shipped-{pair}"}
                c.update(_opts(rng, 1 if pair == "BF4" else 3))
                c["steps_factor"] = min(c["steps_factor"], 10)
                yield c
    # malformed / outside the quantifier (error classes must agree with the model)
    for cls in ("malformed:disconnected-mobile", "malformed:fixed-no-bonds", "malformed:fixed-all-hydrogen"):
        big = _mol(rng, 5, "BIG", 1.0, 0.3, bonded=cls != "malformed:fixed-no-bonds")
        if cls == "malformed:fixed-all-hydrogen":
            big["names"] = ["H1"] * 5
        small = _mol(rng, 3, "SML", 1.0, 0.0, connected=cls != "malformed:disconnected-mobile")
        c = {"kind": "align", "start": big, "end": small, "restr": [], "cls": cls}
        c.update(_opts(rng, 3))
        c["ignore_h"] = True
        yield c
    # degenerate hub: the mobile molecule has an atom with >= 3 bonds whose bonded neighbours lie on ONE line,
    # so the "plane through the first three neighbours" of the single-atom move does not exist (zero cross
    # product -> non-finite proposal, which the search must reject): the result still has to be finite and
    # bit-identical under the same seed (seed C06-2: a fallback direction from an unseeded generator)
    for i in range(ctx.n(12, 150)):
        nm = rng.randint(4, 7)
        nh = rng.choice([3, 3, 4])
        hub = 0
        c0 = [rng.uniform(-0.5, 0.5) for _ in range(3)]
        d = [rng.choice([-1.0, 0.0, 1.0]) for _ in range(3)]
        if not any(d):
            d = [1.0, 0.0, 0.0]
        step = rng.choice([0.125, 0.25, 0.5])
        pos = [[c0[0] + 0.21, c0[1] - 0.17, c0[2] + 0.3]]
        ks = rng.sample([-3, -2, -1, 0, 1, 2, 3], nh)
        for kk in ks:
            pos.append([c0[j] + kk * step * d[j] for j in range(3)])
        bonds = [[hub, j] for j in range(1, nh + 1)]
        while len(pos) < nm:
            a = len(pos)
            par = rng.randrange(1, a)
            pos.append([pos[par][j] + rng.uniform(-0.3, 0.3) for j in range(3)])
            bonds.append([par, a])
        small = {"res": "HUB", "names": [rng.choice(HEAVY) for _ in range(len(pos))], "pos": pos, "bonds": bonds}
        big = _mol(rng, rng.randint(len(pos) + 1, 14), "BIG", 1.0, 0.2)
        if all(n in HNAMES for n in big["names"]):
            big["names"][0] = "C1"
        swap = rng.random() < 0.5
        c = {"kind": "align", "start": small if swap else big, "end": big if swap else small,
             "restr": [], "cls": "degenerate-hub:" + ("mobile-start" if swap else "mobile-end")}
        c.update(_opts(rng, len(pos)))
        c["deform"] = list(rng.choice([(2,), (0, 2), (1, 2), (0, 1, 2)]))
        c["steps_factor"] = rng.choice([5, 10, 20])
        yield c
    for i in range(ctx.n(120, 2000)):
        k = rng.random()
        if k < 0.1:
            ns, ne = rng.randint(2, 40), 1                 # early return
        elif k < 0.2:
            ns, ne = 1, rng.randint(2, 40)                 # one-atom mobile start
        elif k < 0.3:
            ns = ne = rng.randint(1, 12)                   # tie: start is the larger one
        elif k < 0.65:
            ne = rng.choice([2, 2, 3, 3, 4, 5, 6, 8, 12])
            ns = rng.randint(ne, 40)
        else:
            ns = rng.choice([2, 2, 3, 3, 4, 5, 6, 8, 12])
            ne = rng.randint(ns, 40)
        scale = 10 ** rng.uniform(-0.5, 0.7)
        lattice = rng.random() < 0.1
        n_mobile = ns if ns < ne else ne
        big_is_start = ns >= ne
        start = _mol(rng, ns, "STA", scale, 0.4 if big_is_start else 0.15, lattice)
        end = _mol(rng, ne, "END", scale, 0.15 if big_is_start else 0.4, lattice)
        big = start if big_is_start else end
        if all(n in HNAMES for n in big["names"]):
            big["names"][0] = "C1"
        if rng.random() < 0.15:     # translate one molecule far away: move_to has real work to do
            sh = [rng.uniform(-5, 5) for _ in range(3)]
            end["pos"] = [[p[j] + sh[j] for j in range(3)] for p in end["pos"]]
        c = {"kind": "align", "start": start, "end": end, "restr": _restr(rng, ns, ne),
             "cls": ("early-return" if ne == 1 else "mobile-start" if ns < ne else "mobile-end")
                    + (":lattice" if lattice else "")}
        c.update(_opts(rng, n_mobile))
        if n_mobile >= 20:
            c["steps_factor"] = min(c["steps_factor"], 10)
        yield c


# ----------------------------------------------------------------------------- building molecules

_uid = [0]


def _write(d, tag, mol):
    gro = os.path.join(d, tag + ".gro")
    itp = os.path.join(d, tag + ".itp")
    with open(gro, "w") as f:
        f.write("generated\n%5d\n" % len(mol["names"]))
        for i, (n, p) in enumerate(zip(mol["names"], mol["pos"])):
            f.write("%5d%-5s%5s%5d%8.3f%8.3f%8.3f\n" % (1, mol["res"], n, i + 1, p[0], p[1], p[2]))
        f.write("  20.00000  20.00000  20.00000\n")
    with open(itp, "w") as f:
        f.write("[ moleculetype ]\n; name nrexcl\n%s 1\n\n[ atoms ]\n" % mol["res"])
        for i, n in enumerate(mol["names"]):
            f.write("%5d  X  1  %s  %s  %d  0.0  1.0\n" % (i + 1, mol["res"], n, i + 1))
        f.write("\n[ bonds ]\n")
        for a, b in mol["bonds"]:
            f.write("%5d %5d 1 0.1 1000\n" % (a + 1, b + 1))
        f.write("\n")
    return gro, itp


def build(ctx, mol):
    from gaddlemaps.components import Molecule
    _uid[0] += 1
    m = Molecule.from_files(*_write(ctx.scratch, f"m{_uid[0]}", mol))
    m.atoms_positions = np.array(mol["pos"], dtype=float).reshape(-1, 3)   # full-precision coordinates
    return m


def shipped(pair, swap):
    import gaddlemaps
    from gaddlemaps.components import Molecule, System
    P = gaddlemaps.DATA_FILES_PATH
    if pair == "BF4":
        aa = Molecule.from_files(P["BF4_AA.gro"], P["BF4_AA.itp"])
        cg = Molecule.from_files(P["BF4_CG.gro"], P["BF4_CG.itp"])
    else:
        aa = Molecule.from_files(P["BMIM_AA.gro"], P["BMIM_AA.itp"])
        syst = System(P["system_bmimbf4_cg.gro"], P["BMIM_CG.itp"], P["BF4_CG.itp"])
        cg = next(m for m in syst if m.name == "BMIM")
    return (aa, cg) if swap else (cg, aa)


def snapshot(m):
    return {"pos": np.array(m.atoms_positions, dtype=float, copy=True),
            "names": [a.name for a in m], "resnames": [a.resname for a in m],
            "ids": list(m.atoms_ids), "bonds": [sorted(a.bonds) for a in m], "n": len(m)}


def same_snapshot(a, b):
    return (same_bits(a["pos"], b["pos"]) and a["names"] == b["names"] and a["resnames"] == b["resnames"]
            and a["ids"] == b["ids"] and a["bonds"] == b["bonds"] and a["n"] == b["n"])


def mol_tokens(m):
    names = [a.name for a in m]
    bonds = [list(a.bonds) for a in m]       # the iteration order of each set, as the library sees it
    t = [cfg_tokens(m.atoms_positions), str(len(names))] + [hexs(n) for n in names]
    t.append(str(len(bonds)))
    for b in bonds:
        t.append(" ".join([str(len(b))] + [str(int(j)) for j in b]))
    return " ".join(t)


def is_tree(n, bonds):
    """connected and |E| = n-1 over distinct undirected bonds"""
    und = {tuple(sorted(b)) for b in bonds}
    if len(und) != n - 1:
        return False
    adj = {i: set() for i in range(n)}
    for a, b in und:
        adj[a].add(b)
        adj[b].add(a)
    seen, stack = {0}, [0]
    while stack:
        for j in adj[stack.pop()]:
            if j not in seen:
                seen.add(j)
                stack.append(j)
    return len(seen) == n


def run_alignment(start, end, case):
    from gaddlemaps import Alignment
    ali = Alignment(start, end)
    reuse = case.get("reuse")
    if reuse is None:
        reuse = int(case["seed"]) % 3 == 0 and not str(case.get("cls", "")).startswith("malformed")
    if reuse:
        # ONE Alignment object used twice (what a notebook session or a trajectory loop does): first on another
        # conformation of the mobile molecule (all its bond lengths x1.37), then — after re-assigning start and
        # end — on the case's molecules.  The second alignment must be what a fresh Alignment gives: bond
        # lengths, widths etc. are those of the molecules held NOW (seed C06-3: bond table cached per species,
        # Molecule.__eq__ compares names only).
        try:
            mobile_is_start = len(start) < len(end)
            small = start if mobile_is_start else end
            decoy = small.copy()
            decoy.atoms_positions = np.array(decoy.atoms_positions) * 1.37 + np.array([0.3, -0.2, 0.1])
            if mobile_is_start:
                ali.start = decoy
            else:
                ali.end = decoy
            ali.STEPS_FACTOR = 2
            np.random.seed(12345)
            with np.errstate(all="ignore"):
                ali.align_molecules(restrictions=[tuple(r) for r in case["restr"]],
                                    deformation_types=None if case["deform"] is None else tuple(case["deform"]),
                                    ignore_hydrogens=bool(case["ignore_h"]))
        except Exception:   # noqa: BLE001  (the decoy run is not the case under test)
            pass
        ali.start = start
        ali.end = end
    ali.STEPS_FACTOR = int(case["steps_factor"])
    init = (snapshot(ali.start), snapshot(ali.end))
    restr = [tuple(r) for r in case["restr"]]
    deform = None if case["deform"] is None else tuple(case["deform"])
    np.random.seed(case["seed"])
    err = None
    with Recorder() as rec:
        try:
            ali.align_molecules(restrictions=restr, deformation_types=deform,
                                ignore_hydrogens=bool(case["ignore_h"]))
        except Exception as e:   # noqa: BLE001
            err = e
    return ali, init, rec, err


NOTES = [
    "the type-2 proposal (move_mol_atom's result) is taken from the implementation as input of the model's "
    "step: its own correspondence is C07's; the overlap measure's values are taken from the implementation "
    "(C08's correspondence)",
    "chi2_min and counter are not externally visible: reconstructed from the new-minimum prints and the exit time",
    "the search's bookkeeping clauses (C09) are compared with the model here but only C06's own clauses are "
    "oracle failures of C06",
]


def evaluate(ctx, case):
    ctx.extra["correspondence_notes"] = NOTES
    if case["kind"] == "shipped":
        start, end = shipped(case["pair"], case["swap"])
    else:
        start, end = build(ctx, case["start"]), build(ctx, case["end"])
    cls = case.get("cls", "?")
    ctx.count("class:" + cls)
    if case.get("reuse") or (case.get("reuse") is None and int(case["seed"]) % 3 == 0 and not cls.startswith("malformed")):
        ctx.count("alignment-object-reused-after-a-decoy-run")
    caller0 = (snapshot(start), snapshot(end))
    ali, init, rec, err = run_alignment(start, end, case)
    caller1 = (snapshot(start), snapshot(end))
    s0, e0 = init
    ns, ne = s0["n"], e0["n"]
    small_is_start = ns < ne
    deform = case["deform"]
    fails = {}

    def fail(key, detail=None):
        fails.setdefault(key, detail)

    # the model's view of the inputs (taken from the Alignment's own copies before the call)
    sf = int(case["steps_factor"])
    restr = [tuple(int(x) for x in r) for r in case["restr"]]
    common_toks = " ".join([
        _mol_tokens_from(s0, ali.start), _mol_tokens_from(e0, ali.end),
        " ".join([str(len(restr))] + [f"{a} {b}" for a, b in restr]),
        "-1" if deform is None else " ".join(["0", str(len(deform))] + [str(int(d)) for d in deform]),
        "1" if case["ignore_h"] else "0"])

    if not same_snapshot(caller0[0], caller1[0]) or not same_snapshot(caller0[1], caller1[1]):
        fail("caller-molecules-modified")
    if not same_snapshot(caller0[0], s0) or not same_snapshot(caller0[1], e0):
        fail("alignment-copy-differs-from-caller")

    if err is not None:
        name = type(err).__name__
        ctx.case(case, nontrivial=False)
        ctx.count("error:" + name)
        if name == "RunawayLoop":
            # the search did not stop when the model's loop does (C09's exact-stop clause, not C06's)
            mcwrap.disagree(ctx, case, "search still running after budget+1 iterations without a new minimum",
                            str(err)[:200], "exit")
            return
        if not cls.startswith("malformed"):
            fail("raises-" + name, str(err)[:200])
        ctx.oracle_ok(2)
        for k, d in fails.items():
            ctx.oracle_fail("align:" + k, case, d)

        def cb(status, toks, case, name=name):
            if status != "err" or toks[0] != name:
                mcwrap.disagree(ctx, case, "align_molecules error class", name, [status] + toks[:1])
        # errors before the search come out of the plan; errors inside come out of the whole run
        ctx.model.ask("align_run", f"{sf} {fbits(ali.SIGMA_SCALE)} {common_toks} 0 0 0", cb, case)
        return

    s1, e1 = snapshot(ali.start), snapshot(ali.end)
    mcall = next((e[1] for e in rec.events if e[0] == "minimize_call"), None)
    mret = next((e[1] for e in rec.events if e[0] == "minimize_ret"), None)
    start_idx = next((i for i, e in enumerate(rec.events) if e[0] == "chi2_new"), None)
    run = None
    if start_idx is not None:
        try:
            run, _ = parse_run(rec.events, start_idx)
        except GrammarError as ex:
            mcwrap.disagree(ctx, case, f"event stream does not follow the loop's grammar: {ex}", None, None)
    K = len(run.steps) if run else 0
    ctx.case(case, nontrivial=K > 0,
             sample={"n_start": ns, "n_end": ne, "deform": deform, "ignore_h": case["ignore_h"],
                     "steps_factor": sf, "restr": case["restr"][:4], "iterations": K, "cls": cls})
    ctx.count("deform:" + ("default" if deform is None else "".join(str(d) for d in sorted(set(deform)))))
    ctx.count("ignore_h:" + str(bool(case["ignore_h"])))
    ctx.count("roles:" + ("early-return" if ne == 1 else "mobile=start" if small_is_start else "mobile=end"))

    # ---------------- oracle: the clauses of the property on the real code
    scale = max(1.0, float(np.abs(s0["pos"]).max()), float(np.abs(e0["pos"]).max()))
    shift = e0["pos"].mean(axis=0) - s0["pos"].mean(axis=0)
    if not small_is_start:
        # start is the molecule with more atoms (ties: start): only translated by the centre difference
        if abs(s1["pos"] - (s0["pos"] + shift)).max() > TOL * scale:
            fail("larger-start-not-translated-by-centre-difference",
                 float(abs(s1["pos"] - (s0["pos"] + shift)).max()))
        mob0, mob1, mob_bonds = e0, e1, e0["bonds"]
        mob_ref = e0["pos"]
    else:
        # end is the larger one: untouched
        if not same_bits(e1["pos"], e0["pos"]):
            fail("larger-end-modified")
        mob0, mob1, mob_bonds = s0, s1, s0["bonds"]
        mob_ref = s0["pos"]
    nm = mob0["n"]
    pairs = [(i, j) for i in range(nm) for j in mob_bonds[i] if i < j]
    if ne == 1:
        if not same_bits(e1["pos"], e0["pos"]):
            fail("one-atom-end-modified")
    tree = is_tree(nm, pairs)
    ctx.count("mobile-graph:" + ("tree" if tree else "not-a-tree"))
    d0 = np.linalg.norm(mob_ref[:, None, :] - mob_ref[None, :, :], axis=2)
    d1 = np.linalg.norm(mob1["pos"][:, None, :] - mob1["pos"][None, :, :], axis=2)
    if tree and pairs:
        worst = max(abs(d1[i, j] - d0[i, j]) for i, j in pairs)
        if worst > TOL * scale:
            fail("bonded-distance-changed", float(worst))
    enabled = (0,) if (deform is None and (ns == 1 or ne == 1)) else (0, 1, 2) if deform is None else tuple(deform)
    if 2 not in enabled and abs(d1 - d0).max() > TOL * scale:
        fail("pairwise-distance-changed-without-atom-moves", float(abs(d1 - d0).max()))
    for a, b, who in ((s0, s1, "start"), (e0, e1, "end")):
        if a["names"] != b["names"] or a["resnames"] != b["resnames"] or a["ids"] != b["ids"] or a["n"] != b["n"] \
                or a["bonds"] != b["bonds"]:
            fail(f"{who}-names-or-order-changed")
        if not np.isfinite(b["pos"]).all():
            fail(f"{who}-non-finite")
    # determinism: same inputs, same seed, again
    ali2, init2, rec2, err2 = run_alignment(start, end, case)
    dr1 = [e[4] for e in rec.events if e[0] == "draw"]
    dr2 = [e[4] for e in rec2.events if e[0] == "draw"]
    if err2 is not None or len(dr1) != len(dr2) or not all(same_bits(a, b) for a, b in zip(dr1, dr2)) \
            or not same_bits(ali2.start.atoms_positions, s1["pos"]) or not same_bits(ali2.end.atoms_positions, e1["pos"]):
        fail("not-deterministic", {"draws": [len(dr1), len(dr2)]})
    ctx.oracle_ok(9)
    for k, d in fails.items():
        ctx.oracle_fail("align:" + k, case, d)

    # ---------------- model: the plan handed to the backend
    def cb_plan(status, toks, case):
        if status != "ok":
            mcwrap.disagree(ctx, case, "align_plan: model reports an error, implementation ran", "ok", toks[:2])
            return
        r = Reader(toks)
        kind = r.tok()
        if kind == "early":
            sp = r.cfg()
            if mcall is not None:
                mcwrap.disagree(ctx, case, "align_plan: model returns early, implementation called the backend", "call", "early")
            if not close_cfg(sp, s1["pos"]):
                mcwrap.disagree(ctx, case, "align_plan: start after move_to (early return)", s1["pos"], sp)
            ctx.count("model:early-return")
            return
        if mcall is None:
            mcwrap.disagree(ctx, case, "align_plan: implementation returned early, model plans a search", "early", "plan")
            return
        small = bool(r.int())
        sp = r.cfg()
        fixed = r.cfg()
        nr = r.int()
        mrestr = [(r.int(), r.int()) for _ in range(nr)]
        mobile = r.cfg()
        nrow = r.int()
        binfo = []
        for _ in range(nrow):
            k = r.int()
            binfo.append([(r.int(), r.float()) for _ in range(k)])
        nsteps = r.int()
        width = r.float()
        nsim = r.int()
        sim = [r.int() for _ in range(nsim)]
        bad = []
        if small != small_is_start:
            bad.append("role")
        if not close_cfg(fixed, mcall["mol1"]):
            bad.append("mol1_positions")
        if not close_cfg(mobile, mcall["mol2"]):
            bad.append("mol2_positions")
        if mrestr != list(mcall["restr"]):
            bad.append("restrictions")
        if nsteps != int(mcall["n_steps"]):
            bad.append("n_steps")
        if not mcwrap.close_cfg([[width, 0, 0]], [[float(mcall["width"]), 0, 0]]):
            bad.append("translation_width")
        if sim != [int(x) for x in mcall["sim_type"]]:
            bad.append("sim_type")
        ibi = mcall["bonds_info"]
        for i, row in enumerate(binfo):
            irow = ibi.get(i, [])
            if [j for j, _ in row] != [j for j, _ in irow] or \
                    not close_cfg([[d, 0, 0] for _, d in row], [[d, 0, 0] for _, d in irow]):
                bad.append("bonds_info")
                break
        if float(mcall["sigma"]) != float(ali.SIGMA_SCALE):
            bad.append("sigma_scale")
        # the positions of start after move_to: observable as mol1/mol2 of the call
        exp_sp = mcall["mol2"] if small_is_start else (mcall["mol1"] if not case["ignore_h"] else None)
        if exp_sp is not None and not close_cfg(sp, exp_sp):
            bad.append("start-after-move_to")
        if bad:
            mcwrap.disagree(ctx, case, "align_plan: " + ",".join(bad),
                         {k: mcall[k] for k in ("restr", "n_steps", "width", "sim_type")},
                         {"restr": mrestr, "n_steps": nsteps, "width": width, "sim_type": sim})
    ctx.model.ask("align_plan", f"{sf} {common_toks}", cb_plan, case)

    # ---------------- model: the search, transition level, and the whole alignment
    if run is not None and mcall is not None:
        if not same_bits(run.fixed, mcall["mol1"]) or list(run.restr) != list(mcall["restr"]) \
                or not same_bits(run.held0_snap, mcall["mol2"]):
            mcwrap.disagree(ctx, case, "objective constructed on other arguments than those handed to the backend", None, None)
        # branch counters only: the search's own clauses are C09's statement, not C06's
        mcwrap.oracle_run(ctx, case, run, mret, mcall["n_steps"], mcall["sim_type"], mcall["mol2"],
                          keyprefix="align-search", report=False)
        check_run(ctx, case, run, mret, mcall["n_steps"], mcall["sim_type"], tag="align-mc")
        # write-back observed directly
        target = s1 if small_is_start else e1
        if mret is not None and not same_bits(target["pos"], mret):
            mcwrap.disagree(ctx, case, "write-back: smaller molecule does not hold the backend's result", target["pos"], mret)
        try:
            draws = [d for st in run.steps for d in st.draws]
            moves = [mcwrap.move_entry(st) for st in run.steps if st.move]
            chis = [cfg_tokens(run.held0_snap) + " " + fbits(run.chi2_0)]
            chis += [cfg_tokens(st.test_snap) + " " + fbits(st.chi2_new) for st in run.steps]
            if K <= 4000:
                req = " ".join([str(sf), fbits(ali.SIGMA_SCALE), common_toks, mcwrap.tape_tokens(draws),
                                " ".join([str(len(moves))] + moves), " ".join([str(len(chis))] + chis)])

                def cb_run(status, toks, case):
                    if status != "ok":
                        mcwrap.disagree(ctx, case, "align_run: model error", "ok", toks[:2])
                        return
                    r = Reader(toks)
                    ms, me = r.cfg(), r.cfg()
                    left = r.int()
                    if not close_cfg(ms, s1["pos"]) or not close_cfg(me, e1["pos"]) or left != 0:
                        mcwrap.disagree(ctx, case, "align_run: final coordinates of start/end (1e-9), tape leftover",
                                     {"start": s1["pos"], "end": e1["pos"]}, {"start": ms, "end": me, "left": left})
                ctx.count("model:whole-alignment-replays")
                ctx.model.ask("align_run", req, cb_run, case)
        except GrammarError as ex:
            mcwrap.disagree(ctx, case, f"align_run cannot be encoded: {ex}", None, None)
    elif mcall is None:
        # early return: whole alignment without a search
        def cb_early(status, toks, case):
            if status != "ok":
                mcwrap.disagree(ctx, case, "align_run (early return): model error", "ok", toks[:2])
                return
            r = Reader(toks)
            ms, me = r.cfg(), r.cfg()
            if not close_cfg(ms, s1["pos"]) or not same_bits(me, e1["pos"]):
                mcwrap.disagree(ctx, case, "align_run (early return): final coordinates", {"start": s1["pos"], "end": e1["pos"]},
                             {"start": ms, "end": me})
        ctx.model.ask("align_run", f"{sf} {fbits(ali.SIGMA_SCALE)} {common_toks} 0 0 0", cb_early, case)


def _mol_tokens_from(snap, m):
    """tokens of a molecule: positions from the snapshot taken BEFORE the call, names and the bond
    table (per-atom set iteration order) from the object"""
    names = snap["names"]
    bonds = [list(a.bonds) for a in m]
    t = [cfg_tokens(snap["pos"]), str(len(names))] + [hexs(n) for n in names]
    t.append(str(len(bonds)))
    for b in bonds:
        t.append(" ".join([str(len(b))] + [str(int(j)) for j in b]))
    return " ".join(t)
