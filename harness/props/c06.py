"""C06 — alignment moves molecules only by structure-preserving transformations.

Cases:
  {"kind": "align", "start": MOL, "end": MOL, "restr": [[i,j]..], "deform": null | [..], "ignore_h": bool,
   "steps_factor": k, "seed": S, "cls": "..."}       MOL = {"res": str, "names": [..], "pos": [[3]..], "bonds": [[a,b]..]}
  {"kind": "shipped", "pair": "BF4" | "BMIM", "swap": bool, ... same options ...}
  {"kind": "session", ...}                           one Alignment object driven through setters / init_exchange_map /
                                                     write_comparative_gro / the unset refusals (harness.alisession)
  MOL may carry "residues": [[resname, size]..] (multi-residue molecule) and "vel": true; "restr": null together with
  "auto_guess": bool takes the `restrictions=None` path of align_molecules (guess_protein_restrains).

Real `Molecule` objects are built from .gro/.itp files written into the scratch directory and loaded
through gaddlemaps' own parsers; `Alignment(start, end).align_molecules(...)` is run under
`harness.mcwrap.Recorder`.  Checked on every case:
  * oracle = the clauses of the property on the real code (larger molecule only translated / untouched,
    bonded distances of the other molecule, all pairwise distances without single-atom moves, names and
    order, finiteness, bit-identical repeat under the same seed, caller's objects unmodified);
  * model  = `alignPrepareG` (everything handed to `minimize_molecules`, incl. the guessed restraints), the search
    (transition level + whole run, as C09) and the whole `alignMoleculesG` (final coordinates of both molecules);
  * after every alignment: `write_comparative_gro` (explicit and default file name, scratch cwd) and
    `init_exchange_map` on the SAME Alignment object — bytes / map table against `GMModel.Comparative`, and the
    clauses about them (records, purity, round trip, map of the current stored molecules) on the real objects.
"""
import json
import os
import sys

import numpy as np
from ..common import quiet as _quiet

from ..common import fbits, hexs, unfbits, unhexs
from .. import mcwrap
from .. import alisession
from .. import heapgen as hg
from ..mcwrap import Recorder, GrammarError, parse_run, check_run, cfg_tokens, Reader, same_bits, close_cfg

RULE = ("align: start/end molecules with random-tree bond graphs of 1..40 atoms (either larger, equal sizes, "
        "1-atom molecules), atom names with random hydrogens (H, H1, HA.., CH3, digits first), generic and "
        "lattice coordinates, restraint lists empty/partial/duplicated/out-of-filter, deformation tuple None or "
        "every non-empty subset (type 2 only with >= 2 mobile atoms), ignore_hydrogens on/off, STEPS_FACTOR "
        "1..50, np.random.seed per case; shipped BF4 and BMIM AA/CG pairs in both orders; a small malformed "
        "stream (disconnected mobile molecule, fixed molecule without bonds / only hydrogens). Non-trivial = "
        "the search ran at least one iteration; distinct by canonical hash. guess: multi-residue start/end molecules "
        "with restrictions=None (equal residue counts with equal / substring-similar / different names, unequal "
        "counts, auto_guess off, single-residue start); every alignment is followed by write_comparative_gro "
        "(explicit + default name) and init_exchange_map on the same object; session: one Alignment object driven "
        "through 4..10 calls out of {start=, end= (None, non-Molecule, same species, other species), align_molecules "
        "on an unset side, init_exchange_map, write_comparative_gro (explicit / default / .GRO / no dot / wrong "
        "extension / sub-directory), coordinate assignments on stored and caller's molecules, AtomGro.gro_line}.")

TOL = 1e-9
SUBSETS = [(0,), (1,), (2,), (0, 1), (0, 2), (1, 2), (0, 1, 2)]
HNAMES = ["H", "H1", "H2", "H12", "H3"]
HEAVY = ["C1", "C2", "N1", "O1", "CA", "CH3", "HA", "HB1", "OH", "1HB", "S", "P4", "Q01", "B1"]


def _mol(rng, n, res, scale, h_frac, lattice=False, connected=True, bonded=True):
    names = []
    for i in range(n):
        if rng.random() < h_frac:
            names.append(rng.choice(HNAMES))
        else:
            names.append(rng.choice(HEAVY))
    if lattice:
        pts = set()
        while len(pts) < n:
            pts.add(tuple(float(rng.randint(-4, 4)) * 0.25 for _ in range(3)))
        pos = [list(p) for p in pts]
        rng.shuffle(pos)
    else:
        pos = [[rng.uniform(0, 1) * scale for _ in range(3)] for _ in range(n)]
    bonds = [[rng.randrange(i), i] for i in range(1, n)] if bonded else []
    if not connected and n >= 3:
        bonds = bonds[:-1]
    # random relabelling so that parents do not always precede children
    perm = list(range(n))
    rng.shuffle(perm)
    bonds = [[perm[a], perm[b]] for a, b in bonds]
    return {"res": res, "names": names, "pos": pos, "bonds": bonds}


def _restr(rng, ns, ne):
    k = rng.random()
    if k < 0.4:
        return []
    if k < 0.7:
        return [[rng.randrange(ns), rng.randrange(ne)] for _ in range(rng.randint(1, 4))]
    if k < 0.85:
        i = rng.randrange(ns)
        return [[i, rng.randrange(ne)] for _ in range(2)] + [[rng.randrange(ns), rng.randrange(ne)]]
    return [[i, rng.randrange(ne)] for i in range(ns)]


def _opts(rng, n_mobile):
    subs = [s for s in SUBSETS if n_mobile >= 2 or 2 not in s]
    deform = None if rng.random() < 0.25 else list(rng.choice(subs))
    return {"deform": deform, "ignore_h": rng.random() < 0.6,
            "steps_factor": rng.choice([1, 2, 3, 5, 5, 8, 10, 20, 50]), "seed": rng.randrange(2 ** 31)}


def generate(ctx):
    rng = ctx.rng
    # shipped pairs
    for pair in ("BF4", "BMIM"):
        for swap in (False, True):
            for _ in range(ctx.n(1, 6)):
                c = {"kind": "shipped", "pair": pair, "swap": swap, "restr": [], "cls": f"shipped-{pair}"}
                c.update(_opts(rng, 1 if pair == "BF4" else 3))
                c["steps_factor"] = min(c["steps_factor"], 10)
                yield c
    # malformed / outside the quantifier (error classes must agree with the model)
    for cls in ("malformed:disconnected-mobile", "malformed:fixed-no-bonds", "malformed:fixed-all-hydrogen"):
        big = _mol(rng, 5, "BIG", 1.0, 0.3, bonded=cls != "malformed:fixed-no-bonds")
        if cls == "malformed:fixed-all-hydrogen":
            big["names"] = ["H1"] * 5
        small = _mol(rng, 3, "SML", 1.0, 0.0, connected=cls != "malformed:disconnected-mobile")
        c = {"kind": "align", "start": big, "end": small, "restr": [], "cls": cls}
        c.update(_opts(rng, 3))
        c["ignore_h"] = True
        yield c
    # degenerate hub: the mobile molecule has an atom with >= 3 bonds whose bonded neighbours lie on ONE line,
    # so the "plane through the first three neighbours" of the single-atom move does not exist (zero cross
    # product -> non-finite proposal, which the search must reject): the result still has to be finite and
    # bit-identical under the same seed (seed C06-2: a fallback direction from an unseeded generator)
    for i in range(ctx.n(12, 150)):
        nm = rng.randint(4, 7)
        nh = rng.choice([3, 3, 4])
        hub = 0
        c0 = [rng.uniform(-0.5, 0.5) for _ in range(3)]
        d = [rng.choice([-1.0, 0.0, 1.0]) for _ in range(3)]
        if not any(d):
            d = [1.0, 0.0, 0.0]
        step = rng.choice([0.125, 0.25, 0.5])
        pos = [[c0[0] + 0.21, c0[1] - 0.17, c0[2] + 0.3]]
        ks = rng.sample([-3, -2, -1, 0, 1, 2, 3], nh)
        for kk in ks:
            pos.append([c0[j] + kk * step * d[j] for j in range(3)])
        bonds = [[hub, j] for j in range(1, nh + 1)]
        while len(pos) < nm:
            a = len(pos)
            par = rng.randrange(1, a)
            pos.append([pos[par][j] + rng.uniform(-0.3, 0.3) for j in range(3)])
            bonds.append([par, a])
        small = {"res": "HUB", "names": [rng.choice(HEAVY) for _ in range(len(pos))], "pos": pos, "bonds": bonds}
        big = _mol(rng, rng.randint(len(pos) + 1, 14), "BIG", 1.0, 0.2)
        if all(n in HNAMES for n in big["names"]):
            big["names"][0] = "C1"
        swap = rng.random() < 0.5
        c = {"kind": "align", "start": small if swap else big, "end": big if swap else small,
             "restr": [], "cls": "degenerate-hub:" + ("mobile-start" if swap else "mobile-end")}
        c.update(_opts(rng, len(pos)))
        c["deform"] = list(rng.choice([(2,), (0, 2), (1, 2), (0, 1, 2)]))
        c["steps_factor"] = rng.choice([5, 10, 20])
        yield c
    for i in range(ctx.n(120, 2000)):
        k = rng.random()
        if k < 0.1:
            ns, ne = rng.randint(2, 40), 1                 # early return
        elif k < 0.2:
            ns, ne = 1, rng.randint(2, 40)                 # one-atom mobile start
        elif k < 0.3:
            ns = ne = rng.randint(1, 12)                   # tie: start is the larger one
        elif k < 0.65:
            ne = rng.choice([2, 2, 3, 3, 4, 5, 6, 8, 12])
            ns = rng.randint(ne, 40)
        else:
            ns = rng.choice([2, 2, 3, 3, 4, 5, 6, 8, 12])
            ne = rng.randint(ns, 40)
        scale = 10 ** rng.uniform(-0.5, 0.7)
        lattice = rng.random() < 0.1
        n_mobile = ns if ns < ne else ne
        big_is_start = ns >= ne
        start = _mol(rng, ns, "STA", scale, 0.4 if big_is_start else 0.15, lattice)
        end = _mol(rng, ne, "END", scale, 0.15 if big_is_start else 0.4, lattice)
        big = start if big_is_start else end
        if all(n in HNAMES for n in big["names"]):
            big["names"][0] = "C1"
        if rng.random() < 0.15:     # translate one molecule far away: move_to has real work to do
            sh = [rng.uniform(-5, 5) for _ in range(3)]
            end["pos"] = [[p[j] + sh[j] for j in range(3)] for p in end["pos"]]
        c = {"kind": "align", "start": start, "end": end, "restr": _restr(rng, ns, ne),
             "cls": ("early-return" if ne == 1 else "mobile-start" if ns < ne else "mobile-end")
                    + (":lattice" if lattice else "")}
        c.update(_opts(rng, n_mobile))
        if n_mobile >= 20:
            c["steps_factor"] = min(c["steps_factor"], 10)
        yield c
    # (new streams are appended AFTER the ones above so that those keep their random stream)
    # restrictions=None: the automatic restraint guess for multi-residue molecules
    for i in range(ctx.n(36, 300)):
        yield _guess_case(rng)
    # one Alignment object as a state machine
    for i in range(ctx.n(90, 800)):
        yield _session_case(rng)
    # molecules built in a program on lattice sites, their atoms holding INTEGER coordinate arrays
    # (`AtomGro([1, 'M', 'C0', 1, 0, 1, 2])`): translation and rigid moves treat them like any other molecule (seed
    # C06-10: `atom.position[:] = pos` in the setter every move goes through casts the new coordinates to the dtype of
    # the old array).  Only WITHOUT single-atom moves and only integers: `move_mol_atom` adds the displacement in place
    # to a copy of the array it is given, so integer input is refused there and single-precision input loses digits — on
    # the unchanged tree, pinned by the repository's own test (its fixture is an integer array): arrays that are not
    # float64 are outside what C06/C07 can quantify over.
    for i in range(ctx.n(24, 300)):
        ne = rng.choice([2, 3, 3, 4, 5, 6])
        ns = rng.randint(ne, 14)
        if rng.random() < 0.4:
            ns, ne = ne, ns
        scale = 10 ** rng.uniform(-0.3, 0.5)
        big_is_start = ns >= ne
        start = _mol(rng, ns, "STA", scale, 0.4 if big_is_start else 0.15, False)
        end = _mol(rng, ne, "END", scale, 0.15 if big_is_start else 0.4, False)
        big = start if big_is_start else end
        if all(n in HNAMES for n in big["names"]):
            big["names"][0] = "C1"
        dt = "int64"
        for m in (start, end):
            if dt == "int64":
                m["pos"] = [[float(round(v * 4.0 / scale)) for v in q] for q in m["pos"]]     # distinct lattice sites mostly
            else:
                m["pos"] = [[round(v * 64.0) / 64.0 for v in q] for q in m["pos"]]
            m["dtype"] = dt
        if dt == "int64" and (len({tuple(q) for q in start["pos"]}) < ns or len({tuple(q) for q in end["pos"]}) < ne):
            continue            # (two atoms on one site: bonds of length zero are another matter)
        c = {"kind": "align", "start": start, "end": end, "restr": _restr(rng, ns, ne),
             "cls": ("mobile-start" if ns < ne else "mobile-end") + ":" + dt}
        c.update(_opts(rng, 1))       # (n_mobile = 1: subsets without single-atom moves)
        if c["deform"] is None:
            c["deform"] = [0, 1]
        yield c

    # the same files, the same numpy seed, in FRESH interpreters that differ only in the string-hash salt
    # (PYTHONHASHSEED): the outcome must be bit-identical (seed C06-11: the bonded sections of the .itp walked in the
    # iteration order of a set of strings; the neighbour order of an atom whose neighbours' indexes collide modulo 8
    # then depends on the salt).  The mobile molecule is a tree of >= 10 atoms whose links are spread over
    # [ bonds ] / [ constraints ] / [ pairs ] (all three are connections for MoleculeTop), one atom having two
    # neighbours 8 apart in numbering that come from different sections.
    for i in range(ctx.n(5, 40)):
        yield _hashsalt_case(rng)


RESNAMES = ["ALA", "GLY", "SER", "LYS", "TRP", "W", "PO4", "ASP"]


def _layout(rng, k, similar_to=None, mode="equal"):
    """[[resname, size]..] with k residues; `similar_to`: names taken from / derived from another layout"""
    out = []
    for j in range(k):
        size = rng.randint(1, 4)
        if similar_to is not None and j < len(similar_to):
            base = similar_to[j][0]
            if mode == "equal":
                name = base
            elif mode == "substring":
                name = rng.choice([base + "N", "N" + base, base[:2] or base, base])[:5]
            else:   # "different": no containment either way
                name = rng.choice([n for n in RESNAMES if n not in base and base not in n])
        else:
            name = rng.choice(RESNAMES)
        out.append([name, size])
    return out


def _guess_case(rng):
    k = rng.random()
    ks = rng.randint(2, 4)
    if k < 0.12:
        ks = 1                                                    # single-residue start: no guess at all
    ls = _layout(rng, ks)
    if k < 0.12:
        ke, mode, cls = rng.randint(1, 3), "equal", "guess:single-residue-start"
    elif k < 0.42:
        ke, mode, cls = ks, "equal", "guess:equal-names"
    elif k < 0.57:
        ke, mode, cls = ks, "substring", "guess:similar-names"
    elif k < 0.72:
        ke, mode, cls = ks, "different", "guess:refused:different-names"
    elif k < 0.9:
        ke = rng.choice([j for j in (1, 2, 3, 4, 5) if j != ks])
        mode, cls = "equal", "guess:refused:unequal-residue-count"
    else:
        ke, mode, cls = ks, "equal", "guess:equal-names"
    le = _layout(rng, ke, similar_to=ls, mode=mode)
    if cls == "guess:similar-names" and all(a[0] == b[0] for a, b in zip(ls, le)):
        cls = "guess:equal-names"
    ns, ne = sum(s for _, s in ls), sum(s for _, s in le)
    auto = rng.random() < 0.85
    if not auto:
        cls = "guess:auto-guess-off"
    start = _mol(rng, ns, "STA", 1.5, 0.2)
    end = _mol(rng, ne, "END", 1.5, 0.2)
    start["residues"], end["residues"] = ls, le
    for m in (start, end):
        # residues with the same (name, size) must carry the same atom names: the coordinate-file view keeps one
        # prototype residue per (name, size) (C12)
        proto, k = {}, 0
        for rn, size in m["residues"]:
            names = proto.setdefault((rn, size), m["names"][k:k + size])
            m["names"][k:k + size] = names
            k += size
        if all(n in HNAMES for n in m["names"]):
            m["names"] = ["C1" if n in HNAMES else n for n in m["names"]]
    c = {"kind": "align", "start": start, "end": end, "restr": None, "auto_guess": auto, "cls": cls}
    c.update(_opts(rng, min(ns, ne)))
    c["steps_factor"] = rng.choice([1, 2, 3])
    c["reuse"] = False
    return c


SESSION_FILES = [None, None, None, "out.gro", "cmp_file.gro", "UPPER.GRO", "gro", "a.b.gro", "out.pdb", "noext",
                 "out.gro.txt", "sub/in.gro"]
OTHER_KINDS = ["residue", "str", "int", "atom", "top", "agro"]


def _session_case(rng):
    """a script for one Alignment object; molecules 0,2 are of species A, 1,3 of species B (same species = same
    topology, other coordinates)"""
    sp = [hg.gen_species(rng, "A", 3, 9, rmax=3), hg.gen_species(rng, "B", 3, 9, rmax=3)]
    mols = [{"sp": k % 2, "vel": rng.random() < 0.4, "seed": rng.randrange(2 ** 31),
             "resid0": rng.choice([1, 1, 7, 99998]), "big_ids": rng.random() < 0.15} for k in range(4)]

    def arg(side):
        k = rng.random()
        if k < 0.12:
            return ["N"]
        if k < 0.24:
            return ["O", rng.choice(OTHER_KINDS)]
        own = [0, 2] if side == "start" else [1, 3]
        if k < 0.9:
            return ["M", rng.choice(own)]
        return ["M", rng.choice([0, 1, 2, 3])]            # possibly the other species

    k = rng.random()
    init = [["M", 0], ["M", 1]] if k < 0.55 else [arg("start"), arg("end")] if k < 0.85 else [["N"], ["N"]]
    ops = []
    for _ in range(rng.randint(4, 10)):
        k = rng.random()
        if k < 0.16:
            ops.append(["setstart", arg("start")])
        elif k < 0.32:
            ops.append(["setend", arg("end")])
        elif k < 0.40:
            ops.append(["alignchk"])
        elif k < 0.55:
            ops.append(["initmap", rng.choice([0.5, 1.0, 0.25, 2.0])])
        elif k < 0.78:
            ops.append(["cmp", rng.choice(SESSION_FILES)])
        elif k < 0.86:
            ops.append(["move", rng.choice(["S", "E", 0, 1, 2, 3]), [round(rng.uniform(-3, 3), 3) for _ in range(3)]])
        elif k < 0.94:
            ops.append(["setpos", rng.choice(["S", "E", 0, 1]), rng.randrange(2 ** 31),
                        rng.choice([1.0, 1.0, 30.0, 2000.0])])
        else:
            ops.append(["groline", rng.choice(["S", "E", 0, 1, 2, 3])])
    if not any(o[0] == "cmp" for o in ops):
        ops.append(["cmp", rng.choice(SESSION_FILES[:5])])
    return {"kind": "session", "species": sp, "mols": mols, "init": init, "ops": ops,
            "cls": "session", "seed": rng.randrange(2 ** 31)}


# ----------------------------------------------------------------------------- building molecules

_uid = [0]


def _residue_of_atom(mol):
    """per atom: (residue number starting at 1, residue name)"""
    layout = mol.get("residues") or [[mol["res"], len(mol["names"])]]
    out = []
    for k, (rn, size) in enumerate(layout):
        out += [(k + 1, rn)] * int(size)
    assert len(out) == len(mol["names"])
    return out


def _write(d, tag, mol):
    gro = os.path.join(d, tag + ".gro")
    itp = os.path.join(d, tag + ".itp")
    ra = _residue_of_atom(mol)
    with open(gro, "w") as f:
        f.write("generated\n%5d\n" % len(mol["names"]))
        for i, (n, p) in enumerate(zip(mol["names"], mol["pos"])):
            f.write("%5d%-5s%5s%5d%8.3f%8.3f%8.3f\n" % (ra[i][0], ra[i][1], n, i + 1, p[0], p[1], p[2]))
        f.write("  20.00000  20.00000  20.00000\n")
    with open(itp, "w") as f:
        f.write("[ moleculetype ]\n; name nrexcl\n%s 1\n\n[ atoms ]\n" % mol["res"])
        for i, n in enumerate(mol["names"]):
            f.write("%5d  X  %d  %s  %s  %d  0.0  1.0\n" % (i + 1, ra[i][0], ra[i][1], n, i + 1))
        f.write("\n[ bonds ]\n")
        for a, b in mol["bonds"]:
            f.write("%5d %5d 1 0.1 1000\n" % (a + 1, b + 1))
        f.write("\n")
    return gro, itp


def build(ctx, mol, vel=False):
    from gaddlemaps.components import Molecule
    _uid[0] += 1
    m = Molecule.from_files(*_write(ctx.scratch, f"m{_uid[0]}", mol))
    m.atoms_positions = np.array(mol["pos"], dtype=float).reshape(-1, 3)   # full-precision coordinates
    if mol.get("dtype"):
        for a, q in zip([x for res in m.residues for x in res], mol["pos"]):
            a.position = np.array(q, dtype=mol["dtype"])
    if vel or mol.get("vel"):
        # velocities on the caller's molecule: the alignment must carry them along untouched, the comparative
        # file must drop them
        m.atoms_velocities = np.array(mol["pos"], dtype=float).reshape(-1, 3)[::-1] * 0.25 - 0.125
    return m


def shipped(pair, swap):
    import gaddlemaps
    from gaddlemaps.components import Molecule, System
    P = gaddlemaps.DATA_FILES_PATH
    if pair == "BF4":
        aa = Molecule.from_files(P["BF4_AA.gro"], P["BF4_AA.itp"])
        cg = Molecule.from_files(P["BF4_CG.gro"], P["BF4_CG.itp"])
    else:
        aa = Molecule.from_files(P["BMIM_AA.gro"], P["BMIM_AA.itp"])
        syst = System(P["system_bmimbf4_cg.gro"], P["BMIM_CG.itp"], P["BF4_CG.itp"])
        cg = next(m for m in syst if m.name == "BMIM")
    return (aa, cg) if swap else (cg, aa)


def snapshot(m):
    v = m.atoms_velocities
    return {"pos": np.array(m.atoms_positions, dtype=float, copy=True),
            "vel": None if v is None else np.array(v, dtype=float, copy=True),
            "resids": [a.gro_resid for a in m],
            "names": [a.name for a in m], "resnames": [a.resname for a in m],
            "ids": list(m.atoms_ids), "bonds": [sorted(a.bonds) for a in m], "n": len(m)}


def same_snapshot(a, b):
    if (a["vel"] is None) != (b["vel"] is None) or (a["vel"] is not None and not same_bits(a["vel"], b["vel"])):
        return False
    return (same_bits(a["pos"], b["pos"]) and a["names"] == b["names"] and a["resnames"] == b["resnames"]
            and a["ids"] == b["ids"] and a["bonds"] == b["bonds"] and a["n"] == b["n"] and a["resids"] == b["resids"])


def mol_tokens(m):
    names = [a.name for a in m]
    bonds = [list(a.bonds) for a in m]       # the iteration order of each set, as the library sees it
    t = [cfg_tokens(m.atoms_positions), str(len(names))] + [hexs(n) for n in names]
    t.append(str(len(bonds)))
    for b in bonds:
        t.append(" ".join([str(len(b))] + [str(int(j)) for j in b]))
    return " ".join(t)


def is_tree(n, bonds):
    """connected and |E| = n-1 over distinct undirected bonds"""
    und = {tuple(sorted(b)) for b in bonds}
    if len(und) != n - 1:
        return False
    adj = {i: set() for i in range(n)}
    for a, b in und:
        adj[a].add(b)
        adj[b].add(a)
    seen, stack = {0}, [0]
    while stack:
        for j in adj[stack.pop()]:
            if j not in seen:
                seen.add(j)
                stack.append(j)
    return len(seen) == n


def run_alignment(start, end, case):
    from gaddlemaps import Alignment
    ali = Alignment(start, end)
    reuse = case.get("reuse")
    if reuse is None:
        reuse = int(case["seed"]) % 3 == 0 and not str(case.get("cls", "")).startswith("malformed")
    if reuse:
        # ONE Alignment object used twice (what a notebook session or a trajectory loop does): first on another
        # conformation of the mobile molecule (all its bond lengths x1.37), then — after re-assigning start and
        # end — on the case's molecules.  The second alignment must be what a fresh Alignment gives: bond
        # lengths, widths etc. are those of the molecules held NOW (seed C06-3: bond table cached per species,
        # Molecule.__eq__ compares names only).
        try:
            mobile_is_start = len(start) < len(end)
            small = start if mobile_is_start else end
            decoy = small.copy()
            decoy.atoms_positions = np.array(decoy.atoms_positions) * 1.37 + np.array([0.3, -0.2, 0.1])
            if mobile_is_start:
                ali.start = decoy
            else:
                ali.end = decoy
            ali.STEPS_FACTOR = 2
            np.random.seed(12345)
            import contextlib, io, warnings as _w
            with _quiet(), contextlib.redirect_stdout(io.StringIO()), _w.catch_warnings():
                _w.simplefilter("ignore")
                ali.align_molecules(restrictions=None if case["restr"] is None else [tuple(r) for r in case["restr"]],
                                    deformation_types=None if case["deform"] is None else tuple(case["deform"]),
                                    ignore_hydrogens=bool(case["ignore_h"]),
                                    auto_guess_protein_restrictions=bool(case.get("auto_guess", True)))
        except Exception:   # noqa: BLE001  (the decoy run is not the case under test)
            pass
        ali.start = start
        ali.end = end
    ali.STEPS_FACTOR = int(case["steps_factor"])
    init = (snapshot(ali.start), snapshot(ali.end))
    restr = None if case["restr"] is None else [tuple(r) for r in case["restr"]]
    deform = None if case["deform"] is None else tuple(case["deform"])
    np.random.seed(case["seed"])
    err = None
    with Recorder() as rec:
        try:
            ali.align_molecules(restrictions=restr, deformation_types=deform,
                                ignore_hydrogens=bool(case["ignore_h"]),
                                auto_guess_protein_restrictions=bool(case.get("auto_guess", True)))
        except Exception as e:   # noqa: BLE001
            err = e
    return ali, init, rec, err


NOTES = [
    "the type-2 proposal (move_mol_atom's result) is taken from the implementation as input of the model's "
    "step: its own correspondence is C07's; the overlap measure's values are taken from the implementation "
    "(C08's correspondence)",
    "chi2_min and counter are not externally visible: reconstructed from the new-minimum prints and the exit time",
    "the search's bookkeeping clauses (C09) are compared with the model here but only C06's own clauses are "
    "oracle failures of C06",
]


def evaluate(ctx, case):
    ctx.extra["correspondence_notes"] = NOTES
    if case["kind"] == "session":
        return _eval_session(ctx, case)
    if case["kind"] == "hashsalt":
        return _eval_hashsalt(ctx, case)
    if case["kind"] == "shipped":
        start, end = shipped(case["pair"], case["swap"])
    else:
        with_vel = int(case["seed"]) % 2 == 1
        start, end = build(ctx, case["start"], with_vel), build(ctx, case["end"], with_vel and int(case["seed"]) % 4 == 1)
    cls = case.get("cls", "?")
    ctx.count("class:" + cls)
    if case.get("reuse") or (case.get("reuse") is None and int(case["seed"]) % 3 == 0 and not cls.startswith("malformed")):
        ctx.count("alignment-object-reused-after-a-decoy-run")
    caller0 = (snapshot(start), snapshot(end))
    ali, init, rec, err = run_alignment(start, end, case)
    try:
        caller1 = (snapshot(start), snapshot(end))
    except Exception as e:   # noqa: BLE001
        # the caller's own molecules cannot even be read any more (e.g. topology labels rewritten under them)
        ctx.case(case, nontrivial=False)
        ctx.oracle_ok(1)
        ctx.oracle_fail(f"caller-molecules-unusable-after-alignment:{type(e).__name__}", case, {"error": repr(e)[:300]})
        return
    s0, e0 = init
    ns, ne = s0["n"], e0["n"]
    small_is_start = ns < ne
    deform = case["deform"]
    fails = {}

    def fail(key, detail=None):
        fails.setdefault(key, detail)

    # the model's view of the inputs (taken from the Alignment's own copies before the call)
    sf = int(case["steps_factor"])
    restr = None if case["restr"] is None else [tuple(int(x) for x in r) for r in case["restr"]]
    auto_guess = bool(case.get("auto_guess", True))
    common_toks = " ".join([
        _mol_tokens_from(s0, ali.start), _mol_tokens_from(e0, ali.end),
        _layout_tokens(ali.start), _layout_tokens(ali.end),
        "-1" if restr is None else " ".join(["0", str(len(restr))] + [f"{a} {b}" for a, b in restr]),
        "-1" if deform is None else " ".join(["0", str(len(deform))] + [str(int(d)) for d in deform]),
        "1" if case["ignore_h"] else "0", "1" if auto_guess else "0"])
    if restr is None:
        ctx.count("restrictions=None:" + ("multi-residue-start" if len(ali.start.resnames) > 1 else "single-residue-start")
                  + (":auto-guess-off" if not auto_guess else ""))

    if not same_snapshot(caller0[0], caller1[0]) or not same_snapshot(caller0[1], caller1[1]):
        fail("caller-molecules-modified")
    if not same_snapshot(caller0[0], s0) or not same_snapshot(caller0[1], e0):
        fail("alignment-copy-differs-from-caller")

    if err is not None:
        name = type(err).__name__
        ctx.case(case, nontrivial=False)
        ctx.count("error:" + name)
        if name == "RunawayLoop":
            # the search did not stop when the model's loop does (C09's exact-stop clause, not C06's)
            mcwrap.disagree(ctx, case, "search still running after budget+1 iterations without a new minimum",
                            str(err)[:200], "exit")
            return
        if cls.startswith("guess:refused"):
            # the documented refusal of the automatic guess: IOError carrying the advice to switch the guess off,
            # raised before anything was moved
            ctx.count("guess-refused:" + name)
            if not isinstance(err, OSError):
                fail("guess-refusal-is-not-an-IOError", name)
            elif "auto_guess_protein_restrictions" not in str(err) or "can not be guessed" not in str(err):
                fail("guess-refusal-lost-its-message", str(err)[:200])
            if not same_snapshot(snapshot(ali.start), s0) or not same_snapshot(snapshot(ali.end), e0):
                fail("guess-refusal-after-molecules-were-moved")
        elif not cls.startswith("malformed"):
            fail("raises-" + name, str(err)[:200])
        ctx.oracle_ok(2)
        for k, d in fails.items():
            ctx.oracle_fail("align:" + k, case, d)

        def cb(status, toks, case, name=name):
            if status != "err" or toks[0] != name:
                mcwrap.disagree(ctx, case, "align_molecules error class", name, [status] + toks[:1])
        # errors before the search come out of the plan; errors inside come out of the whole run
        ctx.model.ask("align_run_g", f"{sf} {fbits(ali.SIGMA_SCALE)} {common_toks} 0 0 0", cb, case)
        return
    if cls.startswith("guess:refused"):
        fail("guess-not-refused", cls)

    s1, e1 = snapshot(ali.start), snapshot(ali.end)
    mcall = next((e[1] for e in rec.events if e[0] == "minimize_call"), None)
    mret = next((e[1] for e in rec.events if e[0] == "minimize_ret"), None)
    start_idx = next((i for i, e in enumerate(rec.events) if e[0] == "chi2_new"), None)
    run = None
    if start_idx is not None:
        try:
            run, _ = parse_run(rec.events, start_idx)
        except GrammarError as ex:
            mcwrap.disagree(ctx, case, f"event stream does not follow the loop's grammar: {ex}", None, None)
    K = len(run.steps) if run else 0
    ctx.case(case, nontrivial=K > 0,
             sample={"n_start": ns, "n_end": ne, "deform": deform, "ignore_h": case["ignore_h"],
                     "steps_factor": sf, "restr": None if case["restr"] is None else case["restr"][:4], "iterations": K,
                     "cls": cls})
    ctx.count("deform:" + ("default" if deform is None else "".join(str(d) for d in sorted(set(deform)))))
    ctx.count("ignore_h:" + str(bool(case["ignore_h"])))
    ctx.count("roles:" + ("early-return" if ne == 1 else "mobile=start" if small_is_start else "mobile=end"))

    # ---------------- oracle: the clauses of the property on the real code
    scale = max(1.0, float(np.abs(s0["pos"]).max()), float(np.abs(e0["pos"]).max()))
    shift = e0["pos"].mean(axis=0) - s0["pos"].mean(axis=0)
    if not small_is_start:
        # start is the molecule with more atoms (ties: start): only translated by the centre difference
        if abs(s1["pos"] - (s0["pos"] + shift)).max() > TOL * scale:
            fail("larger-start-not-translated-by-centre-difference",
                 float(abs(s1["pos"] - (s0["pos"] + shift)).max()))
        mob0, mob1, mob_bonds = e0, e1, e0["bonds"]
        mob_ref = e0["pos"]
    else:
        # end is the larger one: untouched
        if not same_bits(e1["pos"], e0["pos"]):
            fail("larger-end-modified")
        mob0, mob1, mob_bonds = s0, s1, s0["bonds"]
        mob_ref = s0["pos"]
    nm = mob0["n"]
    pairs = [(i, j) for i in range(nm) for j in mob_bonds[i] if i < j]
    if ne == 1:
        if not same_bits(e1["pos"], e0["pos"]):
            fail("one-atom-end-modified")
    tree = is_tree(nm, pairs)
    ctx.count("mobile-graph:" + ("tree" if tree else "not-a-tree"))
    d0 = np.linalg.norm(mob_ref[:, None, :] - mob_ref[None, :, :], axis=2)
    d1 = np.linalg.norm(mob1["pos"][:, None, :] - mob1["pos"][None, :, :], axis=2)
    if tree and pairs:
        worst = max(abs(d1[i, j] - d0[i, j]) for i, j in pairs)
        if worst > TOL * scale:
            fail("bonded-distance-changed", float(worst))
    enabled = (0,) if (deform is None and (ns == 1 or ne == 1)) else (0, 1, 2) if deform is None else tuple(deform)
    if 2 not in enabled and abs(d1 - d0).max() > TOL * scale:
        fail("pairwise-distance-changed-without-atom-moves", float(abs(d1 - d0).max()))
    for a, b, who in ((s0, s1, "start"), (e0, e1, "end")):
        if a["names"] != b["names"] or a["resnames"] != b["resnames"] or a["ids"] != b["ids"] or a["n"] != b["n"] \
                or a["bonds"] != b["bonds"]:
            fail(f"{who}-names-or-order-changed")
        if not np.isfinite(b["pos"]).all():
            fail(f"{who}-non-finite")
    # determinism: same inputs, same seed, again
    ali2, init2, rec2, err2 = run_alignment(start, end, case)
    dr1 = [e[4] for e in rec.events if e[0] == "draw"]
    dr2 = [e[4] for e in rec2.events if e[0] == "draw"]
    if err2 is not None or len(dr1) != len(dr2) or not all(same_bits(a, b) for a, b in zip(dr1, dr2)) \
            or not same_bits(ali2.start.atoms_positions, s1["pos"]) or not same_bits(ali2.end.atoms_positions, e1["pos"]):
        fail("not-deterministic", {"draws": [len(dr1), len(dr2)]})
    ctx.oracle_ok(9)
    for k, d in fails.items():
        ctx.oracle_fail("align:" + k, case, d)

    # ---------------- the same Alignment object afterwards: write_comparative_gro, init_exchange_map
    _after_alignment(ctx, case, start, end, ali)

    # ---------------- model: the plan handed to the backend
    def cb_plan(status, toks, case):
        if status != "ok":
            mcwrap.disagree(ctx, case, "align_plan: model reports an error, implementation ran", "ok", toks[:2])
            return
        r = Reader(toks)
        kind = r.tok()
        if kind == "early":
            sp = r.cfg()
            if mcall is not None:
                mcwrap.disagree(ctx, case, "align_plan: model returns early, implementation called the backend", "call", "early")
            if not close_cfg(sp, s1["pos"]):
                mcwrap.disagree(ctx, case, "align_plan: start after move_to (early return)", s1["pos"], sp)
            ctx.count("model:early-return")
            return
        if mcall is None:
            mcwrap.disagree(ctx, case, "align_plan: implementation returned early, model plans a search", "early", "plan")
            return
        small = bool(r.int())
        sp = r.cfg()
        fixed = r.cfg()
        nr = r.int()
        mrestr = [(r.int(), r.int()) for _ in range(nr)]
        mobile = r.cfg()
        nrow = r.int()
        binfo = []
        for _ in range(nrow):
            k = r.int()
            binfo.append([(r.int(), r.float()) for _ in range(k)])
        nsteps = r.int()
        width = r.float()
        nsim = r.int()
        sim = [r.int() for _ in range(nsim)]
        bad = []
        if small != small_is_start:
            bad.append("role")
        if not close_cfg(fixed, mcall["mol1"]):
            bad.append("mol1_positions")
        if not close_cfg(mobile, mcall["mol2"]):
            bad.append("mol2_positions")
        if mrestr != list(mcall["restr"]):
            bad.append("restrictions")
        if nsteps != int(mcall["n_steps"]):
            bad.append("n_steps")
        if not mcwrap.close_cfg([[width, 0, 0]], [[float(mcall["width"]), 0, 0]]):
            bad.append("translation_width")
        if sim != [int(x) for x in mcall["sim_type"]]:
            bad.append("sim_type")
        ibi = mcall["bonds_info"]
        for i, row in enumerate(binfo):
            irow = ibi.get(i, [])
            if [j for j, _ in row] != [j for j, _ in irow] or \
                    not close_cfg([[d, 0, 0] for _, d in row], [[d, 0, 0] for _, d in irow]):
                bad.append("bonds_info")
                break
        if float(mcall["sigma"]) != float(ali.SIGMA_SCALE):
            bad.append("sigma_scale")
        # the positions of start after move_to: observable as mol1/mol2 of the call
        exp_sp = mcall["mol2"] if small_is_start else (mcall["mol1"] if not case["ignore_h"] else None)
        if exp_sp is not None and not close_cfg(sp, exp_sp):
            bad.append("start-after-move_to")
        if bad:
            mcwrap.disagree(ctx, case, "align_plan: " + ",".join(bad),
                         {k: mcall[k] for k in ("restr", "n_steps", "width", "sim_type")},
                         {"restr": mrestr, "n_steps": nsteps, "width": width, "sim_type": sim})
    ctx.model.ask("align_plan_g", f"{sf} {common_toks}", cb_plan, case)

    # ---------------- model: the search, transition level, and the whole alignment
    if run is not None and mcall is not None:
        if not same_bits(run.fixed, mcall["mol1"]) or list(run.restr) != list(mcall["restr"]) \
                or not same_bits(run.held0_snap, mcall["mol2"]):
            mcwrap.disagree(ctx, case, "objective constructed on other arguments than those handed to the backend", None, None)
        # branch counters only: the search's own clauses are C09's statement, not C06's
        mcwrap.oracle_run(ctx, case, run, mret, mcall["n_steps"], mcall["sim_type"], mcall["mol2"],
                          keyprefix="align-search", report=False)
        check_run(ctx, case, run, mret, mcall["n_steps"], mcall["sim_type"], tag="align-mc")
        # write-back observed directly
        target = s1 if small_is_start else e1
        if mret is not None and not same_bits(target["pos"], mret):
            mcwrap.disagree(ctx, case, "write-back: smaller molecule does not hold the backend's result", target["pos"], mret)
        try:
            draws = [d for st in run.steps for d in st.draws]
            moves = [mcwrap.move_entry(st) for st in run.steps if st.move]
            chis = [cfg_tokens(run.held0_snap) + " " + fbits(run.chi2_0)]
            chis += [cfg_tokens(st.test_snap) + " " + fbits(st.chi2_new) for st in run.steps]
            if K <= 4000:
                req = " ".join([str(sf), fbits(ali.SIGMA_SCALE), common_toks, mcwrap.tape_tokens(draws),
                                " ".join([str(len(moves))] + moves), " ".join([str(len(chis))] + chis)])

                def cb_run(status, toks, case):
                    if status != "ok":
                        mcwrap.disagree(ctx, case, "align_run: model error", "ok", toks[:2])
                        return
                    r = Reader(toks)
                    ms, me = r.cfg(), r.cfg()
                    left = r.int()
                    if not close_cfg(ms, s1["pos"]) or not close_cfg(me, e1["pos"]) or left != 0:
                        mcwrap.disagree(ctx, case, "align_run: final coordinates of start/end (1e-9), tape leftover",
                                     {"start": s1["pos"], "end": e1["pos"]}, {"start": ms, "end": me, "left": left})
                ctx.count("model:whole-alignment-replays")
                ctx.model.ask("align_run_g", req, cb_run, case)
        except GrammarError as ex:
            mcwrap.disagree(ctx, case, f"align_run cannot be encoded: {ex}", None, None)
    elif mcall is None:
        # early return: whole alignment without a search
        def cb_early(status, toks, case):
            if status != "ok":
                mcwrap.disagree(ctx, case, "align_run (early return): model error", "ok", toks[:2])
                return
            r = Reader(toks)
            ms, me = r.cfg(), r.cfg()
            if not close_cfg(ms, s1["pos"]) or not same_bits(me, e1["pos"]):
                mcwrap.disagree(ctx, case, "align_run (early return): final coordinates", {"start": s1["pos"], "end": e1["pos"]},
                             {"start": ms, "end": me})
        ctx.model.ask("align_run_g", f"{sf} {fbits(ali.SIGMA_SCALE)} {common_toks} 0 0 0", cb_early, case)


SECTIONS = ("bonds", "constraints", "pairs")

HASH_CHILD = r"""
import contextlib, hashlib, io, json, sys, warnings
warnings.simplefilter('ignore')
import numpy as np
np.seterr(all='ignore')
from gaddlemaps import Alignment
from gaddlemaps.components import Molecule
a = json.load(open(sys.argv[1]))
try:
    start = Molecule.from_files(*a['start'])
    end = Molecule.from_files(*a['end'])
    ali = Alignment(start, end)
    ali.STEPS_FACTOR = a['steps_factor']
    np.random.seed(a['seed'])
    with contextlib.redirect_stdout(io.StringIO()):
        ali.align_molecules(restrictions=[tuple(r) for r in a['restr']], deformation_types=tuple(a['deform']),
                            ignore_hydrogens=a['ignore_h'])
    h = hashlib.sha256()
    for m in (ali.start, ali.end):
        h.update(np.ascontiguousarray(np.array(m.atoms_positions, dtype=float)).tobytes())
    out = {'ok': h.hexdigest(), 'draw': repr(float(np.random.rand()))}
except Exception as e:
    out = {'err': type(e).__name__ + ':' + str(e)[:120]}
print(json.dumps(out))
"""


def _hashsalt_case(rng):
    nm = rng.randint(10, 14)
    u = rng.randrange(0, nm - 8)
    v = u + 8
    hub = rng.choice([x for x in range(nm) if x not in (u, v)])
    s1, s2 = rng.sample(SECTIONS, 2)
    edges = [[hub, u, s1], [hub, v, s2]]
    done = [hub, u, v]
    rest = [x for x in range(nm) if x not in done]
    rng.shuffle(rest)
    for x in rest:
        edges.append([rng.choice(done), x, rng.choice(SECTIONS)])
        done.append(x)
    rng.shuffle(edges)
    pos = {hub: [rng.uniform(0.5, 1.5) for _ in range(3)]}
    todo = edges[:]
    while todo:
        for e in list(todo):
            a, b = e[0], e[1]
            if a in pos and b not in pos or b in pos and a not in pos:
                src, dst = (a, b) if a in pos else (b, a)
                pos[dst] = [pos[src][j] + rng.uniform(-0.35, 0.35) for j in range(3)]
                todo.remove(e)
            elif a in pos and b in pos:
                todo.remove(e)
    small = {"res": "SML", "names": [rng.choice(HEAVY) for _ in range(nm)], "pos": [pos[k] for k in range(nm)],
             "bonds": [[a, b] for a, b, _ in edges], "sections": [sec for _, _, sec in edges],
             "section_order": rng.sample(SECTIONS, 3)}
    big = _mol(rng, rng.randint(nm + 1, 20), "BIG", 1.5, 0.2)
    if all(n in HNAMES for n in big["names"]):
        big["names"][0] = "C1"
    big["sections"] = [rng.choice(SECTIONS) for _ in big["bonds"]]
    big["section_order"] = rng.sample(SECTIONS, 3)
    swap = rng.random() < 0.5
    return {"kind": "hashsalt", "start": small if swap else big, "end": big if swap else small, "restr": [],
            "deform": list(rng.choice([(2,), (0, 2), (1, 2), (0, 1, 2)])), "ignore_h": rng.random() < 0.5,
            "steps_factor": rng.choice([2, 3, 5]), "seed": rng.randrange(2 ** 31),
            "cls": "hash-salt:" + ("mobile-start" if swap else "mobile-end")}


def _write_split(d, tag, mol):
    """like `_write`, the links spread over the three bonded sections the topology reader takes connections from"""
    gro, itp = _write(d, tag, mol)
    text = open(itp).read()
    head = text[:text.index("[ bonds ]")]
    body = ""
    for sec in mol["section_order"]:
        rows = [(a, b) for (a, b), s in zip(mol["bonds"], mol["sections"]) if s == sec]
        if not rows:
            continue
        body += "[ %s ]\n" % sec
        for a, b in rows:
            body += {"bonds": "%5d %5d 1 0.1 1000\n", "constraints": "%5d %5d 1 0.1\n",
                     "pairs": "%5d %5d 1\n"}[sec] % (a + 1, b + 1)
        body += "\n"
    with open(itp, "w") as f:
        f.write(head + body)
    return gro, itp


def _eval_hashsalt(ctx, case):
    import subprocess
    from concurrent.futures import ThreadPoolExecutor
    _uid[0] += 1
    d = ctx.scratch
    arg = {"start": _write_split(d, f"hs{_uid[0]}s", case["start"]), "end": _write_split(d, f"hs{_uid[0]}e", case["end"]),
           "steps_factor": int(case["steps_factor"]), "seed": int(case["seed"]), "restr": case["restr"],
           "deform": case["deform"], "ignore_h": bool(case["ignore_h"])}
    argfile = os.path.join(d, f"hs{_uid[0]}.json")
    with open(argfile, "w") as f:
        json.dump(arg, f)
    salts = [0, 1, 2, 3, 4, 5, 6, 7] if ctx.quick() else list(range(16))

    def run(k):
        env = dict(os.environ)
        env["PYTHONHASHSEED"] = str(k)
        p = subprocess.run([sys.executable, "-c", HASH_CHILD, argfile], capture_output=True, text=True, env=env,
                           timeout=600)
        try:
            return json.loads(p.stdout.strip().splitlines()[-1])
        except Exception:   # noqa: BLE001
            return {"err": "subprocess:" + p.stderr[-300:]}

    with ThreadPoolExecutor(max_workers=min(len(salts), os.cpu_count() or 4)) as ex:
        outs = list(ex.map(run, salts))
    ctx.count("class:" + case["cls"])
    ctx.count("hash-salt:interpreter-runs", len(outs))
    ctx.case(case, nontrivial=all("ok" in o for o in outs))
    ctx.oracle_ok(1)
    distinct = sorted({json.dumps(o, sort_keys=True) for o in outs})
    if any("err" in o for o in outs):
        ctx.count("hash-salt:error-in-a-run")
        ctx.oracle_fail("align:hash-salt-run-raises", case, {"outcomes": distinct[:4]})
    elif len(distinct) > 1:
        ctx.oracle_fail("align:not-deterministic-across-interpreter-runs(PYTHONHASHSEED)", case,
                        {"salts": salts, "distinct_outcomes": len(distinct), "outcomes": distinct[:4]})


def _layout_tokens(m):
    """[(residue name, number of atoms)] as `guess_protein_restrains` sees the molecule"""
    rs = [(str(r.resname), len(r)) for r in m.residues]
    return " ".join([str(len(rs))] + [f"{hexs(n)} {k}" for n, k in rs])


_sid = [0]


def _workdir(ctx):
    _sid[0] += 1
    d = os.path.join(ctx.scratch, f"ali{_sid[0]}")
    os.makedirs(os.path.join(d, "sub"), exist_ok=True)
    return d


def _report_session(ctx, case, w, prefix):
    ctx.oracle_ok(max(1, w.oracle_checks))
    for k, d in w.fails.items():
        ctx.oracle_fail(f"{prefix}:{k}", case, d)


def _after_alignment(ctx, case, start, end, ali):
    """`write_comparative_gro` (explicit, then default file name) and `init_exchange_map` on the Alignment object
    that has just aligned its molecules.  The model is given the same history: the caller's molecules, the two
    copy-on-set assignments, the coordinates the alignment left in the stored molecules."""
    w = alisession.AliWorld(ctx, _workdir(ctx))
    w.load(start, "caller's start")
    w.load(end, "caller's end")
    w.ali = ali
    w.env += [ali.start, ali.end]
    w.record("setstart M 0", "Alignment(start, ·)", "ok")
    w.snaps[-1] = None
    w.record("setend M 1", "Alignment(·, end)", "ok")
    w.snaps[-1] = None
    w.mirror_positions(2, ali.start.atoms_positions)
    w.snaps[-1] = None
    w.mirror_positions(3, ali.end.atoms_positions)
    explicit = f"aligned_{int(case['seed']) % 1000}.gro"
    w.comparative(explicit)
    w.comparative(None)
    ctx.count("after-alignment:write_comparative_gro", 2)
    if len(ali.start) >= 3 and len(ali.end) >= 3:
        w.init_map(0.5 if int(case["seed"]) % 2 else 1.0)
        ctx.count("after-alignment:init_exchange_map")
        w.comparative(explicit)          # the map does not change what is written
    _report_session(ctx, case, w, "after-align")
    alisession.ask(ctx, case, w, "after-align")


def _species_mol(ctx, d, k, sp, spec):
    """a Molecule of species `sp` loaded through the library's parsers from files written here"""
    import random
    from gaddlemaps.components import Molecule
    r = random.Random(spec["seed"])
    lines = hg.molecule_lines(r, sp, "float", spec["resid0"] if spec["resid0"] < 90000 else 1, 1, spec["vel"],
                              centre=[r.uniform(-2, 2) for _ in range(3)], spread=1.0)
    gro = os.path.join(d, f"m{k}.gro")
    itp = os.path.join(d, f"sp{spec['sp']}.itp")
    hg.write_gro(gro, lines)
    hg.write_itp(itp, sp)
    m = Molecule.from_files(gro, itp)
    if spec["resid0"] >= 90000:
        m.resids = [spec["resid0"] + j for j in range(len(m.resids))]     # residue numbers around 100000
    if spec.get("big_ids"):
        m.atoms_ids = [99997 + j for j in range(len(m))]                   # atom numbers crossing 99999
    return m


def _eval_session(ctx, case):
    """one Alignment object driven through a script (see harness.alisession)"""
    import random
    d = _workdir(ctx)
    w = alisession.AliWorld(ctx, d)
    loaded = []
    for k, spec in enumerate(case["mols"]):
        m = _species_mol(ctx, d, k, case["species"][spec["sp"]], spec)
        w.load(m, f"molecule {k} (species {spec['sp']})")
        loaded.append(hg.observe(m))
    touched = set()
    w.new_alignment(case["init"][0], case["init"][1])
    ctx.count("session:init:" + "/".join(a[0] for a in case["init"]))

    def target(t):
        if t == "S":
            obj = w.ali.start
        elif t == "E":
            obj = w.ali.end
        else:
            touched.add(int(t))
            return int(t)
        return next((i for i, o in enumerate(w.env) if o is obj), None) if obj is not None else None

    for op in case["ops"]:
        try:
            _session_op(ctx, case, w, op, target)
        except Exception as e:   # noqa: BLE001
            # an earlier call left a live molecule in a state in which the harness itself cannot use it any more
            # (e.g. a topology renamed behind its back): that earlier call's own oracle has recorded why
            w.fail("live-molecule-unusable-after-an-alignment-call", f"{type(e).__name__}: {str(e)[:160]}")
            break
    # the molecules the caller supplied are never modified by the Alignment (those the script itself assigned to
    # are exempt)
    w.oracle_checks += 1
    for k, ob in enumerate(loaded):
        if k not in touched and not hg.bits_equal(ob, hg.observe(w.env[k])):
            w.fail("caller-molecule-modified", {"molecule": k})
    ncmp = sum(1 for o, st in zip(w.ops, w.status) if o.startswith("cmp") and st == "ok")
    ctx.case({k: case[k] for k in ("init", "ops", "seed", "mols")}, nontrivial=ncmp > 0 or "initmap" in " ".join(w.ops),
             sample={"init": case["init"], "calls": w.desc[len(case["mols"]):][:12], "status": w.status[len(case["mols"]):][:12]})
    _report_session(ctx, case, w, "session")
    alisession.ask(ctx, case, w, "session")


def _session_op(ctx, case, w, op, target):
    import random
    k = op[0]
    if k in ("setstart", "setend"):
        st = w.set_side(k[3:], op[1])
        ctx.count(f"session:{k}:{op[1][0]}:{st}")
    elif k == "alignchk":
        w.align_check()
        ctx.count("session:align_molecules-unset:" + w.status[-1])
    elif k == "initmap":
        st = w.init_map(float(op[1]))
        ctx.count("session:init_exchange_map:" + st)
    elif k == "cmp":
        st = w.comparative(op[1])
        ext = "default" if op[1] is None else ("sub-directory" if "/" in op[1] else op[1].split(".")[-1])
        ctx.count(f"session:write_comparative_gro:{ext}:{st}")
    elif k in ("move", "setpos"):
        i = target(op[1])
        if i is None:
            return
        if k == "move":
            w.hop_move(i, op[2])
        else:
            r = random.Random(op[2])
            n = len(w.env[i])
            w.hop_setpos(i, [[r.uniform(-1, 1) * op[3] for _ in range(3)] for _ in range(n)])
        ctx.count(f"session:{k}:" + ("stored" if op[1] in ("S", "E") else "caller's"))
    elif k == "groline":
        obj = w.ali.start if op[1] == "S" else w.ali.end if op[1] == "E" else w.env[int(op[1])]
        if obj is not None:
            _gro_lines(ctx, case, w, obj)


def _gro_lines(ctx, case, w, mol):
    """AtomGro.gro_line(parsed=True / False) for every AtomGro of a molecule"""
    from ..grogen import py_line
    for ag in hg.gro_atoms(mol):
        g = hg._gro_obs(ag)
        want = [g[0], g[1], g[2], g[3]] + list(g[4]) + (list(g[5]) if g[5] is not None else [])
        got = ag.gro_line()
        w.oracle_checks += 1
        if not (isinstance(got, list) and len(got) == len(want) and got[:4] == want[:4]
                and all(fbits(float(a)) == fbits(float(b)) for a, b in zip(got[4:], want[4:]))):
            w.fail("gro_line:parsed-record", {"got": str(got)[:200], "expected": str(want)[:200]})
        try:
            text, terr = ag.gro_line(parsed=False), None
        except Exception as e:   # noqa: BLE001
            text, terr = None, hg.exc_name(e)
        if text is not None and all(np.isfinite(float(c)) for c in want[4:]):
            if text != py_line(want, 8, 3):
                w.fail("gro_line:text", {"got": text, "expected": py_line(want, 8, 3)})
        ctx.count("gro_line:" + ("with-velocities" if g[5] is not None else "no-velocities"))

        def cb(status, toks, case, got=got, text=text, terr=terr, g=g):
            if status != "ok":
                ctx.disagree(case, "agro_line", "ok", [status] + toks[:2])
                return
            cur = hg.Cursor(toks)
            if cur.tok() != "P":
                return                      # a non-finite value: outside the writer model
            rid = cur.int(); rn = cur.str(); nm = cur.str(); aid = cur.int()
            from fractions import Fraction
            vals = []
            for _ in range(3):
                sgn, man, ex = cur.int(), cur.int(), cur.int()
                vals.append((-1 if sgn else 1) * Fraction(man) * Fraction(2) ** ex)
            nv = cur.int()
            for _ in range(3 * nv):
                sgn, man, ex = cur.int(), cur.int(), cur.int()
                vals.append((-1 if sgn else 1) * Fraction(man) * Fraction(2) ** ex)
            if [rid, rn, nm, aid] != got[:4] or [Fraction(float(x)) for x in got[4:]] != vals:
                ctx.disagree(case, "AtomGro.gro_line(): record", str(got)[:200], [rid, rn, nm, aid, [float(v) for v in vals]])
                return
            assert cur.tok() == "T"
            st = cur.tok()
            if st == "ok":
                mt = cur.str()
                if text is None or mt != text:
                    ctx.disagree(case, "AtomGro.gro_line(parsed=False): text", text if text is not None else terr, mt)
            else:
                e = cur.tok()
                if terr != e:
                    ctx.disagree(case, "AtomGro.gro_line(parsed=False): exception class", terr, e)
        ctx.model.ask("agro_line", hg.tok_gro(g), cb, case)


def _mol_tokens_from(snap, m):
    """tokens of a molecule: positions from the snapshot taken BEFORE the call, names and the bond
    table (per-atom set iteration order) from the object"""
    names = snap["names"]
    bonds = [list(a.bonds) for a in m]
    t = [cfg_tokens(snap["pos"]), str(len(names))] + [hexs(n) for n in names]
    t.append(str(len(bonds)))
    for b in bonds:
        t.append(" ".join([str(len(b))] + [str(int(j)) for j in b]))
    return " ".join(t)
