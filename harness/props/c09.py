"""C09 — Monte-Carlo search: consistent energies, Metropolis rule, exact stop.

Cases:
  {"kind": "run", "fixed": [[3]..], "mobile": [[3]..], "tree": [[a,b]..], "restr": [[i,j]..], "sim": [..],
   "n_steps": N, "sigma": s, "width": w, "seed": S, "cls": "..."}
  {"kind": "accept", "e0": x, "e1": y, "seed": S, "pyfloat": bool}
  {"kind": "backend", "warn": bool | null}           check_backend_installed(warn_missing) called directly

Half of the runs (even seed) go through the PUBLIC wrapper `minimize_molecules`, the other half call the engine
`_minimize_molecules` directly; every third run is repeated through the other route under the same seed: with the
compiled backend absent the wrapper must emit its warning exactly once, call the engine exactly once with its own
arguments, and return bit-identically what the engine returns from an identical draw sequence.
The search is run under `harness.mcwrap.Recorder`; every iteration is then recomputed by `gmdriver` from the
implementation's own pre-state (`mc_step`), the whole run is replayed through the model's `mcLoop`
(`mc_run`), and the clauses of the property are evaluated directly on what the implementation did.
"""
import math

import numpy as np

from ..common import fbits
from .. import mcwrap
from ..mcwrap import Recorder, GrammarError, parse_run, check_run, oracle_run, tape_tokens

RULE = ("run: fixed 1..40 x mobile 1..25 atoms (generic coordinates at scale 10^U(-1,1), plus integer-lattice "
        "and coincident-molecule edge cases), mobile bond graph a random tree with lengths from the geometry, "
        "restraint lists empty/partial/duplicated/total, every non-empty subset of {0,1,2} incl. reordered and "
        "repeated entries (type 2 only with >= 2 mobile atoms), budgets 1..2000 (0 as edge), widths incl. 0, "
        "np.random.seed from the run seed; even seeds through the public wrapper minimize_molecules, odd seeds through "
        "_minimize_molecules, every third run through both; check_backend_installed called directly with "
        "warn_missing True/False/default; accept: direct calls incl. exact ties, adjacent floats and zeros. "
        "Non-trivial = a run with at least one iteration, or an accept call with e0 != e1; distinct by hash.")

SUBSETS = [(0,), (1,), (2,), (0, 1), (0, 2), (1, 2), (0, 1, 2)]


def _tree(rng, n):
    return [[rng.randrange(i), i] for i in range(1, n)]


def _coords(rng, n, scale, lattice=False):
    if lattice:
        return [[float(rng.randint(-3, 3)) for _ in range(3)] for _ in range(n)]
    return [[rng.uniform(0, 1) * scale for _ in range(3)] for _ in range(n)]


def _restr(rng, n1, n2):
    k = rng.random()
    if k < 0.35:
        return []
    if k < 0.6:
        return [[rng.randrange(n1), rng.randrange(n2)] for _ in range(rng.randint(1, max(1, min(n1, 4))))]
    if k < 0.8:   # duplicated fixed atoms
        i = rng.randrange(n1)
        return [[i, rng.randrange(n2)] for _ in range(rng.randint(2, 3))] + [[rng.randrange(n1), rng.randrange(n2)]]
    return [[i, rng.randrange(n2)] for i in range(n1)]    # every fixed atom restrained


def _budget(rng, big_ok):
    k = rng.random()
    if k < 0.45:
        return rng.randint(1, 20)
    if k < 0.9 or not big_ok:
        return rng.randint(21, 200)
    return rng.randint(201, 2000)


def generate(ctx):
    rng = ctx.rng
    # direct accept_metropolis calls
    for i in range(ctx.n(300, 6000)):
        k = rng.random()
        e1 = 10 ** rng.uniform(-6, 4)
        if k < 0.2:
            e0 = e1
        elif k < 0.3:
            e0 = math.nextafter(e1, rng.choice([0.0, math.inf]))
        elif k < 0.4:
            e0, e1 = rng.choice([(0.0, 0.0), (0.0, e1), (e1, 0.0), (0.0, 5e-324), (5e-324, 5e-324)])
        elif k < 0.7:
            e0 = e1 * rng.uniform(0.0, 1.0)          # uphill
        elif k < 0.8:
            e0 = e1 * 10 ** rng.uniform(-4, 0) * 100  # around the 0.01 threshold scale
        else:
            e0 = e1 * rng.uniform(1.0, 3.0)          # downhill
        yield {"kind": "accept", "e0": e0, "e1": e1, "seed": rng.randrange(2 ** 31),
               "pyfloat": e1 == 0.0 and rng.random() < 0.5}
    # edge runs
    edges = []
    p = [[0.25, 0.5, 0.75]]
    edges.append({"fixed": p, "mobile": p, "tree": [], "restr": [], "sim": [0], "n_steps": 7, "width": 0.0,
                  "cls": "edge:O1-zero-measure"})
    edges.append({"fixed": [[0.0, 0.0, 0.0], [1.0, 0.0, 0.0]], "mobile": [[0.5, 0.25, 0.0]], "tree": [],
                  "restr": [], "sim": [1], "n_steps": 9, "width": 0.3, "cls": "edge:one-atom-rotation"})
    edges.append({"fixed": _coords(rng, 5, 1.0), "mobile": _coords(rng, 3, 1.0), "tree": [[0, 1], [1, 2]],
                  "restr": [], "sim": [0], "n_steps": 12, "width": 0.0, "cls": "edge:zero-width"})
    edges.append({"fixed": _coords(rng, 4, 1.0), "mobile": _coords(rng, 3, 1.0), "tree": [[0, 1], [0, 2]],
                  "restr": [[0, 0]], "sim": [0, 1, 2], "n_steps": 0, "width": 0.2, "cls": "edge:zero-budget"})
    edges.append({"fixed": _coords(rng, 4, 1.0), "mobile": _coords(rng, 3, 1.0), "tree": [[0, 1], [0, 2]],
                  "restr": [], "sim": [7], "n_steps": 5, "width": 0.2, "cls": "malformed:invalid-type-only"})
    for e in edges:
        e.update({"kind": "run", "sigma": 0.5, "seed": rng.randrange(2 ** 31)})
        yield e
    for i in range(ctx.n(150, 2000)):
        n2 = rng.choice([1, 2, 2, 3, 3, 4, 5, 6, 8, 10, 13, 17, 25]) if rng.random() < 0.8 else rng.randint(1, 25)
        n1 = rng.randint(1, 40)
        lattice = rng.random() < 0.12
        scale = 10 ** rng.uniform(-1, 1)
        subs = [s for s in SUBSETS if n2 >= 2 or 2 not in s]
        sim = list(rng.choice(subs))
        k = rng.random()
        if k < 0.15:
            rng.shuffle(sim)
        elif k < 0.25:
            sim = sim + [rng.choice(sim)]
        width = rng.choice([0.0, 5.0 * scale]) if rng.random() < 0.06 else scale * rng.uniform(0.05, 0.6)
        yield {"kind": "run", "fixed": _coords(rng, n1, scale, lattice), "mobile": _coords(rng, n2, scale, lattice and n2 <= 3 and 2 not in sim),
               "tree": _tree(rng, n2), "restr": _restr(rng, n1, n2), "sim": sim,
               "n_steps": _budget(rng, n1 * n2 <= 80), "sigma": rng.choice([0.5, 0.5, 0.1, 1.0]),
               "width": width, "seed": rng.randrange(2 ** 31), "cls": "lattice" if lattice else "generic"}
    # (appended after the streams above, which keep their random stream)
    for warn in (True, False, None, True):
        yield {"kind": "backend", "warn": warn}


def _bonds_info(mobile, tree):
    info = {}
    for a, b in tree:
        d = np.float64(np.linalg.norm(mobile[a] - mobile[b]))
        info.setdefault(a, []).append((b, d))
        info.setdefault(b, []).append((a, d))
    return info


def _eval_accept(ctx, case):
    import gaddlemaps._backend as B
    e0, e1 = float(case["e0"]), float(case["e1"])
    ctx.case(case, nontrivial=e0 != e1)
    if case.get("pyfloat"):
        # observation O1 with Python floats
        try:
            with Recorder():
                B.accept_metropolis(e0, e1)
            ctx.count("O1:pyfloat-zero-divisor-no-exception")
        except ZeroDivisionError:
            ctx.count("O1:pyfloat-zero-divisor-ZeroDivisionError")
        return
    np.random.seed(case["seed"])
    try:
        with Recorder() as rec:
            res = bool(B.accept_metropolis(np.float64(e0), np.float64(e1)))
    except Exception as e:   # noqa: BLE001
        if e1 == 0.0:
            ctx.count("O1:accept(.,0)-raises-" + type(e).__name__)       # E_new = 0: the ratio is not defined
        else:
            ctx.oracle_ok(2)
            ctx.oracle_fail("accept_metropolis:raises-" + type(e).__name__, case, {"error": repr(e)[:200]})
        return
    draws = [e for e in rec.events if e[0] == "draw"]
    fails = []
    if e1 == 0.0:
        ctx.count("O1:accept(%s,0)->%s" % ("0" if e0 == 0.0 else "+", "accept" if res else "reject"))
    elif e1 <= e0:
        ctx.count("accept:downhill" + ("-equal" if e1 == e0 else ""))
        if not res:
            fails.append("downhill-rejected")
        if draws:
            fails.append("downhill-consumed-draw")
    else:
        ctx.count("accept:uphill-" + ("accepted" if res else "rejected"))
        if len(draws) != 1 or draws[0][1] != "rand" or np.ndim(draws[0][4]) != 0:
            fails.append("uphill-draw-count")
        else:
            u = float(draws[0][4])
            thr = 0.01 * e0 / e1
            if abs(u - thr) > 1e-12 * max(abs(thr), 1e-300) and (u <= thr) != res:
                fails.append("uphill-decision")
    ctx.oracle_ok(2)
    for f in fails:
        ctx.oracle_fail("accept_metropolis:" + f, case, {"result": res, "draws": len(draws)})
    # model: give it the recorded draws followed by one spare rand token (must stay unread)
    toks = tape_tokens(draws)
    n = len(draws)
    tape = f"{n + 1} " + " ".join(toks.split()[1:] + ["r1", fbits(0.5)])

    def cb(status, t, case, res=res, n=n):
        if status != "ok" or bool(int(t[0])) != res or int(t[1]) != n:
            u = float(draws[0][4]) if draws else None
            if status == "ok" and int(t[1]) == n and mcwrap.accept_margin(e0, e1, u) < 1e-12:
                ctx.near_ties += 1
            else:
                mcwrap.disagree(ctx, case, "accept_metropolis (decision, draws consumed)", [res, n], t)
        elif int(t[2]) == 0:
            ctx.count("model:accept-divisor-zero")
    ctx.model.ask("mc_accept", f"{fbits(e0)} {fbits(e1)} {tape}", cb, case)


def route_of(case):
    """which entry point a run uses: the public wrapper (even seed) or the engine itself (odd seed)"""
    return case.get("via") or ("wrapper" if int(case["seed"]) % 2 == 0 else "engine")


def run_search(case, via=None):
    """run the real search under the recorder. Returns (recorder, ret, err, inputs)."""
    import gaddlemaps._backend as B
    via = via or route_of(case)
    fixed = np.array(case["fixed"], dtype=float).reshape(-1, 3)
    mobile = np.array(case["mobile"], dtype=float).reshape(-1, 3)
    info = _bonds_info(mobile, case["tree"])
    restr = [tuple(r) for r in case["restr"]]
    fixed.flags.writeable = False
    mobile.flags.writeable = False
    com = mobile.mean(axis=0)
    np.random.seed(case["seed"])
    ret, err = None, None
    with Recorder(budget=int(case["n_steps"])) as rec:
        try:
            fn = B.minimize_molecules if via == "wrapper" else B._minimize_molecules
            ret = fn(fixed, mobile, com, float(case["sigma"]), int(case["n_steps"]), restr,
                     info, float(case["width"]), tuple(case["sim"]))
        except Exception as e:   # noqa: BLE001 — mapped to its class name below
            err = e
    return rec, ret, err, (fixed, mobile)


def wrapper_events(rec):
    checks = [e for e in rec.events if e[0] == "backend_check"]
    warns = [e for e in rec.events if e[0] == "warning"]
    engines = [e for e in rec.events if e[0] == "engine_call"]
    return checks, warns, engines


def _eval_backend(ctx, case):
    """check_backend_installed(warn_missing) called directly"""
    import gaddlemaps._backend as B
    warn = case["warn"]
    with Recorder() as rec:
        res = B.check_backend_installed() if warn is None else B.check_backend_installed(warn_missing=warn)
    _, warns, _ = wrapper_events(rec)
    try:
        import cython_backend._backend  # noqa: F401
        importable = True
    except ImportError:
        importable = False
    ctx.case(case, nontrivial=True)
    ctx.count(f"backend_check:warn_missing={warn}:installed={importable}:warnings={len(warns)}")
    ctx.oracle_ok(2)
    if bool(res) != importable:
        ctx.oracle_fail("backend_check:wrong-answer", case, {"returned": bool(res), "importable": importable})
    want = 1 if (warn and not importable) else 0
    if len(warns) != want:
        ctx.oracle_fail("backend_check:warning-count", case, {"warnings": len(warns), "expected": want})

    def cb(status, t, case, res=bool(res), n=len(warns)):
        if status != "ok" or bool(int(t[0])) != res or int(t[1]) != n:
            mcwrap.disagree(ctx, case, "check_backend_installed (flag, warnings)", [res, n], [status] + t[:2])
    ctx.model.ask("backend_check", f"{int(importable)} {int(bool(warn))}", cb, case)


def _eval_run(ctx, case):
    rec, ret, err, (fixed, mobile) = run_search(case)
    sim, n_steps = case["sim"], int(case["n_steps"])
    cls = case.get("cls", "?")
    via = route_of(case)
    ctx.count("route:" + via)
    checks, warns, engines = wrapper_events(rec)
    installed = bool(checks[0][3]) if checks else False
    if via == "wrapper":
        # the wrapper's own steps: one check (asking for the warning), the warning once per call when the compiled
        # backend is absent, the engine called exactly once
        ctx.oracle_ok(1)
        if len(checks) != 1 or checks[0][2].get("warn_missing") is not True and checks[0][1] != (True,):
            ctx.oracle_fail("wrapper:backend-check", case, {"checks": [c[1:] for c in checks]})
        elif not installed and (len(warns) != 1 or len(engines) != 1):
            ctx.oracle_fail("wrapper:warning-or-engine-call-count", case, {"warnings": len(warns), "engine_calls": len(engines)})
        if installed:
            ctx.count("wrapper:compiled-backend-installed(result not comparable)")
    elif checks or warns:
        ctx.oracle_fail("engine:consulted-the-backend-check", case, {"checks": len(checks), "warnings": len(warns)})
    ctx.count("run:" + cls.split(":")[0])
    ctx.count("sim:" + "".join(str(s) for s in sorted(set(sim))))
    start = next((i for i, e in enumerate(rec.events) if e[0] == "chi2_new"), None)
    if err is not None:
        name = type(err).__name__
        ctx.case(case, nontrivial=False)
        ctx.count("run-error:" + name)
        if name == "RunawayLoop":
            # the property's exact-stop clause, observed while the search was still running
            ctx.oracle_ok(1)
            ctx.oracle_fail("search:stop-late", case, str(err)[:200])
            return
        if not cls.startswith("malformed"):
            ctx.oracle_fail("search:raises-" + name, case, str(err)[:200])
        # the model must report the same error class on the draws made so far
        draws = [e for e in rec.events if e[0] == "draw"]
        try:
            req = " ".join([mcwrap.cfg_tokens(mobile), str(max(0, n_steps)),
                            " ".join([str(len(sim))] + [str(int(s)) for s in sim]), tape_tokens(draws), "0",
                            "1 " + mcwrap.cfg_tokens(mobile) + " " + fbits(0.0)])
        except GrammarError:
            return

        def cb(status, t, case, name=name):
            if status != "err" or t[0] != name:
                mcwrap.disagree(ctx, case, "error class of the search", name, [status] + t[:2])
        ctx.model.ask("mc_run", req, cb, case)
        return
    try:
        run, _ = parse_run(rec.events, start if start is not None else 0)
    except GrammarError as e:
        ctx.case(case, nontrivial=True)
        mcwrap.disagree(ctx, case, f"event stream does not follow the loop's grammar: {e}", None, None)
        if ret is None or not np.isfinite(np.asarray(ret, dtype=float)).all():
            ctx.oracle_fail("search:returned-non-finite", case, None)
        return
    K = len(run.steps)
    ctx.case(case, nontrivial=K > 0,
             sample={k: case[k] for k in ("sim", "n_steps", "restr", "width", "seed", "cls") if k in case} |
                    {"n_fixed": len(fixed), "n_mobile": len(mobile), "iterations": K})
    ctx.count("size:mobile<=%d" % (1 if len(mobile) == 1 else 3 if len(mobile) <= 3 else 10 if len(mobile) <= 10 else 25))
    ctx.count("budget:<=%d" % (20 if n_steps <= 20 else 200 if n_steps <= 200 else 2000))
    if case["restr"]:
        ctx.count("restraints:some")
    if not np.array_equal(np.asarray(case["mobile"], dtype=float).reshape(-1, 3), mobile):
        ctx.oracle_fail("search:input-modified", case, None)
    oracle_run(ctx, case, run, ret, n_steps, sim, mobile)
    check_run(ctx, case, run, ret, n_steps, sim, tag="mc")
    if via == "wrapper" and K <= 4000 and ctx.budget_scale <= 1.0:
        # the public wrapper in the model: warnings, which engine, returned configuration, tape consumed exactly
        try:
            wreq = f"{int(installed)} " + mcwrap.run_request(run, n_steps, [int(x) for x in sim])

            def cbw(status, t, case, nw=len(warns), ret=ret):
                if status != "ok":
                    mcwrap.disagree(ctx, case, "mc_wrap: model error", "ok", [status] + t[:2])
                    return
                r = mcwrap.Reader(t)
                mw, comp, tag = r.int(), r.int(), r.tok()
                if mw != nw or comp != 0 or tag != "R":
                    mcwrap.disagree(ctx, case, "minimize_molecules: warnings / engine / outcome", [nw, 0, "R"], [mw, comp, tag])
                    return
                c = r.cfg()
                left = r.int()
                if not mcwrap.close_cfg(c, ret) or left != 0:
                    mcwrap.disagree(ctx, case, "minimize_molecules: returned configuration, tape leftover", ret, [c, left])
            if not installed:
                ctx.count("model:wrapper-runs-replayed")
                ctx.model.ask("mc_wrap", wreq, cbw, case)
        except GrammarError:
            pass
    # the other route under the same seed: identical draws, bit-identical result
    if case["seed"] % 3 == 0 and not installed:
        other = "engine" if via == "wrapper" else "wrapper"
        rec2, ret2, err2, _ = run_search(case, via=other)
        d1 = [e[4] for e in rec.events if e[0] == "draw"]
        d2 = [e[4] for e in rec2.events if e[0] == "draw"]
        k1 = [(e[1], tuple(np.shape(e[4]))) for e in rec.events if e[0] == "draw"]
        k2 = [(e[1], tuple(np.shape(e[4]))) for e in rec2.events if e[0] == "draw"]
        ctx.oracle_ok(1)
        ctx.count("wrapper-vs-engine:twin-runs")
        if err2 is not None or k1 != k2 or not all(mcwrap.same_bits(a, b) for a, b in zip(d1, d2)) \
                or not mcwrap.same_bits(ret, ret2):
            ctx.oracle_fail("wrapper:differs-from-engine", case,
                            {"draws": [len(d1), len(d2)], "error": None if err2 is None else type(err2).__name__})
    # distribution arguments of the draws (not part of the tape the model reads)
    w = float(case["width"])
    for st in run.steps:
        d = st.prop_draws
        ok = True
        if st.change == 0:
            ok = tuple(d[1][2]) == (0, w, 3) and not d[1][3]
        elif st.change == 1:
            ok = tuple(d[1][2]) == (-1, 1, 3) and tuple(d[2][2]) == (0, np.pi / 4.) and not d[1][3] and not d[2][3]
        if tuple(d[0][2][0]) != tuple(sim):
            ok = False
        if st.accept_draws and (st.accept_draws[0][2] or st.accept_draws[0][3]):
            ok = False
        if not ok:
            mcwrap.disagree(ctx, case, "distribution arguments of a draw", [x[1:4] for x in d], "see model docstring")
            break
    # determinism: same seed twice => same tape, bit-identical result (every 4th run)
    if case["seed"] % 4 == 0:
        rec2, ret2, err2, _ = run_search(case)
        d1 = [e[4] for e in rec.events if e[0] == "draw"]
        d2 = [e[4] for e in rec2.events if e[0] == "draw"]
        same = (len(d1) == len(d2) and all(mcwrap.same_bits(a, b) for a, b in zip(d1, d2))
                and err2 is None and mcwrap.same_bits(ret, ret2))
        ctx.oracle_ok(1)
        ctx.count("determinism-repeats")
        if not same:
            ctx.oracle_fail("search:not-deterministic", case, {"draws": [len(d1), len(d2)]})


NOTES = [
    "the type-2 proposal (move_mol_atom's result) is taken from the implementation as input of the model's "
    "step: its own correspondence is C07's; the overlap measure's values are taken from the implementation "
    "(C08's correspondence)",
    "chi2 of the pre-state = energy_0 the implementation passed to accept_metropolis; chi2_min and counter are "
    "not externally visible: reconstructed from the new-minimum prints and the exit time",
    "O1: accept_metropolis(0,0) -> numpy nan -> rejected (one rand draw consumed); accept_metropolis(x>0,0) -> inf "
    "-> accepted; Python floats raise ZeroDivisionError; counted under O1:* and excluded from the theorems by "
    "the hypothesis 0 < e1",
]


def evaluate(ctx, case):
    ctx.extra["correspondence_notes"] = NOTES
    if case["kind"] == "accept":
        return _eval_accept(ctx, case)
    if case["kind"] == "run":
        return _eval_run(ctx, case)
    if case["kind"] == "backend":
        return _eval_backend(ctx, case)
    raise ValueError("unknown case kind")
