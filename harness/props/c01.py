"""C01 — anchor-and-scale law of the exchange map (references of >= 3 atoms)."""
from fractions import Fraction

import numpy as np

from .. import emapcommon as E

RULE = ("reference = random tree / cyclic graph / exactly collinear chain (axes, diagonals, integer directions, lines tilted off a "
        "coordinate axis by 2^-k, shuffled numbering) / anchor bent by 10^-1.5..10^-4.5 rad / chain with one exactly collinear anchor / quarter-integer lattice (distance ties), "
        "3..40 atoms; target 1..60 atoms incl. atoms exactly on a reference atom and lattice mid-points; "
        "s in {1, 0.5, 2, 1e-3} U (0,2]. Non-trivial = at least 2 anchors used by the map or a collinear-branch "
        "frame in use; distinct by canonical hash of the case.")


def generate(ctx):
    rng = ctx.rng
    for _ in range(ctx.n(2000, 12000)):
        cls = rng.choice(["generic-tree", "generic-tree", "generic-cyclic", "collinear-chain", "axis-chain",
                          "tilted-axis-chain", "partly-collinear", "nearly-collinear", "lattice"])
        pos, bonds, cls = E.gen_ref(rng, cls)
        c = {"ref": {"pos": pos, "bonds": [list(b) for b in bonds]}, "tgt": E.gen_tgt(rng, pos, cls),
             "s": E.gen_scale(rng), "mode": "same", "cls": cls, "seed": rng.randrange(2 ** 31),
             "ident": rng.choice(["fresh", "fresh", "construction-object", "reused-object"])}
        k = rng.random()
        if k < 0.06:
            # a target built in a program on INTEGER coordinates (lattice sites), its atoms holding integer arrays: "any
            # placement" — the mapped coordinates are a + s (p - a) all the same (seed C01-12: the restored coordinates
            # written into a buffer that inherits the target's dtype)
            c["tgt"] = [[float(round(v)) for v in q] for q in c["tgt"]]
            c["tgt_dtype"] = "int64"
        elif k < 0.12:
            # ... or single-precision arrays, as trajectory readers deliver (values exactly representable in float32)
            c["tgt"] = [[round(v * 64.0) / 64.0 for v in q] for q in c["tgt"]]
            c["tgt_dtype"] = "float32"
        yield c


def exact_closest(refpos, anchors, p):
    best = None
    for a in anchors:
        d2 = sum((Fraction(x) - Fraction(y)) ** 2 for x, y in zip(p, refpos[a]))
        if best is None or (d2, a) < best:
            best = (d2, a)
    return best[1]


def evaluate(ctx, case):
    refpos, tgt, s = case["ref"]["pos"], case["tgt"], case["s"]
    n = len(refpos)
    anchors, nb = E.anchors_of(n, [tuple(b) for b in case["ref"]["bonds"]])
    impl = E.safe_run(ctx, case)
    if impl is None:
        return
    used = set(impl["equiv"])
    coll = [a for a in used if a is not None and n >= 3 and E.collinear_anchor(refpos, nb, a)[0]]
    ctx.case(case, nontrivial=len(used) >= 2 or bool(coll),
             sample={k: case[k] for k in ("cls", "s")} | {"n_ref": n, "n_tgt": len(tgt), "anchors_used": sorted(used)})
    ctx.count("cls:" + case["cls"])
    ctx.count("frames-collinear-branch", len(coll))
    ctx.count("frames-generic-branch", len(used) - len(coll))
    out = impl["out"]      # mode "same": the argument has the construction configuration (see "ident")
    ctx.count("ident:" + case.get("ident", "fresh"))
    fails = []
    if not np.isfinite(out).all():
        fails.append("non-finite")
    else:
        for j, p in enumerate(tgt):
            a = impl["equiv"][j]
            if a not in anchors:
                fails.append("anchor-not-an-anchor")
                break
            want = exact_closest(refpos, anchors, p)
            if a != want:
                da = np.linalg.norm(np.array(p) - np.array(refpos[a]))
                dw = np.linalg.norm(np.array(p) - np.array(refpos[want]))
                if abs(da - dw) > 1e-12 * max(1.0, dw):      # not a rounding-level tie
                    fails.append("anchor-not-closest")
                    break
                ctx.near_ties += 1
            A = np.array(refpos[a])
            expect = A + s * (np.array(p) - A)
            if np.abs(out[j] - expect).max() > E.TOL * max(1.0, np.abs(expect).max()):
                fails.append("anchor-scale-law" + ("-s1" if s == 1.0 else ""))
                break
    if not impl["inputs_unchanged"]:
        fails.append("inputs-modified")
    if not impl["earlier_intact"]:
        # the molecule returned by an EARLIER call of the same map (kept by the caller) changed when the map
        # was applied again: what was returned for that conformation no longer satisfies the law
        fails.append("earlier-result-changed-by-later-call")
    ctx.oracle_ok(len(tgt))
    for f in fails:
        ctx.oracle_fail(f"exchange_map:{f}:{case['cls']}", case, {"out": out, "equiv": impl["equiv"]})
    E.ask_model(ctx, case, impl, np.array(refpos, dtype=float), impl["draws_call"], out, "map(ref)")
