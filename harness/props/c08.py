"""C08 — chi2 overlap measure equals its reference definition (Chi2Calculator).

Case:
  {"kind": "chi2", "cls": coords class, "rcls": restraint class, "fixed": [[3]...], "mobile0": [[3]...],
   "mobile": [[3]...], "restr": [[i, j]...], "restr_as": "list"|"array",
   "rigid": {"m": [[3],[3],[3]], "t": [3]}, "perm_f": [...], "perm_m": [...]}
   (perm_x[i] = new index of atom i)

Oracle, on the real code:
  * value == naive evaluation of the property's definition (pure-Python loops; when an unrestrained fixed atom
    has several exactly/near equidistant nearest mobile atoms the definition's k is ambiguous: every k that
    some choice of "nearest" yields is accepted, and the case is counted as tie-ambiguous),
  * value >= 0,
  * invariance under a common rigid motion (random rotation+translation for float coordinates; exact lattice
    symmetry + integer translation for lattice coordinates, so that ties stay ties in floating point),
  * invariance under relabelling fixed atoms + restraints (always), mobile atoms + restraints (tie-free cases),
  * inputs not modified (read-only arrays).
Model: ops `chi2_new` (path, cached arrays, cached factor) and `chi2_call` (value, path) for the base call and
for each transformed call.  Off-quantifier streams (model comparison only): evaluation on a configuration of
a different length, out-of-range indices, empty coordinate sets.
"""
import math

import numpy as np
from ..common import quiet as _quiet

from ..common import fbits, unfbits, vlist, close

RULE = ("fixed 1..40 x mobile 1..25 atoms (small sizes over-weighted); coordinates: gaussian floats at scale "
        "10^U(-1,1), integer lattice [-2,2]^3 / [-1,1]^3 and half-integer lattice (forced distance ties, coincident "
        "atoms); restraints: none, partial, duplicated fixed atoms, duplicated mobile atoms, repeated pairs, every fixed "
        "atom restrained (with and without duplicates); calculator built on mobile0 and evaluated on a different "
        "configuration of the same length. Non-trivial = at least 2 fixed or 2 mobile atoms; distinct by hash.")

TOL = 1e-9
PATHS = {"chi2_molecules": 0, "_chi2_molecules_with_restrains": 1, "_chi2_molecules_only_restrains": 2}


def _impl_path(ctx, calc):
    """which of the three code paths the calculator chose — read from PRIVATE state (`_meth_to_call`), so only when it
    is there under that name: a refactor that renames it (benign change C08-1) takes this comparison away, not the
    comparison of the values"""
    try:
        return PATHS[calc._meth_to_call.__name__]
    except (AttributeError, KeyError):
        ctx.count("private-state-not-compared:_meth_to_call")
        return None


def _private(ctx, calc, name):
    v = getattr(calc, name, None)
    if v is None:
        ctx.count("private-state-not-compared:" + name)
    return v


# ----------------------------------------------------------------------------- generators

def _coords(rng, n, cls, scale):
    if cls == "float":
        return [[rng.gauss(0, 1) * scale for _ in range(3)] for _ in range(n)]
    if cls == "lattice2":
        return [[float(rng.randint(-2, 2)) for _ in range(3)] for _ in range(n)]
    if cls == "lattice1":
        return [[float(rng.randint(-1, 1)) for _ in range(3)] for _ in range(n)]
    if cls == "half":
        return [[rng.randint(-3, 3) / 2.0 for _ in range(3)] for _ in range(n)]
    raise ValueError(cls)


def _restr(rng, nf, nm, rcls):
    if rcls == "none":
        return []
    if rcls == "partial":
        k = rng.randint(1, max(1, min(nf - 1, nm, 6))) if nf > 1 else 1
        fi = rng.sample(range(nf), min(k, nf))
        if nf > 1 and len(fi) == nf:
            fi = fi[:-1]
        mj = [rng.randrange(nm) for _ in fi] if rng.random() < 0.4 else \
            (rng.sample(range(nm), len(fi)) if len(fi) <= nm else [rng.randrange(nm) for _ in fi])
        return [[i, j] for i, j in zip(fi, mj)]
    if rcls == "dup-fixed":
        k = rng.randint(2, 6)
        base = [rng.randrange(nf) for _ in range(max(1, k // 2))]
        fi = [rng.choice(base) for _ in range(k)]
        return [[i, rng.randrange(nm)] for i in fi]
    if rcls == "dup-mobile":
        k = rng.randint(2, min(6, max(2, nf)))
        j = rng.randrange(nm)
        return [[rng.randrange(nf), j if rng.random() < 0.7 else rng.randrange(nm)] for _ in range(k)]
    if rcls == "dup-pair":
        p = [rng.randrange(nf), rng.randrange(nm)]
        out = [list(p) for _ in range(rng.randint(2, 3))]
        for _ in range(rng.randint(0, 2)):
            out.append([rng.randrange(nf), rng.randrange(nm)])
        rng.shuffle(out)
        return out
    if rcls == "total":
        fi = list(range(nf))
        rng.shuffle(fi)
        return [[i, rng.randrange(nm)] for i in fi]
    if rcls == "total-dup":
        fi = list(range(nf)) + [rng.randrange(nf) for _ in range(rng.randint(1, 3))]
        rng.shuffle(fi)
        return [[i, rng.randrange(nm)] for i in fi]
    raise ValueError(rcls)


def _rot(rng):
    ax = [rng.gauss(0, 1) for _ in range(3)]
    n = math.sqrt(sum(c * c for c in ax))
    x, y, z = (c / n for c in ax)
    th = rng.uniform(-math.pi, math.pi)
    c, s = math.cos(th), math.sin(th)
    C = 1 - c
    return [[c + x * x * C, x * y * C - z * s, x * z * C + y * s],
            [y * x * C + z * s, c + y * y * C, y * z * C - x * s],
            [z * x * C - y * s, z * y * C + x * s, c + z * z * C]]


def _signed_perm(rng):
    p = [0, 1, 2]
    rng.shuffle(p)
    m = [[0.0] * 3 for _ in range(3)]
    for r in range(3):
        m[r][p[r]] = float(rng.choice([-1, 1]))
    return m


def _size(rng, hi):
    k = rng.random()
    if k < 0.25:
        return rng.randint(1, min(3, hi))
    if k < 0.5:
        return rng.randint(1, min(8, hi))
    return rng.randint(1, hi)


def generate(ctx):
    rng = ctx.rng
    n = ctx.n(8000, 100000)
    rclss = ["none", "partial", "dup-fixed", "dup-mobile", "dup-pair", "total", "total-dup"]
    for idx in range(n):
        nf, nm = _size(rng, 40), _size(rng, 25)
        cls = rng.choice(["float", "float", "float", "lattice2", "lattice1", "half"])
        rcls = rclss[idx % len(rclss)] if rng.random() < 0.8 else rng.choice(rclss)
        scale = 10 ** rng.uniform(-1, 1)
        fixed = _coords(rng, nf, cls, scale)
        mobile0 = _coords(rng, nm, cls, scale)
        mobile = _coords(rng, nm, cls, scale)
        if cls in ("lattice2", "lattice1") and rng.random() < 0.35:
            # construction molecules on lattice sites, the configuration evaluated OFF the lattice (what the search does
            # with integer input: `mol2_positions + displacement`): see `_run` for why (seed C08-12)
            mobile = [[c + rng.choice([0.25, -0.5, 0.375, 0.0625 * rng.randint(1, 15)]) for c in p] for p in mobile]
        if cls == "float" and rng.random() < 0.2:
            # evaluation configuration close to the fixed one (the regime the search ends in)
            mobile = [[c + rng.gauss(0, 0.05 * scale) for c in fixed[rng.randrange(nf)]] for _ in range(nm)]
        if cls == "float" and rng.random() < 0.3:
            # both molecules far from the origin (a molecule anywhere in a large simulation box): a squared
            # distance computed as |a|^2 + |b|^2 - 2 a.b instead of |a - b|^2 loses its digits here
            off = [rng.choice([-1, 1]) * 10 ** rng.uniform(1.0, 3.3) for _ in range(3)]
            fixed = [[c + o for c, o in zip(p, off)] for p in fixed]
            mobile0 = [[c + o for c, o in zip(p, off)] for p in mobile0]
            if rng.random() < 0.7:   # well overlapped: small chi2, where cancellation hurts most
                mobile = [[c + rng.gauss(0, 0.02 * scale) for c in fixed[rng.randrange(nf)]] for _ in range(nm)]
            else:
                mobile = [[c + o for c, o in zip(p, off)] for p in mobile]
            cls = "float-far"
        if cls == "float-far":
            # exact motion (signed permutation, no translation): a generic rotation of coordinates of
            # magnitude 1e3 would itself perturb them by more than the comparison tolerance allows
            rigid = {"m": _signed_perm(rng), "t": [0.0, 0.0, 0.0]}
        elif cls == "float":
            rigid = {"m": _rot(rng), "t": [rng.gauss(0, 3 * scale) for _ in range(3)]}
        else:
            rigid = {"m": _signed_perm(rng), "t": [float(rng.randint(-4, 4)) for _ in range(3)]}
        pf = list(range(nf))
        rng.shuffle(pf)
        pm = list(range(nm))
        rng.shuffle(pm)
        yield {"kind": "chi2", "cls": cls, "rcls": rcls, "fixed": fixed, "mobile0": mobile0, "mobile": mobile,
               "restr": _restr(rng, nf, nm, rcls), "restr_as": "array" if rng.random() < 0.25 else "list",
               "rigid": rigid, "perm_f": pf, "perm_m": pm}
    # many mobile atoms, few fixed ones: k (mobile atoms neither restrained nor nearest) in the thousands.
    # 1.1^k is still an ordinary double for k < 7448 (seed C08-4: exponent clamped at 1000 "against overflow")
    for _ in range(ctx.n(8, 60)):
        # few fixed atoms (k in the thousands) or many (their nearest mobile atoms spread over the whole index range:
        # seed C08-8, a blockwise nearest-atom search that returns block-local indices beyond 1024 mobile atoms)
        nf = rng.choice([rng.randint(1, 3), rng.randint(25, 40), rng.randint(25, 40)])
        nm = rng.choice([1001, 1003, 1100, rng.randint(1025, 1500), rng.randint(1500, 3000), rng.randint(2049, 3000)])
        scale = 1.0
        fixed = _coords(rng, nf, "float", scale)
        mobile0 = _coords(rng, nm, "float", scale)
        mobile = _coords(rng, nm, "float", scale)
        rcls = rng.choice(["none", "partial", "total"])
        pf = list(range(nf))
        rng.shuffle(pf)
        pm = list(range(nm))
        rng.shuffle(pm)
        yield {"kind": "chi2", "cls": "float", "rcls": rcls, "fixed": fixed, "mobile0": mobile0, "mobile": mobile,
               "restr": _restr(rng, nf, nm, rcls), "restr_as": "list",
               "rigid": {"m": _rot(rng), "t": [rng.gauss(0, 3) for _ in range(3)]}, "perm_f": pf, "perm_m": pm,
               "huge": True}
    # off-quantifier streams: model comparison only
    m = ctx.n(150, 5000)
    for _ in range(m):
        nf, nm = rng.randint(1, 6), rng.randint(1, 6)
        cls = rng.choice(["float", "lattice1"])
        fixed = _coords(rng, nf, cls, 1.0)
        mobile0 = _coords(rng, nm, cls, 1.0)
        k = rng.random()
        rcls = rng.choice(["none", "partial", "dup-fixed", "total", "total-dup", "dup-mobile"])
        restr = _restr(rng, nf, nm, rcls)
        if k < 0.45:
            kind, mobile = "len-mismatch", _coords(rng, rng.randint(1, 9), cls, 1.0)
        elif k < 0.6:
            kind, mobile = "empty-mobile", []
        elif k < 0.7:
            kind, mobile, fixed, restr = "empty-fixed", _coords(rng, nm, cls, 1.0), [], []
        elif k < 0.85:
            kind, mobile = "index-fixed-out-of-range", _coords(rng, nm, cls, 1.0)
            restr = restr + [[nf + rng.randint(0, 2), rng.randrange(nm)]]
            rng.shuffle(restr)
        else:
            kind, mobile = "index-mobile-out-of-range", _coords(rng, nm, cls, 1.0)
            restr = restr + [[rng.randrange(nf), nm + rng.randint(0, 2)]]
            rng.shuffle(restr)
        yield {"kind": "chi2-edge", "cls": cls, "rcls": kind, "fixed": fixed, "mobile0": mobile0, "mobile": mobile,
               "restr": restr, "restr_as": "list"}


# ----------------------------------------------------------------------------- the property's definition, naively

def _sq(a, b):
    dx, dy, dz = a[0] - b[0], a[1] - b[1], a[2] - b[2]
    return dx * dx + dy * dy + dz * dz


def naive(fixed, mobile, restr, tie_rel=1e-12):
    """returns (base sum, k_lo, k_hi, ties?) following the property statement word by word"""
    nm = len(mobile)
    r1 = {i for i, _ in restr}
    r2 = {j for _, j in restr}
    total = 0.0
    for i, j in restr:
        total += _sq(fixed[i], mobile[j])
    forced = set(r2)
    possible = set(r2)
    ties = False
    for i, f in enumerate(fixed):
        if i in r1:
            continue
        ds = [_sq(f, m) for m in mobile]
        dmin = min(ds)
        total += dmin
        cand = [j for j, d in enumerate(ds) if d <= dmin * (1 + tie_rel) + 1e-300]
        if len(cand) == 1:
            forced.add(cand[0])
        else:
            ties = True
        possible.update(cand)
    return total, nm - len(possible), nm - len(forced), ties


def _arr(pts):
    a = np.array(pts, dtype=float).reshape(len(pts), 3)
    a.flags.writeable = False
    return a


COUNT_INT = [0]


def _run(fixed, mobile0, mobile, restr, restr_as):
    """construct + call the real thing; returns dict(value|error, stage, calc)"""
    from gaddlemaps._backend import Chi2Calculator
    F, M0, M = _arr(fixed), _arr(mobile0), _arr(mobile)
    if F.size and M0.size and np.array_equal(F, np.round(F)) and np.array_equal(M0, np.round(M0)) \
            and np.abs(F).max() < 1e9 and np.abs(M0).max() < 1e9:
        # molecules on integer lattice sites are handed over as INTEGER arrays (what `np.array([[0, 0, 0], [1, 0, 0]])`
        # gives, and what the repository's own tests pass); the configuration evaluated later is what it is (seed C08-12:
        # the dtype of the construction arrays remembered and imposed on every configuration evaluated afterwards)
        F, M0 = F.astype(np.int64), M0.astype(np.int64)
        F.flags.writeable = False
        M0.flags.writeable = False
        COUNT_INT[0] += 1
    if restr_as == "array" and restr:
        r = np.array(restr, dtype=int)
    else:
        r = [tuple(p) for p in restr]
    out = {"calc": None}
    try:
        with _quiet():
            calc = Chi2Calculator(F, M0, r)
    except Exception as e:  # noqa: BLE001
        out.update(stage="new", error=type(e).__name__)
        return out
    out["calc"] = calc
    # The search evaluates ONE calculator on thousands of configurations.  Before the configuration under test
    # the calculator is therefore used on two others (the construction configuration and a scrambled one with
    # the same number of atoms); the value for `mobile` must not depend on that history (seed C08-3: a mask
    # of "covered" mobile atoms built once and written into by every call).
    if len(mobile) == len(mobile0) and len(mobile) > 0:
        for decoy in (M0, _arr((M[::-1] * 1.9 + np.array([0.7, -1.3, 0.4])).tolist())):
            try:
                with _quiet():
                    calc(decoy)
            except Exception:  # noqa: BLE001  (the case under test decides what is reported)
                pass
    # ... and ONE writable array object refilled in place (the next frame loaded into the same buffer): first the
    # scrambled configuration goes through it, then — same object, new contents — the configuration under test.
    # The value for it must be the value of its CURRENT contents (seed C08-7: last result cached per array identity)
    vbuf = None
    if len(mobile) == len(mobile0) and len(mobile) > 0:
        try:
            buf = np.array((M[::-1] * 1.9 + np.array([0.7, -1.3, 0.4])), dtype=float)
            with _quiet():
                calc(buf)
                buf[:] = M
                vbuf = float(calc(buf))
            out["buffer_modified"] = not np.array_equal(buf, M)
        except Exception:  # noqa: BLE001
            vbuf = None
    out["value_via_reused_buffer"] = vbuf
    # ... and the same coordinates in another MEMORY layout (Fortran order / a transposed view: what
    # `np.array([xs, ys, zs]).T` gives): the measure is a function of the coordinates, not of their strides
    # (seed C08-9: restrained atoms gathered from `mol2.ravel(order='K')` with C-order offsets)
    vf = None
    if len(mobile) == len(mobile0) and len(mobile) > 0:
        try:
            Mf = np.asfortranarray(M)
            Mf.flags.writeable = False
            with _quiet():
                vf = float(calc(Mf))
        except Exception:  # noqa: BLE001
            vf = None
    out["value_via_fortran_order"] = vf
    # ... and COPIES of the calculator (copy.copy, copy.deepcopy, a pickle round trip — what sending it to a worker
    # process does): each must give the value the original gives (seed C08-13: derived state rebuilt wrongly on restore)
    vcopies = {}
    if len(mobile) == len(mobile0) and len(mobile) > 0:
        import copy as _copy
        import pickle as _pickle
        for how, mk in (("copy", _copy.copy), ("deepcopy", _copy.deepcopy),
                        ("pickle", lambda c: _pickle.loads(_pickle.dumps(c)))):
            try:
                with _quiet():
                    vcopies[how] = float(mk(calc)(M))
            except Exception as e:  # noqa: BLE001
                vcopies[how] = "raises-" + type(e).__name__
    out["value_via_copies"] = vcopies
    try:
        with _quiet():
            v = calc(M)
    except Exception as e:  # noqa: BLE001
        out.update(stage="call", error=type(e).__name__)
        return out
    out.update(stage="ok", value=float(v))
    out["modified"] = not (np.array_equal(F, np.array(fixed, dtype=float).reshape(len(fixed), 3))
                           and np.array_equal(M0, np.array(mobile0, dtype=float).reshape(len(mobile0), 3))
                           and np.array_equal(M, np.array(mobile, dtype=float).reshape(len(mobile), 3)))
    return out


def _restr_tokens(restr):
    return " ".join([str(len(restr))] + [f"{int(i)} {int(j)}" for i, j in restr])


def _ask_call(ctx, case, what, fixed, mobile0, mobile, restr, res):
    def cb(status, toks, case, res=res, what=what):
        if res["stage"] != "ok":
            if status == "err" and len(toks) >= 2 and toks[0] == res["stage"] and toks[1] != res["error"]:
                ctx.count(f"refusal-class-differs-from-model:{res['error']}-vs-{toks[1]}")
            elif status != "err" or toks[:2] != [res["stage"], res["error"]]:
                ctx.disagree(case, what + " raised", [res["stage"], res["error"]], [status] + toks[:2])
            else:
                ctx.count(f"error:{res['stage']}:{res['error']}")
            return
        if status != "ok":
            ctx.disagree(case, what, res["value"], [status] + toks[:2])
            return
        path, val = int(toks[0]), unfbits(toks[1])
        impl_path = _impl_path(ctx, res["calc"])
        if impl_path is not None and path != impl_path:
            ctx.disagree(case, what + " path", impl_path, path)
        if not close(val, res["value"], TOL) and abs(val - res["value"]) > TOL * abs(res["value"]):
            ctx.disagree(case, what, res["value"], val)
        if what == "call":
            ctx.count(f"path-{path}")
            if toks[2] != "x":
                k = int(toks[2])
                ctx.count("n_cg_far:" + ("neg" if k < 0 else "0" if k == 0 else "1-3" if k <= 3 else "4-9" if k <= 9 else ">=10"))
    ctx.model.ask("chi2_call", f"{vlist(fixed)} {vlist(mobile0)} {_restr_tokens(restr)} {vlist(mobile)}", cb, case)


def _ask_new(ctx, case, fixed, mobile0, restr, res):
    calc = res["calc"]

    def cb(status, toks, case):
        if calc is None:
            if status == "err" and toks[:1] == ["new"] and toks[1:2] != [res["error"]]:
                # both refuse the construction, with different exception classes (restraint index out of range): outside C08
                ctx.count(f"refusal-class-differs-from-model:{res['error']}-vs-{toks[1] if len(toks) > 1 else '?'}")
            elif status != "err" or toks[:2] != ["new", res["error"]]:
                ctx.disagree(case, "__init__ raised", res["error"], [status] + toks[:2])
            return
        if status != "ok":
            ctx.disagree(case, "__init__", "constructed", [status] + toks[:2])
            return
        path = int(toks[0])
        impl_path = _impl_path(ctx, calc)
        if impl_path is not None and path != impl_path:
            ctx.disagree(case, "__init__ path", impl_path, path)
            return
        it = iter(toks[1:])

        def rd_vlist():
            n = int(next(it))
            return [[unfbits(next(it)) for _ in range(3)] for _ in range(n)]
        if path == 1:
            len_mol2 = int(next(it))
            ns = int(next(it))
            sset = [int(next(it)) for _ in range(ns)]
            nr, rs = rd_vlist(), rd_vlist()
            if len_mol2 != calc.len_mol2:
                ctx.disagree(case, "len_mol2", calc.len_mol2, len_mol2)
            if sset != sorted(int(x) for x in calc.set_restriction2):
                ctx.disagree(case, "set_restriction2", sorted(int(x) for x in calc.set_restriction2), sset)
            pnr, prs = _private(ctx, calc, "_mol1_not_restriction"), _private(ctx, calc, "_mol1_restriction")
            if pnr is not None and not np.array_equal(np.array(nr).reshape(-1, 3), pnr):
                ctx.disagree(case, "_mol1_not_restriction", pnr, nr)
            if prs is not None and not np.array_equal(np.array(rs).reshape(-1, 3), prs):
                ctx.disagree(case, "_mol1_restriction", prs, rs)
        elif path == 2:
            rs = rd_vlist()
            fact = unfbits(next(it))
            prs = _private(ctx, calc, "_mol1_restriction")
            if prs is not None and not np.array_equal(np.array(rs).reshape(-1, 3), prs):
                ctx.disagree(case, "_mol1_restriction", prs, rs)
            if abs(fact - calc.n_cg_far_fact) > TOL * abs(calc.n_cg_far_fact):
                ctx.disagree(case, "n_cg_far_fact", calc.n_cg_far_fact, fact)
    ctx.model.ask("chi2_new", f"{vlist(fixed)} {vlist(mobile0)} {_restr_tokens(restr)}", cb, case)


def _rel_ok(a, b):
    return abs(a - b) <= TOL * max(abs(a), abs(b)) or abs(a - b) <= 1e-300


def evaluate(ctx, case):
    fixed = [[float(c) for c in p] for p in case["fixed"]]
    mobile0 = [[float(c) for c in p] for p in case["mobile0"]]
    mobile = [[float(c) for c in p] for p in case["mobile"]]
    restr = [[int(i), int(j)] for i, j in case["restr"]]
    ras = case.get("restr_as", "list")
    res = _run(fixed, mobile0, mobile, restr, ras)

    if case["kind"] == "chi2-edge":
        ctx.case(case, nontrivial=False)
        ctx.count("edge:" + case["rcls"])
        _ask_new(ctx, case, fixed, mobile0, restr, res)
        _ask_call(ctx, case, "call", fixed, mobile0, mobile, restr, res)
        return

    nf, nm = len(fixed), len(mobile)
    ctx.case(case, nontrivial=nf >= 2 or nm >= 2)
    ctx.count("coords:" + case["cls"])
    ctx.count("restr:" + case["rcls"])
    ctx.count("size:" + ("small" if nf * nm <= 24 else "medium" if nf * nm <= 200 else "large"))
    if nm > 1000:
        ctx.count("size:mobile>1000 (penalty exponent in the thousands)")
    _ask_new(ctx, case, fixed, mobile0, restr, res)
    _ask_call(ctx, case, "call", fixed, mobile0, mobile, restr, res)
    rc = case["rcls"]
    if res["stage"] != "ok":
        ctx.oracle_ok(1)
        ctx.oracle_fail(f"chi2:raises-{res['error']}:{rc}", case, {"stage": res["stage"]})
        return
    v = res["value"]
    base, k_lo, k_hi, ties = naive(fixed, mobile, restr)
    ctx.count("ties" if ties else "tie-free")
    accepted = [base * 1.1 ** k for k in range(k_lo, k_hi + 1)]
    detail = {"value": v, "definition": accepted if ties else accepted[0], "k": [k_lo, k_hi], "base": base}
    ctx.oracle_ok(2)
    if not any(_rel_ok(v, a) for a in accepted):
        ctx.oracle_fail(f"chi2:value-vs-definition:{rc}", case, detail)
    if not v >= 0.0:
        ctx.oracle_fail(f"chi2:negative:{rc}", case, detail)
    if res["modified"] or res.get("buffer_modified"):
        ctx.oracle_fail("chi2:inputs-modified", case, detail)
    vb = res.get("value_via_reused_buffer")
    ctx.oracle_ok(1)
    vfo = res.get("value_via_fortran_order")
    if vfo is not None and not _rel_ok(vfo, v):
        ctx.oracle_fail(f"chi2:value-depends-on-memory-layout:{rc}", case, dict(detail, fortran_order=vfo))
    for how, vc in (res.get("value_via_copies") or {}).items():
        if isinstance(vc, str) or fbits(vc) != fbits(v):
            ctx.oracle_fail(f"chi2:copy-of-the-calculator-differs:{how}:{rc}", case, dict(detail, via_copy=vc))
    if vb is not None and fbits(vb) != fbits(v):
        ctx.oracle_fail(f"chi2:value-depends-on-array-identity-or-history:{rc}", case,
                        dict(detail, via_reused_buffer=vb))

    # common rigid motion
    R, t = case["rigid"]["m"], case["rigid"]["t"]

    def g(p):
        return [R[r][0] * p[0] + R[r][1] * p[1] + R[r][2] * p[2] + t[r] for r in range(3)]
    gf, gm0, gm = [g(p) for p in fixed], [g(p) for p in mobile0], [g(p) for p in mobile]
    rr = _run(gf, gm0, gm, restr, ras)
    ctx.oracle_ok(1)
    if rr["stage"] != "ok" or not _rel_ok(rr["value"], v):
        # a random rotation perturbs a numerically tied pair: re-judge with the definition on the moved
        # coordinates before calling it a failure (only for float coordinates)
        ok = False
        if rr["stage"] == "ok" and case["cls"] == "float":
            b2, lo2, hi2, t2 = naive(gf, gm, restr, tie_rel=1e-7)
            if t2 and any(abs(rr["value"] - b2 * 1.1 ** k) <= 1e-6 * abs(b2) for k in range(lo2, hi2 + 1)) \
                    and abs(b2 - base) <= 1e-6 * abs(base):
                ctx.count("rigid:near-tie-flip")
                ctx.near_ties += 1
                ok = True
        if not ok:
            ctx.oracle_fail(f"chi2:rigid-motion:{rc}", case, dict(detail, moved=rr.get("value", rr.get("error"))))
    _ask_call(ctx, case, "call(rigid)", gf, gm0, gm, restr, rr)

    # relabel fixed atoms + restraints
    pf = case["perm_f"]
    f2 = [None] * nf
    for i, p in enumerate(pf):
        f2[p] = fixed[i]
    r_f = [[pf[i], j] for i, j in restr]
    rf = _run(f2, mobile0, mobile, r_f, ras)
    ctx.oracle_ok(1)
    if rf["stage"] != "ok" or not _rel_ok(rf["value"], v):
        ctx.oracle_fail(f"chi2:relabel-fixed:{rc}", case, dict(detail, relabelled=rf.get("value", rf.get("error"))))
    _ask_call(ctx, case, "call(relabel-fixed)", f2, mobile0, mobile, r_f, rf)

    # relabel mobile atoms + restraints
    pm = case["perm_m"]
    m2, m02 = [None] * nm, [None] * nm
    for j, p in enumerate(pm):
        m2[p] = mobile[j]
        m02[p] = mobile0[j]
    r_m = [[i, pm[j]] for i, j in restr]
    rm = _run(fixed, m02, m2, r_m, ras)
    if ties:
        # the statement is silent (the "nearest" atom is not unique); record the label dependence
        if rm["stage"] == "ok" and not _rel_ok(rm["value"], v):
            ctx.count("relabel-mobile:tie-dependence-observed")
        else:
            ctx.count("relabel-mobile:tie-no-effect")
        if rm["stage"] != "ok" or not any(_rel_ok(rm["value"], a) for a in accepted):
            ctx.oracle_fail(f"chi2:relabel-mobile-ties:{rc}", case,
                            dict(detail, relabelled=rm.get("value", rm.get("error"))))
        ctx.oracle_ok(1)
    else:
        ctx.oracle_ok(1)
        if rm["stage"] != "ok" or not _rel_ok(rm["value"], v):
            ctx.oracle_fail(f"chi2:relabel-mobile:{rc}", case,
                            dict(detail, relabelled=rm.get("value", rm.get("error"))))
    _ask_call(ctx, case, "call(relabel-mobile)", fixed, m02, m2, r_m, rm)
