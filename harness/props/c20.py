"""C20 — command-line mapping equals the library workflow; discovery is deterministic.

Cases (self-contained; system descriptions as in harness/mgrgen.py):
  {"kind": "discover", "desc": DESC, "layout": LAYOUT, "perm_seed": n, "hashseeds": [k…]}
        `sort_molecules` on a generated directory under many iteration orders of its two sets (the
        order is imposed by wrapping `classify_files`, which `sort_molecules` resolves at call time)
        and, for `hashseeds`, as a subprocess under PYTHONHASHSEED=k with the candidate list shuffled.
  {"kind": "cli", "desc": DESC, "layout": LAYOUT, "scale": s|None, "out": None|"rel/or/abs", "refstyle": …,
   "npseed": n, "perm_seed": n}
        in-process `gaddlemaps._cli.main()` vs the library workflow under the same `np.random.seed`.
  {"kind": "shipped", "auto": bool, "scale": s, "npseed": n, "out": …}      BMIM/BF4 files of gaddlemaps/data
  {"kind": "classify", "files": […]}
  {"kind": "outpath", "ref": str, "out": str|None, "scale": s}          path logic of `auto_map` (Manager stubbed)

LAYOUT
  species : [ {"files": {"cg": rel|None, "aaitp": rel|None, "aagro": rel|None},   written files
               "auto": {"cg": bool, "aaitp": bool, "aagro": bool},              listed in --auto
               "explicit": bool} ]                                              given with --mol
  foreign : [ SPECIES … ]  (not in the system; all three files written and listed)
  extras  : [ {"path": rel, "kind": "txt" | "othergro" | "sysgro" | "badtop" (+ "variant") | "multigro" (+ "of", "copies")} ]
            multigro = a coordinate file with 2-3 molecules of species `of` in the FINAL resolution (distractor)
            badtop = a candidate .itp that is NOT a molecule topology (force-field include, empty file, only
            #include lines, a [ system ] file, no [ atoms ]): an ordinary distractor, inside the quantifier
  sys : rel path of the system file; sys_in_auto : bool
  ambiguous : None | "dup-start" | "two-coords" | "two-endtops" | "shared-end" | "bad-known" | "corrupt-top"
              (outside the quantifier: run, compared with the model, reported — not judged)
  exclude : [species names] | None
"""
from __future__ import annotations

import contextlib
import io
import itertools
import json
import os
import random
import shutil
import subprocess
import sys
import warnings
from concurrent.futures import ThreadPoolExecutor

import numpy as np

from ..common import fbits, hexs, unhexs
from .. import mgrgen

RULE = ("discover: generated systems (2-5 species incl. 1-/2-atom/multi-residue) turned into directories with, per "
        "species, any subset of {start topology, end topology, end coordinates} present (incl. start-only = solvent-like, "
        "start+end topology without coordinates), species given with --mol, --exclude lists, distractors (.txt/.mdp, the "
        "system file itself, unrelated .gro, complete file triples of species not in the system, upper-case extensions, "
        "multi-dot names, sub-directories, candidate .itp files that are not molecule topologies: force-field include / empty / "
        "blank / only #include / only comments / [ system ] file / no [ atoms ]; p=.35 per directory; coordinate files holding 2-3 "
        "molecules of a discoverable species in the FINAL resolution, p=.45), semantic or opaque "
        "file names; every permutation of the two candidate sets "
        "when <= 4x3 else identity/reverse/sorted + random ones; subprocess runs under PYTHONHASHSEED with shuffled "
        "argument lists. cli: main() with --mol/--auto/--exclude/--scale/-o combinations, relative/absolute/sub-directory "
        "input paths, explicit triples whose end topology carries ANOTHER molecule name than the start topology (p=.5 per explicit "
        "species), vs the library workflow (end molecule attached to the species of its triple's start topology; "
        "add_end_molecules when all names coincide), byte comparison, the library workflow itself must succeed whenever something "
        "is to be mapped; shipped BMIM/BF4 incl. a renamed all-atom topology. Ambiguous directories, --mol of a species not in the "
        "system and CORRUPT molecule topologies (ValueError) are run, compared with the model and reported, not judged. Non-trivial = discover/cli case with >= 2 candidate topologies; "
        "distinct by canonical hash.")

ERR = {"SystemError": 1, "ValueError": 2, "TypeError": 3, "OSError": 4, "IOError": 4, "KeyError": 5, "IndexError": 6}
STEPS = 15
BADTOPS = {      # candidate topology files that are not molecule topologies (MoleculeTop raises OSError)
    "ff": "[ defaults ]\n1 1 no 1.0 1.0\n\n[ atomtypes ]\nP1 72.0 0.0 A 0.0 0.0\nC1 72.0 0.0 A 0.0 0.0\n\n"
          "[ nonbond_params ]\nP1 P1 1 0.21558E-00 0.23238E-02\n",
    "empty": "",
    "blank": "\n\n   \n",
    "include": '#include "martini_v2.2.itp"\n#include "ions.itp"\n',
    "comments": "; force field notes\n; nothing else in here\n",
    "system": "[ system ]\nsome box\n\n[ molecules ]\nMA 10\n",
    "noatoms": "[ moleculetype ]\nGHOST 1\n",
    "emptyatoms": "[ moleculetype ]\nGHOST 1\n\n[ atoms ]\n; none\n",
}
BADTOP_NAMES = ["forcefield.itp", "martini_v2.2.itp", "ions.ITP", "topol_includes.itp", "ff.bonded.itp", "tops/aminoacids.itp"]


def _quiet():
    return contextlib.redirect_stdout(io.StringIO())


# ----------------------------------------------------------------------------- directory layouts

def gen_layout(rng, desc, for_cli=False, ambiguous=None, d9=None, badtop=False):
    # "per-species-dir": one directory per species, the SAME three base names in each (cg.itp, aa.itp, aa.gro) — files
    # are told apart by their paths, never by their base names (seed C20-7: explicit files filtered out by basename)
    style = rng.choice(["semantic", "semantic", "opaque", "per-species-dir"])
    sub = rng.random() < 0.3
    counter = [0]

    def fname(sp, role, ext):
        counter[0] += 1
        up = rng.random() < 0.15
        e = ext.upper() if up else ext
        if style == "per-species-dir":
            return f"{sp['name']}_dir/{ {'cg': 'cg', 'aaitp': 'aa', 'aagro': 'aa'}[role] }.{e}"
        if style == "opaque":
            base = f"f{rng.randrange(1000):03d}_{counter[0]}"
        else:
            tag = {"cg": "CG", "aaitp": "AA", "aagro": "AA"}[role]
            base = f"{sp['name']}_{tag}" + (".v2" if rng.random() < 0.15 else "")
        d = "tops/" if (sub and ext == "itp" and rng.random() < 0.6) else ""
        return f"{d}{base}.{e}"

    species = []
    for i, sp in enumerate(desc["species"]):
        mapped = sp["aa"] is not None
        files = {"cg": fname(sp, "cg", "itp"),
                 "aaitp": fname(sp, "aaitp", "itp") if mapped else None,
                 "aagro": fname(sp, "aagro", "gro") if mapped else None}
        r = rng.random()
        if not mapped:
            auto = {"cg": rng.random() < (0.9 if d9 is not False else 0.0), "aaitp": False, "aagro": False}
        elif r < (0.8 if for_cli else 0.6):
            auto = {"cg": True, "aaitp": True, "aagro": True}
        elif r < 0.7:
            auto = {"cg": True, "aaitp": True, "aagro": False}          # len(info) == 2
        elif r < 0.8 and d9 is not False:
            auto = {"cg": True, "aaitp": False, "aagro": rng.random() < 0.5}   # start only
        elif r < 0.9:
            auto = {"cg": False, "aaitp": True, "aagro": True}          # end files of a species never loaded
        else:
            auto = {"cg": False, "aaitp": False, "aagro": False}
        explicit = mapped and rng.random() < 0.25
        if explicit and rng.random() < 0.5:
            auto = {"cg": True, "aaitp": True, "aagro": True}            # also listed: must be removed
        species.append({"files": files, "auto": auto, "explicit": explicit})
    if d9 is True:
        # make sure the D9 shape is present: a species with a start topology only + some coordinate candidate
        k = rng.randrange(len(species))
        species[k]["explicit"] = False
        species[k]["auto"] = {"cg": True, "aaitp": False, "aagro": False}
    foreign = []
    for j in range(rng.choice([0, 0, 1, 2])):
        fs = mgrgen.gen_species(rng, 10 + j, rng.choice(["general", "two", "multi"]))
        fs["name"] = "F" + fs["name"]
        fs["files"] = {"cg": fname(fs, "cg", "itp"), "aaitp": fname(fs, "aaitp", "itp"),
                       "aagro": fname(fs, "aagro", "gro")}
        foreign.append(fs)
    extras = []
    for k in range(rng.randint(0, 3)):
        extras.append({"path": rng.choice(["notes.txt", "README", "run.mdp", "grompp.log", "index.ndx", "a.itp.bak"]),
                       "kind": "txt"})
    if rng.random() < 0.4:
        extras.append({"path": "old_frame.gro", "kind": "othergro"})
    mapped_idx = [k for k, sp in enumerate(desc["species"]) if sp["aa"] is not None]
    if mapped_idx and rng.random() < 0.45:
        for k in rng.sample(mapped_idx, rng.choice([1, 1, min(2, len(mapped_idx))])):
            extras.append({"path": rng.choice(["old_mapped_box", "equilibrated_AA", "aa_copies", "000_frame"]) + f"_{k}.gro",
                           "kind": "multigro", "of": k, "copies": rng.randint(2, 3)})
    if badtop or rng.random() < 0.35:
        for path in rng.sample(BADTOP_NAMES, rng.choice([1, 1, 2])):
            extras.append({"path": path, "kind": "badtop", "variant": rng.choice(sorted(BADTOPS))})
    # OTHER files (other paths, same contents) describing a species that is given explicitly with --mol: a copy of
    # its start topology and/or of its end files kept in a force-field folder.  Discovery must not come back with
    # that species ("never re-adds species given explicitly" — seed C20-3: only the explicit files themselves are
    # filtered out and the scratch System is no longer seeded with the explicit start topologies)
    for k, ls in enumerate(species):
        if ls["explicit"] and rng.random() < 0.6:
            which = rng.choice(["start", "start+end", "all"])
            extras.append({"path": f"ffcopies/{desc['species'][k]['name']}_start_copy.itp", "kind": "explicit-copy",
                           "of": k, "role": "cg"})
            if which in ("start+end", "all"):
                extras.append({"path": f"ffcopies/{desc['species'][k]['name']}_end_copy.itp", "kind": "explicit-copy",
                               "of": k, "role": "aaitp"})
            if which == "all":
                extras.append({"path": f"ffcopies/{desc['species'][k]['name']}_end_copy.gro", "kind": "explicit-copy",
                               "of": k, "role": "aagro"})
    # a LOOK-ALIKE start topology: another molecule name, the residue signature (names, atom counts) of a system
    # species, but other atom names (a stale alternative model kept in the same folder).  The system refuses it
    # (atom names do not match) and must be left exactly as it was, whatever the order in which the candidates
    # are tried (seed C20-6: a refused topology leaves its residues claimed, so the real one is then refused —
    # for the hash seeds that happen to visit the look-alike first)
    if rng.random() < 0.4:
        k = rng.randrange(len(species))
        extras.append({"path": f"alt_{desc['species'][k]['name']}_model.itp", "kind": "lookalike", "of": k})
    seen = set()
    extras = [e for e in extras if not (e["path"] in seen or seen.add(e["path"]))]
    layout = {"style": style, "species": species, "foreign": foreign, "extras": extras,
              "sys": rng.choice(["system.gro", "system.gro", "conf.GRO", "sys.cg.gro"]),
              "sys_in_auto": rng.random() < 0.5, "ambiguous": ambiguous, "exclude": None}
    if rng.random() < (0.3 if for_cli else 0.4):
        names = [s["name"] for s in desc["species"]]
        # one, several or ALL species excluded (two excluded species that are neighbours in discovery order: seed
        # C20-10, `for name in found: found.remove(name)` skips the element after each removal)
        ex = rng.sample(names, rng.choice([1, 1, min(2, len(names)), len(names)]))
        if rng.random() < 0.3:
            ex.append("NOPE")
        layout["exclude"] = ex
    if ambiguous == "dup-start":
        k = rng.randrange(len(species))
        species[k]["explicit"] = False
        species[k]["auto"]["cg"] = True
        layout["dup"] = {"of": k, "path": "copy_of_start.itp"}
    elif ambiguous == "corrupt-top":
        # a CORRUPT molecule topology (malformed [ atoms ] line): MoleculeTop raises ValueError, which the
        # repaired discovery deliberately does not swallow
        extras.append({"path": "broken_molecule.itp", "kind": "corrupt"})
    elif ambiguous == "bad-known":
        # --mol names a species that is NOT in the system: System(reference, top) raises IOError
        if not foreign:
            fs = mgrgen.gen_species(rng, 12, "general")
            fs["name"] = "F" + fs["name"]
            fs["files"] = {"cg": "foreign_start.itp", "aaitp": "foreign_end.itp", "aagro": "foreign_end.gro"}
            foreign.append(fs)
        layout["bad_known"] = 0
    elif ambiguous == "shared-end":
        # --mol for species k names the END files of another species j that is also listed in --auto
        # ("files for the molecules set with the -mol flag will not be searched")
        cands = [k for k, s in enumerate(desc["species"]) if s["aa"] is not None]
        j = rng.choice(cands)
        k = rng.choice([x for x in range(len(species)) if x != j])
        for x, ls in enumerate(species):
            ls["explicit"] = False
        species[j]["auto"] = {"cg": True, "aaitp": True, "aagro": True}
        species[k]["auto"] = {"cg": rng.random() < 0.5, "aaitp": False, "aagro": False}
        layout["shared_end"] = {"explicit": k, "of": j}
    elif ambiguous in ("two-coords", "two-endtops"):
        cands = [k for k, s in enumerate(desc["species"]) if s["aa"] is not None]
        k = rng.choice(cands)
        species[k]["explicit"] = False
        species[k]["auto"] = {"cg": True, "aaitp": True, "aagro": True}
        layout["dup"] = {"of": k, "path": "second_conformer.gro" if ambiguous == "two-coords" else "second_end.itp"}
    return layout


def materialize(desc, layout, root):
    """write everything; returns absolute-path helpers"""
    os.makedirs(root, exist_ok=True)

    def ap(rel):
        p = os.path.join(root, rel)
        os.makedirs(os.path.dirname(p), exist_ok=True)
        return p

    mgrgen.write_gro(ap(layout["sys"]), desc["title"], mgrgen.system_atoms(desc), desc["box"],
                     vel=desc.get("sysvel", False))

    def write_species(sp, files):
        if files["cg"]:
            mgrgen.write_itp(ap(files["cg"]), sp["name"], sp["cg"], comment="start")
        if sp["aa"] is not None and files.get("aaitp"):
            mgrgen.write_itp(ap(files["aaitp"]), sp.get("aa_name", sp["name"]), sp["aa"], comment="end")
        if sp["aa"] is not None and files.get("aagro"):
            mgrgen.write_gro(ap(files["aagro"]), "end " + sp["name"], mgrgen.mol_atoms(sp["aa"]), [3.0, 3.0, 3.0],
                             vel=sp["aa"].get("vel", False))
    for sp, ls in zip(desc["species"], layout["species"]):
        write_species(sp, ls["files"])
    for fs in layout["foreign"]:
        write_species(fs, fs["files"])
    for e in layout["extras"]:
        if e["kind"] == "txt":
            open(ap(e["path"]), "w").write("; nothing to see here\n[ moleculetype ]\n")
        elif e["kind"] == "multigro":
            # SEVERAL molecules of a discoverable species in the FINAL resolution (an old mapped box): it matches the
            # species' end topology but is not "its end coordinates" (Molecule.from_files demands exactly one molecule)
            sp = desc["species"][e["of"]]
            atoms = []
            nres = len(sp["aa"]["residues"])
            for c in range(e["copies"]):
                xyz = [[round(p[0] + 0.9 * c, 3), round(p[1] + 0.1 * c, 3), p[2]] for p in sp["aa"]["xyz"]]
                atoms += mgrgen.mol_atoms(sp["aa"], resid0=1 + c * nres, xyz=xyz)
            mgrgen.write_gro(ap(e["path"]), "several molecules in the final resolution", atoms, [6.0, 6.0, 6.0])
        elif e["kind"] == "othergro":
            mgrgen.write_gro(ap(e["path"]), "something else", [(1, "ZZZ", "Q1", [0.1, 0.2, 0.3]),
                                                               (1, "ZZZ", "Q2", [0.2, 0.2, 0.3])], [2.0, 2.0, 2.0])
        elif e["kind"] == "corrupt":
            open(ap(e["path"]), "w").write("[ moleculetype ]\nBRK 1\n\n[ atoms ]\n1 C one RES A 1 0.0 12.0\n")
        elif e["kind"] == "badtop":
            open(ap(e["path"]), "w").write(BADTOPS[e.get("variant", "ff")])
        elif e["kind"] == "lookalike":
            sp = desc["species"][e["of"]]
            alt = {"residues": [{"resname": r["resname"], "atoms": [f"Z{j + 1}" for j in range(len(r["atoms"]))]}
                                for r in sp["cg"]["residues"]],
                   "bonds": sp["cg"]["bonds"]}
            mgrgen.write_itp(ap(e["path"]), "ALT" + sp["name"][:6], alt, comment="look-alike")
        elif e["kind"] == "explicit-copy":
            sp = desc["species"][e["of"]]
            write_species(sp, {"cg": e["path"] if e["role"] == "cg" else None,
                               "aaitp": e["path"] if e["role"] == "aaitp" else None,
                               "aagro": e["path"] if e["role"] == "aagro" else None})
    dup = layout.get("dup")
    if dup:
        sp, ls = desc["species"][dup["of"]], layout["species"][dup["of"]]
        if layout["ambiguous"] == "dup-start":
            mgrgen.write_itp(ap(dup["path"]), sp["name"], sp["cg"], comment="copy")
        elif layout["ambiguous"] == "two-coords":
            xyz = [[c + 0.01 for c in p] for p in sp["aa"]["xyz"]]
            mgrgen.write_gro(ap(dup["path"]), "other conformer", mgrgen.mol_atoms(sp["aa"], xyz=xyz), [3.0, 3.0, 3.0])
        else:
            mgrgen.write_itp(ap(dup["path"]), sp["name"], sp["aa"], comment="second end topology")
    return ap


def auto_list(layout):
    out = []
    for ls in layout["species"]:
        for role in ("cg", "aaitp", "aagro"):
            if ls["auto"][role] and ls["files"][role]:
                out.append(ls["files"][role])
    for fs in layout["foreign"]:
        out += [fs["files"]["cg"], fs["files"]["aaitp"], fs["files"]["aagro"]]
    # copies of an explicit species' files count only while that species IS explicit (later layout edits may
    # have withdrawn the --mol triple; the copies would then be plain duplicate candidates = ambiguous directory)
    out += [e["path"] for e in layout["extras"]
            if e["kind"] != "explicit-copy" or layout["species"][e["of"]]["explicit"]]
    if layout["sys_in_auto"]:
        out.append(layout["sys"])
    if layout.get("dup"):
        out.append(layout["dup"]["path"])
    return out


def explicit_triples(layout):
    out = [[ls["files"]["cg"], ls["files"]["aagro"], ls["files"]["aaitp"]]
           for ls in layout["species"] if ls["explicit"]]
    if layout.get("bad_known") is not None:
        f = layout["foreign"][layout["bad_known"]]["files"]
        out.append([f["cg"], f["aagro"], f["aaitp"]])
    se = layout.get("shared_end")
    if se:
        out.append([layout["species"][se["explicit"]]["files"]["cg"], layout["species"][se["of"]]["files"]["aagro"],
                    layout["species"][se["of"]]["files"]["aaitp"]])
    return out


def expected_info(desc, layout):
    """ground truth of discovery: species name -> {top_CG[, top_AA[, coor_AA]]} (relative paths)"""
    exp = {}
    for sp, ls in zip(desc["species"], layout["species"]):
        if ls["explicit"] or not ls["auto"]["cg"]:
            continue
        info = {"top_CG": ls["files"]["cg"]}
        same_name = sp.get("aa_name", sp["name"]) == sp["name"]      # discovery pairs topologies by molecule name
        if ls["auto"]["aaitp"] and ls["files"]["aaitp"] and same_name:
            info["top_AA"] = ls["files"]["aaitp"]
            if ls["auto"]["aagro"] and ls["files"]["aagro"]:
                info["coor_AA"] = ls["files"]["aagro"]
        exp[sp["name"]] = info
    return exp


# ----------------------------------------------------------------------------- generation

def generate(ctx):
    rng = ctx.rng
    hs_q = list(range(8))
    hs_t = list(range(64))
    n_hash_dirs = 2 if ctx.quick() else 4
    # D9 first: the shape the design round singled out, small
    for i in range(ctx.n(12, 150)):
        desc = mgrgen.gen_system(rng, nmol_max=10, small=True)
        layout = gen_layout(rng, desc, d9=True)
        yield {"kind": "discover", "desc": desc, "layout": layout, "perm_seed": rng.randrange(2 ** 31),
               "hashseeds": (hs_q if ctx.quick() else hs_t) if i < n_hash_dirs else []}
    for i in range(ctx.n(45, 700)):
        desc = mgrgen.gen_system(rng, nmol_max=(10 if rng.random() < 0.5 else 40), small=rng.random() < 0.4)
        layout = gen_layout(rng, desc)
        yield {"kind": "discover", "desc": desc, "layout": layout, "perm_seed": rng.randrange(2 ** 31),
               "hashseeds": (hs_q if ctx.quick() else hs_t) if i < n_hash_dirs else []}
    for amb in ("dup-start", "two-coords", "two-endtops", "shared-end", "bad-known", "corrupt-top"):
        for _ in range(ctx.n(3, 25)):
            desc = mgrgen.gen_system(rng, nmol_max=8, small=True)
            for s in desc["species"]:
                if s["aa"] is None:
                    s["aa"] = mgrgen.gen_aa(rng, s["cg"], smaller=(s["kind"] == "reverse"))
            yield {"kind": "discover", "desc": desc, "layout": gen_layout(rng, desc, ambiguous=amb, d9=False),
                   "perm_seed": rng.randrange(2 ** 31), "hashseeds": []}
    for _ in range(ctx.n(2, 12)):
        desc = mgrgen.gen_system(rng, nmol_max=8, small=True)
        yield {"kind": "discover", "desc": desc, "layout": gen_layout(rng, desc, badtop=True),
               "perm_seed": rng.randrange(2 ** 31), "hashseeds": []}
    # command line vs library
    for i in range(ctx.n(45, 500)):
        desc = mgrgen.gen_system(rng, nmol_max=12, small=True)
        for s in desc["species"]:
            if s["aa"] is not None:
                s["aa"]["vel"] = False
        layout = gen_layout(rng, desc, for_cli=True, d9=(None if i % 3 else True))
        mode = rng.choice(["mol", "auto", "mixed", "mixed"])
        if i % 4 == 1:
            # a discovered species with start AND end topology but no end coordinates (len(info) == 2), not excluded
            mapped = [k for k, sp in enumerate(desc["species"]) if sp["aa"] is not None]
            k = rng.choice(mapped)
            layout["species"][k]["auto"] = {"cg": True, "aaitp": True, "aagro": False}
            layout["species"][k]["explicit"] = False
            layout["pin_auto"] = k
            if layout["exclude"]:
                layout["exclude"] = [n for n in layout["exclude"] if n != desc["species"][k]["name"]] or None
            mode = "mixed" if mode == "mol" else mode
        if mode == "mol":
            for sp, ls in zip(desc["species"], layout["species"]):
                ls["explicit"] = sp["aa"] is not None
            layout["no_auto"] = True
        elif mode == "auto":
            for ls in layout["species"]:
                ls["explicit"] = False
        if layout.get("pin_auto") is not None:
            layout["species"][layout["pin_auto"]]["explicit"] = False
        for sp, ls in zip(desc["species"], layout["species"]):
            if sp["aa"] is not None and ls["explicit"] and rng.random() < 0.5:
                sp["aa_name"] = rng.choice([sp["name"] + "_AA", "AA" + sp["name"], "LIG", sp["name"].lower() + "x"])
            elif sp["aa"] is not None and not ls["explicit"] and rng.random() < 0.08:
                sp["aa_name"] = sp["name"] + "_other"        # listed in --auto only: cannot be paired by name
        yield {"kind": "cli", "desc": desc, "layout": layout,
               # 0 is a scale like any other ("with the given scale"; seed C20-8: `if scale` treats it as not given)
               "scale": rng.choice([None, 0.5, 1.0, 0.3, 0.75, 0.0, 0.0, round(rng.uniform(0.1, 1.2), 3)]),
               "out": rng.choice([None, None, "result.gro", "outdir/final.gro", "ABS"]),
               "refstyle": rng.choice(["rel", "rel", "dot", "abs", "sub"]),
               "npseed": rng.randrange(2 ** 31), "perm_seed": rng.randrange(2 ** 31)}
    yield {"kind": "shipped", "auto": False, "renamed": True, "scale": rng.choice([0.5, 0.8]),
           "npseed": rng.randrange(2 ** 31), "out": rng.choice([None, "renamed_out.gro"]), "perm_seed": 0}
    for auto in (False, True):
        yield {"kind": "shipped", "auto": auto, "scale": rng.choice([0.5, 0.8]), "npseed": rng.randrange(2 ** 31),
               "out": None if auto else "bmim_aa.gro", "perm_seed": rng.randrange(2 ** 31)}
    # pure functions
    pool = ["a.itp", "b.ITP", "c.gro", "d.GRO", "e.txt", "dir.itp/x.gro", "dir.gro/y", "gro", "itp", "x.tar.itp", ".itp",
            "noext", "a.b.c.gro", "p/q/r.itp", "p/q.gro/r.Itp", "s.gro.", "/abs/z.gro", "t.itp ", "u.pdb", "a.itp"]
    for _ in range(ctx.n(40, 400)):
        yield {"kind": "classify", "files": [rng.choice(pool) for _ in range(rng.randint(0, 9))]}
    refs = ["sys.gro", "a/sys.gro", "/sys.gro", "a//sys.gro", "./sys.gro", "../up/sys.gro", "/abs/dir/sys.gro",
            "a/b/c/s.y.s.gro", "//sys.gro", "a/", "dir.d/sys.gro", "///x//y.gro"]
    for r in refs:
        yield {"kind": "outpath", "ref": r, "out": None, "scale": rng.choice([0.5, 0.25, 1.5])}
    for _ in range(ctx.n(30, 300)):
        parts = [rng.choice(["a", "bb", "", ".", "..", "c.d"]) for _ in range(rng.randint(0, 3))] + [rng.choice(["s.gro", "x", "conf.GRO"])]
        r = ("/" if rng.random() < 0.3 else "") + "/".join(parts)
        yield {"kind": "outpath", "ref": r, "out": rng.choice([None, None, "o.gro", "/t/o.gro"]),
               "scale": rng.choice([0.5, 0.25, 1.5])}


# ----------------------------------------------------------------------------- real-code tables for the model

def real_tables(ref, tops, coords, known):
    """the abstract predicates of the model, computed with the real classes"""
    from gaddlemaps.components import System, MoleculeTop, Molecule
    parse = {}
    for f in tops:
        try:
            parse[f] = ("ok", MoleculeTop(f).name)
        except Exception as e:
            parse[f] = ("err", type(e).__name__)
    base = [k[0] for k in known]
    try:
        System(ref, *base)
        known_ok = True
    except OSError:
        known_ok = False
    loads, conflicts, ff, odd = [], [], [], []
    if known_ok:
        for f in tops:
            if parse[f][0] != "ok":
                continue
            s = System(ref, *base)
            try:
                s.add_molecule_top(MoleculeTop(f))
                loads.append(f)
            except OSError:
                pass
        for a in loads:
            for t in loads:
                if a == t:
                    continue
                s = System(ref, *base)
                s.add_molecule_top(MoleculeTop(a))
                try:
                    s.add_molecule_top(MoleculeTop(t))
                except OSError:
                    conflicts.append((a, t))
        for c in coords:
            for t in tops:
                if parse[t][0] != "ok":
                    continue
                try:
                    Molecule.from_files(c, t)
                    ff.append((c, t))
                except OSError:
                    pass
                except Exception as e:      # not caught by sort_molecules either
                    odd.append((c, t, type(e).__name__))
    return {"parse": parse, "known_ok": known_ok, "loads": loads, "conflicts": conflicts, "ff": ff, "odd": odd}


def sortmol_tokens(tabs, tops, coords, known, repaired=True):
    t = ["1" if repaired else "0", "1" if tabs["known_ok"] else "0"]
    t += [str(len(tops))] + [hexs(f) for f in tops]
    t += [str(len(coords))] + [hexs(f) for f in coords]
    t.append(str(len(known)))
    for k in known:
        t += [hexs(k[0]), hexs(k[1]), hexs(k[2])]
    t.append(str(len(tabs["parse"])))
    for f, (st, v) in tabs["parse"].items():
        t += [hexs(f), "1" if st == "ok" else "0", hexs(v if st == "ok" else ""), str(ERR.get(v, 6) if st != "ok" else 0)]
    t += [str(len(tabs["loads"]))] + [hexs(f) for f in tabs["loads"]]
    t.append(str(len(tabs["conflicts"])))
    for a, b in tabs["conflicts"]:
        t += [hexs(a), hexs(b)]
    t.append(str(len(tabs["ff"])))
    for a, b in tabs["ff"]:
        t += [hexs(a), hexs(b)]
    return " ".join(t)


def parse_sortmol(status, toks):
    if status == "err":
        return {"err": int(toks[0])}
    w, n = int(toks[0]), int(toks[1])
    i = 2
    out = []
    for _ in range(n):
        name, cg = unhexs(toks[i]), unhexs(toks[i + 1])
        aa = unhexs(toks[i + 3]) if toks[i + 2] == "1" else None
        co = unhexs(toks[i + 5]) if toks[i + 4] == "1" else None
        out.append((name, cg, aa, co))
        i += 6
    return {"ok": out, "warn": w}


class OrderedSet(set):
    """a real `set` (every method of the set API works: `remove`, `discard`, `add`, `-`, `|`, `in`, `len` …) whose
    ITERATION order is imposed; elements added later come after the imposed ones.  (A list was used here before: it
    supports `in` / `remove` / iteration only, so a `discard` in `sort_molecules` — a strict refactor — raised
    AttributeError inside the harness: benign change C20-1.)"""

    def __init__(self, order):
        super().__init__(order)
        self._order = list(order)

    def __iter__(self):
        seen = set()
        for x in self._order:
            if set.__contains__(self, x) and x not in seen:
                seen.add(x)
                yield x
        for x in sorted(set.__iter__(self), key=repr):
            if x not in seen:
                yield x

    def copy(self):
        return OrderedSet(list(self))

    def pop(self):
        for x in self:
            set.remove(self, x)
            return x
        raise KeyError("pop from an empty set")

    def __reduce__(self):
        return (OrderedSet, (list(self),))


@contextlib.contextmanager
def ordered_sets(order_seed, fixed=None):
    """make the two sets `sort_molecules` iterates come out in a chosen order: `classify_files` is wrapped to
    return set objects whose iteration order is imposed (`OrderedSet`)"""
    import gaddlemaps._cli as cli
    orig = cli.classify_files
    seen = {}

    def fake(files):
        t, c = orig(files)
        if fixed is not None:
            to, co = fixed
            assert set(to) == set(t) and set(co) == set(c), "imposed order does not match the classification"
        else:
            r = random.Random(order_seed)
            to, co = sorted(t), sorted(c)
            r.shuffle(to)
            r.shuffle(co)
        seen["tops"], seen["coords"] = list(to), list(co)
        return OrderedSet(to), OrderedSet(co)
    cli.classify_files = fake
    try:
        yield seen
    finally:
        cli.classify_files = orig


def run_sort(ref, files, known, tops_order, coords_order):
    import gaddlemaps._cli as cli
    with ordered_sets(0, fixed=(tops_order, coords_order)):
        with warnings.catch_warnings(record=True) as w:
            warnings.simplefilter("always")
            try:
                res = cli.sort_molecules(ref, list(files), [list(k) for k in known])
            except Exception as e:
                return {"err": ERR.get(type(e).__name__, 99), "errname": type(e).__name__}
    nw = sum(1 for x in w if issubclass(x.category, RuntimeWarning) and "Repeated topology" in str(x.message))
    return {"ok": [(n, i["top_CG"], i.get("top_AA"), i.get("coor_AA")) for n, i in res.items()], "warn": nw,
            "lens": {n: len(i) for n, i in res.items()}}


def _orders(rng, tops, coords, quick):
    tops, coords = sorted(tops), sorted(coords)
    if len(tops) <= 4 and len(coords) <= 3:
        return [(list(a), list(b)) for a in itertools.permutations(tops) for b in itertools.permutations(coords)]
    out = [(tops, coords), (tops[::-1], coords[::-1]), (tops, coords[::-1])]
    for _ in range(5 if quick else 20):
        a, b = tops[:], coords[:]
        rng.shuffle(a)
        rng.shuffle(b)
        out.append((a, b))
    return out


HASH_SCRIPT = ("import json,sys,warnings\nwarnings.simplefilter('ignore')\n"
               "from gaddlemaps._cli import sort_molecules\na=json.load(open(sys.argv[1]))\n"
               "try:\n r=sort_molecules(a['ref'],a['files'],a['known'])\n print(json.dumps({'ok':r}))\n"
               "except Exception as e:\n print(json.dumps({'err':type(e).__name__}))\n")


def run_hashseed(argfile, k):
    env = dict(os.environ)
    env["PYTHONHASHSEED"] = str(k)
    p = subprocess.run(["/venv/bin/python", "-c", HASH_SCRIPT, argfile], capture_output=True, text=True, env=env,
                       timeout=300)
    try:
        return json.loads(p.stdout.strip().splitlines()[-1])
    except Exception:
        return {"err": "subprocess:" + p.stderr[-300:]}


# ----------------------------------------------------------------------------- evaluation

def evaluate(ctx, case):
    warnings.simplefilter("ignore")
    k = case["kind"]
    if k == "discover":
        return _eval_discover(ctx, case)
    if k == "cli":
        return _eval_cli(ctx, case)
    if k == "shipped":
        return _eval_shipped(ctx, case)
    if k == "classify":
        return _eval_classify(ctx, case)
    if k == "outpath":
        return _eval_outpath(ctx, case)
    raise ValueError("unknown case kind")


def _judged(layout):
    return layout.get("ambiguous") is None


def _eval_discover(ctx, case):
    import gaddlemaps._cli as cli
    desc, layout = case["desc"], case["layout"]
    root = os.path.join(ctx.scratch, f"c20-{ctx.evaluations}")
    try:
        ap = materialize(desc, layout, root)
        ref = ap(layout["sys"])
        files = [ap(f) for f in auto_list(layout)]
        known = [[ap(f) for f in t] for t in explicit_triples(layout)]
        tset, cset = cli.classify_files(files)
        tops, coords = sorted(tset), sorted(cset)
        rm_t = {k[0] for k in known} | {k[2] for k in known}
        rm_c = {k[1] for k in known}
        tabs = real_tables(ref, [f for f in tops if f not in rm_t], [f for f in coords if f not in rm_c], known)
        judged = _judged(layout)
        expected = {n: {k: ap(v) for k, v in i.items()} for n, i in expected_info(desc, layout).items()}
        d9_shape = any(("top_AA" not in i) for i in expected.values()) and len([f for f in coords if f not in rm_c]) > 0
        ctx.case(case, nontrivial=len(tops) >= 2,
                 sample={"tops": [os.path.relpath(f, root) for f in tops], "coords": [os.path.relpath(f, root) for f in coords],
                         "known": len(known), "expected": {n: sorted(i) for n, i in expected.items()},
                         "ambiguous": layout.get("ambiguous")})
        ctx.count("discover")
        ctx.count("discover:" + (layout.get("ambiguous") or "unambiguous"))
        if any(e["kind"] == "badtop" for e in layout["extras"]) and any(f.endswith(e["path"]) for e in layout["extras"]
                                                                     if e["kind"] == "badtop" for f in tops):
            ctx.count("discover:with-candidate-that-is-not-a-molecule-topology")
        if d9_shape:
            ctx.count("discover:start-topology-without-end-topology")
        if known:
            ctx.count("discover:with-explicit")
        if any(e["kind"] == "multigro" for e in layout["extras"]):
            ctx.count("discover:with-multi-molecule-final-resolution-gro")
        ctx.count("candidate-tops", len(tops))
        ctx.count("candidate-coords", len(coords))
        if tabs["odd"]:
            ctx.count("discover:from_files-raises-non-OSError", len(tabs["odd"]))
        rng = random.Random(case["perm_seed"])
        orders = _orders(rng, tops, coords, ctx.quick())
        ctx.count("orders", len(orders))
        results = set()
        for to, co in orders:
            r = run_sort(ref, files, known, to, co)
            if "ok" in r:
                canon = tuple(sorted(r["ok"]))
                results.add(canon)
                got = {n: {k: v for k, v in (("top_CG", cg), ("top_AA", aa), ("coor_AA", cc)) if v is not None}
                       for n, cg, aa, cc in r["ok"]}
                if r["warn"]:
                    ctx.count("repeated-topology-warning", r["warn"])
            else:
                results.add(("err", r["errname"]))
                got = None
                ctx.count("discover:raises-" + r["errname"])
            if judged:
                ctx.oracle_ok(2)
                if got is None:
                    ctx.oracle_fail(f"sort_molecules:raises-{r['errname']}", case,
                                    {"order": [[os.path.relpath(f, root) for f in to], [os.path.relpath(f, root) for f in co]],
                                     "expected": expected_info(desc, layout)})
                elif got != expected:
                    ctx.oracle_fail("sort_molecules:wrong-assignment", case,
                                    {"got": {n: {k: os.path.relpath(v, root) for k, v in i.items()} for n, i in got.items()},
                                     "expected": expected_info(desc, layout)})
                if got is not None and any(n in got for n in [desc["species"][i]["name"]
                                                              for i, ls in enumerate(layout["species"]) if ls["explicit"]]):
                    ctx.oracle_fail("sort_molecules:explicit-species-reappears", case, {"got": sorted(got)})

            def cb(status, toks, case, r=r, to=to):
                m = parse_sortmol(status, toks)
                if "err" in r or "err" in m:
                    if r.get("err") != m.get("err"):
                        ctx.disagree(case, "sort_molecules error", r.get("errname", "no error"), m)
                elif m["ok"] != r["ok"]:
                    ctx.disagree(case, "sort_molecules result (dict order included)", r["ok"], m["ok"])
                elif m["warn"] != r["warn"]:
                    ctx.disagree(case, "sort_molecules warnings", r["warn"], m["warn"])
            ctx.model.ask("sortmol", sortmol_tokens(tabs, to, co, known), cb, case)
        if not judged:
            ctx.count(f"outside-quantifier:{layout.get('ambiguous')}:distinct-results-{len(results)}")
        elif len(results) > 1:
            ctx.oracle_fail("sort_molecules:order-dependent", case, {"distinct": len(results)})
        # real hash seeds, argument list shuffled
        if case.get("hashseeds"):
            argf = os.path.join(root, "args.json")
            outs = []
            with ThreadPoolExecutor(8) as ex:
                futs = []
                for k in case["hashseeds"]:
                    fl = files[:]
                    random.Random(k * 7919 + case["perm_seed"]).shuffle(fl)
                    af = f"{argf}.{k}"
                    json.dump({"ref": ref, "files": fl, "known": known}, open(af, "w"))
                    futs.append(ex.submit(run_hashseed, af, k))
                outs = [f.result() for f in futs]
            ctx.count("hashseed-subprocess-runs", len(outs))
            for k, o in zip(case["hashseeds"], outs):
                if "ok" in o:
                    got = o["ok"]
                    if judged:
                        ctx.oracle_ok()
                        if got != expected:
                            ctx.oracle_fail("sort_molecules:wrong-assignment", case, {"hashseed": k, "got": got})
                elif str(o["err"]).startswith("subprocess:"):
                    raise RuntimeError("hash-seed subprocess failed: " + o["err"])
                elif judged:
                    ctx.oracle_ok()
                    ctx.oracle_fail(f"sort_molecules:raises-{o['err']}", case, {"hashseed": k})
    finally:
        shutil.rmtree(root, ignore_errors=True)


# ---- command line vs library

@contextlib.contextmanager
def _cwd(path):
    old = os.getcwd()
    os.chdir(path)
    try:
        yield
    finally:
        os.chdir(old)


def _run_main(argv, order_seed, npseed, cwd):
    """in-process `main()`; returns (exception name | None, molecules handed to auto_map, kwargs, extrapolate path)"""
    import gaddlemaps._cli as cli
    from gaddlemaps import Alignment, Manager
    seen = {"auto_map": None, "path": None, "sorted": False}
    orig_auto, orig_ext, orig_sort = cli.auto_map, Manager.extrapolate_system, cli.sort_molecules

    def sort_molecules(*a, **k):
        r = orig_sort(*a, **k)
        seen["sorted"] = True
        return r

    def auto_map(ref, species, scale=0.5, outfile=None):
        seen["auto_map"] = {"ref": ref, "species": [list(s) for s in species], "scale": scale, "outfile": outfile}
        return orig_auto(ref, species, scale, outfile=outfile)

    def extrapolate(self, path):
        seen["path"] = path
        return orig_ext(self, path)
    old_argv, old_steps = sys.argv, Alignment.STEPS_FACTOR
    cli.auto_map, Manager.extrapolate_system, cli.sort_molecules = auto_map, extrapolate, sort_molecules
    sys.argv = ["gaddlemaps"] + argv
    Alignment.STEPS_FACTOR = STEPS
    err = None
    try:
        with _cwd(cwd), ordered_sets(order_seed) as order, _quiet(), contextlib.redirect_stderr(io.StringIO()):
            np.random.seed(npseed)
            try:
                cli.main()
            except SystemExit as e:
                err = "SystemExit"
            except Exception as e:
                err = type(e).__name__
    finally:
        sys.argv, Alignment.STEPS_FACTOR = old_argv, old_steps
        cli.auto_map, Manager.extrapolate_system, cli.sort_molecules = orig_auto, orig_ext, orig_sort
    return err, seen, order


def _run_library(ref, mols, scale, out, npseed, cwd, by_own_name=False):
    """the library workflow for the triples `mols` (start topology, end coordinates, end topology):
    `Manager.from_files(ref, *starts)`; each end molecule `Molecule.from_files(gro, itp)` is attached to the species
    named by the START topology of its triple (`manager.molecule_correspondence[name].end = mol` — the documented way
    to map a species onto a differently named molecule); when every end molecule carries its species' name this is
    `manager.add_end_molecules(*mols)`, used instead when `by_own_name`."""
    from gaddlemaps import Alignment, Manager
    from gaddlemaps.components import Molecule
    from gaddlemaps.parsers import read_topology
    old_steps = Alignment.STEPS_FACTOR
    Alignment.STEPS_FACTOR = STEPS
    try:
        with _cwd(cwd), _quiet():
            np.random.seed(npseed)
            try:
                man = Manager.from_files(ref, *[m[0] for m in mols])
                ends = [Molecule.from_files(m[1], m[2]) for m in mols]
                if by_own_name:
                    man.add_end_molecules(*ends)
                else:
                    for m, end in zip(mols, ends):
                        man.molecule_correspondence[read_topology(m[0])[0]].end = end
                man.align_molecules()
                man.calculate_exchange_maps(scale)
                man.extrapolate_system(out)
            except Exception as e:
                return type(e).__name__
    finally:
        Alignment.STEPS_FACTOR = old_steps
    return None


def _snapshot(root):
    out = set()
    for d, _, fs in os.walk(root):
        for f in fs:
            out.add(os.path.relpath(os.path.join(d, f), root))
    return out


def _eval_cli(ctx, case):
    desc, layout = case["desc"], case["layout"]
    root = os.path.join(ctx.scratch, f"c20-{ctx.evaluations}")
    try:
        if case["refstyle"] == "sub":
            layout = dict(layout)
            layout["sys"] = "input/" + layout["sys"]
        ap = materialize(desc, layout, root)
        os.makedirs(os.path.join(root, "outdir"), exist_ok=True)
        rel = layout["sys"]
        ref = {"rel": rel, "sub": rel, "dot": "./" + rel, "abs": ap(rel)}[case["refstyle"]]
        argv = [ref]
        triples = explicit_triples(layout)
        for t in triples:
            argv += ["--mol"] + t
        use_auto = not layout.get("no_auto")
        files = auto_list(layout)
        if use_auto and files:
            argv += ["--auto"] + files
        else:
            use_auto = False
        if use_auto and layout.get("exclude"):
            argv += ["--exclude"] + layout["exclude"]
        if case["scale"] is not None:
            argv += ["--scale", repr(case["scale"])]
        out_arg = case["out"]
        if out_arg == "ABS":
            out_arg = os.path.join(root, "outdir", "abs_out.gro")
        if out_arg is not None:
            argv += ["-o", out_arg]
        scale = 0.5 if case["scale"] is None else case["scale"]
        before = _snapshot(root)
        err, seen, order = _run_main(argv, case["perm_seed"], case["npseed"], root)
        created = sorted(_snapshot(root) - before)

        # expected list handed to auto_map: explicit first (given order), then discovered complete species in
        # loading order, minus excluded ones
        judged = _judged(layout)
        exp_info = expected_info(desc, layout)
        exp_mols = [list(t) for t in triples]
        if use_auto:
            order_tops = order.get("tops", [])
            disc = [(n, i) for n, i in exp_info.items() if len(i) == 3 and n not in (layout.get("exclude") or [])]
            disc.sort(key=lambda ni: order_tops.index(ni[1]["top_CG"]) if ni[1]["top_CG"] in order_tops else 1e9)
            exp_mols += [[i["top_CG"], i["coor_AA"], i["top_AA"]] for _, i in disc]
        exp_out = out_arg if out_arg is not None else os.path.join(os.path.dirname(ref), "mapped_" + os.path.basename(ref))
        ctx.case(case, nontrivial=len(exp_mols) >= 1,
                 sample={"argv": argv[:12], "expected_species": len(exp_mols), "out": exp_out, "err": err})
        ctx.count("cli")
        ctx.count("cli:" + ("mol+auto" if (triples and use_auto) else "auto" if use_auto else "mol"))
        ctx.count("cli:out-" + ("default" if case["out"] is None else "explicit"))
        ctx.count("cli:ref-" + case["refstyle"])
        ctx.count("cli:species-mapped", len(exp_mols))
        if use_auto and layout.get("exclude"):
            ctx.count("cli:with-exclude")
        ctx.count("cli:err-" + str(err))

        libout = os.path.join(root, "library_out.gro")
        # the property fixes WHICH species are handed over (explicit ones first, in the order given), not the
        # order among the discovered ones: the library workflow mirrors the order main() actually used
        lib_mols = exp_mols
        if seen["auto_map"] is not None:
            got = seen["auto_map"]["species"]
            if got[:len(triples)] == exp_mols[:len(triples)] and sorted(got) == sorted(exp_mols):
                lib_mols = got
        renamed = any(sp.get("aa_name", sp["name"]) != sp["name"] for sp in desc["species"])
        if renamed and triples:
            ctx.count("cli:explicit-triple-with-different-start/end-molecule-names")
        own = (not renamed) and case["npseed"] % 2 == 0
        ctx.count("cli:library-attaches-by-" + ("own-name(add_end_molecules)" if own else "start-species-name"))
        lerr = _run_library(ref, lib_mols, scale, libout, case["npseed"], root, by_own_name=own)
        fails = []
        if lib_mols and lerr is not None:
            # something is to be mapped and the LIBRARY workflow itself fails on these files
            fails.append((f"library-workflow:raises-{lerr}", {"species": lib_mols}))
        if seen["auto_map"] is None:
            # an exception out of the discovery step is the same failure class as in the `discover` cases
            fails.append((f"sort_molecules:raises-{err}" if (use_auto and not seen["sorted"])
                          else f"main:raises-{err}-before-auto_map", {"argv": argv, "via": "main()"}))
        else:
            am = seen["auto_map"]
            if am["species"] != lib_mols:
                fails.append(("main:wrong-species-list", {"got": am["species"], "expected": exp_mols}))
            if am["scale"] != scale:
                fails.append(("main:scale", {"got": am["scale"], "expected": scale}))
            if err != lerr:
                fails.append(("cli-vs-library:error", {"cli": err, "library": lerr, "argv": argv}))
            elif err is None:
                if seen["path"] != exp_out:
                    fails.append(("cli:output-path", {"got": seen["path"], "expected": exp_out}))
                if created != [os.path.normpath(os.path.relpath(os.path.join(root, exp_out), root))]:
                    fails.append(("cli:files-created", {"created": created, "expected": exp_out}))
                else:
                    a = open(os.path.join(root, exp_out), "rb").read()
                    b = open(libout, "rb").read()
                    if a != b:
                        fails.append(("cli-vs-library:bytes", {"cli_bytes": len(a), "library_bytes": len(b),
                                                               "first_diff": next((i for i, (x, y) in enumerate(zip(a, b)) if x != y), -1)}))
            elif created:
                ctx.count("cli:error-leaves-file")
        if judged:
            ctx.oracle_ok(5)
            for k, d in fails:
                ctx.oracle_fail(k, case, d)
        else:
            ctx.count("cli:outside-quantifier")

        # model: post-processing of main and the output path
        if seen["auto_map"] is not None and judged:
            am = seen["auto_map"]
            info = []
            if use_auto:
                ot = order.get("tops", [])
                items = sorted(exp_info.items(), key=lambda ni: ot.index(ni[1]["top_CG"]) if ni[1]["top_CG"] in ot else 1e9)
                info = [(n, i["top_CG"], i.get("top_AA"), i.get("coor_AA")) for n, i in items]
            t = [str(len(triples))] + [hexs(x) for tr in triples for x in tr]
            t += ["1" if use_auto else "0", str(len(info))]
            for n, cg, aa, co in info:
                t += [hexs(n), hexs(cg), "1" if aa else "0", hexs(aa or ""), "1" if co else "0", hexs(co or "")]
            ex = layout.get("exclude") if use_auto else None
            t += ["1" if ex is not None else "0", str(len(ex or []))] + [hexs(x) for x in (ex or [])]

            def cb(status, toks, case, am=am):
                n = int(toks[1])
                got = [[unhexs(toks[2 + 3 * i + j]) for j in range(3)] for i in range(n)]
                if got != am["species"]:
                    ctx.disagree(case, "main: molecules handed to auto_map", am["species"], got)
            ctx.model.ask("mainmols", " ".join(t), cb, case)
            if seen["path"] is not None:
                def cb2(status, toks, case, p=seen["path"]):
                    if unhexs(toks[0]) != p:
                        ctx.disagree(case, "auto_map output path", p, unhexs(toks[0]))
                ctx.model.ask("outpath", f"{hexs(ref)} {'1' if out_arg is not None else '0'} {hexs(out_arg or '')}", cb2, case)
    finally:
        shutil.rmtree(root, ignore_errors=True)


def _eval_shipped(ctx, case):
    import gaddlemaps
    D = gaddlemaps.DATA_FILES_PATH
    root = os.path.join(ctx.scratch, f"c20-shipped-{ctx.evaluations}")
    os.makedirs(root, exist_ok=True)
    try:
        # the input is COPIED: the default output name is "beside the input" and nothing may be written under /repo
        for f in ("system_bmimbf4_cg.gro", "BMIM_CG.itp", "BF4_CG.itp", "BMIM_AA.gro", "BMIM_AA.itp", "BF4_AA.gro",
                  "BF4_AA.itp", "BF4_CG.gro", "SDS_AA.itp", "VTE_AA.gro", "VTE_AA.itp", "vitamin_E_CG.itp"):
            shutil.copy(D[f], os.path.join(root, f))
        # a force-field include, as it sits next to the molecule topologies in any real directory
        open(os.path.join(root, "martini_v2.2.itp"), "w").write(BADTOPS["ff"])
        ref = "system_bmimbf4_cg.gro"
        mols = [["BMIM_CG.itp", "BMIM_AA.gro", "BMIM_AA.itp"], ["BF4_CG.itp", "BF4_AA.gro", "BF4_AA.itp"]]
        if case.get("renamed"):
            # the all-atom topology calls the molecule differently from the coarse-grained one (as the shipped
            # vitamin_E_CG.itp / VTE_AA.itp pair does): only the explicit triple says the files belong together
            txt = open(os.path.join(root, "BMIM_AA.itp")).read().split("\n")
            k = next(i for i, l in enumerate(txt) if "moleculetype" in l)
            j = next(i for i in range(k + 1, len(txt)) if txt[i].strip() and not txt[i].lstrip().startswith(";"))
            txt[j] = txt[j].replace("BMIM", "BMIM_ALLATOM", 1)
            open(os.path.join(root, "BMIM_renamed_AA.itp"), "w").write("\n".join(txt))
            mols[0][2] = "BMIM_renamed_AA.itp"
        if case["auto"]:
            files = sorted(f for f in os.listdir(root))
            argv = [ref, "--auto"] + files + ["--scale", repr(case["scale"])]
        else:
            argv = [ref, "--mol"] + mols[0] + ["--mol"] + mols[1] + ["--scale", repr(case["scale"])]
        if case["out"]:
            argv += ["-o", case["out"]]
        before = _snapshot(root)
        err, seen, order = _run_main(argv, case["perm_seed"], case["npseed"], root)
        created = sorted(_snapshot(root) - before)
        exp_out = case["out"] or "mapped_" + ref
        ctx.case(case, nontrivial=True, sample={"argv": argv})
        ctx.count("cli:shipped-" + ("auto" if case["auto"] else "mol"))
        fails = []
        if err is not None or seen["auto_map"] is None:
            fails.append((f"sort_molecules:raises-{err}" if (case["auto"] and not seen["sorted"])
                          else f"shipped:raises-{err}", {"argv": argv}))
        else:
            got = seen["auto_map"]["species"]
            if sorted(got) != sorted(mols):
                fails.append(("shipped:wrong-species-list", {"got": got}))
            libout = os.path.join(root, "library_out.gro")
            lerr = _run_library(ref, got if sorted(got) == sorted(mols) else mols, case["scale"], libout, case["npseed"], root)
            if lerr is not None:
                fails.append(("library-workflow:raises-" + lerr, {"shipped": True}))
            elif created != [exp_out]:
                fails.append(("cli:files-created", {"created": created, "expected": exp_out}))
            elif open(os.path.join(root, exp_out), "rb").read() != open(libout, "rb").read():
                fails.append(("cli-vs-library:bytes", {"shipped": True}))
        ctx.oracle_ok(4)
        for k, d in fails:
            ctx.oracle_fail(k, case, d)
    finally:
        shutil.rmtree(root, ignore_errors=True)


def _eval_classify(ctx, case):
    import gaddlemaps._cli as cli
    from gaddlemaps.parsers import ParserManager
    from gaddlemaps.parsers._top_parsers import TopologyParserManager
    files = case["files"]
    t, c = cli.classify_files(files)
    ctx.case(case, nontrivial=len(set(files)) >= 3)
    ctx.count("classify")
    ctx.oracle_ok()
    te, ce = sorted(TopologyParserManager.parsers), sorted(ParserManager.parsers)
    want_t = {f for f in files if os.path.basename(f).split(".")[-1] in ("itp", "ITP")}
    want_c = {f for f in files if os.path.basename(f).split(".")[-1] in ("gro", "GRO")}
    if t != want_t or c != want_c:
        ctx.oracle_fail("classify_files", case, {"tops": sorted(t), "coords": sorted(c)})

    def cb(status, toks, case, t=t, c=c):
        n = int(toks[0])
        mt = {unhexs(x) for x in toks[1:1 + n]}
        m = int(toks[1 + n])
        mc = {unhexs(x) for x in toks[2 + n:2 + n + m]}
        if mt != t or mc != c:
            ctx.disagree(case, "classify_files", [sorted(t), sorted(c)], [sorted(mt), sorted(mc)])
    tok = [str(len(te))] + [hexs(x) for x in te] + [str(len(ce))] + [hexs(x) for x in ce]
    tok += [str(len(files))] + [hexs(x) for x in files]
    ctx.model.ask("classify", " ".join(tok), cb, case)


def _eval_outpath(ctx, case):
    """the path logic and argument forwarding of the REAL `auto_map`, with `gaddlemaps.Manager` stubbed
    (`auto_map` resolves it at call time)"""
    import gaddlemaps
    import gaddlemaps._cli as cli
    seen = {}

    class Stub:
        """stands for the Manager: records what auto_map hands over; any other method is accepted"""
        molecule_correspondence = {}

        @classmethod
        def from_files(cls, ref, *tops):
            seen["from_files"] = (ref, tops)
            return cls()

        def calculate_exchange_maps(self, *a, **k):
            seen["scale"] = k.get("scale_factor", a[0] if a else None)

        def extrapolate_system(self, path):
            seen["path"] = path

        def __getattr__(self, name):
            def method(*a, **k):
                seen.setdefault("calls", []).append(name)
            return method
    orig = gaddlemaps.Manager
    gaddlemaps.Manager = Stub
    err = None
    try:
        cli.auto_map(case["ref"], [], case["scale"], outfile=case["out"])
    except Exception as e:
        err = type(e).__name__
    finally:
        gaddlemaps.Manager = orig
    if err is not None:
        ctx.oracle_fail(f"auto_map:raises-{err}", case, {"seen": {k: str(v) for k, v in seen.items()}})
    ctx.case(case, nontrivial=True)
    ctx.count("outpath")
    ctx.oracle_ok(2)
    if seen.get("scale") != case["scale"]:
        ctx.oracle_fail("auto_map:scale-not-forwarded", case, seen)
    ref = case["ref"]
    if case["out"] is not None:
        want = case["out"]
    elif "/" not in ref:
        want = "mapped_" + ref
    elif ref.count("/") == 1 and not ref.startswith("/") and not ref.endswith("/"):
        want = ref.split("/")[0] + "/mapped_" + ref.split("/")[1]
    else:
        want = None          # odd spellings: model comparison only
    if want is not None and seen.get("path") != want:
        ctx.oracle_fail("auto_map:output-path", case, {"got": seen.get("path"), "expected": want})

    def cb(status, toks, case, p=seen.get("path")):
        if unhexs(toks[0]) != p:
            ctx.disagree(case, "auto_map output path", p, unhexs(toks[0]))
    ctx.model.ask("outpath", f"{hexs(ref)} {'1' if case['out'] is not None else '0'} {hexs(case['out'] or '')}", cb, case)
