"""C04 — applying an exchange map is pure, history-independent and species-checked.

Case: {"kind": "seq", "pair": "gen"|"bmim"|"bf4", "stream": "exact"|"float", "setup": seed,
       "steps": [seed, …], "odd": None|"o5"|"resmismatch"}

The real `ExchangeMap` is built from real molecules (generated .itp/.gro files, or the shipped
BMIM CG→AA / BF4 AA→CG pairs) and driven through a random history of calls (accepted and
rejected), coordinate mutations of the construction molecules / arguments / earlier results, and
copies; the same history goes to the Lean heap model as one `heapseq` request and outcomes,
frame-table keys, equivalences and the observation of every live object are compared after every
operation.  The model runs `call (concreteGeo s)` (GMModel/EMapGeo.lean: the numeric model of
C01-C03) at Float, so the coordinates of every returned molecule are compared with the model at 1e-9.

Oracle (the property's clauses on the implementation):
  fresh        the result of every accepted call is bit-identical to what a map freshly built from
               pristine copies of the construction molecules returns for the same argument
               (history independence, purity, immunity to later mutation of the construction molecules)
  coordinates  a call changes no coordinate (no gro-side observable at all) of the argument, the
               construction molecules or earlier results; a rejected call changes nothing
  labels       result has the target's atom names, residue names, atom count and order and, residue
               by residue, the argument's residue numbers
  species      other species / non-molecule -> TypeError, same-species argument accepted, and the
               map keeps working afterwards (later calls are again compared with a fresh map)
Outside the property's quantifier, counted only: `odd="o5"` (same-named molecule with a different bond
graph), `odd="resmismatch"` (target with another number of residues).
"""
import itertools
import os
import random

import numpy as np
from ..common import quiet as _quiet

from .. import heapgen as hg
from ..heapgen import World, tok_v3
from ..common import fbits

RULE = ("call/mutation histories (<= 30 quick / <= 200 thorough) over generated reference/target species "
        "(reference 3-7 atoms, connected, 1-2 residues; target 1-9 atoms, same residue count; scale in "
        "{1, .5, 2, 1e-3}) and the shipped BMIM CG->AA and BF4 AA->CG pairs; arguments = System hand-outs, "
        "copies, deep copies, the reference itself; rejected = other species, renamed species, residues, "
        "atoms, None, str, MoleculeTop. Non-trivial = >= 2 accepted calls on different arguments and >= 1 "
        "rejected call or mutation; distinct by hash of the case seeds.")

TOL = 1e-9



def _priv_em(em, name):
    """a private table of the ExchangeMap (compared with the model while it exists under this name; an empty table
    otherwise: the comparison of internals is then void, the mapped coordinates are compared regardless)"""
    v = getattr(em, name, None)
    return v if v is not None else {}

def generate(ctx):
    rng = ctx.rng
    nseq = ctx.n(300, 450)
    maxlen = 30 if ctx.quick() else 200
    for k in range(nseq):
        x = rng.random()
        pair = "gen" if x < 0.8 else ("bmim" if x < 0.92 else "bf4")
        odd = None
        if pair == "gen":
            y = rng.random()
            odd = "o5" if y < 0.08 else ("resmismatch" if y < 0.12 else None)
        nops = rng.randint(4, maxlen) if rng.random() < 0.85 else rng.randint(1, 5)
        yield {"kind": "seq", "pair": pair, "odd": odd,
               "stream": "exact" if (pair == "gen" and rng.random() < 0.5) else "float",
               "setup": rng.getrandbits(40),
               "steps": [rng.getrandbits(40) for _ in range(nops)]}


# ----------------------------------------------------------------------------- setup

def data_dir():
    import gaddlemaps
    return os.path.join(os.path.dirname(gaddlemaps.__file__), "data")


class Setup:
    pass


def setup_world(ctx, case):
    from gaddlemaps.components import Molecule, System
    from gaddlemaps import ExchangeMap
    rng = random.Random(case["setup"])
    stream = case["stream"]
    w = World(ctx, stream)
    S = Setup()
    S.args, S.bad, S.results, S.oddargs = [], [], [], []
    d = os.path.join(ctx.scratch, "c04-%d-%d" % (case["setup"], ctx.evaluations))
    os.makedirs(d, exist_ok=True)
    pair = case["pair"]
    if pair == "gen":
        ref_sp = hg.gen_species(rng, "A", 3, 7, rmax=2)
        S.lip = case["setup"] % 5 == 1
        for _ in range(20):
            if not S.lip or len(ref_sp["sizes"]) == 2:
                break
            ref_sp = hg.gen_species(rng, "A", 3, 7, rmax=2)       # (two residues wanted for the LIP LIP target below)
        nres = len(ref_sp["sizes"])
        collide = case["setup"] % 7 == 3
        if collide:
            # the first residue of the reference species is called "1AB" (PDB style, digit first): the near-miss below is
            # then the species with residue (11, "AB") — another species although "1" + "1AB" == "11" + "AB"
            ref_sp["atoms"] = [((r, "1AB", a) if r == 1 else (r, n_, a)) for (r, n_, a) in ref_sp["atoms"]]
        # target with the same number of residues (another number for the 'resmismatch' stream)
        while True:
            tgt_sp = hg.gen_species(rng, "B", max(1, nres), 9, rmax=3)
            same = len(tgt_sp["sizes"]) == nres
            if same != (case.get("odd") == "resmismatch"):
                break
        if S.lip:
            # a target whose residues all carry the SAME name (LIP LIP, SOL SOL SOL): they are told apart by their
            # numbers in the topology only (seed C04-12: residue numbers assigned through the shared topology's grouping,
            # which merges adjacent equal labels for good)
            # (identical residues: the loader tells residue KINDS apart by name and size)
            k3 = 2 + case["setup"] % 2
            tgt_sp = {"name": tgt_sp["name"], "sizes": [k3] * nres,
                      "atoms": [(r + 1, "LIP", f"L{j}") for r in range(nres) for j in range(k3)],
                      "bonds": [(i - 1, i) for i in range(1, k3 * nres)]}
        ritp, titp = os.path.join(d, "ref.itp"), os.path.join(d, "tgt.itp")
        hg.write_itp(ritp, ref_sp)
        hg.write_itp(titp, tgt_sp)
        nmol = rng.randint(2, 4)
        lines, per_mol = [], []
        with_vel = rng.random() < 0.4
        for m in range(nmol):
            ml = hg.molecule_lines(rng, ref_sp, stream, 1 + m * nres, 1 + m * len(ref_sp["atoms"]), with_vel,
                                   centre=hg.vec(rng, "exact"))
            lines += ml
            per_mol.append([hg.parse_back(l) for l in ml])
        rsys = os.path.join(d, "refsys.gro")
        hg.write_gro(rsys, lines)
        syst = System(rsys, ritp)
        w.keep.append(syst)
        base = w.add_loaded(syst.different_molecules[0], "System(ref).different_molecules[0]",
                            sys={"system": syst, "mols": per_mol, "sizes": ref_sp["sizes"]})
        # the reference: its own file (own topology) or a hand-out (topology shared with arguments)
        if rng.random() < 0.5:
            rgro = os.path.join(d, "ref.gro")
            centre = hg.vec(rng, "exact")
            hg.write_gro(rgro, hg.molecule_lines(rng, ref_sp, stream, rng.randint(1, 50), 1, False, centre=centre))
            ref = Molecule.from_files(rgro, ritp)
            S.ref = w.add_loaded(ref, "reference from_files")
            ctx.count("ref:own-topology")
        else:
            S.ref = handout(w, base, 0, "getitem")
            ref = w.env[S.ref]
            ctx.count("ref:system-handout")
        # target near the reference
        c = [float(x) for x in ref.geometric_center]
        if stream == "exact":
            c = [round(x * 8) / 8 for x in c]
        else:
            c = [round(x, 3) for x in c]
        tgro = os.path.join(d, "tgt.gro")
        hg.write_gro(tgro, hg.molecule_lines(rng, tgt_sp, stream, rng.randint(1, 50), 1, rng.random() < 0.4,
                                             centre=c))
        S.tgt = w.add_loaded(Molecule.from_files(tgro, titp), "target from_files")
        for j in range(nmol):
            S.args.append(handout(w, base, j, rng.choice(["getitem", "iter"])))
        S.args.append(S.ref)
        # near-miss species: renamed molecule / one atom renamed / one atom less
        nm = rng.choice(["molname", "atomname", "shorter"])
        if collide:
            nm = "residue-label-collision"
        sp2 = {"name": ref_sp["name"], "atoms": list(ref_sp["atoms"]), "bonds": list(ref_sp["bonds"]),
               "sizes": list(ref_sp["sizes"])}
        if nm == "residue-label-collision":
            # (seed C04-11: atoms compared through the concatenation resid + resname)
            sp2["atoms"] = [((11, "AB", a) if r == 1 else (r, n_, a)) for (r, n_, a) in sp2["atoms"]]
        elif nm == "molname":
            sp2["name"] = ref_sp["name"] + "X"
        elif nm == "atomname":
            k = rng.randrange(len(sp2["atoms"]))
            a = sp2["atoms"][k]
            sp2["atoms"][k] = (a[0], a[1], a[2] + "q")
        else:
            sp2["atoms"] = sp2["atoms"][:-1]
            n2 = len(sp2["atoms"])
            sp2["bonds"] = [b for b in sp2["bonds"] if b[0] < n2 and b[1] < n2]
        nitp, ngro = os.path.join(d, "near.itp"), os.path.join(d, "near.gro")
        hg.write_itp(nitp, sp2)
        hg.write_gro(ngro, hg.molecule_lines(rng, sp2, stream, 1, 1, False))
        try:
            S.bad.append(w.add_loaded(Molecule.from_files(ngro, nitp), f"near-miss species ({nm})"))
            ctx.count("bad-species:" + nm)
        except Exception:
            pass   # e.g. a residue lost all its atoms: no near-miss molecule in this case
        if case.get("odd") == "o5":
            # same names, another bond graph (star <-> chain)
            n = len(ref_sp["atoms"])
            chain = [(i - 1, i) for i in range(1, n)]
            star = [(0, i) for i in range(1, n)]
            alt = star if sorted(ref_sp["bonds"]) != star else chain
            oitp, ogro = os.path.join(d, "odd.itp"), os.path.join(d, "odd.gro")
            hg.write_itp(oitp, ref_sp, bonds=alt)
            hg.write_gro(ogro, hg.molecule_lines(rng, ref_sp, stream, 1, 1, False, centre=hg.vec(rng, "exact")))
            S.oddargs.append(w.add_loaded(Molecule.from_files(ogro, oitp), "O5: same names, other bonds"))
        S.scale = rng.choice([1.0, 0.5, 0.5, 2.0, 0.001])
    else:
        dd = data_dir()
        if pair == "bmim":
            fsys = os.path.join(dd, "system_bmimbf4_cg.gro")
            raw = [l.rstrip("\n") for l in open(fsys)][2:-1]
            blines = [l for l in raw if l[5:10].strip() == "BMIM"]
            per_mol = [[hg.parse_back(l) for l in blines[3 * k:3 * k + 3]] for k in range(len(blines) // 3)]
            syst = System(fsys, os.path.join(dd, "BMIM_CG.itp"))
            w.keep.append(syst)
            base = w.add_loaded(syst.different_molecules[0], "System(bmim cg).different_molecules[0]",
                                sys={"system": syst, "mols": per_mol, "sizes": [3]})
            js = rng.sample(range(len(per_mol)), 4)
            S.ref = handout(w, base, js[0], "getitem")
            tgt = Molecule.from_files(os.path.join(dd, "BMIM_AA.gro"), os.path.join(dd, "BMIM_AA.itp"))
            tgt.move_to(w.env[S.ref].geometric_center)
            S.tgt = w.add_loaded(tgt, "BMIM_AA from_files, moved onto the reference")
            for j in js[1:]:
                S.args.append(handout(w, base, j, rng.choice(["getitem", "iter"])))
            S.args.append(S.ref)
        else:
            ref = Molecule.from_files(os.path.join(dd, "BF4_AA.gro"), os.path.join(dd, "BF4_AA.itp"))
            S.ref = w.add_loaded(ref, "BF4_AA from_files")
            tgt = Molecule.from_files(os.path.join(dd, "BF4_CG.gro"), os.path.join(dd, "BF4_CG.itp"))
            S.tgt = w.add_loaded(tgt, "BF4_CG from_files")
            S.args.append(S.ref)
            for _ in range(2):
                st, _r = w.run(f"copy {S.ref}", "ref.copy()", lambda: w.env[S.ref].copy(),
                               {"g": w.new_g(), "t": w.meta[S.ref]["t"], "parent": None, "k": None})
                j = len(w.env) - 1
                S.args.append(j)
                dvec = hg.vec(rng, "float")
                w.run(f"move {j} {tok_v3(dvec)}", "arg.move", lambda: w.env[j].move(w.ro(dvec)))
                R = hg.rotation(rng, "float")
                w.run(f"rotate {j} {tok_v3(R.flatten())}", "arg.rotate", lambda: w.env[j].rotate(w.ro(R)))
        S.scale = rng.choice([1.0, 0.5])
    S.bad.append(S.tgt)
    # pristine private copies for the fresh-map oracle (never mutated, unknown to the model)
    S.pref = w.env[S.ref].deep_copy()
    S.ptgt = w.env[S.tgt].deep_copy()
    S.tgt_labels = [(g[1], g[2]) for g in hg.gro_part(hg.observe(w.env[S.tgt]))]
    S.tgt_top_labels = [(t[0], t[1]) for t in hg.top_part(hg.observe(w.env[S.tgt]))[1:]]
    S.tgt_each = [k for k, r in enumerate(w.env[S.tgt].residues) for _ in r]    # (= Molecule._each_atom_resid)
    # build
    status = "ok"
    try:
        with _quiet():
            w.em = ExchangeMap(w.env[S.ref], w.env[S.tgt], S.scale)
    except Exception as e:
        status = hg.exc_name(e)
    extra = None
    if w.em is not None:
        refm, tgtm = w.env[S.ref], w.env[S.tgt]
        extra = {"equiv": sorted((int(k), int(v)) for k, v in _priv_em(w.em, '_equivalences').items()),
                 "keys": sorted(int(k) for k in _priv_em(w.em, '_refsystems')),
                 "dist": [{int(a): float(np.linalg.norm(tgtm[j].position - refm[a].position))
                           for a in _priv_em(w.em, '_refsystems')} for j in range(len(tgtm))]}
    w.record(f"build {S.ref} {S.tgt} {fbits(S.scale)}", "ExchangeMap(ref, tgt, scale)", status, extra)
    S.ExchangeMap = ExchangeMap
    return w, S


def handout(w, base, j, variant):
    m = w.meta[base]
    sysd = m["sys"]
    syst = sysd["system"]
    fn = (lambda: syst[j]) if variant == "getitem" else (lambda: next(itertools.islice(iter(syst), j, None)))
    toks = f"molwith {base} " + hg.residues_tokens(sysd["mols"][j], sysd["sizes"])
    w.run(toks, f"system[{j}] via {variant}", fn, {"g": w.new_g(), "t": m["t"], "parent": None, "k": None})
    return len(w.env) - 1


# ----------------------------------------------------------------------------- steps

def call(ctx, case, w, S, i, expect, argdesc, obj=None):
    """emap(env[i]) (or emap(obj) for a non-component python object) + the oracle"""
    before = w.snapshot()
    keys_before = sorted(int(k) for k in _priv_em(w.em, '_refsystems'))
    arg = w.env[i] if obj is None else obj[1]
    status, ret = "ok", None
    try:
        with _quiet():
            ret = w.em(arg)
    except Exception as e:
        status = hg.exc_name(e)
    if status == "ok":
        w.env.append(ret)
        w.meta.append({"kind": "mol", "g": w.new_g(), "t": w.meta[S.tgt]["t"], "parent": None, "k": None,
                       "sys": None})
    toks = f"call {i}" if obj is None else "callother"
    w.record(toks, f"emap({argdesc})", status,
             {"keys": sorted(int(k) for k in _priv_em(w.em, '_refsystems'))})
    after = w.snaps[-1]
    ctx.count(f"call:{expect}:{status}")
    fails = []
    nb = len(before)
    # coordinates (every gro-side observable) of everything that existed: unchanged
    for j in range(nb):
        if not hg.bits_equal(hg.gro_part(before[j]), hg.gro_part(after[j])):
            fails.append(("call-changed-coordinates:" + expect, {"object": j, "before": before[j],
                                                                 "after": after[j]}))
            break
    ctx.oracle_ok(1)
    clash = w.memory_clash()
    if clash:
        fails.append(("shared-coordinate-array", {"classes": clash}))
    if expect == "bad":
        if status != "TypeError":
            fails.append(("bad-argument-not-TypeError", {"status": status, "arg": argdesc}))
        elif not all(hg.bits_equal(a, b) for a, b in zip(before, after)) or \
                keys_before != sorted(int(k) for k in _priv_em(w.em, '_refsystems')):
            fails.append(("rejected-call-changed-state", {"arg": argdesc}))
        ctx.oracle_ok(2)
    elif expect == "good":
        if status != "ok":
            fails.append(("same-species-argument-rejected", {"status": status, "arg": argdesc}))
        else:
            S.results.append(len(w.env) - 1)
            res = after[-1]
            argob = after[i]
            # fresh map from pristine copies
            with _quiet():
                fm = S.ExchangeMap(S.pref.deep_copy(), S.ptgt.deep_copy(), S.scale)
                fr = fm(arg.deep_copy())
            if fr.atoms_positions.tobytes() != ret.atoms_positions.tobytes():
                fails.append(("differs-from-fresh-map", {"arg": argdesc,
                                                         "max_abs_diff": float(np.abs(
                                                             fr.atoms_positions - ret.atoms_positions).max())}))
            # labels
            rg = hg.gro_part(res)
            rt = hg.top_part(res)[1:]
            if [(g[1], g[2]) for g in rg] != S.tgt_labels or [(t[0], t[1]) for t in rt] != S.tgt_top_labels:
                fails.append(("result-labels", {"result": res}))
            arg_resids = []
            for g in hg.gro_part(argob):
                if not arg_resids or arg_resids[-1] != g[0]:
                    arg_resids.append(g[0])
            arg_resids = [int(x) for x in arg.resids]
            want = [arg_resids[r] for r in S.tgt_each] if len(set(S.tgt_each)) == len(arg_resids) else None
            if want is not None and ([g[0] for g in rg] != want or [int(x) for x in ret.resids] != arg_resids):
                fails.append(("result-residue-numbers", {"result": [g[0] for g in rg], "argument": arg_resids}))
            ctx.oracle_ok(4)
    else:   # odd streams: outside the quantifier, evidence only
        ctx.count(f"odd:{expect}:{status}")
        if status == "ok" and expect == "o5":
            with _quiet():
                fm = S.ExchangeMap(S.pref.deep_copy(), S.ptgt.deep_copy(), S.scale)
                fr = fm(arg.deep_copy())
            same = fr.atoms_positions.tobytes() == ret.atoms_positions.tobytes()
            ctx.count("odd:o5:" + ("equals-fresh-map" if same else "HISTORY-DEPENDENT (stale frames read)"))
    for key, detail in fails:
        detail = dict(detail)
        detail["op"] = w.desc[-1]
        detail["step"] = len(w.desc) - 1
        ctx.oracle_fail("c04:" + key, case, detail)
    return status


def mutate(ctx, w, S, rng, i, who):
    o = w.env[i]
    stream = w.stream
    kind = rng.choice(["move", "moveto", "rotate", "setpos", "view", "collinear"]
                      + (["resids", "coincident"] if who == "argument" else []))
    if who == "argument" and getattr(S, "lip", False) and rng.random() < 0.3:
        kind = "resids"
    if kind == "coincident":
        # a degenerate argument: an anchor's SECOND frame neighbour sits exactly on the anchor (virtual sites, the
        # three decimals of a .gro).  The frame is undefined there (the mapped coordinates of that anchor's atoms
        # are NaN — outside C01-C03's quantifier), but purity is unconditional: the argument's coordinates must be
        # what they were (seed C04-8: the overlapping neighbour is "nudged" through a live atom view)
        n = len(o)
        try:
            nbs = [sorted(int(b) for b in at.bonds) for at in o.molecule_top]
        except Exception:   # noqa: BLE001
            nbs = []
        anchors = [a for a in range(len(nbs)) if len(nbs[a]) >= 2]
        if not anchors:
            kind = "setpos"
        else:
            a = rng.choice(anchors)
            P = [hg.vec(rng, stream) for _ in range(n)]
            P[nbs[a][1]] = list(P[a])

            def fn():
                o.atoms_positions = w.ro(np.array(P, dtype=float).reshape(n, 3))
            st, _ = w.run(f"setpos {i} {n} " + " ".join(tok_v3(p) for p in P),
                          f"{who}.atoms_positions= (second frame neighbour of anchor {a} on the anchor)", fn)
            ctx.count(f"mutate:{who}:coincident-second-neighbour:{st}")
            return st
    if kind == "resids":
        # residue numbers (coordinate side only: assigned atom by atom through views, the shared topology is not
        # touched) with gaps, out of order, or straddling the 99999 -> 0 wrap of a large .gro file: the result
        # must carry exactly THESE numbers, residue by residue (seed C04-6: numbering shifted to start at the
        # argument's first residue number instead of copied)
        try:
            sizes = [len(r) for r in o.residues]
        except Exception:   # noqa: BLE001
            sizes = []
        if not sizes:
            kind = "move"
        else:
            cur = rng.choice([rng.randint(0, 9000), 99998, 99999, 5])
            equal = rng.random() < (0.6 if getattr(S, "lip", False) else 0.3)     # every residue the SAME number (5HD 5TL)
            m = w.meta[i]
            k = 0
            st = "ok"
            for sz in sizes:
                v = cur % 100000
                for _ in range(sz):
                    st, _ = w.run(f"getatom {i} {k}", f"{who}[{k}]", lambda k=k: o[k],
                                  {"g": m["g"], "t": m["t"], "parent": i, "k": k})
                    if st != "ok":
                        break
                    j = len(w.env) - 1
                    st, _ = w.run(f"setattr {j} gro_resid {v}", f"{who}[{k}].gro_resid={v}",
                                  lambda j=j, v=v: setattr(w.env[j], "gro_resid", v))
                    k += 1
                if st != "ok":
                    break
                cur += 0 if equal else rng.choice([1, 2, 4, 17, -3])
            ctx.count(f"mutate:{who}:resids-through-views:{'equal:' if equal else ''}{st}")
            return st
    if kind == "collinear":
        # a conformation in which one anchor (>= 2 bonds) is EXACTLY collinear with its two lowest-numbered
        # bonded atoms (dyadic coordinates along an integer direction: the cross product is exactly zero), the
        # other atoms anywhere.  The frame of such an anchor takes calcule_base's fallback branch; a map that
        # treats it specially at call time (skips it, keeps the previous molecule's frame: seed C04-1) becomes
        # history dependent exactly here.
        n = len(o)
        try:
            nbs = [sorted(int(b) for b in at.bonds) for at in o.molecule_top]
        except Exception:   # noqa: BLE001
            nbs = []
        anchors = [a for a in range(len(nbs)) if len(nbs[a]) >= 2]
        if not anchors:
            kind = "setpos"
        else:
            a = rng.choice(anchors)
            n1, n2 = nbs[a][:2]
            P = [hg.vec(rng, stream) for _ in range(n)]
            base = [float(rng.randint(-3, 3)) for _ in range(3)]
            d = [float(rng.randint(-2, 2)) for _ in range(3)]
            if not any(d):
                d = [0.0, 0.0, 1.0]
            k1 = rng.choice([-2, -1, 1, 2]) * 0.25
            k2 = rng.choice([-3, 3, 5]) * 0.25
            P[a] = base
            P[n1] = [base[c] + k1 * d[c] for c in range(3)]
            P[n2] = [base[c] + k2 * d[c] for c in range(3)]

            def fn():
                o.atoms_positions = w.ro(np.array(P, dtype=float).reshape(n, 3))
            st, _ = w.run(f"setpos {i} {n} " + " ".join(tok_v3(p) for p in P),
                          f"{who}.atoms_positions= (anchor {a} collinear with {n1},{n2})", fn)
    if kind == "collinear":
        pass
    elif kind == "move":
        d = hg.vec(rng, stream)
        st, _ = w.run(f"move {i} {tok_v3(d)}", f"{who}.move", lambda: o.move(w.ro(d)))
    elif kind == "moveto":
        p = hg.vec(rng, stream)
        st, _ = w.run(f"moveto {i} {tok_v3(p)}", f"{who}.move_to", lambda: o.move_to(w.ro(p)))
    elif kind == "rotate":
        R = hg.rotation(rng, stream)
        st, _ = w.run(f"rotate {i} {tok_v3(R.flatten())}", f"{who}.rotate", lambda: o.rotate(w.ro(R)))
    elif kind == "setpos":
        n = len(o)
        P = [hg.vec(rng, stream) for _ in range(n)]

        def fn():
            o.atoms_positions = w.ro(np.array(P, dtype=float).reshape(n, 3))
        st, _ = w.run(f"setpos {i} {n} " + " ".join(tok_v3(p) for p in P), f"{who}.atoms_positions=", fn)
    else:
        k = rng.randrange(len(o))
        m = w.meta[i]
        st, _ = w.run(f"getatom {i} {k}", f"{who}[{k}]", lambda: o[k],
                      {"g": m["g"], "t": m["t"], "parent": i, "k": k})
        if st == "ok":
            j = len(w.env) - 1
            v = hg.vec(rng, stream)
            st, _ = w.run(f"setattr {j} pos {tok_v3(v)}", f"{who}[{k}].position=",
                          lambda: setattr(w.env[j], "position", w.ro(v)))
    ctx.count(f"mutate:{who}:{kind}:{st}")
    return st


def evaluate(ctx, case):
    w, S = setup_world(ctx, case)
    ctx.count("pair:" + case["pair"])
    ctx.count("stream:" + case["stream"])
    accepted_args, other = set(), 0
    if w.em is None:
        ctx.count("build-failed:" + w.status[-1])
    else:
        after_reject = False
        for seed in case["steps"]:
            rng = random.Random(seed)
            x = rng.random()
            if case.get("odd") == "o5" and x < 0.2 and S.oddargs:
                call(ctx, case, w, S, rng.choice(S.oddargs), "o5", "same-named molecule, other bonds")
            elif x < 0.45:
                i = rng.choice(S.args)
                expect = "resmismatch" if case.get("odd") == "resmismatch" else "good"
                st = call(ctx, case, w, S, i, expect, f"argument env[{i}]")
                if st == "ok":
                    accepted_args.add(i)
                    if after_reject:
                        ctx.count("accepted-right-after-rejected")
                after_reject = False
            elif x < 0.58:
                y = rng.random()
                if y < 0.45 and S.bad:
                    i = rng.choice(S.bad)
                    call(ctx, case, w, S, i, "bad", f"other species env[{i}]")
                elif y < 0.6:
                    # a Residue / an Atom view of a good argument: not a Molecule
                    i = rng.choice(S.args)
                    m = w.meta[i]
                    if rng.random() < 0.5:
                        st, _ = w.run(f"getres {i} 0", "arg.residues[0]", lambda: w.env[i].residues[0],
                                      {"g": m["g"], "t": None, "parent": i, "k": None})
                    else:
                        st, _ = w.run(f"getatom {i} 0", "arg[0]", lambda: w.env[i][0],
                                      {"g": m["g"], "t": m["t"], "parent": i, "k": 0})
                    if st == "ok":
                        call(ctx, case, w, S, len(w.env) - 1, "bad", "a Residue / Atom of an argument")
                else:
                    obj = rng.choice([("None", None), ("str", "BMIM"), ("MoleculeTop", w.env[S.ref].molecule_top),
                                      ("int", 3), ("list", [w.env[S.ref]])])
                    call(ctx, case, w, S, 0, "bad", obj[0], obj=obj)
                other += 1
                after_reject = True
            elif x < 0.92:
                y = rng.random()
                if y < 0.25:
                    mutate(ctx, w, S, rng, S.ref, "ref")
                elif y < 0.5:
                    mutate(ctx, w, S, rng, S.tgt, "target")
                elif y < 0.75 and S.results:
                    mutate(ctx, w, S, rng, rng.choice(S.results), "result")
                else:
                    mutate(ctx, w, S, rng, rng.choice(S.args), "argument")
                other += 1
            else:
                i = rng.choice(S.args)
                m = w.meta[i]
                if rng.random() < 0.5:
                    st, _ = w.run(f"copy {i}", "arg.copy()", lambda: w.env[i].copy(),
                                  {"g": w.new_g(), "t": m["t"], "parent": None, "k": None})
                else:
                    st, _ = w.run(f"deepcopy {i}", "arg.deep_copy()", lambda: w.env[i].deep_copy(),
                                  {"g": w.new_g(), "t": w.new_t(), "parent": None, "k": None})
                if st == "ok" and len(S.args) < 12:
                    S.args.append(len(w.env) - 1)
                ctx.count("arg-copy:" + st)
    if not w.inputs_intact():
        ctx.oracle_fail("c04:input-array-modified", case, {"ops": w.desc})
    for dsc, msg in w.unexpected:
        ctx.oracle_fail("c04:in-place-write-to-input", case, {"op": dsc, "message": msg})
    ctx.oracle_ok(1)
    ctx.case({"setup": case["setup"], "steps": case["steps"], "pair": case["pair"], "stream": case["stream"],
              "odd": case.get("odd")},
             nontrivial=len(accepted_args) >= 2 and other >= 1,
             sample={"pair": case["pair"], "ops": w.desc[-12:], "n_ops": len(w.desc)})

    def extra_cb(k, cur, world, mst):
        ex = world.extra[k]
        tok = world.ops[k].split(" ", 1)[0]
        if tok == "build":
            pairs = sorted(cur.pairs("E"))
            keys = cur.nats("K")
            if ex is not None and mst == "ok":
                if pairs != ex["equiv"]:
                    world.skip = True
                    if near_tie(ex, pairs):
                        ctx.near_ties += 1
                    else:
                        ctx.disagree(case, "C04: equivalences after construction", ex["equiv"], pairs)
                elif keys != ex["keys"]:
                    ctx.disagree(case, "C04: frame-table keys after construction", ex["keys"], keys)
        elif tok in ("call", "callother"):
            keys = cur.nats("K")
            if ex is not None and keys != ex["keys"] and not getattr(world, "skip", False):
                ctx.disagree(case, f"C04: frame-table keys after op {k} ({world.desc[k]})", ex["keys"], keys)

    def cb(status, toks, case, w=w):
        if status != "ok":
            ctx.disagree(case, "heapseq", "ok", status)
            return
        try:
            ok = hg.compare_with_model(ctx, case, w, toks, TOL, "C04 heap model", extra_cb=extra_cb,
                                       stop=lambda: getattr(w, "skip", False))
            if ok and not getattr(w, "skip", False):
                # every accepted call's returned coordinates were compared with
                # `call (concreteGeo s)` evaluated in the model at Float (tolerance 1e-9)
                ctx.count("model:returned-coordinates-compared",
                          sum(1 for o, st in zip(w.ops, w.status) if o.startswith("call ") and st == "ok"))
        except IndexError:
            ctx.disagree(case, "C04 heap model: response truncated", len(w.ops), "fewer")
    ctx.model.ask("heapseq", w.request(), cb, case)
    if len(ctx.model.queue) >= 25:
        ctx.model.flush(ctx)


def near_tie(ex, model_pairs):
    """do the differing anchor choices have (numerically) equal distances in the implementation?"""
    try:
        for (j, a), (j2, b) in zip(ex["equiv"], model_pairs):
            if j != j2:
                return False
            if a != b:
                da, db = ex["dist"][j][a], ex["dist"][j][b]
                if abs(da - db) > 1e-12 * max(1.0, da, db):
                    return False
        return True
    except Exception:
        return False
