"""C17 — rotation matrices are proper rotations; local frames are orthonormal.

Cases:
  {"kind": "rot", "axis": [3], "theta": t, "theta2": t2, "lam": l}
  {"kind": "frame", "p": [[3],[3],[3]], "cls": "..."}
"""
import math
import warnings

import numpy as np

from ..common import fbits, unfbits, v3, allclose

RULE = ("rot: axis = random direction x norm 10^U(-6,6) (plus axis-aligned / integer axes / almost-unit axes with norm 1 +- 10^-j, j=1..12), theta in [-20,20]; "
        "frame: three points at scale 10^U(-3,3): generic, exactly collinear (coordinate axes, face/space "
        "diagonals, random integer directions, lines tilted off an axis by 2^-j, integer multipliers), coincident middle point. Non-trivial = "
        "every rot case with theta != 0 and every frame case; distinct by canonical hash of the inputs.")

TOL = 1e-9


def _f(x):
    return [float(v) for v in x]


def generate(ctx):
    rng = ctx.rng
    n_rot = ctx.n(5000, 20000)
    for i in range(n_rot):
        k = rng.random()
        if k < 0.15:
            axis = [0.0, 0.0, 0.0]
            axis[rng.randrange(3)] = rng.choice([-1.0, 1.0]) * 10 ** rng.uniform(-6, 6)
        elif k < 0.3:
            axis = [float(rng.randint(-4, 4)) for _ in range(3)]
            if not any(axis):
                axis[rng.randrange(3)] = 1.0
        elif k < 0.5:
            # almost-unit axes: norm = 1 +- 10^-j (a shortcut "already normalised" test would skip these)
            d = [rng.gauss(0, 1) for _ in range(3)]
            nrm = (1.0 + rng.choice([-1, 1]) * 10.0 ** -rng.randint(1, 12)) * rng.choice([1.0, 1.0, 2.0, 0.5, 10.0])
            s = nrm / math.sqrt(sum(c * c for c in d))
            axis = [c * s for c in d]
        else:
            d = [rng.gauss(0, 1) for _ in range(3)]
            s = 10 ** rng.uniform(-6, 6) / math.sqrt(sum(c * c for c in d))
            axis = [c * s for c in d]
        theta = rng.choice([rng.uniform(-20, 20), rng.uniform(-20, 20), math.pi / 2 * rng.randint(-8, 8), 0.0])
        c = {"kind": "rot", "axis": axis, "theta": theta, "theta2": rng.uniform(-20, 20),
             "lam": 10 ** rng.uniform(-3, 3)}
        j = rng.random()
        if j < 0.04:
            # one component so small that its SQUARE underflows (|c| / |axis| < 1e-154): still a non-zero axis; numpy flushes
            # the underflow to zero silently unless someone has asked it to raise (seed C17-11: np.seterr(all='raise')
            # at import of another module of the package)
            c["axis"] = list(axis)
            c["axis"][rng.randrange(3)] = rng.choice([-1, 1]) * 10.0 ** -rng.randint(160, 300)
            if not any(abs(v) > 1e-6 for v in c["axis"]):
                c["axis"][rng.randrange(3)] = 1.0
        elif j < 0.10:
            # the axis as an array of a fixed-width INTEGER dtype, with components whose squares do not fit that width
            # (seed C17-12: `axis.dot(axis)` wraps where `np.linalg.norm` converts to float first)
            dt, hi = rng.choice([("int8", 12), ("uint8", 15), ("int16", 200), ("int32", 60000), ("int64", 10 ** 6)])
            lo = 0 if dt == "uint8" else -hi
            ax = [rng.randint(lo, hi) for _ in range(3)]
            if not any(ax):
                ax[rng.randrange(3)] = hi
            c["axis"] = [float(v) for v in ax]
            c["adtype"] = dt
            c["lam"] = float(rng.choice([1, 2, 3]))
        yield c
    n_fr = ctx.n(7000, 30000)
    dirs = [(1, 0, 0), (0, 1, 0), (0, 0, 1), (1, 1, 0), (1, 0, 1), (0, 1, 1), (1, 1, 1), (1, -1, 0), (-1, 1, 1)]
    for i in range(n_fr):
        k = rng.random()
        scale = 2.0 ** rng.randint(-10, 10) if k < 0.6 else 10 ** rng.uniform(-3, 3)
        if k < 0.2:
            d = rng.choice(dirs)
            sg = rng.choice([-1, 1])
            d = [sg * c for c in d]
            cls = "collinear-axis-diag"
        elif k < 0.38:
            d = [rng.randint(-5, 5) for _ in range(3)]
            if not any(d):
                d[rng.randrange(3)] = 1
            cls = "collinear-integer"
        elif k < 0.45:
            # exactly collinear along a line tilted off a coordinate axis by 2^-j (j = 3..40)
            d = [0.0, 0.0, 0.0]
            ax = rng.randrange(3)
            d[ax] = float(rng.choice([-1, 1]))
            d[(ax + rng.choice([1, 2])) % 3] = rng.choice([-1, 1]) * 2.0 ** -rng.randint(3, 40)
            cls = "collinear-tilted-axis"
        elif k < 0.55:
            cls = "coincident-middle"
            d = None
        else:
            cls = "generic"
            d = None
        if cls.startswith("collinear"):
            p0 = [float(rng.randint(-5, 5)) for _ in range(3)]
            a = rng.randint(-4, 4)
            b = rng.choice([-3, -2, -1, 1, 2, 3])
            p1 = [p0[j] + a * d[j] for j in range(3)]
            p2 = [p0[j] + b * d[j] for j in range(3)]
            pts = [[c * scale for c in p] for p in (p0, p1, p2)]
        elif cls == "coincident-middle":
            p0 = [rng.gauss(0, 1) * scale for _ in range(3)]
            p2 = [rng.gauss(0, 1) * scale for _ in range(3)]
            pts = [p0, rng.choice([p0, p2]), p2]
            if pts[1] is p2:
                cls = "coincident-middle-last"
        else:
            pts = [[rng.gauss(0, 1) * scale for _ in range(3)] for _ in range(3)]
            if rng.random() < 0.25:
                # flat but clearly NOT collinear: the middle point 10^-2.5 … 10^-5.5 rad off the line through the
                # other two (sin(angle) well above the code's 1e-6): the third vector must still be the normal of
                # the plane of the points (seed C17-8: squared norms compared against an unsquared tolerance)
                p0, p2 = pts[0], pts[2]
                dd = [p2[j] - p0[j] for j in range(3)]
                L = math.sqrt(sum(c * c for c in dd)) or 1.0
                e = [rng.gauss(0, 1) for _ in range(3)]
                dot = sum(e[j] * dd[j] for j in range(3)) / (L * L)
                e = [e[j] - dot * dd[j] for j in range(3)]
                le = math.sqrt(sum(c * c for c in e)) or 1.0
                t = rng.uniform(-1.5, 2.5)
                ang = 10 ** -rng.uniform(2.5, 5.5)
                pts[1] = [p0[j] + t * dd[j] + ang * abs(t) * L * e[j] / le for j in range(3)]
                cls = "nearly-collinear"
        yield {"kind": "frame", "p": pts, "cls": cls}


_AXBUF = np.zeros(3)


def evaluate(ctx, case):
    from gaddlemaps._auxilliary import rotation_matrix, calcule_base
    if case["kind"] == "rot":
        axis = np.array(_f(case["axis"]))
        th, th2, lam = float(case["theta"]), float(case["theta2"]), float(case["lam"])
        ctx.case(case, nontrivial=th != 0.0)
        ctx.count("rot")
        adtype = case.get("adtype")
        ax_ro = axis.copy() if adtype is None else axis.astype(adtype)
        ax_ro.flags.writeable = False
        buffered = int(abs(th) * 1e6) % 2 == 0 and adtype is None
        if adtype:
            ctx.count("rot:axis-dtype-" + adtype)
        if buffered:
            # the caller keeps ONE axis array and refills it in place between calls (what a loop that draws
            # a new axis into a preallocated buffer does).  A decoy direction goes through the function first;
            # the matrix for the refilled buffer must be the matrix of its CURRENT contents (seed C17-3: a
            # "same axis as last time" cache that compares the array with a stored reference to itself).
            ctx.count("rot:axis-buffer-refilled-in-place")
            _AXBUF[:] = np.array([axis[1] + 1.0, -axis[2] - 0.5, axis[0] + 2.0])
            with warnings.catch_warnings():
                warnings.simplefilter("ignore")
                try:
                    rotation_matrix(_AXBUF, 0.3)
                except Exception:   # noqa: BLE001  (the decoy is not the case under test)
                    pass
            _AXBUF[:] = axis
            ax_ro = _AXBUF
        # (numpy's floating-point error state is left as the package's import left it: warnings silenced, nothing else)
        try:
            with warnings.catch_warnings():
                warnings.simplefilter("ignore")
                R = rotation_matrix(ax_ro, th)
                Rn = rotation_matrix(ax_ro, -th)
                R2 = rotation_matrix(ax_ro, th2)
                R12 = rotation_matrix(ax_ro, th + th2)
                Rl = rotation_matrix(ax_ro * (lam if adtype is None else int(lam)), th)
        except Exception as e:   # noqa: BLE001
            ctx.oracle_ok(7)
            ctx.oracle_fail("rotation_matrix:raises-" + type(e).__name__, case, {"error": repr(e)[:200]})
            return
        n = axis / np.linalg.norm(axis)
        fails = []
        if buffered and not np.array_equal(_AXBUF, axis):
            fails.append("input-modified")
        if not np.isfinite(R).all():
            fails.append("non-finite")
        else:
            if abs(R @ R.T - np.eye(3)).max() > TOL:
                fails.append("not-orthogonal")
            if abs(np.linalg.det(R) - 1.0) > TOL:
                fails.append("det")
            if abs(R @ n - n).max() > TOL or abs(n @ R - n).max() > TOL:
                fails.append("axis-not-fixed")
            if abs(np.trace(R) - (1 + 2 * math.cos(th))) > TOL:
                fails.append("trace")
            if abs(Rn - R.T).max() > TOL:
                fails.append("neg-transpose")
            if abs(R @ R2 - R12).max() > 1e-8:   # angle sum th+th2 rounds: |th+th2| <= 40 -> 4e-15*...
                fails.append("compose")
            if abs(Rl - R).max() > TOL:
                fails.append("axis-scale")
        ctx.oracle_ok(7)
        for f in fails:
            ctx.oracle_fail("rotation_matrix:" + f, case, {"R": R})

        def cb(status, toks, case, R=R):
            m = [unfbits(t) for t in toks]
            if status != "ok" or not allclose(m, R.flatten(), TOL):
                ctx.disagree(case, "rotation_matrix", R, m)
        ctx.model.ask("rotmat", f"{v3(axis)} {fbits(th)}", cb, case)
        return

    if case["kind"] == "frame":
        P = [np.array(_f(p)) for p in case["p"]]
        ctx.case(case, nontrivial=True)
        ctx.count("frame:" + case.get("cls", "?"))
        Pin = [p.copy() for p in P]
        for p in Pin:
            p.flags.writeable = False
        # the three points in every container a caller may use: a list of three arrays, ONE (3, 3) float64
        # array (what ExchangeMap itself passes for 1-/2-atom references; np.asarray of it is the caller's own
        # array, so an in-place "pos[1:] -= pos[0]" would write into it — seed C17-6)
        container = int(abs(P[0][0]) * 1e6 + abs(P[2][1]) * 1e3) % 2
        if container == 1:
            arr = np.array(P, dtype=np.float64)
            arr.flags.writeable = False
            Pin = arr
            ctx.count("frame-input:one-3x3-array")
        else:
            ctx.count("frame-input:list-of-arrays")
        err = None
        try:
            with warnings.catch_warnings():     # (warnings silenced; numpy's error state left as the package left it)
                warnings.simplefilter("ignore")
                (e1, e2, e3), o = calcule_base(Pin)
        except Exception as e:  # a read-only input being written raises ValueError
            err = e
        fails = []
        if err is not None:
            fails.append("raises-" + type(err).__name__)
            M = None
        else:
            M = np.array([e1, e2, e3])
            d = P[2] - P[0]
            u = P[1] - P[0]
            if not np.isfinite(M).all():
                fails.append("non-finite")
            else:
                if abs(M @ M.T - np.eye(3)).max() > TOL:
                    fails.append("not-orthonormal")
                elif abs(np.linalg.det(M) - 1.0) > TOL:
                    fails.append("not-right-handed")
                if abs(e1 - d / np.linalg.norm(d)).max() > TOL:
                    fails.append("first-vector")
                sc = max(np.linalg.norm(u), 1e-300)
                if abs(e3 @ u) > TOL * sc or abs(e3 @ d) > TOL * np.linalg.norm(d):
                    fails.append("third-not-normal")
            if not np.array_equal(o, P[0]):
                fails.append("origin")
            if any(not np.array_equal(np.asarray(a, dtype=float), b) for a, b in zip(Pin, P)):
                fails.append("inputs-modified")
        ctx.oracle_ok(6)
        for f in fails:
            ctx.oracle_fail(f"calcule_base:{f}:{case.get('cls', '?')}", case, {"frame": M})

        def cb(status, toks, case, M=M, o=(None if err else o)):
            br = int(toks[0])
            ctx.count(f"model-branch-{br}")
            m = [unfbits(t) for t in toks[1:]]
            if M is None:
                ctx.disagree(case, "calcule_base raised", str(err), m)
            elif not allclose(m[:9], M.flatten(), TOL) or not allclose(m[9:], o, 0.0):
                ctx.disagree(case, "calcule_base", {"frame": M, "origin": o}, m)
        ctx.model.ask("frame", " ".join(v3(p) for p in P), cb, case)
        return
    raise ValueError("unknown case kind")
