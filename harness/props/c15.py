"""C15 — topology reader yields exactly the file's atoms and bond graph; connectivity; copy.

Cases:
  {"kind": "top", "data": "<itp text>", "n": 12, "cls": "tree", "numbers": [...], "edges": [[a,b],...]}
        (numbers/edges optional: generator ground truth, cross-checked with the oracle's tokenizer)
  {"kind": "shipped", "path": "gaddlemaps/data/SDS_AA.itp"}
  {"kind": "bad", "data": "..."}        (not a topology: model vs code on the exception class only)
  {"kind": "graph", "adj": [[...], ...]} (are_connected on a bare atom list, incl. the empty list)

The REAL code runs: read_topology(f), MoleculeTop(f), are_connected(mol.atoms), mol.copy().
Oracle (independent tokenizer of harness.itpgen + union-find):
  load        — a well-formed topology loads;
  name/atoms  — molecule name; atoms in file order with (name, resname, resid);
  bonds       — atom i's bond set == { j : {i,j} listed in constraints/bonds/pairs } (numbers → positions),
                symmetric, nothing else; read_topology's pair list == the listed pairs;
  connected   — are_connected(atoms) == (the graph has one component), no exception at any size;
  copy        — copy == original, shares no atom and no bond set; mutating either leaves the other unchanged.
Model: `itp_top` (name, atoms, pair list, bond sets, verdict), `graph_conn` (walk with the real set
iteration order), `heap_copy` (copy + mutations on the object heap).
"""
import os
import sys

from ..common import hexs, unhexs
from .. import common
from .. import itpgen as G
from .. import topx

RULE = ("generated topologies, n in 1..3000 atoms over 11 graph classes (chain, shuffled chain, tree, deep tree, star, "
        "forest, cyclic incl. self-loops/duplicates, ring, isolated first/last atom, no bonds); increasing numbering "
        "with gaps (70%); edges split over 1-5 occurrences of bonds/constraints/pairs in any order plus decoy "
        "angles/dihedrals/exclusions sections; comment/blank/#-lines and trailing comments (also glued to the last "
        "token), varied spacing; plus every shipped .itp. Non-trivial = n >= 2 and >= 1 listed pair.")

_counter = [0]


def _repo():
    return os.environ.get("VERIF_REPO", "/repo")


def errname(e):
    return "OSError" if isinstance(e, OSError) else type(e).__name__


def generate(ctx):
    rng = ctx.rng
    for p in G.shipped_itps(_repo()):
        yield {"kind": "shipped", "path": p}
    # directed: sizes around the interpreter's recursion limit, and the sizes the property names
    for n, cls in [(1, "empty"), (2, "chain"), (2, "empty"), (3, "isolated-last"), (900, "chain"),
                   (1001, "chain"), (1500, "deep-tree"), (3000, "chain"), (3000, "tree"),
                   (3000, "chain-shuffled"), (2999, "isolated-last"), (3000, "ring")]:
        c = G.gen_topology(rng, n, cls, noise=0.0 if n > 500 else 0.25)
        yield {"kind": "top", **c}
    for _ in range(ctx.n(1000, 40000)):
        n = rng.choice([1, 2, 3, 4, 5]) if rng.random() < 0.2 else rng.randint(2, 40)
        yield {"kind": "top", **G.gen_topology(rng, n, rng.choice(G.GRAPH_CLASSES))}
    for _ in range(ctx.n(80, 2500)):
        n = rng.randint(50, 400)
        yield {"kind": "top", **G.gen_topology(rng, n, rng.choice(G.GRAPH_CLASSES), noise=0.1)}
    for _ in range(ctx.n(6, 150)):
        n = rng.randint(1000, 3000)
        yield {"kind": "top", **G.gen_topology(rng, n, rng.choice(["tree", "deep-tree", "forest", "cyclic", "chain"]),
                                                noise=0.0)}
    # not topologies / outside the quantifier: exception class only
    base_mt = "[ moleculetype ]\nMOL 1\n"
    bad = [
        "", "; nothing\n", "[ atoms ]\n1 C 1 MOL C1 1\n", base_mt, base_mt + "[ atoms ]\n", base_mt + "[ atoms ]\n; none\n",
        "[ moleculetype ]\n; no name\n[ atoms ]\n1 C 1 MOL C1 1\n",
        base_mt + "[ atoms ]\n1 C 1 MOL C1 1\n[ bonds ]\n1 2\n",                       # unknown atom number
        base_mt + "[ atoms ]\n1 C 1 MOL C1 1\n1 C 1 MOL C2 1\n2 C 1 MOL C3 1\n[ bonds ]\n1 2\n",   # duplicate number
        base_mt + "[ atoms ]\n1 C 1 MOL C1 1\n[ bonds ]\n1\n",
        base_mt + "[ atoms ]\n1 C x MOL C1 1\n",
        base_mt + "[ atoms ]\n-3 C 1 MOL C1 1\n+4 C 1 MOL C2 2\n1_0 C 2 MOL C3 3\n[ pairs ]\n-3 10\n[constraints]\n4 -3\n",
        "[ moleculetype ]\nMOL 0\n[ atoms ]\n1 C 1 MOL C1 1\n",
    ]
    for b in bad:
        yield {"kind": "bad", "data": b}
    # bare graphs for are_connected (positions only; not necessarily symmetric)
    yield {"kind": "graph", "adj": []}
    yield {"kind": "graph", "adj": [[]]}
    yield {"kind": "graph", "adj": [[0]]}
    yield {"kind": "graph", "adj": [[1], []]}
    yield {"kind": "graph", "adj": [[], [0]]}
    yield {"kind": "graph", "adj": [[5], []]}
    for _ in range(ctx.n(500, 20000)):
        n = rng.randint(1, 12)
        adj = [sorted({rng.randrange(n) for _ in range(rng.randint(0, 3))}) for _ in range(n)]
        if rng.random() < 0.5:      # symmetrise
            for i in range(n):
                for j in list(adj[i]):
                    if i not in adj[j]:
                        adj[j].append(i)
        yield {"kind": "graph", "adj": adj}
    # work package WPE: `==` / `!=` / copy, residue getters and setters, index, read_topology dispatch
    yield from topx.gen_c15(ctx)


class _A:
    """minimal stand-in atom for `are_connected` on a bare graph: only `.bonds` is read"""
    def __init__(self, bonds):
        self.bonds = bonds


def _reach0(adj):
    n = len(adj)
    seen, todo = {0}, [0]
    while todo:
        v = todo.pop()
        for w in adj[v]:
            if w not in seen:
                seen.add(w)
                todo.append(w)
    return len(seen) == n


def snapshot(mol):
    return (mol.name, [(a.name, a.resname, a.resid, a.index, sorted(a.bonds)) for a in mol.atoms])


def evaluate(ctx, case):
    from gaddlemaps.components import MoleculeTop, are_connected
    from gaddlemaps.parsers import read_topology
    rng = ctx.rng
    kind = case["kind"]
    if kind in ("eq", "res", "readtop"):
        return topx.eval_c15(ctx, case)

    if kind == "graph":
        adj = [list(a) for a in case["adj"]]
        ctx.case(case, nontrivial=len(adj) >= 2)
        ctx.count("graph")
        atoms = [_A(set(a)) for a in adj]
        order = [list(a.bonds) for a in atoms]          # the iteration order the walk will see
        valid = all(0 <= j < len(adj) for a in adj for j in a)
        try:
            res = ("ok", bool(are_connected(atoms)))
        except Exception as e:
            res = ("err", errname(e))
        if adj and valid:
            ctx.oracle_ok()
            want = _reach0(adj)
            if res != ("ok", want):
                ctx.oracle_fail("are_connected:wrong-answer" if res[0] == "ok" else "are_connected:" + res[1],
                                case, {"got": res, "reachable_from_0": want})

        def cbg(status, toks, case, res=res):
            m = ("ok", toks[0] == "1") if status == "ok" else ("err", toks[0])
            if m != res:
                ctx.disagree(case, "are_connected(bare graph)", res, m)
        ctx.model.ask("graph_conn", " ".join([str(len(order))] + [" ".join([str(len(a))] + [str(j) for j in a])
                                                                   for a in order]), cbg, case)
        return

    if kind == "shipped":
        data = open(os.path.join(_repo(), case["path"]), "rb").read()
        cls = "shipped"
    else:
        data = case["data"].encode("latin-1")
        cls = case.get("cls", kind)
    text = G.decode(data)
    _counter[0] += 1
    # the same few path strings are written again and again with different contents: "loading a topology
    # gives exactly the FILE's atoms" must hold for the file as it is now, not as it was when the path
    # was first seen (seed C15-2: a per-path memo in read_topology)
    f = os.path.join(ctx.scratch, f"c15_{_counter[0] % 3}.itp")
    ctx.count("path:" + ("reused" if _counter[0] > 3 else "first-use"))
    common.decoy(f, "itp")
    with open(f, "wb") as fh:
        fh.write(data)

    # ---- the real code
    try:
        top = ("ok", read_topology(f))
    except Exception as e:
        top = ("err", errname(e))
    mol = None
    conn = None
    mol_err = None
    if top[0] == "ok":
        try:
            mol = MoleculeTop(f)
        except Exception as e:          # the reader's pair list is not usable by MoleculeTop
            mol_err = errname(e)
            top = ("err", "MoleculeTop:" + mol_err)
        if mol is not None:
            try:
                conn = ("ok", bool(are_connected(mol.atoms)))
            except RecursionError:
                conn = ("err", "RecursionError")
            except Exception as e:
                conn = ("err", errname(e))
    os.unlink(f)

    # ---- oracle
    spec = None
    if kind != "bad":
        spec = G.spec_topology(text)                 # raises on a harness bug: exit 2, not a verdict
        sname, satoms, spairs = spec
        n = len(satoms)
        if "numbers" in case:                        # the tokenizer itself against the generator's ground truth
            assert n == case["n"] and _canon_pairs(spairs) == _canon_pairs(case["edges"]), \
                "oracle tokenizer disagrees with the generator"
        ctx.case({"bytes": data}, nontrivial=n >= 2 and len(spairs) >= 1,
                 sample={"cls": cls, "n": n, "pairs": len(spairs), "head": text[:100]})
        ctx.count("class:" + cls)
        ctx.count("size:" + ("1" if n == 1 else "2-40" if n <= 40 else "41-400" if n <= 400 else "401-999"
                             if n < 1000 else "1000-3000" if n <= 3000 else ">3000"))
        ncomp = G.components(n, spairs)
        ctx.count("connected" if ncomp == 1 else "disconnected")
        ctx.oracle_ok(6)
        small = {"kind": "top", "data": case["data"], "cls": cls, "n": n} if kind == "top" else case

        rep = ":repeated-section" if "repeated-section" in G.features_of(text) else ""

        def fail(key, detail):
            ctx.oracle_fail(key, small, detail)

        if top[0] == "err":
            glued = any(l.find(";") > 0 and not l[l.find(";") - 1].isspace() for l in _mt_lines(text))
            fail("load:" + top[1] + (":moleculetype-comment-glued" if glued else ""), {"raised": top[1]})
        else:
            name, atoms, bonds = top[1]
            if name != sname or mol.name != sname:
                fail("name", {"got": name, "want": sname})
            got_atoms = [(a[0], a[1], a[2]) for a in atoms]
            if got_atoms != satoms or [(a.name, a.resname, a.resid) for a in mol.atoms] != satoms \
                    or [a.index for a in mol.atoms] != list(range(n)):
                fail("atoms", {"got": got_atoms[:5], "want": satoms[:5]})
            want_sets = [set() for _ in range(n)]
            for a, b in spairs:
                want_sets[a].add(b)
                want_sets[b].add(a)
            got_sets = [set(a.bonds) for a in mol.atoms]
            if got_sets != want_sets:
                i = next((i for i in range(min(n, len(got_sets))) if got_sets[i] != want_sets[i]), min(n, len(got_sets)) - 1)
                fail("bonds" + rep, {"atom": i, "n_got": len(got_sets), "n_want": n,
                                     "got": sorted(got_sets[i]) if 0 <= i < len(got_sets) else None,
                                     "want": sorted(want_sets[i]) if 0 <= i < n else None})
            if _canon_pairs(bonds) != _canon_pairs(spairs):
                fail("pair-list" + rep, {"got": len(bonds), "want": len(spairs)})
            if conn != ("ok", ncomp == 1):
                key = "are_connected:" + (conn[1] if conn[0] == "err" else "wrong-answer" + rep)
                wit = case if kind == "shipped" else {"kind": "top", "data": case["data"], "cls": cls, "n": n}
                ctx.oracle_fail(key, wit, {"got": conn, "components": ncomp, "n": n})
            # copy: equal, independent in both directions
            cp = mol.copy()
            before_o, before_c = snapshot(mol), snapshot(cp)
            bad = []
            if not (cp == mol) or cp != mol or before_o != before_c:
                bad.append("not-equal")
            if cp is mol or any(a is b for a, b in zip(cp.atoms, mol.atoms)) or cp.atoms is mol.atoms:
                bad.append("shares-atoms")
            if any(a.bonds is b.bonds for a, b in zip(cp.atoms, mol.atoms)):
                bad.append("shares-bond-sets")
            ops = _gen_ops(rng, len(mol.atoms))
            _apply_ops(cp, ops)
            after_c = snapshot(cp)
            after_o = snapshot(mol)
            if after_o != before_o:
                bad.append("original-changed-by-copy-mutation")
            ops2 = _gen_ops(rng, len(mol.atoms))
            _apply_ops(mol, ops2)
            if snapshot(cp) != after_c:
                bad.append("copy-changed-by-original-mutation")
            # ... and a copy of an object that has been EDITED since it was loaded is a copy of what the object is now,
            # not of the file it came from (seed C15-12: copy() re-built from the parsed file kept at load time)
            try:
                cp2 = mol.copy()
                if snapshot(cp2) != snapshot(mol) or not (cp2 == mol):
                    bad.append("copy-of-an-edited-object-not-equal-to-it")
                cp3 = cp.copy()
                if snapshot(cp3) != after_c:
                    bad.append("copy-of-an-edited-copy-not-equal-to-it")
            except Exception as e:   # noqa: BLE001
                bad.append("copy-of-an-edited-object-raises-" + type(e).__name__)
            for b in bad:
                fail("copy:" + b, {"ops": ops[:4]})
            # rebuild the pristine molecule view for the model comparison below
            mol_snapshot, after_copy_ops = before_o, (after_c, ops, after_o)
    else:
        ctx.case({"bytes": data}, nontrivial=False)
        ctx.count("class:bad")
        if top[0] == "err":
            ctx.count("bad-rejected:" + top[1])

    # ---- model
    def cb(status, toks, case, top=top, conn=conn, mol_snap=(mol_snapshot if spec and top[0] == "ok" else None)):
        def dis(what, impl, model):
            ctx.disagree({"kind": "top", "data": data.decode("latin-1")}, what, impl, model)
        if status == "err":
            ctx.count("model:" + toks[0])
            return
        if toks[0] == "E":
            if top[0] == "err" and top[1] != toks[1]:
                # both refuse the file, with different exception classes (a bond naming an atom number that is not in
                # [ atoms ]: a bare KeyError today, IOError with a message in benign change C15-3): C15 names no class
                ctx.count(f"refusal-class-differs-from-model:{top[1]}-vs-{toks[1]}")
            elif top != ("err", toks[1]):
                dis("read_topology exception", top if top[0] == "err" else "loaded", toks[1])
            return
        if top[0] == "err":
            dis("read_topology exception", top[1], "loaded")
            return
        i = 1
        mname = unhexs(toks[i])
        na = int(toks[i + 1])
        i += 2
        matoms = []
        for _ in range(na):
            matoms.append((unhexs(toks[i]), unhexs(toks[i + 1]), int(toks[i + 2])))
            i += 3
        nb = int(toks[i])
        i += 1
        mb = []
        for _ in range(nb):
            mb.append((int(toks[i]), int(toks[i + 1])))
            i += 2
        name, atoms, bonds = top[1]
        if name != mname:
            dis("molecule name", name, mname)
        if [(a[0], a[1], int(a[2])) for a in atoms] != matoms:
            dis("atoms_info", atoms[:6], matoms[:6])
        if [(int(a), int(b)) for a, b in bonds] != mb:
            dis("atoms_bonds (pair list, exact order)", bonds[:10], mb[:10])
        if toks[i] == "E":
            dis("MoleculeTop bonds", "built", toks[i + 1])
            return
        k = int(toks[i + 1])
        i += 2
        madj = []
        for _ in range(k):
            d = int(toks[i])
            madj.append([int(x) for x in toks[i + 1:i + 1 + d]])
            i += 1 + d
        verdict = toks[i]
        if mol_snap is not None:
            if [s[4] for s in mol_snap[1]] != madj:
                dis("bond sets", [s[4] for s in mol_snap[1]][:6], madj[:6])
        mconn = ("ok", verdict == "1") if verdict in ("0", "1") else ("err", verdict)
        if conn != mconn:
            dis("are_connected", conn, mconn)
    ctx.model.ask("itp_top", hexs(data), cb, case)

    if spec and top[0] == "ok" and len(mol_snapshot[1]) <= 400:
        # walk with the real iteration order of the bond sets; heap model of copy + mutations
        snap = mol_snapshot
        order = [list(set(s[4])) for s in snap[1]]

        def cbg(status, toks, case, conn=conn):
            m = ("ok", toks[0] == "1") if status == "ok" else ("err", toks[0])
            if m != conn:
                ctx.disagree({"kind": "top", "data": data.decode("latin-1")}, "are_connected (real set order)", conn, m)
        ctx.model.ask("graph_conn", " ".join([str(len(order))] + [" ".join([str(len(a))] + [str(j) for j in a])
                                                                   for a in order]), cbg, case)
        after_c, ops, after_o = after_copy_ops

        def cbh(status, toks, case, snap=snap, after_c=after_c, ops=ops, after_o=after_o):
            if status != "ok":
                ctx.disagree(case, "heap_copy", "ok", toks)
                return
            vals, i = [], 1
            for _ in range(4):
                k = int(toks[i])
                i += 1
                v = []
                for _ in range(k):
                    nm, rn, rid, idx, d = unhexs(toks[i]), unhexs(toks[i + 1]), int(toks[i + 2]), int(toks[i + 3]), int(toks[i + 4])
                    v.append((nm, rn, rid, idx, [int(x) for x in toks[i + 5:i + 5 + d]]))
                    i += 5 + d
                vals.append(v)
            o1, c1, o2, c2 = vals
            if o1 != snap[1] or c1 != snap[1]:
                ctx.disagree(case, "heap: copy value", snap[1][:4], c1[:4])
            if o2 != after_o[1]:
                ctx.disagree(case, "heap: original after mutating the copy", after_o[1][:4], o2[:4])
            if c2 != after_c[1]:
                ctx.disagree(case, "heap: copy after mutation", after_c[1][:4], c2[:4])
        enc = [hexs(snap[0]), str(len(snap[1]))]
        for (nm, rn, rid, idx, bs) in snap[1]:
            enc += [hexs(nm), hexs(rn), str(rid), str(len(bs))] + [str(b) for b in bs]
        enc += ["1", str(len(ops))]
        for op in ops:
            enc += [op[0]] + [hexs(x) if isinstance(x, str) else str(x) for x in op[1:]]
        ctx.model.ask("heap_copy", " ".join(enc), cbh, case)


def _canon_pairs(pairs):
    return sorted(tuple(sorted((int(a), int(b)))) for a, b in pairs)


def _mt_lines(text):
    out, cur = [], None
    for line in G.phys_lines(text):
        n = G.header_name(line)
        if n is not None:
            cur = n
        elif cur == "moleculetype" and line.strip() and not line.startswith((";", "#")):
            out.append(line.rstrip("\n"))
    return out


def _gen_ops(rng, n):
    ops = []
    for _ in range(rng.randint(1, 5)):
        k = rng.choice("cadnri")
        a = rng.randrange(n)
        if k == "c":
            ops.append(["c", a, rng.randrange(n)])
        elif k == "a":
            ops.append(["a", a, rng.randrange(n + 3)])
        elif k == "d":
            ops.append(["d", a, rng.randrange(n)])
        elif k == "n":
            ops.append(["n", a, rng.choice(["X", "Zz9", "renamed"])])
        elif k == "r":
            ops.append(["r", a, rng.choice(["RES2", "Q"])])
        else:
            ops.append(["i", a, rng.randint(-3, 99)])
    return ops


def _apply_ops(mol, ops):
    for op in ops:
        k, a = op[0], mol.atoms[op[1]]
        if k == "c":
            a.connect(mol.atoms[op[2]])
        elif k == "a":
            a.bonds.add(op[2])
        elif k == "d":
            a.bonds.discard(op[2])
        elif k == "n":
            a.name = op[2]
        elif k == "r":
            a.resname = op[2]
        else:
            a.resid = op[2]
