"""C07 — single-atom move restores every bond length on acyclic molecules.

Real code: gaddlemaps/_transform_molecule.py  (move_mol_atom, find_atom_random_displ)
Model    : lean/GMModel/MoveAtom.lean         (ops move / displ / movetape of gmdriver)

Cases (JSON):
  {"kind": "move", "cls": str, "pos": [[x,y,z]*n], "table": [[[k,b]*]*m], "a": int, "displ": [x,y,z]}
  {"kind": "displ", "cls": str, "pos", "table", "a", "sigma_scale": s, "npseed": int}
  {"kind": "movetape", "cls": str, "pos", "table", "sigma_scale": s, "npseed": int}

`table[i]` is the list stored under key `i` of `bonds_info` (keys 0..m-1; m < n = truncated dict).

Oracle (the property's own predicate, evaluated on the implementation's output):
  * the moved atom is displaced by exactly `displ` (bitwise: it is one float addition per component);
  * the input array is not modified (a read-only array is handed in; bytes compared);
  * well-formed table, connected, n-1 bonds (a labelled tree): every table bond has its tabulated length
    (1e-9 relative) in the output;
  * any graph: every bond of the traversal tree is exact; the traversal is OBSERVED on the real code (the
    module-level `deque` it resolves at call time is replaced by a recording subclass: the popped work
    items), checked to be a tree rooted at the moved atom made of table bonds, and also recomputed
    independently (LIFO walk below) — the observed one is what the oracle uses, so the oracle does not
    depend on the work-list discipline;
  * output finite unless a pull met two coincident points (decided on the observed traversal);
  * a drawn displacement is finite and perpendicular to the bond / the line through the first two listed
    neighbours / both edge vectors of the first three listed neighbours.
Correspondence: positions (1e-9), error class, the popped triples in order, `defined`, the draws' kinds,
order and arguments, the neighbour-count branch.
"""
import collections
import math

import numpy as np
from ..common import quiet as _quiet

from ..common import fbits, unfbits, v3, vlist, close

RULE = ("move: exhaustive labelled trees (Pruefer) n<=5 quick / n<=7 thorough x every moved atom; random trees and "
        "cyclic graphs (tree + extra bonds) up to 60 atoms; coordinates gauss*scale (scale 2^-3..2^3), bond "
        "lengths either the current distances (table agrees) or random (disagrees) or mixed, incl. zero lengths; "
        "neighbour lists shuffled; random displacements incl. zero and along-bond; exact coincident-point cases "
        "(dyadic coordinates); malformed tables in a separate stream (duplicate / self / out-of-range neighbour, "
        "truncated dict, asymmetric, atom index out of range, negative lengths). displ/movetape: draws recorded "
        "from the real np.random calls. Non-trivial = move on >= 3 atoms where at least one non-moved atom "
        "changes position, or a displ/movetape case that returns a displacement; distinct by canonical hash.")

TOL = 1e-9


class Runaway(Exception):
    """raised by the recording deque when the work list is popped far more often than n-1 times"""


# ----------------------------------------------------------------------------------- helpers

def _tab_tokens(table):
    out = [str(len(table))]
    for row in table:
        out.append(str(len(row)))
        for k, b in row:
            out.append(str(int(k)))
            out.append(fbits(b))
    return " ".join(out)


def _to_dict(table):
    return {i: [(int(k), float(b)) for k, b in row] for i, row in enumerate(table)}


def well_formed(table, n):
    """symmetric (with equal lengths), irreflexive, duplicate-free, in-range, one key per atom"""
    if len(table) != n:
        return False
    for i, row in enumerate(table):
        ks = [k for k, _ in row]
        if len(set(ks)) != len(ks):
            return False
        for k, b in row:
            if not (0 <= k < n) or k == i:
                return False
            if not any(kk == i and bb == b for kk, bb in table[k]):
                return False
    return True


def n_undirected(table):
    return sum(1 for i, row in enumerate(table) for k, _ in row if i < k)


def connected(table, n):
    if n == 0:
        return True
    seen = {0}
    todo = [0]
    while todo:
        u = todo.pop()
        for k, _ in table[u]:
            if k not in seen:
                seen.add(k)
                todo.append(k)
    return len(seen) == n


def lifo_traversal(table, n, a):
    """independent recomputation of the traversal (visited set + stack); returns the popped triples or
    an exception class name"""
    if not (0 <= a < n):
        return "IndexError"
    if a >= len(table):
        return "KeyError"
    seen = {a}
    stack = []
    for k, b in table[a]:
        if k in seen or not (0 <= k < n):
            return "ValueError"
        seen.add(k)
        stack.append((a, k, b))
    order = []
    while stack:
        t = stack.pop()
        order.append(t)
        j = t[1]
        if j >= len(table):
            return "KeyError"
        for k, b in table[j]:
            if 0 <= k < n and k not in seen:
                seen.add(k)
                stack.append((j, k, b))
    return order


class _Patched:
    """observe the real code without touching /repo: recording deque + recording np.random draws"""

    def __init__(self, n, record_draws=False):
        self.pops = []
        self.draws = []
        self.displ_seen = []
        self.limit = 4 * n + 16
        self.record_draws = record_draws

    def __enter__(self):
        import gaddlemaps._transform_molecule as tm
        self.tm = tm
        outer = self

        class RecDeque(collections.deque):
            def _rec(self, x):
                if isinstance(x, tuple) and len(x) == 3:
                    outer.pops.append((int(x[0]), int(x[1]), float(x[2])))
                    if len(outer.pops) > outer.limit:
                        raise Runaway()
                return x

            def pop(self):
                return self._rec(super().pop())

            def popleft(self):
                return self._rec(super().popleft())

        self.had_deque = hasattr(tm, "deque")
        self.old_deque = getattr(tm, "deque", None)
        if self.had_deque:
            tm.deque = RecDeque
        self.saved = {}
        if self.record_draws:
            for kind in ("rand", "choice", "normal", "randint"):
                real = getattr(np.random, kind)
                self.saved[kind] = real

                def rec(*args, _real=real, _kind=kind, **kw):
                    res = _real(*args, **kw)
                    outer.draws.append((_kind, args, kw, res))
                    return res
                setattr(np.random, kind, rec)
            # move_mol_atom resolves find_atom_random_displ as a module global at call time
            real_f = tm.find_atom_random_displ
            self.saved_find = real_f

            def rec_find(*args, **kw):
                res = real_f(*args, **kw)
                outer.displ_seen.append(np.array(res, dtype=float))
                return res
            tm.find_atom_random_displ = rec_find
        return self

    def __exit__(self, *exc):
        if self.had_deque:
            self.tm.deque = self.old_deque
        for kind, real in self.saved.items():
            setattr(np.random, kind, real)
        if self.record_draws:
            self.tm.find_atom_random_displ = self.saved_find
        return False


def _draw_tokens(draws):
    """tape tokens + canonical (kind, args) list; raises ValueError for a draw the model has no token for"""
    toks = [str(len(draws))]
    for kind, args, kw, res in draws:
        if kind == "rand" and args == (3,) and not kw:
            toks.append("r3 " + v3(res))
        elif kind == "choice" and not kw and len(args) == 1 and list(args[0]) == [-1, 1]:
            toks.append(f"ch {int(res)}")
        elif kind == "normal" and not kw and len(args) == 2 and args[0] == 0:
            toks.append("no " + fbits(res))
        elif kind == "randint" and not kw and len(args) == 1:
            toks.append(f"ri {int(res)}")
        else:
            raise ValueError(f"unmodelled draw {kind}{args}{kw}")
    return " ".join(toks)


def _errname(e):
    for cls in (IndexError, KeyError, ValueError):
        if isinstance(e, cls):
            return cls.__name__
    return type(e).__name__


def _parse_state(toks):
    """<defined> <n (x y z)*> <k (i j b)*>  ->  (defined, positions, trace, remaining tokens)"""
    dfn = toks[0] == "1"
    n = int(toks[1])
    p = 2
    pos = []
    for _ in range(n):
        pos.append([unfbits(toks[p]), unfbits(toks[p + 1]), unfbits(toks[p + 2])])
        p += 3
    k = int(toks[p])
    p += 1
    tr = []
    for _ in range(k):
        tr.append((int(toks[p]), int(toks[p + 1]), unfbits(toks[p + 2])))
        p += 3
    return dfn, pos, tr, toks[p:]


def _same_pos(a, b):
    if len(a) != len(b):
        return False
    return all(close(float(x), float(y), TOL) for r, s in zip(a, b) for x, y in zip(r, s))


def _same_trace(a, b):
    return len(a) == len(b) and all(x[0] == y[0] and x[1] == y[1] and (x[2] == y[2] or (x[2] != x[2] and y[2] != y[2]))
                                    for x, y in zip(a, b))


# ----------------------------------------------------------------------------------- generators

def prufer_trees(n):
    """all labelled trees on n vertices as edge lists"""
    if n == 1:
        yield []
        return
    if n == 2:
        yield [(0, 1)]
        return
    import itertools
    for seq in itertools.product(range(n), repeat=n - 2):
        deg = [1] * n
        for s in seq:
            deg[s] += 1
        edges = []
        for s in seq:
            for v in range(n):
                if deg[v] == 1:
                    edges.append((v, s))
                    deg[v] -= 1
                    deg[s] -= 1
                    break
        u, w = [v for v in range(n) if deg[v] == 1]
        edges.append((u, w))
        yield edges


def random_tree(rng, n):
    perm = list(range(n))
    rng.shuffle(perm)
    shape = rng.random()
    edges = []
    for i in range(1, n):
        if shape < 0.25:
            p = i - 1                       # path
        elif shape < 0.4:
            p = rng.randrange(max(1, i // 8 + 1))  # bushy
        else:
            p = rng.randrange(i)
        edges.append((perm[p], perm[i]))
    return edges


def _coords(rng, n, dyadic=False):
    if dyadic:
        return [[rng.randint(-16, 16) / 4.0 for _ in range(3)] for _ in range(n)]
    s = 2.0 ** rng.randint(-3, 3)
    return [[rng.gauss(0, 1) * s for _ in range(3)] for _ in range(n)]


def _dist(p, q):
    return float(np.linalg.norm(np.array(p) - np.array(q)))


def build_table(rng, n, edges, pos, mode):
    """mode: agree | disagree | mixed | zero (some zero lengths)"""
    rows = [[] for _ in range(n)]
    scale = max(1e-3, float(np.mean([abs(c) for p in pos for c in p])) if pos else 1.0)
    for (u, w) in edges:
        d = _dist(pos[u], pos[w])
        if mode == "agree":
            b = d
        elif mode == "disagree":
            b = rng.uniform(0.1, 2.0) * scale
        elif mode == "zero":
            b = 0.0 if rng.random() < 0.3 else rng.uniform(0.1, 2.0) * scale
        else:
            b = d if rng.random() < 0.5 else rng.uniform(0.1, 2.0) * scale
        rows[u].append([w, b])
        rows[w].append([u, b])
    for r in rows:
        rng.shuffle(r)
    return rows


def _displ(rng, pos, table, a):
    k = rng.random()
    s = max(1e-3, float(np.mean([abs(c) for p in pos for c in p])))
    if k < 0.08:
        return [0.0, 0.0, 0.0]
    if k < 0.2 and table[a]:
        nb = table[a][0][0]
        if 0 <= nb < len(pos):
            f = rng.uniform(-0.5, 0.5)
            return [f * (pos[nb][j] - pos[a][j]) for j in range(3)]
    return [rng.gauss(0, 1) * s * rng.choice([0.1, 1.0, 3.0]) for _ in range(3)]


def _move_case(rng, n, edges, cls, mode=None, a=None, dyadic=False):
    pos = _coords(rng, n, dyadic)
    mode = mode or rng.choice(["agree", "disagree", "mixed", "disagree"])
    table = build_table(rng, n, edges, pos, mode)
    a = rng.randrange(n) if a is None else a
    return {"kind": "move", "cls": cls + ":" + mode, "pos": pos, "table": table, "a": a,
            "displ": _displ(rng, pos, table, a)}


def gen_exhaustive(ctx):
    rng = ctx.rng
    nmax = 5 if ctx.quick() else 7
    if ctx.budget_scale > 1.0:
        nmax = min(7, nmax + 1)
    for n in range(1, nmax + 1):
        for edges in prufer_trees(n):
            for a in range(n):
                yield _move_case(rng, n, edges, f"tree-exh-{n}", a=a)


def gen_random_graphs(ctx):
    rng = ctx.rng
    for _ in range(ctx.n(400, 6000)):
        n = rng.choice([rng.randint(2, 12), rng.randint(8, 60)])
        yield _move_case(rng, n, random_tree(rng, n), "tree-rand")
    for _ in range(ctx.n(400, 6000)):
        n = rng.choice([rng.randint(3, 12), rng.randint(8, 60)])
        edges = random_tree(rng, n)
        have = {frozenset(e) for e in edges}
        extra = rng.choice([1, 1, 2, 3, n // 2, n])
        for _ in range(extra):
            u, w = rng.randrange(n), rng.randrange(n)
            if u != w and frozenset((u, w)) not in have:
                have.add(frozenset((u, w)))
                edges.append((u, w))
        cls = "cyclic" if len(edges) > n - 1 else "tree-rand"
        yield _move_case(rng, n, edges, cls)
    # disconnected (forest): the component of the moved atom is restored, the rest untouched
    for _ in range(ctx.n(30, 600)):
        n = rng.randint(3, 20)
        edges = random_tree(rng, n)
        for _ in range(rng.randint(1, 2)):
            edges.pop(rng.randrange(len(edges)))
        yield _move_case(rng, n, edges, "forest")


def gen_edge(ctx):
    rng = ctx.rng
    for _ in range(ctx.n(60, 1500)):
        # zero bond lengths (children land exactly on their parents)
        n = rng.randint(2, 10)
        yield _move_case(rng, n, random_tree(rng, n), "zero-length", mode="zero")
    for _ in range(ctx.n(60, 1500)):
        # a pull meets two coincident points: a neighbour of the moved atom sits exactly at pos[a]+displ,
        # or two bonded atoms deeper in the walk coincide (dyadic coordinates: exact in float and in numpy)
        n = rng.randint(2, 9)
        edges = random_tree(rng, n)
        c = _move_case(rng, n, edges, "coincident", mode=rng.choice(["disagree", "agree"]), dyadic=True)
        a = c["a"]
        c["displ"] = [rng.randint(-8, 8) / 4.0 for _ in range(3)]
        if c["table"][a] and rng.random() < 0.6:
            k = rng.choice(c["table"][a])[0]
            c["pos"][k] = [c["pos"][a][j] + c["displ"][j] for j in range(3)]
        else:
            u, w = rng.choice(edges)
            # the deeper one (whichever is pulled) starts on top of the other: only coincident at pull time
            # when the other one does not move (table agrees & zero displacement) — make that likely
            c["displ"] = [0.0, 0.0, 0.0]
            c["pos"][w] = list(c["pos"][u])
        yield c
    for _ in range(ctx.n(20, 300)):
        # negative tabulated length: the pull lands at distance |b| on the far side
        n = rng.randint(2, 8)
        c = _move_case(rng, n, random_tree(rng, n), "negative-length", mode="disagree")
        u = rng.randrange(n)
        if c["table"][u]:
            k, b = c["table"][u][0]
            c["table"][u][0][1] = -b
            for e in c["table"][k]:
                if e[0] == u:
                    e[1] = -b
        yield c


def gen_malformed(ctx):
    rng = ctx.rng
    for _ in range(ctx.n(80, 1500)):
        n = rng.randint(2, 9)
        c = _move_case(rng, n, random_tree(rng, n), "malformed")
        t = c["table"]
        a = c["a"]
        k = rng.randrange(9)
        if k == 0 and t[a]:
            t[a].append(list(rng.choice(t[a])))
            c["cls"] = "malformed:dup-at-root"
        elif k == 1:
            t[a].insert(rng.randint(0, len(t[a])), [a, 1.0])
            c["cls"] = "malformed:self-at-root"
        elif k == 2:
            u = rng.choice([v for v in range(n) if v != a])
            t[u].insert(rng.randint(0, len(t[u])), [u, 1.0])
            c["cls"] = "malformed:self-elsewhere"
        elif k == 3:
            t[a].insert(rng.randint(0, len(t[a])), [n + rng.randint(0, 3), 1.0])
            c["cls"] = "malformed:range-at-root"
        elif k == 4:
            u = rng.choice([v for v in range(n) if v != a])
            t[u].insert(rng.randint(0, len(t[u])), [n + rng.randint(0, 3), 1.0])
            c["cls"] = "malformed:range-elsewhere"
        elif k == 5:
            del t[rng.randint(1, n - 1):]
            c["cls"] = "malformed:truncated-dict"
        elif k == 6:
            c["a"] = n + rng.randint(0, 2)
            c["cls"] = "malformed:atom-index"
        elif k == 7:
            u = rng.randrange(n)
            if t[u]:
                t[u].pop(rng.randrange(len(t[u])))
            c["cls"] = "malformed:asymmetric"
        else:
            u = rng.choice([v for v in range(n) if v != a])
            if t[u]:
                t[u].append(list(rng.choice(t[u])))
            c["cls"] = "malformed:dup-elsewhere"
        yield c


def gen_displ(ctx):
    rng = ctx.rng
    for i in range(ctx.n(2500, 12000)):
        k = rng.random()
        n = rng.randint(2, 12)
        if k < 0.5:
            edges = random_tree(rng, n)
        else:
            # star-ish: make high neighbour counts common
            c0 = rng.randrange(n)
            edges = [(c0, v) for v in range(n) if v != c0]
        dyadic = rng.random() < 0.15
        pos = _coords(rng, n, dyadic)
        table = build_table(rng, n, edges, pos, rng.choice(["agree", "disagree"]))
        a = rng.randrange(n)
        if k >= 0.5 and rng.random() < 0.7:
            a = c0
        cls = "generic"
        r = rng.random()
        if r < 0.06 and len(table[a]) >= 3:
            # first three listed neighbours collinear -> direction = 0 -> NaN (dyadic, exact)
            pos = _coords(rng, n, True)
            k0, k1, k2 = (table[a][j][0] for j in range(3))
            d = [rng.randint(-3, 3) for _ in range(3)]
            pos[k1] = [pos[k0][j] + d[j] for j in range(3)]
            pos[k2] = [pos[k0][j] - 2 * d[j] for j in range(3)]
            cls = "collinear-3"
        elif r < 0.1 and len(table[a]) == 2:
            k0, k1 = table[a][0][0], table[a][1][0]
            pos[k1] = list(pos[k0])
            cls = "coincident-2"
        elif r < 0.14 and len(table[a]) == 1:
            pos[table[a][0][0]] = list(pos[a])
            cls = "coincident-1"
        elif r < 0.18:
            table[a] = []
            cls = "no-neighbours"
        elif r < 0.22 and table[a]:
            table[a][0][1] = -abs(table[a][0][1]) - 0.1
            cls = "negative-sigma"
        elif r < 0.25 and table[a]:
            table[a][rng.randrange(min(3, len(table[a])))][0] = n + rng.randint(0, 2)
            cls = "neighbour-out-of-range"
        elif r < 0.27:
            a = n + rng.randint(0, 2)
            cls = "missing-key"
        elif r < 0.45 and len(table[a]) == 2:
            # an atom (almost) on the line through its two neighbours, in a generic orientation: straight segments,
            # bends of 0 … 1e-7 rad.  The displacement must be perpendicular to the line through the two neighbours
            # (seed C07-10: normal of the "angle plane" = rounding noise amplified by 1/sin(angle))
            k0, k1 = table[a][0][0], table[a][1][0]
            d = [rng.gauss(0, 1) for _ in range(3)]
            L = math.sqrt(sum(c * c for c in d)) or 1.0
            d = [c / L for c in d]
            e = [rng.gauss(0, 1) for _ in range(3)]
            bend = rng.choice([0.0, 1e-12, 1e-9, 1e-8, 1e-7])
            base = [rng.uniform(-3, 3) for _ in range(3)] if rng.random() < 0.7 else [0.0, 0.0, 0.0]
            pos[a] = base
            pos[k0] = [base[j] + 0.31 * d[j] for j in range(3)]
            pos[k1] = [base[j] - 0.27 * d[j] + bend * e[j] for j in range(3)]
            cls = "near-linear-2"
        elif r < 0.37 and len(table[a]) >= 3:
            # three or more neighbours whose cross product is SMALL but not degenerate: the same geometry in
            # other length units (coordinates x 1e-4 … 1e-2), or a flat triangle with the third neighbour
            # 10^-4 … 10^-6 off the line of the first two.  Perpendicularity has no absolute scale
            # (seed C07-8: `norm(cross) < 1e-6` taken for "collinear")
            if rng.random() < 0.5:
                f = 10 ** -rng.uniform(2.0, 4.0)
                pos = [[c * f for c in p] for p in pos]
                table = {u: [[v, b * f] for v, b in lst] for u, lst in table.items()} if isinstance(table, dict) \
                    else [[[v, b * f] for v, b in lst] for lst in table]
                cls = "small-length-unit"
            else:
                k0, k1, k2 = (table[a][j][0] for j in range(3))
                d = [pos[k1][j] - pos[k0][j] for j in range(3)]
                L = math.sqrt(sum(c * c for c in d)) or 1.0
                e = [rng.gauss(0, 1) for _ in range(3)]
                dot = sum(e[j] * d[j] for j in range(3)) / (L * L)
                e = [e[j] - dot * d[j] for j in range(3)]
                le = math.sqrt(sum(c * c for c in e)) or 1.0
                off = 10 ** -rng.uniform(4.0, 6.0)
                t = rng.uniform(0.3, 1.7)
                pos[k2] = [pos[k0][j] + t * d[j] + off * e[j] / le for j in range(3)]
                cls = "flat-triangle"
        ss = rng.choice([0.5, 0.5, 1.0, 0.1, 2.0, rng.uniform(0.01, 3.0)])
        if cls == "generic" and rng.random() < 0.04:
            ss = -ss
            cls = "negative-sigma"
        elif cls == "generic" and rng.random() < 0.04:
            ss = 0.0
            cls = "zero-sigma"
        elif cls == "generic" and rng.random() < 0.03 and table[a]:
            # sigma = -0.0: numpy's scale check is signbit-based and rejects it (ValueError)
            ss = -0.0
            cls = "negative-zero-sigma"
        yield {"kind": "displ", "cls": cls, "pos": pos, "table": table, "a": a, "sigma_scale": ss,
               "npseed": rng.randrange(2 ** 31)}
    for i in range(ctx.n(150, 4000)):
        n = rng.randint(2, 14)
        edges = random_tree(rng, n)
        if rng.random() < 0.3:
            have = {frozenset(e) for e in edges}
            for _ in range(rng.randint(1, 3)):
                u, w = rng.randrange(n), rng.randrange(n)
                if u != w and frozenset((u, w)) not in have:
                    have.add(frozenset((u, w)))
                    edges.append((u, w))
        pos = _coords(rng, n)
        table = build_table(rng, n, edges, pos, rng.choice(["agree", "disagree", "mixed"]))
        yield {"kind": "movetape", "cls": "tree" if len(edges) == n - 1 else "cyclic", "pos": pos, "table": table,
               "sigma_scale": rng.choice([0.5, 0.5, 1.0, 0.1]), "npseed": rng.randrange(2 ** 31)}


def generate(ctx):
    yield from gen_exhaustive(ctx)
    yield from gen_random_graphs(ctx)
    yield from gen_edge(ctx)
    yield from gen_malformed(ctx)
    yield from gen_displ(ctx)


# ----------------------------------------------------------------------------------- oracle pieces

def _check_traversal(pops, table, n, a):
    """the observed popped items form a tree rooted at `a` made of table bonds"""
    reached = {a}
    for (i, j, b) in pops:
        if i not in reached or j in reached or not (0 <= j < n):
            return False
        if i >= len(table) or not any(k == j and (bb == b) for k, bb in table[i]):
            return False
        reached.add(j)
    return True


def _bond_err(out, i, j, b):
    d = float(np.linalg.norm(out[i] - out[j]))
    return abs(d - abs(b)), TOL * max(1.0, abs(b), d)


def _oracle_move(ctx, case, P, table, a, displ, out, pops, key_sfx, exact_root=True):
    """property predicate on the implementation's output of a successful move; returns #failures"""
    n = len(P)
    fails = []
    detail = {}
    if out.shape != P.shape:
        ctx.oracle_fail("move:shape" + key_sfx, case, {"shape": list(out.shape)})
        return 1
    # moved atom displaced exactly
    exp = P[a] + displ
    if exact_root:
        ok_root = all((x == y) or (x != x and y != y) for x, y in zip(out[a], exp))
    else:
        ok_root = all(close(float(x), float(y), TOL) for x, y in zip(out[a], exp))
    ctx.oracle_ok()
    if not ok_root:
        fails.append("moved-atom-not-displaced-exactly")
        detail["moved"] = {"got": out[a], "expected": exp}
    # traversal: observed if the code still uses the module-level deque, else recomputed
    rec = lifo_traversal(table, n, a)
    trav = pops if (pops or rec == [] or isinstance(rec, str)) else None
    if trav is None:
        trav = rec
        ctx.count("oracle:traversal-recomputed")
    else:
        ctx.count("oracle:traversal-observed")
        ctx.oracle_ok()
        if not _check_traversal(trav, table, n, a):
            fails.append("traversal-not-a-tree")
            detail["pops"] = trav[:20]
    coincident = False
    # coincidence: child's ORIGINAL position equals the parent's FINAL position at pull time
    for (i, j, b) in trav:
        if 0 <= i < n and 0 <= j < n and np.array_equal(out[i], P[j] if j != a else exp):
            coincident = True
    wf = well_formed(table, n)
    tree = wf and connected(table, n) and n_undirected(table) == n - 1
    neg = any(b < 0 for row in table for _, b in row)
    ctx.count("graph:" + ("tree" if tree else "wf-nontree" if wf else "malformed-table"))
    ctx.count(f"size:{'1-3' if n <= 3 else '4-7' if n <= 7 else '8-20' if n <= 20 else '21-60'}")
    if coincident:
        ctx.count("pull:coincident-points")
    else:
        ctx.oracle_ok()
        if not np.isfinite(out).all():
            fails.append("non-finite")
    if np.isfinite(out).all():
        # traversal-tree bonds exact (any graph)
        worst = None
        for (i, j, b) in trav:
            if not (0 <= i < n and 0 <= j < n):
                continue
            e, t = _bond_err(out, i, j, b)
            ctx.oracle_ok()
            if e > t and (worst is None or e > worst[0]):
                worst = (e, i, j, b)
        if worst:
            fails.append("traversal-bond-not-exact")
            detail["traversal_bond"] = worst
        if tree:
            worst = None
            for i, row in enumerate(table):
                for k, b in row:
                    e, t = _bond_err(out, i, k, b)
                    ctx.oracle_ok()
                    if e > t and (worst is None or e > worst[0]):
                        worst = (e, i, k, b)
            if worst:
                fails.append("tree-bond-not-exact" + ("-negative" if neg else ""))
                detail["tree_bond"] = worst
        # atoms outside the component of the moved atom are untouched
        reached = {a} | {j for _, j, _ in trav}
        for v in range(n):
            if v not in reached and not np.array_equal(out[v], P[v]):
                fails.append("unreached-atom-moved")
                break
    for f in fails:
        ctx.oracle_fail(f"move:{f}{key_sfx}", case, detail)
    return len(fails)


def _call_move(P, bonds, n, record_draws=False, **kw):
    """run the real move_mol_atom on a read-only array; returns (out|None, err|None, pops, draws, modified)"""
    from gaddlemaps._transform_molecule import move_mol_atom
    Pin = P.copy()
    Pin.flags.writeable = False
    out = err = None
    with _Patched(n, record_draws) as pt:
        try:
            with _quiet():
                out = move_mol_atom(Pin, bonds, **kw)
        except Runaway as e:
            err = e
        except Exception as e:
            err = e
    modified = Pin.tobytes() != P.tobytes()
    return out, err, pt.pops, pt, modified, Pin


# ----------------------------------------------------------------------------------- evaluate

def _eval_move(ctx, case):
    P = np.array(case["pos"], dtype=float).reshape(-1, 3)
    n = len(P)
    table = [[(int(k), float(b)) for k, b in row] for row in case["table"]]
    a = int(case["a"])
    displ = np.array(case["displ"], dtype=float)
    cls = case.get("cls", "?")
    ctx.count("move:" + cls.split(":")[0] + (":" + cls.split(":")[1] if cls.startswith("malformed") else ""))
    bonds = _to_dict(table)
    bonds_before = repr(bonds)
    out, err, pops, _, modified, Pin = _call_move(P, bonds, n, atom_index=a, displ=displ)
    rec = lifo_traversal(table, n, a)
    wf = well_formed(table, n) and 0 <= a < n
    fails = 0
    ctx.oracle_ok(2)
    if isinstance(err, Runaway):
        ctx.oracle_fail("move:does-not-terminate", case, {"pops": pops[:12]})
        fails += 1
    elif err is not None and wf:
        # a well-formed input must be accepted; was it the read-only input that was written to?
        why = "raises-" + _errname(err)
        if isinstance(err, ValueError):
            P2 = P.copy()
            try:
                with _Patched(n), _quiet():
                    from gaddlemaps._transform_molecule import move_mol_atom
                    move_mol_atom(P2, _to_dict(table), atom_index=a, displ=displ)
                if P2.tobytes() != P.tobytes():
                    why = "input-modified"
            except Exception:
                pass
        ctx.oracle_fail("move:" + why, case, {"error": repr(err)[:200]})
        fails += 1
    if modified or repr(bonds) != bonds_before:
        ctx.oracle_fail("move:input-modified", case, {})
        fails += 1
    if out is not None:
        if out is Pin or np.shares_memory(out, Pin):
            ctx.oracle_fail("move:input-modified", case, {"aliases": True})
            fails += 1
        if wf:
            fails += _oracle_move(ctx, case, P, table, a, displ, np.asarray(out, dtype=float), pops, "")
        else:
            ctx.count("move:malformed-input-answered")      # outside the quantifier: nothing to judge it against
    else:
        ctx.count("move:error-" + (_errname(err) if err is not None else "?"))
    moved_others = out is not None and any(not np.array_equal(out[v], P[v]) for v in range(n) if v != a)
    ctx.case(case, nontrivial=bool(n >= 3 and moved_others))

    impl_err = None if err is None else _errname(err)

    def cb(status, toks, case, out=out, impl_err=impl_err, pops=pops, rec=rec):
        if status == "err":
            ctx.count("model:err-" + toks[0])
            if impl_err != toks[0]:
                ctx.disagree(case, "move_mol_atom outcome", impl_err or "returns", "raises " + toks[0])
            if rec != toks[0]:
                ctx.disagree(case, "independent traversal outcome (harness vs model)", rec, toks[0])
            return
        dfn, mpos, mtr, _ = _parse_state(toks)
        ctx.count("model:defined" if dfn else "model:undefined")
        if impl_err is not None:
            ctx.disagree(case, "move_mol_atom outcome", "raises " + impl_err, "returns")
            return
        if not _same_pos(mpos, out.tolist()):
            ctx.disagree(case, "move_mol_atom positions", out, mpos)
        if pops and not _same_trace(pops, mtr):
            ctx.disagree(case, "popped work items (observed on the real code)", pops, mtr)
        if isinstance(rec, str) or not _same_trace(rec, mtr):
            ctx.disagree(case, "independent traversal (harness vs model)", rec, mtr)
        if dfn != bool(np.isfinite(out).all()):
            ctx.disagree(case, "finite output vs model `defined`", bool(np.isfinite(out).all()), dfn)
    ctx.model.ask("move", f"{vlist(P)} {_tab_tokens(table)} {a} {v3(displ)}", cb, case)


def _perp_fail(d, u):
    """|d.u| beyond rounding of the two factors"""
    nd, nu = float(np.linalg.norm(d)), float(np.linalg.norm(u))
    return abs(float(np.dot(d, u))) > TOL * max(nd * nu, 1e-300)


def _oracle_displ(ctx, case, P, table, a, d, key):
    """finite + perpendicular (the clause of the property about drawn displacements)"""
    n = len(P)
    nb = [k for k, _ in table[a]]
    fails = []
    br = min(len(nb), 3)
    ctx.count(f"displ:branch-{br}")
    if br == 1:
        us = [P[nb[0]] - P[a]]
    elif br == 2:
        us = [P[nb[0]] - P[nb[1]]]
    else:
        us = [P[nb[0]] - P[nb[2]], P[nb[0]] - P[nb[1]]]
    # degenerate geometry (direction parallel / zero): the property's "generic coordinates" exclude it
    if br == 3:
        degenerate = not np.any(np.cross(us[0], us[1]))
    else:
        degenerate = not np.any(us[0])
    if degenerate:
        ctx.count("displ:degenerate-geometry")
        return 0
    ctx.oracle_ok(2)
    if not np.isfinite(d).all():
        fails.append("non-finite")
    else:
        for u in us:
            if _perp_fail(d, u):
                fails.append("not-perpendicular")
                break
    for f in fails:
        ctx.oracle_fail(f"displ:{f}:branch-{br}{key}", case, {"displ": d})
    return len(fails)


def _eval_displ(ctx, case):
    from gaddlemaps._transform_molecule import find_atom_random_displ
    P = np.array(case["pos"], dtype=float).reshape(-1, 3)
    n = len(P)
    table = [[(int(k), float(b)) for k, b in row] for row in case["table"]]
    a = int(case["a"])
    ss = float(case["sigma_scale"])
    ctx.count("displ:" + case.get("cls", "?"))
    Pin = P.copy()
    Pin.flags.writeable = False
    d = err = None
    np.random.seed(int(case["npseed"]))
    with _Patched(n, record_draws=True) as pt:
        try:
            with _quiet():
                d = find_atom_random_displ(Pin, _to_dict(table), a, sigma_scale=ss)
        except Exception as e:
            err = e
    ctx.oracle_ok()
    if Pin.tobytes() != P.tobytes():
        ctx.oracle_fail("displ:input-modified", case, {})
    regular = (0 <= a < len(table) and len(table[a]) >= 1 and table[a][0][1] * ss >= 0
               and math.copysign(1.0, table[a][0][1] * ss) > 0
               and all(0 <= k < n for k, _ in table[a][:3]) and a < n)
    if d is not None:
        d = np.asarray(d, dtype=float)
        if regular:
            _oracle_displ(ctx, case, P, table, a, d, "")
    elif regular:
        ctx.oracle_fail("displ:raises-" + _errname(err), case, {"error": repr(err)[:200]})
    ctx.case(case, nontrivial=d is not None)
    try:
        tape = _draw_tokens(pt.draws)
    except ValueError as e:
        ctx.disagree(case, "kind/arguments of the draws", str(e), "rand(3)|choice([-1,1]) then normal(0, sigma)")
        return
    kinds = [k for k, *_ in pt.draws]
    normal_scale = [float(args[1]) for k, args, kw, r in pt.draws if k == "normal"]
    impl_err = None if err is None else _errname(err)

    def cb(status, toks, case, d=d, impl_err=impl_err, kinds=kinds, normal_scale=normal_scale):
        if status == "err":
            ctx.count("model:displ-err-" + toks[0])
            if impl_err != toks[0]:
                ctx.disagree(case, "find_atom_random_displ outcome", impl_err or "returns", "raises " + toks[0])
            return
        br, sigma, dfn = int(toks[0]), unfbits(toks[1]), toks[2] == "1"
        md = [unfbits(t) for t in toks[3:6]]
        unused = int(toks[6])
        ctx.count(f"model:displ-branch-{br}")
        if impl_err is not None:
            ctx.disagree(case, "find_atom_random_displ outcome", "raises " + impl_err, "returns")
            return
        if unused != 0:
            ctx.disagree(case, "number of draws", kinds, f"{unused} unused")
        if not all(close(float(x), float(y), TOL) for x, y in zip(d, md)):
            ctx.disagree(case, "find_atom_random_displ", d, md)
        if len(normal_scale) != 1 or not close(normal_scale[0], sigma, 1e-15):
            ctx.disagree(case, "scale handed to np.random.normal", normal_scale, sigma)
        want = ["rand", "normal"] if br < 3 else ["choice", "normal"]
        if kinds != want:
            ctx.disagree(case, "order/kind of draws", kinds, want)
        if dfn != bool(np.isfinite(d).all()) and math.isfinite(sigma):
            ctx.disagree(case, "finite displacement vs model `defined`", bool(np.isfinite(d).all()), dfn)
    ctx.model.ask("displ", f"{vlist(P)} {_tab_tokens(table)} {a} {fbits(ss)} {tape}", cb, case)


def _eval_movetape(ctx, case):
    P = np.array(case["pos"], dtype=float).reshape(-1, 3)
    n = len(P)
    table = [[(int(k), float(b)) for k, b in row] for row in case["table"]]
    ss = float(case["sigma_scale"])
    ctx.count("movetape:" + case.get("cls", "?"))
    np.random.seed(int(case["npseed"]))
    out, err, pops, pt, modified, Pin = _call_move(P, _to_dict(table), n, record_draws=True, sigma_scale=ss)
    draws = pt.draws
    ctx.oracle_ok()
    if modified:
        ctx.oracle_fail("move:input-modified", case, {})
    a = None
    dis = None
    if draws and draws[0][0] == "randint":
        a = int(draws[0][3])
        if draws[0][1] != (n,):
            ctx.oracle_fail("movetape:randint-range", case, {"args": draws[0][1]})
    if isinstance(err, Runaway):
        ctx.oracle_fail("move:does-not-terminate", case, {"pops": pops[:12]})
    elif err is not None:
        ctx.oracle_fail("movetape:raises-" + _errname(err), case, {"error": repr(err)[:200]})
    elif a is None:
        ctx.oracle_fail("movetape:no-randint-draw", case, {"kinds": [k for k, *_ in draws]})
    else:
        out = np.asarray(out, dtype=float)
        # the displacement the code drew (return value of find_atom_random_displ, observed by wrapping the
        # module global); if the code no longer calls it, recover it from the output
        if len(pt.displ_seen) == 1:
            dis = pt.displ_seen[0]
        else:
            ctx.count("movetape:displacement-recovered-from-output")
            dis = out[a] - P[a]
        if len(table[a]) >= 1 and np.isfinite(dis).all():
            _oracle_displ(ctx, case, P, table, a, dis, ":via-move")
        _oracle_move(ctx, case, P, table, a, dis, out, pops, ":via-tape", exact_root=len(pt.displ_seen) == 1)
    ctx.case(case, nontrivial=out is not None and n >= 3)
    try:
        tape = _draw_tokens(draws)
    except ValueError as e:
        ctx.disagree(case, "kind/arguments of the draws", str(e), "randint(n), rand(3)|choice, normal")
        return
    kinds = [k for k, *_ in draws]
    impl_err = None if err is None else _errname(err)

    def cb(status, toks, case, out=out, impl_err=impl_err, kinds=kinds, a=a, pops=pops):
        if status == "err":
            if impl_err != toks[0]:
                ctx.disagree(case, "move_mol_atom(random) outcome", impl_err or "returns", "raises " + toks[0])
            return
        if impl_err is not None:
            ctx.disagree(case, "move_mol_atom(random) outcome", "raises " + impl_err, "returns")
            return
        ma, br = int(toks[0]), int(toks[1])
        unused = int(toks[7])
        dfn, mpos, mtr, _ = _parse_state(toks[8:])
        want = ["randint"] + (["rand", "normal"] if br < 3 else ["choice", "normal"])
        if kinds != want or unused != 0 or ma != a:
            ctx.disagree(case, "order/kind of draws", kinds, want)
        if not _same_pos(mpos, out.tolist()):
            ctx.disagree(case, "move_mol_atom(random) positions", out, mpos)
        if pops and not _same_trace(pops, mtr):
            ctx.disagree(case, "popped work items (observed on the real code)", pops, mtr)
    ctx.model.ask("movetape", f"{vlist(P)} {_tab_tokens(table)} {fbits(ss)} {tape}", cb, case)


def evaluate(ctx, case):
    kind = case["kind"]
    if kind == "move":
        return _eval_move(ctx, case)
    if kind == "displ":
        return _eval_displ(ctx, case)
    if kind == "movetape":
        return _eval_movetape(ctx, case)
    raise ValueError("unknown case kind")
