"""C05 — system extrapolation conserves molecules, order, numbering, box and title.

Cases (all self-contained, see harness/mgrgen.py for the system description):
  {"kind": "extrap", "desc": DESC, "mode": MODE, "scale": s, "align": bool, "npseed": n, "ends": [species idx]}
      MODE  normal | nomaps | latemap | noend | badext | resmismatch | mixedvel
  {"kind": "shipped", "scale": s, "npseed": n, "nmol": n | None}      the BMIM/BF4 box of gaddlemaps/data
  {"kind": "title", "value": str}                                  comment setter + first line written
  {"kind": "sm", ...}                                              a whole Manager SESSION (state machine), see harness/mgrsm.py

Oracle (on the real code, independent of the model): the written file re-read with the real parser —
molecules in input-FILE order (ground truth = the generator's description, not `System`), count = sum of
target sizes, numbers 1.., title/box equal the input's, residue numbers of the input molecule, names of the
target, coordinates = a FRESH `exchange_map(mol)` to 0.5e-3 (references < 3 atoms: what C02 leaves
determined); pre-flight failures raise SystemError and create no file.
Byte level (C05 x C13): the composed model `Mgr.extrapolate ; MgrGro.toOps ; Gro.run` (the object of
`C05.extrapolate_roundtrip`) predicts the written FILE, compared byte for byte (`extrapolate_bytes`).
Model: the writer operations observed by wrapping `open_coordinate_file`, the `comment`/`box_matrix`
setters, `GroFile.writeline`, `GroFile.close` are compared with `Mgr.extrapolate` fed with the molecules
`System.__iter__` yielded and the molecules `ExchangeMap._restore_molecule` returned.
"""
from __future__ import annotations

import contextlib
import io
import math
import os
import shutil
import warnings

import numpy as np

from ..common import fbits, hexs, unhexs
from .. import mgrgen
from .. import mgrsm

RULE = ("generated systems: 2-5 species drawn from {1-atom, 2-atom (1 or 2 residues), multi-residue 4-8 atoms, "
        "3-7 atom, end-smaller-than-start}, one species without end molecule (p=.7), solvent residues without "
        "topology (p=.6), 1-60 molecules interleaved or in blocks, residue numbering from 1/5/120/9990 with gaps, "
        "rectangular/triclinic box, system/end files with or without velocities, scale in {.5,1,.25,2,1e-3,U(.05,1.5)}, "
        "every subset of mapped species given an end molecule, with/without align_molecules (STEPS_FACTOR=20); "
        "pre-flight (no maps / map missing for a late end molecule / no end molecule / unknown output extension) and "
        "mid-write error streams (residue-count mismatch, mixed velocities); the shipped 600-molecule BMIM/BF4 box. "
        "Manager sessions (kind 'sm', harness/mgrsm.py): one real Manager driven through 6-18 calls of add_end_molecule(s) / "
        ".end = / calculate_exchange_maps / align_molecules / extrapolate_system (scenarios latemap, ready, re-attach after a "
        "run, detach + re-attach, run stopping half way, random; good / moved / wrong-species / other-name / other-velocity "
        "molecules, None, non-molecules, unknown keys, same object again; output path fresh or pre-existing, registered or "
        "unregistered extension), table + exception class compared with MgrSM.step after every call. "
        "Non-trivial = a run that writes >= 2 molecules of >= 2 species or exercises an error path (session: >= 4 calls, "
        ">= 1 exception); distinct by canonical hash of the whole case.")

STRICT_TWO_ATOM = True     # flipped once D7 (C02) is repaired: also compare the along-bond coordinate
COORD_TOL = 0.5e-3 + 1e-9
DIST_TOL = 0.9e-3           # |Δp| of a coordinate triple rounded to 3 decimals
ERR = {"SystemError": 1, "ValueError": 2, "TypeError": 3, "OSError": 4, "IOError": 4, "KeyError": 5,
       "IndexError": 6}


# ----------------------------------------------------------------------------- generation

def _scale(rng):
    return rng.choice([0.5, 0.5, 1.0, 0.25, 2.0, 1e-3, round(rng.uniform(0.05, 1.5), 4)])


def generate(ctx):
    rng = ctx.rng
    for atoms in ([100010] if ctx.quick() else [99990, 100010, 200010]):
        yield {"kind": "bignum", "atoms": atoms, "seed": rng.randrange(2 ** 31)}
    for _ in range(ctx.n(6, 60)):
        yield {"kind": "bignum", "atoms": rng.randint(40, 160), "seed": rng.randrange(2 ** 31), "degenerate": True}
    n_main = ctx.n(150, 4000)
    for i in range(n_main):
        small = rng.random() < 0.35
        force = None
        if i % 5 == 0:
            force = ["one", "two", "multi"]          # the three special reference kinds together
        desc = mgrgen.gen_system(rng, nmol_max=(8 if small else 60), small=small and not force, force_kinds=force)
        mapped = [k for k, s in enumerate(desc["species"]) if s["aa"] is not None]
        if rng.random() < 0.35 and len(mapped) > 1:
            ends = sorted(rng.sample(mapped, rng.randint(1, len(mapped))))
        else:
            ends = mapped
        yield {"kind": "extrap", "desc": desc, "mode": "normal", "scale": _scale(rng),
               "align": rng.random() < 0.4, "npseed": rng.randrange(2 ** 31), "ends": ends}
    for mode, nq, nt in (("nomaps", 8, 120), ("latemap", 8, 120), ("noend", 4, 60), ("badext", 4, 60),
                         ("resmismatch", 8, 120), ("mixedvel", 8, 120)):
        for _ in range(ctx.n(nq, nt)):
            desc = mgrgen.gen_system(rng, nmol_max=12, small=True)
            for s in desc["species"]:
                if s["aa"] is None:       # these streams want every species mappable
                    s["aa"] = mgrgen.gen_aa(rng, s["cg"], smaller=(s["kind"] == "reverse"))
            mapped = list(range(len(desc["species"])))
            if mode == "resmismatch":
                k = rng.choice(mapped)
                sp = desc["species"][k]
                sp["aa"] = mgrgen.gen_aa(rng, sp["cg"], extra_residue=True)
            if mode == "mixedvel":
                for k in mapped:
                    desc["species"][k]["aa"]["vel"] = (k % 2 == 0)
            yield {"kind": "extrap", "desc": desc, "mode": mode, "scale": _scale(rng), "align": False,
                   "npseed": rng.randrange(2 ** 31), "ends": mapped}
    # the Manager OBJECT as a state machine: random sessions of add_end_molecule(s) / .end = / calculate_exchange_maps /
    # align_molecules / extrapolate_system on one real Manager (harness/mgrsm.py; model GMModel.ManagerSM)
    for _ in range(ctx.n(200, 4000)):
        yield mgrsm.gen_case(rng)
    for v in ["abc\n", "abc", "a\n", "\n", "", "  spaced  \n", "two\nlines\n", "x\n\n"]:
        yield {"kind": "title", "value": v}
    yield {"kind": "shipped", "scale": 0.5, "npseed": rng.randrange(2 ** 31), "nmol": None}
    if not ctx.quick():
        yield {"kind": "shipped", "scale": 1.0, "npseed": rng.randrange(2 ** 31), "nmol": 37}


# ----------------------------------------------------------------------------- observation of the real run

class Recorder:
    """wraps the names `extrapolate_system` resolves at call time; records writer ops and map calls"""

    def __init__(self):
        self.ops = []
        self.events = []       # ("mol", name, resids) | ("call",) | ("restore", residues) | ("raise", cls)
        self._depth = 0
        self._files = []

    @contextlib.contextmanager
    def active(self):
        import gaddlemaps._manager as M
        from gaddlemaps.parsers import GroFile
        from gaddlemaps.components import System
        from gaddlemaps import ExchangeMap
        rec = self
        saved = {
            "open": M.open_coordinate_file, "comment": GroFile.__dict__["comment"],
            "box": GroFile.__dict__["box_matrix"], "writeline": GroFile.writeline, "close": GroFile.close,
            "iter": System.__iter__, "call": ExchangeMap.__call__, "restore": ExchangeMap._restore_molecule,
        }

        def open_w(filename, mode="r"):
            f = saved["open"](filename, mode)      # raises ValueError before anything is recorded
            if "w" in mode:
                rec.ops.append(("O",))
                rec._files.append(f)
            return f

        def set_comment(self, value):
            if self in rec._files:
                rec.ops.append(("C", value))
            return saved["comment"].fset(self, value)

        def set_box(self, value):
            if self in rec._files:
                rec.ops.append(("B", [float(x) for x in np.array(value).ravel()]))
            return saved["box"].fset(self, value)

        def writeline(self, atomlist):
            outer = rec._depth == 0 and self in rec._files
            rec._depth += 1
            try:
                r = saved["writeline"](self, atomlist)
            finally:
                rec._depth -= 1
            if outer:      # recorded only when the write did not raise
                rec.ops.append(("L", list(atomlist)))
            return r

        def close(self):
            if self in rec._files:
                rec.ops.append(("X",))
            return saved["close"](self)

        def sys_iter(self):
            for mol in saved["iter"](self):
                rec.events.append(("mol", mol.name, [int(r) for r in mol.resids]))
                yield mol

        def call(self, refmolecule):
            rec.events.append(("call",))
            try:
                return saved["call"](self, refmolecule)
            except Exception as e:
                rec.events.append(("raise", type(e).__name__))
                raise

        def restore(self):
            new_mol = saved["restore"](self)
            residues = []
            for res in new_mol.residues:
                residues.append([(a.resname, a.name, int(a.atomid), a.velocity is not None,
                                  [float(c) for c in a.position],
                                  None if a.velocity is None else [float(c) for c in a.velocity]) for a in res])
            rec.events.append(("restore", residues))
            return new_mol

        M.open_coordinate_file = open_w
        GroFile.comment = property(saved["comment"].fget, set_comment)
        GroFile.box_matrix = property(saved["box"].fget, set_box)
        GroFile.writeline = writeline
        GroFile.close = close
        System.__iter__ = sys_iter
        ExchangeMap.__call__ = call
        ExchangeMap._restore_molecule = restore
        try:
            yield self
        finally:
            M.open_coordinate_file = saved["open"]
            GroFile.comment = saved["comment"]
            GroFile.box_matrix = saved["box"]
            GroFile.writeline = saved["writeline"]
            GroFile.close = saved["close"]
            System.__iter__ = saved["iter"]
            ExchangeMap.__call__ = saved["call"]
            ExchangeMap._restore_molecule = saved["restore"]

    def molecules(self):
        """[(name, resids, accepts, residues)] in the order `System.__iter__` yielded them"""
        out = []
        fresh = False          # a "mol" event not yet followed by a map call
        for ev in self.events:
            if ev[0] == "mol":
                out.append([ev[1], ev[2], True, []])
                fresh = True
            elif ev[0] == "call":
                if not fresh:      # a map call on a molecule that did not come out of System.__iter__
                    out.append(["?not-from-system-iteration", [], True, []])
                fresh = False
            elif ev[0] == "restore":
                out[-1][3] = ev[1]
            elif ev[0] == "raise" and ev[1] == "TypeError" and not out[-1][3]:
                out[-1][2] = False
        return out


def _quiet():
    return contextlib.redirect_stdout(io.StringIO())


def _model_tokens(title, box9, ext_ok, corr, mols):
    t = [hexs(title), "1" if ext_ok else "0", "9"] + [fbits(b) for b in box9]
    t.append(str(len(corr)))
    for name, hs, he, hm in corr:
        t += [hexs(name), str(int(hs)), str(int(he)), str(int(hm))]
    t.append(str(len(mols)))
    for name, resids, acc, residues in mols:
        t += [hexs(name), str(len(resids))] + [str(r) for r in resids] + [str(int(acc)), str(len(residues))]
        for res in residues:
            t.append(str(len(res)))
            for resname, aname, atomid, hv, pos in (a[:5] for a in res):
                t += [hexs(resname), hexs(aname), str(atomid), str(int(hv))] + [fbits(c) for c in pos]
    return " ".join(t)


def _bytes_tokens(title, box9, ext_ok, corr, mols):
    """request of `extrapolate_bytes` (C05 x C13 composed model): as `_model_tokens`, numbers as exact dyadics,
    velocities included; None when something is outside the byte model (non-finite number, non-latin-1 text)"""
    from ..grogen import dy
    if not str(title).isascii():
        return None         # the byte model renders text as latin-1; the files are UTF-8 (the oracle reads them as such)
    try:
        t = [hexs(title), "1" if ext_ok else "0"] + [dy(b) for b in box9]
        t.append(str(len(corr)))
        for name, hs, he, hm in corr:
            t += [hexs(name), str(int(hs)), str(int(he)), str(int(hm))]
        t.append(str(len(mols)))
        for name, resids, acc, residues in mols:
            t += [hexs(name), str(len(resids))] + [str(r) for r in resids] + [str(int(acc)), str(len(residues))]
            for res in residues:
                t.append(str(len(res)))
                for resname, aname, atomid, hv, pos, vel in res:
                    t += [hexs(resname), hexs(aname), str(atomid), str(int(hv))] + [dy(c) for c in pos]
                    if hv:
                        t += [dy(c) for c in vel]
    except (ValueError, UnicodeEncodeError):
        return None
    return " ".join(t)


def _ask_bytes(ctx, case, out, code, title, box9, ext_ok, corr, mols):
    """the composed model (Mgr.extrapolate ; MgrGro.toOps ; Gro.run) predicts the output FILE byte for byte"""
    # the byte model is list based (every write copies the file): quadratic in the file size, so the
    # 400 kB shipped box is compared in the thorough tier only
    if ctx.quick() and os.path.exists(out) and os.path.getsize(out) > 150000:
        ctx.count("bytes:skipped-large-file-in-quick-tier")
        return
    toks = _bytes_tokens(title, box9, ext_ok, corr, mols)
    if toks is None:
        ctx.count("bytes:skipped-outside-byte-model")
        return
    data = None
    if os.path.exists(out):
        with open(out, "rb") as f:
            data = f.read()
    ctx.count("bytes:compared" if data is not None else "bytes:no-file")
    if data is not None:
        ctx.count("bytes:total", len(data))

    def cb(status, toks, case, data=data, code=code):
        merr = int(toks[0])
        mbytes = unhexs(toks[1]).encode("latin-1")
        if merr != code:
            ctx.disagree(case, "extrapolate error (byte model)", code, merr)
        elif (data or b"") != mbytes:
            k = next((i for i, (a, b) in enumerate(zip(data or b"", mbytes)) if a != b),
                     min(len(data or b""), len(mbytes)))
            ctx.disagree(case, f"output file bytes (first difference at byte {k} of {len(data or b'')}/{len(mbytes)})",
                         (data or b"")[max(0, k - 60):k + 60].decode("latin-1"),
                         mbytes[max(0, k - 60):k + 60].decode("latin-1"))
        elif data is None and mbytes:
            ctx.disagree(case, "output file", "not created", "created")
    ctx.model.ask("extrapolate_bytes", toks, cb, case)


def _parse_model_ops(toks):
    """-> (errcode, [op tuples comparable with the recorder's])"""
    err = int(toks[0])
    n = int(toks[1])
    i = 2
    ops = []
    for _ in range(n):
        k = toks[i]
        i += 1
        if k in ("O", "X"):
            ops.append((k,))
        elif k == "C":
            ops.append(("C", unhexs(toks[i])))
            i += 1
        elif k == "B":
            m = int(toks[i])
            ops.append(("B", [int(x) for x in toks[i + 1:i + 1 + m]]))
            i += 1 + m
        elif k == "L":
            resid, resname, name, num, hv = int(toks[i]), unhexs(toks[i + 1]), unhexs(toks[i + 2]), int(toks[i + 3]), toks[i + 4] == "1"
            m = int(toks[i + 5])
            pos = [int(x) for x in toks[i + 6:i + 6 + m]]
            ops.append(("L", resid, resname, name, num, hv, pos))
            i += 6 + m
        else:
            raise ValueError("bad op " + k)
    return err, ops


def _canon_ops(ops):
    out = []
    for op in ops:
        if op[0] == "B":
            out.append(("B", [int(fbits(x)) for x in op[1]]))
        elif op[0] == "L":
            a = op[1]
            out.append(("L", int(a[0]), a[1], a[2], int(a[3]), len(a) == 10, [int(fbits(x)) for x in a[4:7]]))
        else:
            out.append(tuple(op))
    return out


def _read_gro(path):
    from gaddlemaps.parsers import GroFile
    with open(path) as f:
        first = f.readline()
    g = GroFile(path)
    lines = [l for l in g]
    box = np.array(g.box_matrix)
    n = g.natoms
    g.close()
    return first, n, lines, box


# ----------------------------------------------------------------------------- evaluation

def _eval_bignum(ctx, case):
    """An extrapolation whose OUTPUT has more than 100000 atoms (the five-column limit of the .gro number fields).
    Oracle only (the per-molecule comparison and the byte model are exercised by the ordinary cases): atom count,
    atom numbers = 1, 2, ... with the writer's modulo-100000 wrap (99999, 0, 1, ...: consecutive, no jump), residue
    numbers of the input molecules, title and box.  (Seed C05-8: the running counter 'wrapped' as n % 99999 + 1.)"""
    import random as _random
    rng = _random.Random(case["seed"])
    desc = mgrgen.gen_system(rng, nmol_max=4, small=True, force_kinds=["general"])
    sp = next(i for i, s in enumerate(desc["species"]) if s["kind"] == "general")
    if desc["species"][sp]["aa"] is None:
        desc["species"][sp]["aa"] = mgrgen.gen_aa(rng, desc["species"][sp]["cg"])
    for i, s_ in enumerate(desc["species"]):
        s_["loaded"] = (i == sp)
    n_aa = len(desc["species"][sp]["aa"]["xyz"])
    nmol = case["atoms"] // n_aa + 2
    tmpl = desc["species"][sp]["cg"]["xyz"]
    nres = len(desc["species"][sp]["cg"]["residues"])
    desc["solvent"] = None
    desc["sysvel"] = False
    desc["mols"] = [{"sp": sp, "resids": [(1 + m * nres + r) % 100000 for r in range(nres)],
                     "xyz": [[round(p[0] + 0.001 * (m % 900), 3), round(p[1] + 0.001 * (m // 900), 3), p[2]] for p in tmpl]}
                    for m in range(nmol)]
    if case.get("degenerate"):
        # ONE input molecule is degenerate: an atom with >= 2 bonds coincides (to the three decimals of the file) with
        # its second-lowest bonded atom, so its frame is undefined and its mapped atoms come out as NaN.  It is still
        # an input molecule of a mapped species: it is written (NaN fields and all), in place, with its numbers —
        # "exactly one mapped molecule for each input molecule" (seed C05-9: non-finite molecules silently skipped)
        nbs = {}
        for a_, b_ in desc["species"][sp]["cg"]["bonds"]:
            nbs.setdefault(a_, set()).add(b_)
            nbs.setdefault(b_, set()).add(a_)
        anchors = [a_ for a_ in sorted(nbs) if len(nbs[a_]) >= 2]
        if anchors:
            a_ = anchors[0]
            m_ = desc["mols"][min(2, nmol - 1)]
            m_["xyz"][sorted(nbs[a_])[1]] = list(m_["xyz"][a_])
            ctx.count("bignum:one-degenerate-input-molecule")
    workdir = os.path.join(ctx.scratch, f"c05-big-{ctx.evaluations}")
    try:
        c = {"desc": desc, "mode": "normal", "scale": 0.5, "align": False, "npseed": 1, "ends": [sp]}
        man, paths, ends, out = _run_manager(ctx, c, workdir)
        err = None
        try:
            man.extrapolate_system(out)
        except Exception as e:   # noqa: BLE001
            err = e
        ctx.case({"bignum": case["atoms"], "seed": case["seed"]}, nontrivial=True,
                 sample={"kind": "bignum", "molecules": nmol, "atoms_out": nmol * n_aa})
        ctx.count("bignum:output-atoms>100000" if case["atoms"] > 100000 else "bignum:small")
        ctx.oracle_ok(3)
        if err is not None:
            ctx.oracle_fail(f"extrapolate:raises-{type(err).__name__}:bignum", case, {"error": repr(err)})
            return
        nums, resids = [], []
        with open(out) as f:
            f.readline()
            count_line = f.readline()
            body = f.readlines()
        # the file must have one atom line per target atom of every input molecule, then the box line
        if len(body) != nmol * n_aa + 1:
            ctx.oracle_fail("extrapolate:count:bignum", case,
                            {"atom_lines_in_file": len(body) - 1, "count_line": count_line.strip(), "want": nmol * n_aa})
            return
        for l in body[:-1]:
            resids.append(int(l[0:5]))
            nums.append(int(l[15:20]))
        if not count_line.strip().isdigit() or int(count_line) != nmol * n_aa:
            ctx.oracle_fail("extrapolate:count:bignum", case, {"count": count_line.strip(), "want": nmol * n_aa})
        want = [(k + 1) % 100000 for k in range(nmol * n_aa)]
        if nums != want:
            bad = next(k for k in range(len(want)) if nums[k] != want[k])
            ctx.oracle_fail("extrapolate:numbering:bignum", case,
                            {"atom": bad + 1, "written": nums[bad], "want": want[bad], "around": nums[max(0, bad - 2):bad + 3]})
        rs = [r for m in desc["mols"] for res_i, r in enumerate(m["resids"])
              for _ in desc["species"][sp]["aa"]["residues"][res_i]["atoms"]]
        if resids != rs:
            bad = next(k for k in range(len(rs)) if resids[k] != rs[k])
            ctx.oracle_fail("extrapolate:resids:bignum", case, {"atom": bad + 1, "written": resids[bad], "want": rs[bad]})
    finally:
        shutil.rmtree(workdir, ignore_errors=True)


def evaluate(ctx, case):
    warnings.simplefilter("ignore")
    if case["kind"] == "bignum":
        return _eval_bignum(ctx, case)
    if case["kind"] == "title":
        return _eval_title(ctx, case)
    if case["kind"] == "shipped":
        return _eval_shipped(ctx, case)
    if case["kind"] == "sm":
        return mgrsm.evaluate(ctx, case)
    return _eval_extrap(ctx, case)


def _eval_title(ctx, case):
    from gaddlemaps.parsers import GroFile
    v = case["value"]
    ctx.case(case, nontrivial=True)
    ctx.count("title")
    d = os.path.join(ctx.scratch, "title")
    os.makedirs(d, exist_ok=True)
    path = os.path.join(d, "t.gro")
    got = None
    try:
        g = GroFile(path, "w")
        try:
            g.comment = v
            g.writeline([1, "R", "A", 1, 0.1, 0.2, 0.3])
        finally:
            try:
                g.close()
            except Exception:
                pass
        with open(path, newline="") as f:
            got = f.readline()
    except IndexError:
        got = None
        ctx.count("title:IndexError")
    finally:
        shutil.rmtree(d, ignore_errors=True)

    def cb(status, toks, case, got=got):
        m = unhexs(toks[1]) if toks[0] == "1" else None
        multi = "\n" in case["value"][:-1]
        if multi:
            return         # a title containing an inner line break is not a title (never produced by the reader)
        if m != got:
            ctx.disagree(case, "written title", got, m)
    ctx.model.ask("title", hexs(v), cb, case)


def _run_manager(ctx, case, workdir):
    """drive the real Manager; returns dict with everything the oracle / model comparison needs"""
    from gaddlemaps import Manager, Alignment
    from gaddlemaps.components import Molecule
    desc, mode = case["desc"], case["mode"]
    paths = mgrgen.materialize(desc, workdir)
    loaded = [i for i, s in enumerate(desc["species"]) if s["loaded"]]
    np.random.seed(case["npseed"])
    with _quiet():
        man = Manager.from_files(paths["sys"], *[paths["species"][i]["cg"] for i in loaded])
    ends = [i for i in case["ends"] if desc["species"][i]["aa"] is not None]
    late = None
    if mode == "noend":
        ends = []
    if mode == "latemap" and len(ends) > 1:
        late = ends[-1]
        ends = ends[:-1]
    end_mols = [Molecule.from_files(paths["species"][i]["aagro"], paths["species"][i]["aaitp"]) for i in ends]
    man.add_end_molecules(*end_mols)
    old_steps = Alignment.STEPS_FACTOR
    Alignment.STEPS_FACTOR = 20
    try:
        if case.get("align") and ends:
            with _quiet():
                man.align_molecules()
    finally:
        Alignment.STEPS_FACTOR = old_steps
    if mode not in ("nomaps", "noend"):
        man.calculate_exchange_maps(case["scale"])
    if mode == "nomaps" and len(ends) > 1 and case["npseed"] % 2:
        # only SOME maps exist: initialise one alignment by hand
        first = desc["species"][ends[0]]["name"]
        man.molecule_correspondence[first].init_exchange_map(case["scale"])
    if late is not None:
        man.add_end_molecule(Molecule.from_files(paths["species"][late]["aagro"], paths["species"][late]["aaitp"]))
    out = os.path.join(workdir, "out.xyz" if mode == "badext" else "mapped.gro")
    return man, paths, ends, out


def _eval_extrap(ctx, case):
    desc, mode = case["desc"], case["mode"]
    workdir = os.path.join(ctx.scratch, f"c05-{ctx.evaluations}")
    try:
        man, paths, ends, out = _run_manager(ctx, case, workdir)
        in_mols = list(man.system)         # the molecules as the library sees them (before the run)
        corr = [(n, a.start is not None, a.end is not None, a.exchange_map is not None)
                for n, a in man.molecule_correspondence.items()]
        rec = Recorder()
        err = None
        with rec.active():
            try:
                man.extrapolate_system(out)
            except Exception as e:
                err = e
        errname = type(err).__name__ if err is not None else None
        written = sum(1 for o in rec.ops if o[0] == "L")
        nsp = len({e[1] for e in rec.events if e[0] == "mol"})
        ctx.case({k: v for k, v in case.items()}, nontrivial=(mode != "normal") or (written >= 2 and nsp >= 2),
                 sample={"mode": mode, "species": [(s["name"], s["kind"], s["aa"] is not None) for s in desc["species"]],
                         "nmol": len(desc["mols"]), "box": desc["box"], "scale": case["scale"], "written": written})
        ctx.count("mode:" + mode)
        ctx.count("err:" + str(errname))
        ctx.count("lines-written", written)
        ctx.count("molecules-in", len(desc["mols"]))
        ctx.count("box:" + ("triclinic" if len(desc["box"]) == 9 else "rect"))
        if case.get("align"):
            ctx.count("aligned")
        for s in desc["species"]:
            ctx.count("species:" + s["kind"] + ("" if s["aa"] is not None else ":unmapped"))
        if desc["solvent"]:
            ctx.count("with-solvent")

        # ---- oracle
        if mode in ("nomaps", "latemap", "noend"):
            ctx.oracle_ok(2)
            if errname != "SystemError":
                ctx.oracle_fail(f"preflight:{mode}:raises-{errname}", case, {"error": repr(err)})
            if os.path.exists(out) or rec.ops:
                ctx.oracle_fail(f"preflight:{mode}:file-created", case, {"ops": len(rec.ops), "exists": os.path.exists(out)})
        elif mode == "badext":
            ctx.oracle_ok(1)
            if errname != "ValueError" or os.path.exists(out) or rec.ops:
                ctx.oracle_fail("preflight:badext", case, {"error": repr(err), "exists": os.path.exists(out)})
        elif mode == "normal":
            _oracle_normal(ctx, case, man, in_mols, ends, paths, out, err, rec)
            if err is None and os.path.exists(out):
                # the same Manager extrapolates the same system AGAIN: labels, numbers, counts and header of
                # the second file must be those of the first (coordinates of species with < 3 reference atoms
                # depend on fresh random completions, so only what the property fixes is compared).
                # History matters: the target topology shared by all results still holds the residue numbers
                # of the LAST molecule mapped in the first run (seed C05-3).
                out2 = out[:-4] + "_again.gro"
                try:
                    man.extrapolate_system(out2)
                    f1, n1, l1, b1 = _read_gro(out)
                    f2, n2, l2, b2 = _read_gro(out2)
                    same = (f1 == f2 and n1 == n2 and [tuple(l[:4]) for l in l1] == [tuple(l[:4]) for l in l2]
                            and np.array_equal(b1, b2))
                    ctx.oracle_ok()
                    ctx.count("second-extrapolation:" + ("same" if same else "DIFFERS"))
                    if not same:
                        bad = next((k for k, (a, b) in enumerate(zip(l1, l2)) if tuple(a[:4]) != tuple(b[:4])), None)
                        ctx.oracle_fail("extrapolate:second-run-differs-from-first", case,
                                        {"first_difference_at_line": bad,
                                         "first": list(l1[bad][:4]) if bad is not None else None,
                                         "second": list(l2[bad][:4]) if bad is not None else None})
                except Exception as e:   # noqa: BLE001
                    ctx.oracle_fail(f"extrapolate:second-run-raises-{type(e).__name__}", case, {"error": repr(e)})
        else:
            ctx.count(f"{mode}:{errname}")       # malformed streams: model comparison only

        # ---- model
        box9 = [float(x) for x in np.array(man.system.system_gro.box_matrix).ravel()]
        title = man.system.system_gro.comment_line
        mols = rec.molecules() if (rec.events) else [(m.name, [int(r) for r in m.resids], True, []) for m in in_mols]
        obs = _canon_ops(rec.ops)
        code = ERR.get(errname, 99) if errname else 0

        def cb(status, toks, case, obs=obs, code=code):
            merr, mops = _parse_model_ops(toks)
            if merr != code:
                ctx.disagree(case, "extrapolate error", code, merr)
            elif mops != obs:
                k = next((i for i, (a, b) in enumerate(zip(mops, obs)) if a != b), min(len(mops), len(obs)))
                ctx.disagree(case, f"extrapolate ops (first difference at op {k} of {len(obs)}/{len(mops)})",
                             obs[k:k + 2], mops[k:k + 2])
        ctx.model.ask("extrapolate", _model_tokens(title, box9, mode != "badext", corr, mols), cb, case)
        if rec.events or not rec.ops:
            _ask_bytes(ctx, case, out, code, title, box9, mode != "badext", corr,
                       mols if rec.events else [(m[0], m[1], m[2], []) for m in mols])
    finally:
        shutil.rmtree(workdir, ignore_errors=True)


def _oracle_normal(ctx, case, man, in_mols, ends, paths, out, err, rec):
    desc = case["desc"]
    key = "extrapolate"
    if err is not None:
        ctx.oracle_ok()
        ctx.oracle_fail(f"{key}:raises-{type(err).__name__}", case, {"error": repr(err)})
        return
    first_in = open(paths["sys"]).readline()
    try:
        first_out, natoms, lines, box = _read_gro(out)
    except Exception as e:   # noqa: BLE001
        # the run "succeeded" but what it wrote cannot be read back as a coordinate file at all
        ctx.oracle_ok()
        ctx.oracle_fail(f"{key}:written-file-unreadable-{type(e).__name__}", case,
                        {"error": repr(e)[:300], "head": open(out, "rb").read()[:400].decode("latin-1")})
        return
    expect = mgrgen.expected_layout(desc, set(ends))
    fails = []
    # title and box
    if first_out != first_in:
        fails.append(("title", [first_in, first_out]))
    if np.abs(box - np.array(mgrgen.box_matrix(desc["box"]))).max() > 5e-6:
        fails.append(("box", box.tolist()))
    # count and numbering
    total = sum(sum(sizes) for _, _, sizes in expect)
    if natoms != total or len(lines) != total:
        fails.append(("count", [natoms, len(lines), total]))
    nums = [l[3] for l in lines]
    if nums != [(k + 1) for k in range(len(lines))] and total < 99999:
        fails.append(("numbering", nums[:20]))
    # the writeline records agree with what is in the file (3 decimals)
    wl = [o[1] for o in rec.ops if o[0] == "L"]
    if len(wl) == len(lines):
        for a, l in zip(wl, lines):
            if (a[0], a[1], a[2], a[3]) != (l[0], l[1], l[2], l[3]) or max(abs(a[4 + k] - l[4 + k]) for k in range(3)) > COORD_TOL:
                fails.append(("readback", [list(a[:7]), list(l[:7])]))
                break
    else:
        fails.append(("readback-count", [len(wl), len(lines)]))
    # per molecule: order, residue numbers, names, coordinates = exchange_map(mol)
    # the input molecules of the mapped species, in FILE order, as the library yields them
    by_order = [m for m in in_mols if m.name in {desc["species"][i]["name"] for i in ends}]
    if len(by_order) != len(expect):
        fails.append(("system-iteration", [len(by_order), len(expect)]))
    pos = 0
    if not any(f[0] == "count" for f in fails):
        for k, (sp, resids, sizes) in enumerate(expect):
            spd = desc["species"][sp]
            n = sum(sizes)
            block = lines[pos:pos + n]
            pos += n
            want_res, want_names, want_rn = [], [], []
            for r, res in enumerate(spd["aa"]["residues"]):
                for nm in res["atoms"]:
                    want_res.append(resids[r] if r < len(resids) else None)
                    want_names.append(nm)
                    want_rn.append(res["resname"])
            if [l[0] for l in block] != want_res:
                fails.append(("resids", [k, [l[0] for l in block], want_res]))
                break
            if [l[2] for l in block] != want_names or [l[1] for l in block] != want_rn:
                fails.append(("names-order", [k, spd["name"], [l[2] for l in block][:6], want_names[:6]]))
                break
            if k < len(by_order):
                mol = by_order[k]
                if [int(r) for r in mol.resids] != resids or mol.name != spd["name"]:
                    fails.append(("system-order", [k, mol.name, spd["name"]]))
                    break
                bad = _compare_with_map(ctx, man, mol, spd, block, case["scale"])
                if bad:
                    fails.append(("map:" + bad[0], [k, spd["name"]] + bad[1:]))
                    break
    ctx.oracle_ok(8)
    for name, detail in fails:
        ctx.oracle_fail(f"{key}:{name}", case, {"detail": detail})


def _compare_with_map(ctx, man, mol, spd, block, scale):
    """block (re-read lines) vs a FRESH exchange_map(mol) of the same input molecule"""
    emap = man.molecule_correspondence[spd["name"]].exchange_map
    fresh = emap(mol)
    P = np.array([list(l[4:7]) for l in block])
    Q = np.array(fresh.atoms_positions)
    if P.shape != Q.shape:
        return ["shape", list(P.shape), list(Q.shape)]
    nref = sum(len(r["atoms"]) for r in spd["cg"]["residues"])
    if nref >= 3:
        ctx.count("cmp:general")
        d = np.abs(P - Q).max()
        if d > COORD_TOL:
            return ["coords", float(d)]
        return None
    anchor = np.array(mol.atoms_positions[0])
    dp = np.linalg.norm(P - anchor, axis=1)
    dq = np.linalg.norm(Q - anchor, axis=1)
    if np.abs(dp - dq).max() > DIST_TOL:
        return ["anchor-distance", float(np.abs(dp - dq).max())]
    # rigid about the anchor: pairwise distances among the target atoms are determined too
    if len(P) > 1:
        DP = np.linalg.norm(P[:, None, :] - P[None, :, :], axis=2)
        DQ = np.linalg.norm(Q[:, None, :] - Q[None, :, :], axis=2)
        if np.abs(DP - DQ).max() > 2 * DIST_TOL:
            return ["shape-distances", float(np.abs(DP - DQ).max())]
    if nref == 1:
        ctx.count("cmp:one-atom")
        return None
    ctx.count("cmp:two-atom")
    if STRICT_TWO_ATOM:
        axis = np.array(mol.atoms_positions[1]) - anchor
        axis = axis / np.linalg.norm(axis)
        ap, aq = (P - anchor) @ axis, (Q - anchor) @ axis
        if np.abs(ap - aq).max() > DIST_TOL:
            return ["along-bond", float(np.abs(ap - aq).max())]
        rp = np.linalg.norm((P - anchor) - np.outer(ap, axis), axis=1)
        rq = np.linalg.norm((Q - anchor) - np.outer(aq, axis), axis=1)
        if np.abs(rp - rq).max() > 2 * DIST_TOL:
            return ["distance-from-axis", float(np.abs(rp - rq).max())]
    return None


def _eval_shipped(ctx, case):
    import gaddlemaps
    from gaddlemaps import Manager, Alignment
    from gaddlemaps.components import Molecule
    D = gaddlemaps.DATA_FILES_PATH
    workdir = os.path.join(ctx.scratch, f"c05-shipped-{ctx.evaluations}")
    os.makedirs(workdir, exist_ok=True)
    try:
        src = D["system_bmimbf4_cg.gro"]
        sysf = os.path.join(workdir, "system_bmimbf4_cg.gro")
        all_lines = open(src).read().split("\n")
        if case.get("nmol"):
            # truncated copy: the first nmol BF4 and the first nmol BMIM molecules
            atoms = all_lines[2:-2]
            bf4 = [l for l in atoms if l[5:10].strip() == "BF4"][:case["nmol"]]
            bmim = [l for l in atoms if l[5:10].strip() == "BMIM"][:3 * case["nmol"]]
            with open(sysf, "w") as f:
                f.write(all_lines[0] + "\n%5d\n" % (len(bf4) + len(bmim)) + "\n".join(bf4 + bmim) + "\n" + all_lines[-2] + "\n")
        else:
            shutil.copy(src, sysf)
        np.random.seed(case["npseed"])
        with _quiet():
            man = Manager.from_files(sysf, D["BMIM_CG.itp"], D["BF4_CG.itp"])
        man.add_end_molecules(Molecule.from_files(D["BMIM_AA.gro"], D["BMIM_AA.itp"]),
                              Molecule.from_files(D["BF4_AA.gro"], D["BF4_AA.itp"]))
        old = Alignment.STEPS_FACTOR
        Alignment.STEPS_FACTOR = 20
        try:
            with _quiet():
                man.align_molecules()
        finally:
            Alignment.STEPS_FACTOR = old
        man.calculate_exchange_maps(case["scale"])
        out = os.path.join(workdir, "mapped.gro")
        in_mols = list(man.system)
        corr = [(n, a.start is not None, a.end is not None, a.exchange_map is not None)
                for n, a in man.molecule_correspondence.items()]
        rec = Recorder()
        with rec.active():
            man.extrapolate_system(out)
        ctx.case(case, nontrivial=True, sample={"shipped": "BMIM/BF4", "molecules": len(in_mols)})
        ctx.count("shipped")
        ctx.count("molecules-in", len(in_mols))
        # oracle: ground truth from the raw text of the input file (independent of System)
        atoms = open(sysf).read().split("\n")[2:-2]
        seq = []       # (resname, resid) per molecule in file order
        for l in atoms:
            key = (l[5:10].strip(), int(l[:5]))
            if not seq or seq[-1] != key:
                seq.append(key)
        size = {"BF4": 5, "BMIM": 25}
        first_out, natoms, lines, box = _read_gro(out)
        fails = []
        if first_out != all_lines[0] + "\n":
            fails.append(("title", first_out))
        if np.abs(box - np.diag([4.26814] * 3)).max() > 5e-6:
            fails.append(("box", box.tolist()))
        total = sum(size[r] for r, _ in seq)
        if natoms != total or len(lines) != total:
            fails.append(("count", [natoms, len(lines), total]))
        elif [l[3] for l in lines] != list(range(1, total + 1)):
            fails.append(("numbering", None))
        else:
            pos = 0
            for k, (rn, rid) in enumerate(seq):
                block = lines[pos:pos + size[rn]]
                pos += size[rn]
                if any(l[0] != rid or l[1] != rn for l in block):
                    fails.append(("resids-order", [k, rn, rid, block[0][:4]]))
                    break
                mol = in_mols[k]
                fresh = man.molecule_correspondence[rn].exchange_map(mol)
                P = np.array([list(l[4:7]) for l in block])
                Q = np.array(fresh.atoms_positions)
                if [l[2] for l in block] != [a.name for a in fresh]:
                    fails.append(("names", [k, rn]))
                    break
                if rn == "BMIM":
                    if np.abs(P - Q).max() > COORD_TOL:
                        fails.append(("map:coords", [k, float(np.abs(P - Q).max())]))
                        break
                else:
                    anchor = np.array(mol.atoms_positions[0])
                    if np.abs(np.linalg.norm(P - anchor, axis=1) - np.linalg.norm(Q - anchor, axis=1)).max() > DIST_TOL:
                        fails.append(("map:anchor-distance", [k]))
                        break
        ctx.oracle_ok(7)
        for name, detail in fails:
            ctx.oracle_fail(f"extrapolate:shipped:{name}", case, {"detail": detail})
        box9 = [float(x) for x in np.array(man.system.system_gro.box_matrix).ravel()]
        obs = _canon_ops(rec.ops)

        def cb(status, toks, case, obs=obs):
            merr, mops = _parse_model_ops(toks)
            if merr != 0 or mops != obs:
                ctx.disagree(case, "extrapolate ops (shipped)", len(obs), [merr, len(mops)])
        ctx.model.ask("extrapolate", _model_tokens(man.system.system_gro.comment_line, box9, True, corr,
                                                   rec.molecules()), cb, case)
        _ask_bytes(ctx, case, out, 0, man.system.system_gro.comment_line, box9, True, corr, rec.molecules())
    finally:
        shutil.rmtree(workdir, ignore_errors=True)
