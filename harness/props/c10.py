"""C10 — restraint pairs always designate the atoms the user (or the guesser) meant.

Case kinds (all JSON-serialisable, self-contained; molecules are `harness.molgen` specs):
  {"kind": "element",  "name": str}
  {"kind": "resguess", "l1": int, "l2": int, "o1": int, "o2": int}
  {"kind": "protein",  "m1": spec, "m2": spec, "cls": str}
  {"kind": "prep",     "start": spec, "end": spec, "restr": None | [[i, j]…], "deform": None | [int…],
                       "ign": bool, "inq": bool}      # inq: restraint indices inside the property's quantifier
  {"kind": "route",    "species": [{"start": spec, "end": spec | None}…], "order": [int…],
                       "restr" / "deform" / "ign": None | [[name, pyvalue]…], "labels": [str…],
                       "parse": True (default) | "manager" | False, "pre": [[name, None | [[i, j]…]]…] (parse False)}
  {"kind": "gparse",   "species": […], "order": […], "restr" / "deform" / "ign": as in "route", "guess": bool,
                       "labels": [str…]}              # Manager.parse_restrictions(restr, guess_proteins=guess), then
                                                      # Manager.align_molecules(parsed, …, parse_restrictions=False)
  {"kind": "setters",  "mols": [spec…], "init": [arg, arg], "ops": [["S" | "E", arg]…], "align": {...}}
                                                      # arg: None | int (index into mols) | {"py": …} (a non-Molecule)
  {"kind": "addend",   "species": […], "order": […], "mols": [spec…], "adds": [arg…], "bulk": bool}
                                                      # Manager.add_end_molecule one by one / add_end_molecules(*all)

What reaches the optimiser is observed by replacing `gaddlemaps._alignment.minimize_molecules` (resolved at
call time) with a recorder that returns `mol2_positions` unchanged; the `Alignment` being run is known by
wrapping `Alignment.align_molecules`.  Atoms are identified through their (pairwise distinct) positions.
"""
from __future__ import annotations

import contextlib
import io
import os
import string

import numpy as np

from ..common import hexs, unhexs
from .. import molgen as G

RULE = ("element: 5-char names over letters/digits/symbols; resguess: ALL (L1, L2) in [1,40]^2 with random offsets "
        "(plus the splitter on range(L), n = min); protein: random multi-residue molecule pairs (2-8 residues, equal / "
        "substring-compatible / incompatible names, mismatching counts); prep: Alignment.align_molecules on loaded "
        "molecule pairs of 1-40 atoms (either larger or equal), connected bond graphs (rarely disconnected / bond-free), "
        "random hydrogen placement (H, H1, 1H, HA, He, CH3, h1, names without letters), restraint lists of 0-10 pairs "
        "with duplicates / None / [], both ignore_hydrogens values, plus an out-of-quantifier stream (negative and "
        "out-of-range indices: model correspondence only); route: Manager.align_molecules on generated systems of 2-3 "
        "species (1-3 instances each, species possibly without end molecule, possibly multi-residue) with per-species "
        "option dictionaries (different species always get different restraints / deformation types / flags, dictionary "
        "orders independent of the system order), unknown names and malformed values injected one kind at a time; the "
        "same with the restraints parsed first by Manager.parse_restrictions and passed with parse_restrictions=False, "
        "and with hand-made pre-parsed dictionaries (reversed / shuffled / rotated / subset / empty) passed with "
        "parse_restrictions=False; besides the optimiser input the arguments of every Alignment.align_molecules call "
        "are compared with the options stored under that species' name; gparse: Manager.parse_restrictions(restrictions, "
        "guess_proteins=True/False) on generated systems of 2-3 species of 1-7 residues (species of >= 4 residues with end "
        "molecules of equal / unequal residue counts and equal / substring-compatible / incompatible residue names), "
        "restrictions None or a dictionary (well-formed values, values under >3-residue species that the flag overrides "
        "incl. malformed ones, malformed values under <=3-residue species, unknown keys), the result compared with the "
        "flag-free call entry by entry and passed to Manager.align_molecules(parse_restrictions=False); setters: "
        "Alignment(start, end) followed by a history of 0-8 start/end assignments (None, non-Molecule values, molecules "
        "equal / unequal by Molecule.__eq__: other coordinates, renamed atom, other residue number, other name, other "
        "length) each in its own try, then Alignment.align_molecules on the resulting object (unset start/end included); "
        "addend: Manager.add_end_molecule sequences (known / unknown name, non-Molecule, second molecule equal / unequal). "
        "Non-trivial = optimiser "
        "reached with a non-empty restraint list, a guesser result with > 1 group, or a route case with at least one "
        "option dictionary; distinct by canonical hash of the case.")

ERR = {"IOError": "OSError", "OSError": "OSError", "ValueError": "ValueError", "KeyError": "KeyError",
       "TypeError": "TypeError"}


def errname(e):
    n = type(e).__name__
    return ERR.get(n, n)


# --------------------------------------------------------------------------- independent helpers (oracle side)

def first_alpha_run(name):
    run = ""
    for c in name:
        if c in string.ascii_letters:
            run += c
        elif run:
            break
    return run


def is_hydrogen_name(name):
    return first_alpha_run(name) == "H"


# --------------------------------------------------------------------------- python values inside cases

def pyval(d):
    """JSON description -> the Python value handed to the library"""
    t = d["py"]
    if t == "none":
        return None
    if t in ("int", "bool", "float", "str"):
        return {"int": int, "bool": bool, "float": float, "str": str}[t](d["v"])
    if t == "tuple":
        return tuple(pyval(x) for x in d["v"])
    if t == "list":
        return [pyval(x) for x in d["v"]]
    if t == "set":
        return {pyval(x) for x in d["v"]}
    if t == "dict":
        return {pyval(k): pyval(v) for k, v in d["v"]}
    raise ValueError("bad py value " + repr(d))


def J(v):
    """Python value -> JSON description (inverse of pyval for the values the generators build)"""
    if v is None:
        return {"py": "none"}
    if isinstance(v, bool):
        return {"py": "bool", "v": v}
    if isinstance(v, int):
        return {"py": "int", "v": v}
    if isinstance(v, float):
        return {"py": "float", "v": v}
    if isinstance(v, str):
        return {"py": "str", "v": v}
    if isinstance(v, tuple):
        return {"py": "tuple", "v": [J(x) for x in v]}
    if isinstance(v, list):
        return {"py": "list", "v": [J(x) for x in v]}
    if isinstance(v, set):
        return {"py": "set", "v": [J(x) for x in sorted(v)]}
    if isinstance(v, dict):
        return {"py": "dict", "v": [[J(k), J(x)] for k, x in v.items()]}
    raise ValueError("cannot describe " + repr(v))


# which class of Python values each model constructor stands for ------------------------------------------

def tok_idx(x):
    if isinstance(x, int):          # bool included: True indexes like 1
        return f"I {int(x)}"
    return "S"


def tok_entry(e):
    if not hasattr(e, "__len__") or len(e) != 2:
        return "X"
    return f"P {tok_idx(e[0])} {tok_idx(e[1])}"


def tok_restr(v):
    if not v:
        return "F"
    if not isinstance(v, (list, tuple)):
        return "N"
    return " ".join(["L", str(len(v))] + [tok_entry(e) for e in v])


def tok_defelem(x):
    if isinstance(x, (int, float)) and x == int(x):
        return f"I {int(x)}"
    return "S"


def tok_deform(v):
    if not v:
        return "F"
    if not isinstance(v, (list, tuple)):
        return "O"
    return " ".join(["L", str(len(v))] + [tok_defelem(x) for x in v])


def tok_ign(v):
    if isinstance(v, bool):
        return f"B {int(v)}"
    return "O"


def tok_dict(d, tokval):
    if d is None:
        return "0"
    return " ".join(["1", str(len(d))] + [f"{hexs(k)} {tokval(v)}" for k, v in d.items()])


def tok_mol(mol):
    from gaddlemaps.components import are_connected
    conn = bool(are_connected(mol.atoms))
    hasb = bool(mol.bonds_distance)
    t = [str(int(conn)), str(int(hasb)), str(len(mol.residues))]
    for res in mol.residues:
        t += [hexs(res.resname), str(len(res))] + [hexs(a.name) for a in res]
    return " ".join(t)


def tok_pairs(pairs):
    return " ".join([str(len(pairs))] + [f"{int(a)} {int(b)}" for a, b in pairs])


# --------------------------------------------------------------------------- response parsing

class Toks:
    def __init__(self, toks):
        self.t = list(toks)
        self.i = 0

    def tok(self):
        v = self.t[self.i]
        self.i += 1
        return v

    def int(self):
        return int(self.tok())

    def ints(self):
        return [self.int() for _ in range(self.int())]

    def pairs(self):
        return [(self.int(), self.int()) for _ in range(self.int())]

    def prepout(self):
        k = self.tok()
        if k == "nocall":
            return {"call": False}
        assert k == "call", k
        return {"call": True, "swapped": bool(self.int()), "fixed": self.ints(), "mobile": self.ints(),
                "restr": self.pairs(), "deform": self.ints(), "nsteps": self.int()}


# --------------------------------------------------------------------------- observation of the optimiser

class Recorder:
    """while active: `minimize_molecules` is a recorder (no search runs) and every
    `Alignment.align_molecules` call is logged"""

    def __init__(self):
        self.events = []        # one dict per Alignment.align_molecules call
        self._stack = []

    def __enter__(self):
        import gaddlemaps._alignment as A
        self.A = A
        self._min = A.minimize_molecules
        self._align = A.Alignment.align_molecules
        rec = self

        def fake_minimize(mol1_positions, mol2_positions, mol2_com, sigma_scale, n_steps, restriction,
                          mol2_bonds_info, displacement_module, sim_type):
            ev = rec._stack[-1] if rec._stack else None
            obs = rec.observe(ev, mol1_positions, mol2_positions, n_steps, restriction, sim_type)
            if ev is not None:
                ev["opt"].append(obs)
            return mol2_positions

        def wrapped(self_, *a, **k):
            ev = {"name": None if self_.start is None else self_.start.name, "alignment": self_,
                  "opt": [], "done": False, "args": a, "kwargs": k}
            rec.events.append(ev)
            rec._stack.append(ev)
            try:
                r = rec._align(self_, *a, **k)
                ev["done"] = True
                return r
            finally:
                rec._stack.pop()

        A.minimize_molecules = fake_minimize
        A.Alignment.align_molecules = wrapped
        return self

    def __exit__(self, *exc):
        self.A.minimize_molecules = self._min
        self.A.Alignment.align_molecules = self._align
        return False

    @staticmethod
    def observe(ev, p1, p2, n_steps, restriction, sim_type):
        p1 = np.asarray(p1, dtype=float).reshape(-1, 3)
        p2 = np.asarray(p2, dtype=float).reshape(-1, 3)
        obs = {"p1": p1, "p2": p2, "nsteps": int(n_steps), "deform_raw": sim_type,
               "restr": [(int(a), int(b)) for a, b in restriction], "role": "unknown",
               "fixed": None, "mobile": None}
        try:
            obs["deform"] = [int(x) if x == int(x) else None for x in sim_type]
        except Exception:
            obs["deform"] = None
        if ev is None:
            return obs
        al = ev["alignment"]
        sp = np.asarray(al.start.atoms_positions, dtype=float).reshape(-1, 3)
        ep = np.asarray(al.end.atoms_positions, dtype=float).reshape(-1, 3)
        if p2.shape == ep.shape and np.array_equal(p2, ep):
            obs["role"], fpos, mpos = "end-mobile", sp, ep
        elif p2.shape == sp.shape and np.array_equal(p2, sp):
            obs["role"], fpos, mpos = "start-mobile", ep, sp
        else:
            return obs
        obs["fpos"], obs["mpos"] = fpos, mpos
        index = {}
        for k, row in enumerate(fpos):
            index.setdefault(tuple(row), []).append(k)
        fixed = []
        for row in p1:
            ks = index.get(tuple(row), [])
            fixed.append(ks[0] if len(ks) == 1 else -1)
        obs["fixed"] = fixed
        obs["mobile"] = list(range(len(mpos)))
        return obs


def cleanup(paths):
    for p in paths:
        try:
            os.unlink(p)
        except OSError:
            pass


_counter = [0]


def fresh_tag(prefix):
    _counter[0] += 1
    return f"{prefix}{_counter[0]}"


def load(ctx, spec, files):
    tag = fresh_tag("m")
    fgro, fitp = G.write_molecule(ctx.scratch, tag, spec)
    files += [fgro, fitp]
    from gaddlemaps.components import Molecule
    if spec.get("top_resnr"):
        # a molecule whose residues (the .gro numbering) are partitioned otherwise than the resnr column of its topology
        # (a polymer whose generated .itp numbers the monomers differently): built as Molecule(MoleculeTop, residues),
        # the way a program assembles one.  Its residues are what `mol.residues` says (seed C10-11: residues COUNTED
        # through the topology, PAIRED through mol.residues)
        from gaddlemaps.components import MoleculeTop, SystemGro
        G.write_itp(fitp, dict(spec, atoms=[(tr, rn, an) for (r, rn, an), tr in zip(spec["atoms"], spec["top_resnr"])]))
        return Molecule(MoleculeTop(fitp), list(SystemGro(fgro)))
    return Molecule.from_files(fgro, fitp)


# --------------------------------------------------------------------------- the property's clauses

def check_designation(ctx, case, obs, user_pairs, start, end, ign, prefix, negative=False):
    """Sentence 1 of the property, evaluated on what the optimiser received.
    `user_pairs` are (i, j): i indexes the start molecule, j the end molecule.
    Atoms are identified by position: entry (a, b) of the optimiser's list designates rows
    `mol1_positions[a]`, `mol2_positions[b]` (numpy indexing)."""
    sfx = ":negative-index-accepted" if negative else ""
    ctx.oracle_ok(4)
    if obs["role"] == "unknown":
        ctx.oracle_fail(prefix + ":mobile-positions-are-neither-molecule", case, {"restr": obs["restr"]})
        return
    start_fixed = obs["role"] == "end-mobile"
    nf, nm = (len(start), len(end)) if start_fixed else (len(end), len(start))
    if nf < nm:
        ctx.oracle_fail(prefix + ":fixed-molecule-is-the-smaller", case, {"role": obs["role"]})
    fpos, mpos, p1, p2 = obs["fpos"], obs["mpos"], obs["p1"], obs["p2"]
    if -1 in obs["fixed"]:
        ctx.oracle_fail(prefix + ":optimiser-got-foreign-fixed-position", case, {"fixed": obs["fixed"]})
        return
    # hydrogen filtering touches hydrogens of the fixed molecule and nothing else
    fixed_mol = start if start_fixed else end
    names = [a.name for a in fixed_mol]
    want = [k for k, n in enumerate(names) if not (ign and is_hydrogen_name(n))]
    if obs["fixed"] != want:
        ctx.oracle_fail(prefix + ":filter-set", case, {"kept": obs["fixed"], "expected": want, "names": names})
    present = set(obs["fixed"])
    oriented = [(i, j) if start_fixed else (j, i) for i, j in user_pairs]
    try:
        kept = [(f, m) for f, m in oriented if range(nf)[f] in present]
        range_ok = all(-nm <= m < nm for _, m in kept)
    except IndexError:
        ctx.oracle_fail(prefix + ":oracle-index-outside-molecule", case, {"pairs": oriented})
        return
    got = obs["restr"]
    if len(got) != len(kept) or not range_ok:
        ctx.oracle_fail(prefix + ":restraints-dropped-or-added" + sfx, case,
                        {"reached_optimiser": got, "expected_kept_(fixed,mobile)": kept, "fixed_kept_atoms": obs["fixed"]})
        return
    for (a, b), (f, m) in zip(got, kept):
        try:
            ok1 = np.array_equal(p1[a], fpos[f])
            ok2 = np.array_equal(p2[b], mpos[m])
        except IndexError:
            ok1 = ok2 = False
        if not ok1:
            ctx.oracle_fail(prefix + ":wrong-fixed-atom" + sfx, case,
                            {"reached_optimiser": got, "expected_kept_(fixed,mobile)": kept, "entry": [a, b]})
            return
        if not ok2:
            ctx.oracle_fail(prefix + ":wrong-mobile-atom" + sfx, case,
                            {"reached_optimiser": got, "expected_kept_(fixed,mobile)": kept, "entry": [a, b]})
            return


def compare_prep(ctx, case, what, impl, model):
    """impl / model: {"err": name} | {"call": False} | {"call": True, swapped, fixed, mobile, restr, deform, nsteps}"""
    keys = ["err", "call", "swapped", "fixed", "mobile", "restr", "deform", "nsteps"]
    a = {k: impl.get(k) for k in keys}
    b = {k: model.get(k) for k in keys}
    if a != b:
        ctx.disagree(case, what, a, b)


def impl_prep(ev, err):
    """canonical description of one Alignment.align_molecules call"""
    if err is not None:
        return {"err": err}
    if not ev["opt"]:
        return {"call": False}
    o = ev["opt"][0]
    return {"call": True, "swapped": o["role"] == "start-mobile", "fixed": o["fixed"], "mobile": o["mobile"],
            "restr": [tuple(p) for p in o["restr"]], "deform": o["deform"], "nsteps": o["nsteps"]}


# --------------------------------------------------------------------------- evaluators

def eval_element(ctx, case):
    from gaddlemaps.components import AtomGro
    name = case["name"]
    ctx.case(case, nontrivial=any(c in string.ascii_letters for c in name))
    atom = AtomGro([1, "RES", name, 1, 0.0, 0.0, 0.0])
    try:
        got = ("ok", atom.element)
    except Exception as e:
        got = ("err", errname(e))
    want = first_alpha_run(name)
    ctx.oracle_ok()
    ctx.count("element:" + ("H" if got == ("ok", "H") else got[0]))
    if got != (("ok", want) if want else ("err", "OSError")):
        ctx.oracle_fail("element:not-first-alphabetic-run", case, {"element": got, "expected": want})

    def cb(status, toks, case, got=got):
        m = (status, unhexs(toks[0]) if status == "ok" else toks[0])
        if m != got:
            ctx.disagree(case, "AtomGro.element", got, m)
    ctx.model.ask("c10_element", hexs(name), cb, case)


def _residue(n, resname="RES", resid=1):
    from gaddlemaps.components import AtomGro, Residue
    return Residue([AtomGro([resid, resname, "C%d" % k, k + 1, 0.1 * k, 0.0, 0.0]) for k in range(n)])


def monotone(pairs):
    """order preserving in both directions: i < i' -> j <= j' and j < j' -> i <= i'"""
    for (i, j) in pairs:
        for (i2, j2) in pairs:
            if (i < i2 and j > j2) or (j < j2 and i > i2):
                return False
    return True


def eval_resguess(ctx, case):
    from gaddlemaps._alignment import guess_residue_restrains
    try:
        # a PRIVATE helper: compared with the model only while it exists under this name (an internal redesign that
        # computes the chunk bounds another way — benign change C10-2 — takes this comparison away, nothing else)
        from gaddlemaps._alignment import _split_list
    except ImportError:
        _split_list = None
        ctx.count("private-helper-not-compared:_split_list")
    l1, l2, o1, o2 = case["l1"], case["l2"], case["o1"], case["o2"]
    n = min(l1, l2)
    ctx.case(case, nontrivial=n > 1)
    ctx.count("resguess")
    pairs = [(int(a), int(b)) for a, b in guess_residue_restrains(_residue(l1), _residue(l2), o1, o2)]
    big = max(l1, l2)
    groups = [list(g) for g in _split_list(list(range(big)), n)] if _split_list is not None else None
    fails = []
    ctx.oracle_ok(6)
    if groups is not None:
        if len(groups) != n or any(not g for g in groups):
            fails.append("split:empty-or-missing-group")
        if [x for g in groups for x in g] != list(range(big)):
            fails.append("split:not-a-contiguous-partition")
    if {a for a, _ in pairs} != set(range(o1, o1 + l1)) or {b for _, b in pairs} != set(range(o2, o2 + l2)):
        fails.append("resguess:atoms-without-partner-or-out-of-range")
    if pairs != sorted(set(pairs)):
        fails.append("resguess:not-lexicographically-ordered")
    if not monotone(pairs):
        fails.append("resguess:atom-order-not-preserved")
    for f in fails:
        ctx.oracle_fail(f, case, {"pairs": pairs, "groups": groups})

    def cb(status, toks, case, pairs=pairs):
        m = Toks(toks).pairs()
        if status != "ok" or m != pairs:
            ctx.disagree(case, "guess_residue_restrains", pairs, m)
    ctx.model.ask("c10_resguess", f"{l1} {l2} {o1} {o2}", cb, case)

    def cb2(status, toks, case, groups=groups):
        t = Toks(toks)
        m = [t.ints() for _ in range(t.int())]
        if status != "ok" or m != groups:
            ctx.disagree(case, "_split_list", groups, m)
    if groups is not None:
        ctx.model.ask("c10_split", f"{big} {n}", cb2, case)


def res_index(mol):
    return [k for k, r in enumerate(mol.residues) for _ in r]


def protein_pair_fails(m1, m2, pairs, prefix="protein"):
    """clause 2 of the property on a guessed list (same residue count): names of the failed sub-clauses"""
    r1, r2 = res_index(m1), res_index(m2)
    fails = []
    if any(not (0 <= a < len(m1) and 0 <= b < len(m2)) for a, b in pairs):
        fails.append(prefix + ":index-out-of-range")
    else:
        if any(r1[a] != r2[b] for a, b in pairs):
            fails.append(prefix + ":pair-across-sequence-positions")
        if {a for a, _ in pairs} != set(range(len(m1))) or {b for _, b in pairs} != set(range(len(m2))):
            fails.append(prefix + ":atom-without-partner")
        if pairs != sorted(set(pairs)) or not monotone(pairs):
            fails.append(prefix + ":atom-order-not-preserved")
    return fails


def eval_protein(ctx, case):
    from gaddlemaps._alignment import guess_protein_restrains
    files = []
    try:
        m1 = load(ctx, case["m1"], files)
        m2 = load(ctx, case["m2"], files)
        try:
            got = ("ok", [(int(a), int(b)) for a, b in guess_protein_restrains(m1, m2)])
        except Exception as e:
            got = ("err", errname(e))
        n1, n2 = len(m1.residues), len(m2.residues)
        ctx.case(case, nontrivial=got[0] == "ok" and n1 > 1)
        ctx.count("protein:" + case.get("cls", "?") + ":" + got[0])
        ctx.oracle_ok(6)
        if n1 != n2:
            if got != ("err", "OSError"):
                ctx.oracle_fail("protein:residue-count-mismatch-not-refused", case, {"result": got, "counts": [n1, n2]})
        elif got[0] == "ok":
            pairs = got[1]
            r1, r2 = res_index(m1), res_index(m2)
            fails = []
            if any(not (0 <= a < len(m1) and 0 <= b < len(m2)) for a, b in pairs):
                fails.append("protein:index-out-of-range")
            else:
                if any(r1[a] != r2[b] for a, b in pairs):
                    fails.append("protein:pair-across-sequence-positions")
                if {a for a, _ in pairs} != set(range(len(m1))) or {b for _, b in pairs} != set(range(len(m2))):
                    fails.append("protein:atom-without-partner")
                if pairs != sorted(set(pairs)) or not monotone(pairs):
                    fails.append("protein:atom-order-not-preserved")
            for f in fails:
                ctx.oracle_fail(f, case, {"pairs": pairs})

        def cb(status, toks, case, got=got):
            m = (status, Toks(toks).pairs() if status == "ok" else toks[0])
            if m != got:
                ctx.disagree(case, "guess_protein_restrains", got, m)
        ctx.model.ask("c10_protein", f"{tok_mol(m1)} {tok_mol(m2)}", cb, case)
    finally:
        cleanup(files)


def default_user_pairs(start, end):
    """what `restrictions=None` means (documented): guessed for a multi-residue start molecule, else []"""
    from gaddlemaps._alignment import guess_protein_restrains
    if len(start.resnames) > 1:
        return [(int(a), int(b)) for a, b in guess_protein_restrains(start, end)]
    return []


def eval_prep(ctx, case):
    from gaddlemaps import Alignment
    files = []
    try:
        start = load(ctx, case["start"], files)
        end = load(ctx, case["end"], files)
        restr = None if case["restr"] is None else [tuple(p) for p in case["restr"]]
        deform = None if case["deform"] is None else tuple(case["deform"])
        ign = bool(case["ign"])
        al = Alignment(start, end)
        if case.get("reuse", (len(case["start"]["atoms"]) + len(str(case.get("restr")))) % 3 == 0):
            # ONE Alignment object with a history: first a hydrogen-filtered alignment with ANOTHER molecule on the
            # fixed side (same size, atom names rotated by one: its hydrogens sit at other indexes), then the fixed
            # side is replaced by the legal route `x = None; x = molecule`, then the call under test.  What reaches
            # the optimiser must be derived from the molecules held NOW (seed C10-7: list of non-hydrogen atoms
            # cached on the Alignment the first time and never invalidated).
            try:
                fixed_is_start = len(start) >= len(end)
                spec = dict(case["start"] if fixed_is_start else case["end"])
                if len(spec["atoms"]) >= 2:
                    an = [a[2] for a in spec["atoms"]]
                    an = an[1:] + an[:1]
                    spec["atoms"] = [[a[0], a[1], n2] for a, n2 in zip(spec["atoms"], an)]
                    decoy = load(ctx, spec, files)
                    if fixed_is_start:
                        al.start = None
                        al.start = decoy
                    else:
                        al.end = None
                        al.end = decoy
                    with Recorder(), contextlib.redirect_stdout(io.StringIO()):
                        try:
                            al.align_molecules([], deform, True)
                        except Exception:   # noqa: BLE001  (the decoy run is not the case under test)
                            pass
                    if fixed_is_start:
                        al.start = None
                        al.start = start
                    else:
                        al.end = None
                        al.end = end
                    ctx.count("prep:alignment-object-with-history")
            except Exception:   # noqa: BLE001
                al = Alignment(start, end)
        mtoks = f"{tok_mol(al.start)} {tok_mol(al.end)}"
        try:
            user = restr if restr is not None else default_user_pairs(al.start, al.end)
        except Exception:
            user = None      # the guess is refused; the alignment must then fail too (checked by the model)
        err = None
        with Recorder() as rec, contextlib.redirect_stdout(io.StringIO()):
            try:
                al.align_molecules(None if restr is None else list(restr), deform, ign)
            except Exception as e:
                err = errname(e)
        ev = rec.events[0]
        impl = impl_prep(ev, err)
        called = impl.get("call") is True
        ctx.case(case, nontrivial=called and bool(impl["restr"]))
        ctx.count("prep:" + ("err-" + err if err else ("call" if called else "nocall")))
        if called:
            ctx.count("prep:swapped" if impl["swapped"] else ("prep:equal-size" if len(start) == len(end) else "prep:not-swapped"))
            ctx.count("prep:ignore-h" if ign else "prep:keep-h")
            if ign and len(impl["fixed"] or []) < max(len(start), len(end)):
                ctx.count("prep:some-hydrogen-filtered")
            if restr is None and user:
                ctx.count("prep:guessed-restraints")
            if case.get("inq", True) and user is not None:
                check_designation(ctx, case, ev["opt"][0], user, al.start, al.end, ign, "prep")
                if deform is not None and impl["deform"] != list(deform):
                    ctx.oracle_fail("prep:deformation-types-changed", case, {"got": impl["deform"]})
                if len(ev["opt"]) != 1:
                    ctx.oracle_fail("prep:optimiser-called-more-than-once", case, {"n": len(ev["opt"])})
            elif not case.get("inq", True):
                ctx.count("prep:out-of-quantifier-indices")

        def cb(status, toks, case, impl=impl):
            model = {"err": toks[0]} if status == "err" else Toks(toks).prepout()
            compare_prep(ctx, case, "Alignment.align_molecules -> optimiser input", impl, model)
        r_t = "0" if restr is None else "1 " + tok_pairs(restr)
        d_t = "0" if deform is None else "1 " + " ".join([str(len(deform))] + [str(int(x)) for x in deform])
        ctx.model.ask("c10_prep", f"{mtoks} {r_t} {d_t} {int(ign)} 1", cb, case)
    finally:
        cleanup(files)


MALFORMED_MUST_REJECT = {"unknown-name-restr", "unknown-name-deform", "unknown-name-ign", "non-pair", "index-out-of-range",
                         "index-non-int", "restr-not-iterable", "non-bool-flag", "deform-value-outside-012",
                         "deform-element-not-a-number-code", "deform-not-a-sequence", "deform-wrong-length"}


def eval_route(ctx, case):
    from gaddlemaps import Manager
    files = []
    try:
        specs = [s["start"] for s in case["species"]]
        fsys = os.path.join(ctx.scratch, fresh_tag("sys") + ".gro")
        G.write_system(fsys, specs, case["order"])
        files.append(fsys)
        ftops = []
        for sp in specs:
            f = os.path.join(ctx.scratch, fresh_tag("top") + ".itp")
            G.write_itp(f, sp)
            ftops.append(f)
        files += ftops
        man = Manager.from_files(fsys, *ftops)
        for s in case["species"]:
            if s["end"] is not None:
                man.add_end_molecule(load(ctx, s["end"], files))
        opts = {}
        for key in ("restr", "deform", "ign"):
            opts[key] = None if case[key] is None else {name: pyval(v) for name, v in case[key]}
        labels = list(case.get("labels", []))
        # parse: True (default call) | "manager" (Manager.parse_restrictions first, then parse_restrictions=False)
        #        | False (hand-made dictionary in the parsed format, "pre", passed with parse_restrictions=False)
        parse = case.get("parse", True)
        pre = None
        if parse is False:
            pre = {name: (None if v is None else [tuple(p) for p in v]) for name, v in case["pre"]}
        # model input: the species as the implementation holds them
        sp_toks = [str(len(man.molecule_correspondence))]
        for name, ali in man.molecule_correspondence.items():
            sp_toks.append(hexs(name))
            sp_toks.append(tok_mol(ali.start))
            sp_toks.append("0" if ali.end is None else "1 " + tok_mol(ali.end))
        complete = {n: a for n, a in man.molecule_correspondence.items() if a.end is not None}
        defaults = {}
        for n, a in complete.items():
            try:
                defaults[n] = default_user_pairs(a.start, a.end)
            except Exception:
                defaults[n] = None
        err = None
        with Recorder() as rec, contextlib.redirect_stdout(io.StringIO()):
            try:
                if parse is True:
                    man.align_molecules(restrictions=opts["restr"], deformation_types=opts["deform"],
                                        ignore_hydrogens=opts["ign"])
                elif parse == "manager":
                    parsed = man.parse_restrictions(opts["restr"])
                    man.align_molecules(restrictions=parsed, deformation_types=opts["deform"],
                                        ignore_hydrogens=opts["ign"], parse_restrictions=False)
                else:
                    man.align_molecules(restrictions={n: (None if v is None else list(v)) for n, v in pre.items()},
                                        deformation_types=opts["deform"], ignore_hydrogens=opts["ign"],
                                        parse_restrictions=False)
            except Exception as e:
                err = errname(e)
        n_started = len(rec.events)
        ctx.case(case, nontrivial=any(case.get(k) is not None for k in ("restr", "deform", "ign", "pre")))
        ctx.count("route:" + ("err-" + err if err else "ok"))
        ctx.count("route:parse-" + str(parse))
        ctx.count(f"route:species-{len(case['species'])}:complete-{len(complete)}")
        for l in labels:
            ctx.count("route:label:" + l)
        if not labels:
            ctx.count("route:wellformed")

        # ---- sentence 3, second half: unknown names / malformed values rejected before any alignment runs
        must = [l for l in labels if l in MALFORMED_MUST_REJECT]
        ctx.oracle_ok()
        if must and (err is None or n_started > 0):
            for l in must:
                ctx.oracle_fail(f"routing:{l}:not-rejected-before-alignment", case,
                                {"error": err, "alignment_calls_started": [e["name"] for e in rec.events],
                                 "reached_optimiser": [[e["name"], o["deform_raw"], o["restr"]] for e in rec.events for o in e["opt"]]})
        negative = "negative-index" in labels
        if negative and err == "ValueError" and n_started > 0 and not must:
            ctx.oracle_fail("routing:negative-index:rejected-after-alignment-started", case, {"error": err})

        # ---- sentence 3, first half: options reach the alignment of exactly that species
        if not must and "preparsed-unknown-name" not in labels:
            seen = [e["name"] for e in rec.events]
            expected_seq = list(complete) if pre is None else list(pre)
            ctx.oracle_ok()
            if err is None and seen != expected_seq:
                ctx.oracle_fail("routing:species-aligned-not-once-each", case, {"aligned": seen, "expected": expected_seq})
            for ev in rec.events:
                name = ev["name"]
                if name not in complete:
                    continue
                ali = complete[name]
                given_d = (opts["deform"] or {}).get(name)
                given_h = (opts["ign"] or {}).get(name, True)
                if pre is None:
                    given_r = (opts["restr"] or {}).get(name)
                    want_r = [tuple(p) for p in given_r] if given_r else None
                else:
                    given_r = pre.get(name)
                    want_r = given_r
                # (a) the arguments of the Alignment.align_molecules call of THIS species
                ctx.oracle_ok()
                if not ("negative-index" in labels):
                    a = list(ev["args"]) + [None] * 3
                    kw = ev["kwargs"]
                    got_r = kw.get("restrictions", a[0])
                    got_d = kw.get("deformation_types", a[1])
                    got_h = kw.get("ignore_hydrogens", a[2] if len(ev["args"]) > 2 else True)
                    try:
                        got_r_n = None if got_r is None else [tuple(int(x) for x in p) for p in got_r]
                    except Exception:
                        got_r_n = "unreadable"
                    if got_r_n != want_r:
                        ctx.oracle_fail("routing:align-call-args:restraints-of-another-species-or-changed", case,
                                        {"species": name, "given": want_r, "got": got_r_n})
                    want_d = [int(x) for x in given_d] if given_d else None
                    try:
                        got_d_n = None if got_d is None else [int(x) for x in got_d]
                    except Exception:
                        got_d_n = "unreadable"
                    if got_d_n != want_d:
                        ctx.oracle_fail("routing:align-call-args:deformation-types-of-another-species-or-changed", case,
                                        {"species": name, "given": want_d, "got": got_d_n})
                    if got_h is not bool(given_h):
                        ctx.oracle_fail("routing:align-call-args:ignore-hydrogens-of-another-species-or-changed", case,
                                        {"species": name, "given": bool(given_h), "got": got_h})
                # (b) what the optimiser of this species received
                if not ev["done"] or not ev["opt"]:
                    continue
                o = ev["opt"][0]
                user = want_r if want_r is not None else defaults[name]
                if user is None:
                    continue
                neg_here = negative and bool(given_r) and any(x < 0 for p in given_r for x in p)
                check_designation(ctx, case, o, user, ali.start, ali.end, bool(given_h), "routing", negative=neg_here)
                ctx.oracle_ok()
                if given_d:
                    if o["deform"] != [int(x) for x in given_d]:
                        ctx.oracle_fail("routing:deformation-types-of-another-species-or-changed", case,
                                        {"species": name, "given": given_d, "got": o["deform_raw"]})
                else:
                    dflt = [0] if len(ali.start) == 1 or len(ali.end) == 1 else [0, 1, 2]
                    if o["deform"] != dflt:
                        ctx.oracle_fail("routing:default-deformation-types-changed", case,
                                        {"species": name, "got": o["deform_raw"]})

        # ---- model
        impl_calls = []
        for ev in rec.events:
            if ev["done"]:
                impl_calls.append((ev["name"], impl_prep(ev, None)))
        impl = {"calls": impl_calls, "err": err}

        def cb(status, toks, case, impl=impl):
            t = Toks(toks)
            calls = []
            for _ in range(t.int()):
                nm = unhexs(t.tok())
                calls.append((nm, t.prepout()))
            e = t.tok()
            merr = t.tok() if e == "err" else None
            keys = ["call", "swapped", "fixed", "mobile", "restr", "deform", "nsteps"]
            a = {"calls": [(n, {k: c.get(k) for k in keys}) for n, c in impl["calls"]], "err": impl["err"]}
            b = {"calls": [(n, {k: c.get(k) for k in keys}) for n, c in calls], "err": merr}
            if a != b:
                ctx.disagree(case, "Manager.align_molecules routing", a, b)
        if pre is None:
            ctx.model.ask("c10_route", " ".join(sp_toks + [tok_dict(opts["restr"], tok_restr),
                                                          tok_dict(opts["deform"], tok_deform),
                                                          tok_dict(opts["ign"], tok_ign)]), cb, case)
        else:
            pre_t = " ".join([str(len(pre))] + [f"{hexs(n)} " + ("0" if v is None else "1 " + tok_pairs(v))
                                                for n, v in pre.items()])
            ctx.model.ask("c10_route_pre", " ".join(sp_toks + [pre_t, tok_dict(opts["deform"], tok_deform),
                                                              tok_dict(opts["ign"], tok_ign)]), cb, case)
    finally:
        cleanup(files)


# --------------------------------------------------------------------------- guess_proteins / setters / add_end_molecule

def build_manager(ctx, case, files):
    """Manager.from_files on the generated system + add_end_molecule for every species with an end spec"""
    from gaddlemaps import Manager
    specs = [s["start"] for s in case["species"]]
    fsys = os.path.join(ctx.scratch, fresh_tag("sys") + ".gro")
    G.write_system(fsys, specs, case["order"])
    files.append(fsys)
    ftops = []
    for sp in specs:
        f = os.path.join(ctx.scratch, fresh_tag("top") + ".itp")
        G.write_itp(f, sp)
        ftops.append(f)
    files += ftops
    man = Manager.from_files(fsys, *ftops)
    late = len(case["order"]) % 3 == 0
    if late:
        # history: the manager is LOOKED AT before the end molecules are attached (complete_correspondence read, a
        # parse_restrictions call), and they are attached the way the Manager docstring documents, by assignment to
        # `.end` (what the command line does): what exists is decided when it is asked for (seed C10-13: the complete
        # species memoised at the first look-up, invalidated only by add_end_molecule)
        ctx.count("manager:looked-at-before-end-molecules-attached-by-assignment")
        try:
            dict(man.complete_correspondence)
            man.parse_restrictions(None)
        except Exception:   # noqa: BLE001
            pass
    for s in case["species"]:
        if s.get("end") is not None:
            mol = load(ctx, s["end"], files)
            if late:
                man.molecule_correspondence[s["start"]["name"]].end = mol
            else:
                man.add_end_molecule(mol)
    return man


def species_tokens(man):
    t = [str(len(man.molecule_correspondence))]
    for name, ali in man.molecule_correspondence.items():
        t.append(hexs(name))
        t.append(tok_mol(ali.start))
        t.append("0" if ali.end is None else "1 " + tok_mol(ali.end))
    return t


def norm_parsed(d):
    """{name: None | [(i, j)…]} in dict order, as a list"""
    return [(n, None if v is None else [tuple(int(x) for x in p) for p in v]) for n, v in d.items()]


def eval_gparse(ctx, case):
    files = []
    try:
        man = build_manager(ctx, case, files)
        guess = bool(case["guess"])
        labels = list(case.get("labels", []))
        opts = {}
        for key in ("restr", "deform", "ign"):
            opts[key] = None if case[key] is None else {name: pyval(v) for name, v in case[key]}
        sp_toks = species_tokens(man)
        complete = {n: a for n, a in man.molecule_correspondence.items() if a.end is not None}
        # (residues counted on the objects' residue lists, not through a property of the library under test)
        nres = {n: (len(a.start.residues), len(a.end.residues)) for n, a in complete.items()}
        big = {n: guess and nres[n][0] > 3 for n in complete}

        # ---- the call under test
        # the restraints of a species handed over as a ONE-SHOT iterable (zip(start_ids, end_ids), a generator): any
        # iterable of pairs is a list of pairs to the validator, which goes through it once (seed C10-14: a format pass
        # followed by a second pass over the same, by then exhausted, object)
        call_restr = opts["restr"]
        if call_restr is not None:
            call_restr = {}
            for n_, v_ in opts["restr"].items():
                oneshot = (isinstance(v_, list) and len(v_) % 3 == 1 and
                           all(isinstance(q, (tuple, list)) and len(q) == 2 for q in v_))
                if oneshot:
                    ctx.count("gparse:restraints-as-one-shot-iterator")
                call_restr[n_] = iter(list(v_)) if oneshot else v_
        try:
            got = ("ok", norm_parsed(man.parse_restrictions(call_restr, guess_proteins=guess)))
        except Exception as e:
            got = ("err", errname(e))
        # the flag-free call on the same input (reference for "species with <= 3 residues are routed as without the flag")
        try:
            base = ("ok", norm_parsed(man.parse_restrictions(opts["restr"])))
        except Exception as e:
            base = ("err", errname(e))
        ctx.case(case, nontrivial=guess and any(big.values()))
        ctx.count("gparse:" + ("guess" if guess else "noguess") + ":" + ("dict" if opts["restr"] is not None else "none")
                  + ":" + (got[0] if got[0] == "ok" else "err-" + got[1]))
        ctx.count(f"gparse:big-species-{sum(big.values())}")
        for l in labels:
            ctx.count("gparse:label:" + l)
        mismatch = [n for n in complete if big[n] and nres[n][0] != nres[n][1]]
        if mismatch:
            ctx.count("gparse:big-residue-count-mismatch")

        # ---- oracle: the property's clauses on the returned dictionary
        ctx.oracle_ok(3)
        if mismatch and got[0] == "ok":
            ctx.oracle_fail("gparse:residue-count-mismatch-not-refused", case, {"species": mismatch, "counts": nres, "result": got})
        must = [l for l in labels if l in ("unknown-name-restr", "malformed-under-small")]
        if must and got[0] == "ok":
            for l in must:
                ctx.oracle_fail(f"gparse:{l}:not-rejected", case, {"result": got})
        if got[0] == "ok":
            res = dict(got[1])
            if list(res) != list(complete):
                ctx.oracle_fail("gparse:keys-are-not-the-complete-species-in-order", case, {"keys": list(res), "expected": list(complete)})
            for n, a in complete.items():
                if n not in res:
                    continue
                if big[n]:
                    ctx.count("gparse:entry-guessed")
                    if opts["restr"] is not None and n in opts["restr"]:
                        ctx.count("gparse:entry-guessed-overrides-user-value")
                    pairs = res[n]
                    if pairs is None:
                        ctx.oracle_fail("gparse:big-species-not-guessed", case, {"species": n})
                        continue
                    for f in protein_pair_fails(a.start, a.end, pairs, "gparse"):
                        ctx.oracle_fail(f, case, {"species": n, "pairs": pairs})
                else:
                    ctx.count("gparse:entry-normal")
                    given = (opts["restr"] or {}).get(n)
                    try:
                        want = [tuple(int(x) for x in p) for p in given] if given else None
                    except Exception:
                        want = "unreadable"
                    if res[n] != want:
                        ctx.oracle_fail("gparse:entry-of-another-species-or-changed", case,
                                        {"species": n, "given": want, "got": res[n]})
                    if base[0] == "ok" and dict(base[1]).get(n) != res[n]:
                        ctx.oracle_fail("gparse:small-species-routed-differently-with-the-flag", case,
                                        {"species": n, "with": res[n], "without": dict(base[1]).get(n)})
        if not any(big.values()) and got != base:
            # no species the flag applies to: the flag must change nothing (same result, same error class)
            ctx.oracle_fail("gparse:flag-changes-result-without-big-species", case, {"with": got, "without": base})

        def cb(status, toks, case, got=got):
            if status == "err":
                m = ("err", toks[0])
            else:
                t = Toks(toks)
                m = []
                for _ in range(t.int()):
                    nm = unhexs(t.tok())
                    m.append((nm, t.pairs() if t.int() else None))
                m = ("ok", m)
            if m != got:
                ctx.disagree(case, "Manager.parse_restrictions(guess_proteins)", got, m)
        ctx.model.ask("c10_parse_guess", " ".join(sp_toks + [tok_dict(opts["restr"], tok_restr), str(int(guess))]), cb, case)

        # ---- the composed call: the parsed dictionary handed to align_molecules(parse_restrictions=False)
        err = None
        rec = None
        if got[0] == "ok":
            parsed = {n: (None if v is None else list(v)) for n, v in got[1]}
            defaults = {}
            for n, a in complete.items():
                try:
                    defaults[n] = default_user_pairs(a.start, a.end)
                except Exception:
                    defaults[n] = None
            with Recorder() as rec, contextlib.redirect_stdout(io.StringIO()):
                try:
                    man.align_molecules(restrictions=parsed, deformation_types=opts["deform"],
                                        ignore_hydrogens=opts["ign"], parse_restrictions=False)
                except Exception as e:
                    err = errname(e)
            ctx.count("gparse:align:" + ("err-" + err if err else "ok"))
            seen = [e["name"] for e in rec.events]
            ctx.oracle_ok()
            if err is None and seen != list(complete):
                ctx.oracle_fail("gparse:species-aligned-not-once-each", case, {"aligned": seen, "expected": list(complete)})
            for ev in rec.events:
                name = ev["name"]
                if name not in complete or not ev["done"] or not ev["opt"]:
                    continue
                ali = complete[name]
                user = parsed[name] if parsed[name] is not None else defaults[name]
                if user is None:
                    continue
                given_h = (opts["ign"] or {}).get(name, True)
                if big[name]:
                    ctx.count("gparse:guessed-list-reaches-optimiser")
                check_designation(ctx, case, ev["opt"][0], [tuple(p) for p in user], ali.start, ali.end, bool(given_h), "gparse")
            impl_calls = [(ev["name"], impl_prep(ev, None)) for ev in rec.events if ev["done"]]
            impl = {"calls": impl_calls, "err": err}
        else:
            impl = {"calls": [], "err": got[1]}

        def cb2(status, toks, case, impl=impl):
            t = Toks(toks)
            calls = []
            for _ in range(t.int()):
                nm = unhexs(t.tok())
                calls.append((nm, t.prepout()))
            e = t.tok()
            merr = t.tok() if e == "err" else None
            keys = ["call", "swapped", "fixed", "mobile", "restr", "deform", "nsteps"]
            a = {"calls": [(n, {k: c.get(k) for k in keys}) for n, c in impl["calls"]], "err": impl["err"]}
            b = {"calls": [(n, {k: c.get(k) for k in keys}) for n, c in calls], "err": merr}
            if a != b:
                ctx.disagree(case, "parse_restrictions(guess_proteins) + align_molecules(parse_restrictions=False)", a, b)
        # (deformation / flag dictionaries are always well formed in this stream; when the parse raised, the model's
        # composed call must end with the same error and no alignment)
        ctx.model.ask("c10_route_guess", " ".join(sp_toks + [tok_dict(opts["restr"], tok_restr),
                                                            tok_dict(opts["deform"], tok_deform),
                                                            tok_dict(opts["ign"], tok_ign), str(int(guess))]), cb2, case)
    finally:
        cleanup(files)


def tok_molid(label, mol):
    t = [str(label), hexs(mol.name), str(len(mol))]
    for a in mol:
        t += [hexs(a.resname), hexs(a.name), str(int(a.index)), str(int(a.top_resid))]
    return " ".join(t)


def same_positions(m1, m2):
    p1 = np.asarray(m1.atoms_positions, dtype=float)
    p2 = np.asarray(m2.atoms_positions, dtype=float)
    return p1.shape == p2.shape and np.array_equal(p1, p2)


def eval_setters(ctx, case):
    from gaddlemaps import Alignment
    files = []
    try:
        mols = [load(ctx, sp, files) for sp in case["mols"]]

        def value(arg):
            if arg is None:
                return None
            if isinstance(arg, int):
                return mols[arg]
            return pyval(arg)

        def tok_arg(arg):
            if arg is None:
                return "N"
            if isinstance(arg, int):
                return "M " + tok_molid(arg, mols[arg])
            return "X"

        def label_of(stored):
            if stored is None:
                return "-"
            hits = [k for k, m in enumerate(mols) if m.name == stored.name and same_positions(m, stored)]
            return str(hits[0]) if len(hits) == 1 else "?"

        def state(al):
            return [label_of(al.start), label_of(al.end)]

        init = case["init"]
        al = None
        try:
            al = Alignment(value(init[0]), value(init[1]))
            impl = {"ctor": "ok", "state0": state(al)}
        except Exception as e:
            impl = {"ctor": errname(e)}
        outcomes = []
        if al is not None:
            for which, arg in case["ops"]:
                try:
                    if which == "S":
                        al.start = value(arg)
                    else:
                        al.end = value(arg)
                    outcomes.append("noerr")
                except Exception as e:
                    outcomes.append(errname(e))
                    ctx.count("setters:" + ("start" if which == "S" else "end") + ":" + errname(e))
            impl["state"] = state(al)
            impl["outcomes"] = outcomes
            ctx.count("setters:accepted", outcomes.count("noerr"))
        ctx.case(case, nontrivial=any(o != "noerr" for o in outcomes))
        ctx.count("setters:ctor-" + impl["ctor"])

        def cb(status, toks, case, impl=impl):
            if status == "err":
                m = {"ctor": toks[0]}
            else:
                t = Toks(toks)
                m = {"ctor": "ok", "state0": [t.tok(), t.tok()], "state": [t.tok(), t.tok()]}
                m["outcomes"] = [t.tok() for _ in range(t.int())]
            if m != impl:
                ctx.disagree(case, "Alignment.start / Alignment.end setters", impl, m)
        ops_t = [str(len(case["ops"]))] + [f"{w} {tok_arg(a)}" for w, a in case["ops"]]
        ctx.model.ask("c10_setops", " ".join([tok_arg(init[0]), tok_arg(init[1])] + ops_t), cb, case)

        # ---- Alignment.align_molecules on the object the history left behind (unset start / end included)
        if al is not None:
            ar = case.get("align") or {}
            restr = None if ar.get("restr") is None else [tuple(p) for p in ar["restr"]]
            deform = None if ar.get("deform") is None else tuple(ar["deform"])
            ign = bool(ar.get("ign", True))
            s_t = "0" if al.start is None else "1 " + tok_mol(al.start)
            e_t = "0" if al.end is None else "1 " + tok_mol(al.end)
            unset = al.start is None or al.end is None
            err = None
            with Recorder() as rec, contextlib.redirect_stdout(io.StringIO()):
                try:
                    al.align_molecules(None if restr is None else list(restr), deform, ign)
                except Exception as e:
                    err = errname(e)
            if unset:
                # the wrapper could not name the alignment's molecules; nothing must have reached the optimiser
                impl2 = {"err": err} if err is not None else {"call": False}
                ctx.count("setters:align-unset:" + str(err))
                ctx.oracle_ok()
                if any(ev["opt"] for ev in rec.events):
                    ctx.oracle_fail("setters:optimiser-reached-with-unset-molecule", case, {"error": err})
            else:
                impl2 = impl_prep(rec.events[0], err)
                ctx.count("setters:align-set:" + ("err-" + err if err else "ok"))

            def cb2(status, toks, case, impl2=impl2):
                model = {"err": toks[0]} if status == "err" else Toks(toks).prepout()
                compare_prep(ctx, case, "Alignment.align_molecules on the object's state", impl2, model)
            r_t = "0" if restr is None else "1 " + tok_pairs(restr)
            d_t = "0" if deform is None else "1 " + " ".join([str(len(deform))] + [str(int(x)) for x in deform])
            ctx.model.ask("c10_align_state", f"{s_t} {e_t} {r_t} {d_t} {int(ign)} 1", cb2, case)
    finally:
        cleanup(files)


def eval_addend(ctx, case):
    files = []
    try:
        man = build_manager(ctx, case, files)          # species carry no "end" here
        mols = [load(ctx, sp, files) for sp in case["mols"]]
        ARG = 99
        n_err = 0
        if case.get("bulk"):
            # Manager.add_end_molecules(*molecules): one call, the first exception ends it
            before = {}
            corr_t = [str(len(man.molecule_correspondence))]
            k = 0
            for name, ali in man.molecule_correspondence.items():
                before[name] = (ali.start, ali.end, k, k + 1)
                corr_t.append(hexs(name))
                corr_t.append("0" if ali.start is None else "1 " + tok_molid(k, ali.start))
                corr_t.append("0" if ali.end is None else "1 " + tok_molid(k + 1, ali.end))
                k += 2
            vals, a_ts = [], []
            for i, arg in enumerate(case["adds"]):
                if arg is None:
                    vals.append(None); a_ts.append("N")
                elif isinstance(arg, int):
                    vals.append(mols[arg]); a_ts.append("M " + tok_molid(100 + arg, mols[arg]))     # label = the object
                else:
                    vals.append(pyval(arg)); a_ts.append("X")
            err = None
            try:
                man.add_end_molecules(*vals)
            except Exception as e:
                err = errname(e)
            state = []
            for name, ali in man.molecule_correspondence.items():
                s0, e0, ls, le = before[name]
                s_l = "-" if ali.start is None else (str(ls) if ali.start is s0 else "?")
                if ali.end is None:
                    e_l = "-"
                elif ali.end is e0:
                    e_l = str(le)
                else:
                    # the argument object with these positions and this name (every spec has its own coordinates)
                    hits = sorted({100 + a for a in case["adds"] if isinstance(a, int) and not isinstance(a, bool)
                                   and mols[a].name == ali.end.name and same_positions(mols[a], ali.end)})
                    e_l = str(hits[0]) if len(hits) == 1 else "?"
                state.append((name, s_l, e_l))
            impl = (state, err or "noerr")
            ctx.count("addend:bulk:" + (err or "ok"))
            ctx.case(case, nontrivial=err is not None)

            def cbb(status, toks, case, impl=impl):
                t = Toks(toks)
                m = ([(unhexs(t.tok()), t.tok(), t.tok()) for _ in range(t.int())], t.tok())
                if status != "ok" or m != impl:
                    ctx.disagree(case, "Manager.add_end_molecules", impl, m)
            ctx.model.ask("c10_add_ends", " ".join(corr_t + [str(len(a_ts))] + a_ts), cbb, case)
            return
        for arg in case["adds"]:
            # the state before the call, every stored object labelled on the spot
            before = {}
            corr_t = [str(len(man.molecule_correspondence))]
            k = 0
            for name, ali in man.molecule_correspondence.items():
                before[name] = (ali.start, ali.end, k, k + 1)
                corr_t.append(hexs(name))
                corr_t.append("0" if ali.start is None else "1 " + tok_molid(k, ali.start))
                corr_t.append("0" if ali.end is None else "1 " + tok_molid(k + 1, ali.end))
                k += 2
            if arg is None:
                val, a_t = None, "N"
            elif isinstance(arg, int):
                val, a_t = mols[arg], "M " + tok_molid(ARG, mols[arg])
            else:
                val, a_t = pyval(arg), "X"
            try:
                man.add_end_molecule(val)
                impl = ("ok", [])
                for name, ali in man.molecule_correspondence.items():
                    s0, e0, ls, le = before[name]
                    s_l = "-" if ali.start is None else (str(ls) if ali.start is s0 else "?")
                    if ali.end is None:
                        e_l = "-"
                    elif ali.end is e0:
                        e_l = str(le)
                    elif val is not None and same_positions(ali.end, val) and ali.end.name == val.name:
                        e_l = str(ARG)
                    else:
                        e_l = "?"
                    impl[1].append((name, s_l, e_l))
                ctx.count("addend:ok")
            except Exception as e:
                impl = ("err", errname(e))
                n_err += 1
                ctx.count("addend:err-" + errname(e))

            def cb(status, toks, case, impl=impl):
                if status == "err":
                    m = ("err", toks[0])
                else:
                    t = Toks(toks)
                    m = ("ok", [(unhexs(t.tok()), t.tok(), t.tok()) for _ in range(t.int())])
                if m != impl:
                    ctx.disagree(case, "Manager.add_end_molecule", impl, m)
            ctx.model.ask("c10_add_end", " ".join(corr_t + [a_t]), cb, case)
        ctx.case(case, nontrivial=n_err > 0)
    finally:
        cleanup(files)


def evaluate(ctx, case):
    k = case["kind"]
    if k == "element":
        return eval_element(ctx, case)
    if k == "resguess":
        return eval_resguess(ctx, case)
    if k == "protein":
        return eval_protein(ctx, case)
    if k == "prep":
        return eval_prep(ctx, case)
    if k == "route":
        return eval_route(ctx, case)
    if k == "gparse":
        return eval_gparse(ctx, case)
    if k == "setters":
        return eval_setters(ctx, case)
    if k == "addend":
        return eval_addend(ctx, case)
    raise ValueError("unknown case kind " + repr(k))


# --------------------------------------------------------------------------- generators

def gen_element(ctx):
    rng = ctx.rng
    fixed = ["H", "H1", "HA", "1H", "He", "CH3", "h1", "12", "", "1H2", "_H_", "H2O", "2HB1", "Hh", "hH", "H H",
             "C", "é", "Hé", "1_H", "+H+", "HH", "Z9H"]
    for n in fixed:
        yield {"kind": "element", "name": n}
    alpha = "HHHhCNOePa"
    other = "0123456789_+-'*"
    for _ in range(ctx.n(150, 3000)):
        ln = rng.randint(1, 5)
        yield {"kind": "element", "name": "".join(rng.choice(alpha if rng.random() < 0.5 else other) for _ in range(ln))}


def gen_resguess(ctx):
    rng = ctx.rng
    for l1 in range(1, 41):
        for l2 in range(1, 41):
            yield {"kind": "resguess", "l1": l1, "l2": l2, "o1": rng.randint(0, 60), "o2": rng.randint(0, 60)}
    for _ in range(ctx.n(20, 400)):
        yield {"kind": "resguess", "l1": rng.randint(1, 300), "l2": rng.randint(1, 300), "o1": 0, "o2": 0}


def gen_protein(ctx):
    rng = ctx.rng
    for _ in range(ctx.n(400, 8000)):
        nres = rng.randint(2, 8)
        sizes1 = [rng.randint(1, 9) for _ in range(nres)]
        names1 = [rng.choice(G.RESNAMES) for _ in range(nres)]
        k = rng.random()
        names2 = list(names1)
        nres2 = nres
        if k < 0.15:
            cls = "count-mismatch"
            nres2 = max(1, nres + rng.choice([-2, -1, 1, 2]))
            names2 = (names1 + [rng.choice(G.RESNAMES) for _ in range(3)])[:nres2]
        elif k < 0.4:
            cls = "substring-names"
            for i in range(nres):
                r = rng.random()
                if r < 0.3 and len(names2[i]) > 1:
                    names2[i] = names2[i][:-1]
                elif r < 0.5 and len(names2[i]) > 1:
                    names2[i] = names2[i][1:]
                elif r < 0.7 and len(names2[i]) < 5:
                    names2[i] = names2[i] + rng.choice("ABN")
        elif k < 0.5:
            cls = "incompatible-names"
            i = rng.randrange(nres)
            names2[i] = "XQ" + str(rng.randint(0, 9))
        else:
            cls = "same-names"
        sizes2 = [rng.randint(1, 9) for _ in range(nres2)]
        m1 = G.gen_molecule(rng, "PROT", sum(sizes1), resnames=names1, res_sizes=sizes1, hfrac=0.3)
        m2 = G.gen_molecule(rng, "PROT", sum(sizes2), resnames=names2, res_sizes=sizes2, hfrac=0.1)
        yield {"kind": "protein", "m1": m1, "m2": m2, "cls": cls}


def gen_restr(rng, n1, n2, kmax=10):
    k = rng.choice([0, 1, 1, 2, 3, 5, rng.randint(0, kmax)])
    pairs = [[rng.randrange(n1), rng.randrange(n2)] for _ in range(k)]
    if pairs and rng.random() < 0.3:
        pairs.insert(rng.randrange(len(pairs) + 1), list(rng.choice(pairs)))     # duplicate
    return pairs


def gen_size_pair(rng, lo=1, hi=40):
    r = rng.random()
    if r < 0.15:
        n = rng.randint(lo, hi)
        return n, n
    if r < 0.25:
        return rng.randint(lo, hi), 1
    if r < 0.3:
        return 1, rng.randint(lo, hi)
    if r < 0.5:
        return rng.randint(lo, 8), rng.randint(lo, 8)
    return rng.randint(lo, hi), rng.randint(lo, hi)


def gen_prep(ctx):
    rng = ctx.rng
    for it in range(ctx.n(1800, 40000)):
        ns, ne = gen_size_pair(rng)
        multi = rng.random() < 0.25
        nres = rng.randint(2, 5) if multi else 1
        nres_e = nres if rng.random() < 0.85 else rng.randint(1, 5)
        bigger_is_start = ns >= ne
        # hydrogens mostly on the larger (fixed) molecule, but on both
        hf_s, hf_e = rng.choice([0.0, 0.2, 0.5, 0.8, 1.0]), rng.choice([0.0, 0.2, 0.5])
        if not bigger_is_start:
            hf_s, hf_e = hf_e, hf_s
        nres = min(nres, ns)
        odd = rng.random()
        start = G.gen_molecule(rng, "MOL", ns, n_res=nres, hfrac=hf_s,
                               connected=not (odd < 0.03), no_bonds=(0.03 <= odd < 0.05),
                               noalpha=0.15 if 0.05 <= odd < 0.09 else 0.0)
        odd = rng.random()
        end_names = None
        if multi and nres_e == nres and nres <= ne and rng.random() < 0.9:
            end_names = [rn for rn, _ in G.residues_of(start)]      # same residue names: the guesser accepts
        end = G.gen_molecule(rng, "MOL", ne, n_res=nres_e, hfrac=hf_e, resnames=end_names,
                             res_sizes=G.split_sizes(rng, ne, nres) if end_names else None,
                             connected=not (odd < 0.03), no_bonds=(0.03 <= odd < 0.05),
                             noalpha=0.15 if 0.05 <= odd < 0.09 else 0.0)
        r = rng.random()
        inq = True
        if r < (0.5 if multi else 0.1):
            restr = None
        else:
            restr = gen_restr(rng, ns, ne)
            if rng.random() < 0.12:
                inq = False      # outside the quantifier: negative / out-of-range indices, model correspondence only
                for _ in range(rng.randint(1, 3)):
                    restr.insert(rng.randrange(len(restr) + 1),
                                 [rng.choice([-1, -ns, ns, rng.randint(-ns - 2, ns + 2)]),
                                  rng.choice([-1, -ne, ne, rng.randint(-ne - 2, ne + 2)])])
        deform = None if rng.random() < 0.6 else [rng.randrange(3) for _ in range(rng.randint(1, 3))]
        yield {"kind": "prep", "start": start, "end": end, "restr": restr, "deform": deform,
               "ign": rng.random() < 0.6, "inq": inq}


DEFORM_POOL = [(a,) for a in range(3)] + [(a, b) for a in range(3) for b in range(3)] + \
              [(a, b, c) for a in range(3) for b in range(3) for c in range(3)]


def gen_system(rng):
    """2-3 species (some without end molecule), instances in shuffled order"""
    letters = "ABC"
    nsp = rng.choice([2, 2, 3])
    species = []
    for s in range(nsp):
        name = "SP" + letters[s]
        ns, ne = gen_size_pair(rng, 1, 12)
        nres = min(rng.choice([1, 1, 1, 2, 3]), ns)
        start = G.gen_molecule(rng, name, ns, n_res=nres, hfrac=rng.choice([0, 0.3, 0.6]), prefix=letters[s])
        end = None
        if rng.random() < 0.85:
            if nres <= ne and rng.random() < 0.93:
                end = G.gen_molecule(rng, name, ne, hfrac=rng.choice([0, 0.3, 0.6]),
                                     resnames=[rn for rn, _ in G.residues_of(start)],
                                     res_sizes=G.split_sizes(rng, ne, nres), connected=rng.random() > 0.02)
            else:
                end = G.gen_molecule(rng, name, ne, n_res=rng.randint(1, 3), hfrac=rng.choice([0, 0.3, 0.6]),
                                     prefix=letters[s], connected=rng.random() > 0.02)
        species.append({"start": start, "end": end})
    order = [s for s in range(nsp) for _ in range(rng.randint(1, 3))]
    rng.shuffle(order)
    return species, order


def distinct_restr(rng, names, lens, kmax=6):
    """a restraint list per name, pairwise different (so a value delivered to the wrong species shows)"""
    out, seen = {}, []
    for n in names:
        for _ in range(20):
            v = [tuple(p) for p in gen_restr(rng, lens[n][0], lens[n][1], kmax)]
            if v not in seen or lens[n] == (1, 1):
                break
        seen.append(v)
        out[n] = v
    return out


def distinct_flags(rng, names):
    flags = {n: rng.random() < 0.5 for n in names}
    if len(names) >= 2 and len(set(flags.values())) == 1:
        n = rng.choice(list(names))
        flags[n] = not flags[n]
    return flags


def gen_route(ctx):
    rng = ctx.rng
    for it in range(ctx.n(1000, 22000)):
        species, order = gen_system(rng)
        complete = [s for s in species if s["end"] is not None]
        cnames = [s["start"]["name"] for s in complete]
        lens = {s["start"]["name"]: (len(s["start"]["atoms"]), len(s["end"]["atoms"])) for s in complete}
        labels = []
        dicts = {"restr": None, "deform": None, "ign": None}

        def subset():
            names = [n for n in cnames if rng.random() < 0.7]
            rng.shuffle(names)
            return names
        if rng.random() < 0.8:
            d = []
            names = subset()
            dr = distinct_restr(rng, names, lens)
            for n in names:
                r = rng.random()
                if r < 0.1:
                    v = rng.choice([None, [], ()])
                else:
                    v = dr[n]
                    if rng.random() < 0.3:
                        v = [list(p) for p in v]
                d.append([n, v])
            dicts["restr"] = d
        if rng.random() < 0.7:
            d = []
            names = subset()
            pool = rng.sample(DEFORM_POOL, len(names))      # different species get different values
            for n, v in zip(names, pool):
                r = rng.random()
                if r < 0.12:
                    v = rng.choice([None, (), [], 0, False])
                elif rng.random() < 0.25:
                    v = list(v)
                elif rng.random() < 0.1:
                    v = tuple(rng.choice([bool(x), float(x)]) if x < 2 else float(x) for x in v)
                d.append([n, v])
            dicts["deform"] = d
        if rng.random() < 0.7:
            names = subset()
            fl = distinct_flags(rng, names)
            dicts["ign"] = [[n, fl[n]] for n in names]

        # ---- malformed stream: at most one kind per case
        if cnames and rng.random() < 0.45:
            kind = rng.choice(["unknown-name-restr", "unknown-name-deform", "unknown-name-ign", "non-pair",
                               "index-out-of-range", "index-non-int", "restr-not-iterable", "non-bool-flag",
                               "deform-value-outside-012", "deform-value-outside-012", "deform-element-not-a-number-code",
                               "deform-not-a-sequence", "deform-wrong-length", "negative-index", "negative-index"])
            incomplete = [s["start"]["name"] for s in species if s["end"] is None]
            unknown = rng.choice(incomplete + ["ZZZ", "spa", "SP"])
            victim = rng.choice(cnames)
            ls, le = lens[victim]

            def put(which, name, value, at_random_position=True):
                d = dicts[which] if dicts[which] is not None else []
                d = [e for e in d if e[0] != name]
                d.insert(rng.randrange(len(d) + 1), [name, value])
                dicts[which] = d
            if kind == "unknown-name-restr":
                put("restr", unknown, [(0, 0)])
            elif kind == "unknown-name-deform":
                put("deform", unknown, (0, 1))
            elif kind == "unknown-name-ign":
                put("ign", unknown, True)
            elif kind == "non-pair":
                v = [tuple(p) for p in gen_restr(rng, ls, le, 4)]
                v.insert(rng.randrange(len(v) + 1), rng.choice([(0,), (0, 0, 0), 3, None, ()]))
                put("restr", victim, v)
            elif kind == "index-out-of-range":
                v = [tuple(p) for p in gen_restr(rng, ls, le, 4)]
                bad = rng.choice([(ls, 0), (0, le), (ls + rng.randint(0, 5), le), (-ls - 1, 0), (0, -le - 1)])
                v.insert(rng.randrange(len(v) + 1), bad)
                put("restr", victim, v)
            elif kind == "index-non-int":
                v = [tuple(p) for p in gen_restr(rng, ls, le, 4)]
                v.insert(rng.randrange(len(v) + 1), rng.choice([("0", 0), (0, None), (0.5, 0), "ab"]))
                put("restr", victim, v)
            elif kind == "restr-not-iterable":
                put("restr", victim, rng.choice([5, True, 2.5]))
            elif kind == "non-bool-flag":
                put("ign", victim, rng.choice([None, 1, 0, "yes", "", [True]]))
            elif kind == "deform-value-outside-012":
                v = [rng.randrange(3) for _ in range(rng.randint(0, 2))]
                v.insert(rng.randrange(len(v) + 1), rng.choice([7, 3, -1, 10]))
                put("deform", victim, tuple(v) if rng.random() < 0.7 else v)
            elif kind == "deform-element-not-a-number-code":
                v = [rng.randrange(3) for _ in range(rng.randint(0, 2))]
                v.insert(rng.randrange(len(v) + 1), rng.choice([0.5, "1", None, 2.5]))
                put("deform", victim, tuple(v))
            elif kind == "deform-not-a-sequence":
                put("deform", victim, rng.choice([5, True, 1.5, "012", "01", {0: 1}, {0, 1}, {1: 0, 2: 0}]))
            elif kind == "deform-wrong-length":
                put("deform", victim, tuple(rng.randrange(3) for _ in range(rng.randint(4, 6))))
            elif kind == "negative-index":
                v = [tuple(p) for p in gen_restr(rng, ls, le, 4)]
                for _ in range(rng.randint(1, 2)):
                    v.insert(rng.randrange(len(v) + 1),
                             rng.choice([(-rng.randint(1, ls), rng.randrange(le)), (rng.randrange(ls), -rng.randint(1, le)),
                                         (-1, -1)]))
                put("restr", victim, v)
            labels.append(kind)
        case = {"kind": "route", "species": species, "order": order,
                "restr": None if dicts["restr"] is None else [[n, J(v)] for n, v in dicts["restr"]],
                "deform": None if dicts["deform"] is None else [[n, J(v)] for n, v in dicts["deform"]],
                "ign": None if dicts["ign"] is None else [[n, J(v)] for n, v in dicts["ign"]],
                "labels": labels}
        if rng.random() < 0.2:
            case["parse"] = "manager"     # Manager.parse_restrictions first, result passed with parse_restrictions=False
        yield case


def gen_route_pre(ctx):
    """Manager.align_molecules(parse_restrictions=False) with a hand-made dictionary in the parsed format:
    keys in any order, any subset of the complete species; every species has its own, different,
    restraints / deformation types / hydrogen flag"""
    rng = ctx.rng
    for it in range(ctx.n(500, 10000)):
        species, order = gen_system(rng)
        complete = [s for s in species if s["end"] is not None]
        cnames = [s["start"]["name"] for s in complete]
        if not cnames:
            continue
        lens = {s["start"]["name"]: (len(s["start"]["atoms"]), len(s["end"]["atoms"])) for s in complete}
        labels = []
        # the walked dictionary: permutation / subset / rotation of the complete species
        k = rng.random()
        keys = list(cnames)
        if k < 0.35:
            keys.reverse()
        elif k < 0.6:
            rng.shuffle(keys)
        elif k < 0.8:
            keys = keys[1:] + keys[:1]
        elif k < 0.93:
            keys = [n for n in keys if rng.random() < 0.6] or [keys[-1]]
            rng.shuffle(keys)
        elif k < 0.96:
            keys = []
        dr = distinct_restr(rng, keys, lens)
        pre = []
        for n in keys:
            r = rng.random()
            pre.append([n, None if r < 0.15 else ([] if r < 0.22 else [list(p) for p in dr[n]])])
        # deformation types / flags for (almost) all complete species, all different, in their own orders
        dn = [n for n in cnames if rng.random() < 0.9]
        rng.shuffle(dn)
        pool = rng.sample([p for p in DEFORM_POOL if p != (0, 1, 2)], len(dn))
        deform = [[n, (list(v) if rng.random() < 0.2 else v)] for n, v in zip(dn, pool)]
        hn = [n for n in cnames if rng.random() < 0.9]
        rng.shuffle(hn)
        fl = distinct_flags(rng, hn)
        ign = [[n, fl[n]] for n in hn]
        if rng.random() < 0.1:
            deform = None
        if rng.random() < 0.1:
            ign = None
        r = rng.random()
        if r < 0.06:
            victim = rng.choice(cnames)
            bad, lab = rng.choice([((7,), "deform-value-outside-012"), ((0, 3), "deform-value-outside-012"),
                                   ("012", "deform-not-a-sequence"), (5, "deform-not-a-sequence"),
                                   ((0.5,), "deform-element-not-a-number-code")])
            deform = [e for e in (deform or []) if e[0] != victim] + [[victim, bad]]
            labels.append(lab)
        elif r < 0.1:
            victim = rng.choice(cnames)
            ign = [e for e in (ign or []) if e[0] != victim] + [[victim, rng.choice([None, 1, "yes"])]]
            labels.append("non-bool-flag")
        elif r < 0.13:
            deform = (deform or []) + [["ZZZ", (0,)]]
            labels.append("unknown-name-deform")
        elif r < 0.17:
            # observation stream (no oracle): a key that is not a complete species in the hand-made dictionary
            incomplete = [s["start"]["name"] for s in species if s["end"] is None]
            pre.insert(rng.randrange(len(pre) + 1), [rng.choice(incomplete + ["ZZZ"]), None])
            labels.append("preparsed-unknown-name")
        yield {"kind": "route", "species": species, "order": order, "parse": False, "pre": pre,
               "restr": None,
               "deform": None if deform is None else [[n, J(v)] for n, v in deform],
               "ign": None if ign is None else [[n, J(v)] for n, v in ign],
               "labels": labels}


def vary_resnames(rng, names, cls):
    names2 = list(names)
    if cls == "substring-names":
        for i in range(len(names2)):
            r = rng.random()
            if r < 0.3 and len(names2[i]) > 2:
                names2[i] = names2[i][:-1]
            elif r < 0.5 and len(names2[i]) < 5:
                names2[i] = names2[i] + rng.choice("ABN")
    elif cls == "incompatible-names":
        i = rng.randrange(len(names2))
        names2[i] = "XQ" + str(rng.randint(0, 9))
    return names2


def gen_system_big(rng):
    """2-3 species of 1-7 residues; species of >= 4 residues get end molecules with equal (mostly) or unequal
    residue counts and equal / substring-compatible / incompatible residue names"""
    letters = "ABC"
    nsp = rng.choice([2, 2, 3])
    species = []
    for s in range(nsp):
        name = "SP" + letters[s]
        nres = rng.choice([1, 2, 3, 3, 4, 4, 4, 5, 6, 7])
        ns = nres + rng.randint(0, 8)
        start = G.gen_molecule(rng, name, ns, n_res=nres, hfrac=rng.choice([0, 0.3, 0.6]), prefix=letters[s])
        names1 = [rn for rn, _ in G.residues_of(start)]
        nres = len(names1)
        end = None
        if rng.random() < 0.93:
            r = rng.random()
            if r < 0.72:
                nres_e = nres
            else:
                nres_e = max(1, nres + rng.choice([-3, -2, -1, -1, 1, 1, 2]))
            cls = rng.choice(["same-names"] * 6 + ["substring-names"] * 3 + ["incompatible-names"])
            names2 = vary_resnames(rng, names1, cls)
            names2 = (names2 + [letters[s] + rng.choice(G.RESNAMES) for _ in range(3)])[:nres_e]
            ne = nres_e + rng.randint(0, 6)
            end = G.gen_molecule(rng, name, ne, hfrac=rng.choice([0, 0.3]), resnames=names2,
                                 res_sizes=G.split_sizes(rng, ne, nres_e), connected=rng.random() > 0.02)
        species.append({"start": start, "end": end})
    order = [s for s in range(nsp) for _ in range(rng.randint(1, 2))]
    rng.shuffle(order)
    return species, order


def gen_gparse(ctx):
    rng = ctx.rng
    for it in range(ctx.n(700, 10000)):
        species, order = gen_system_big(rng)
        complete = [s for s in species if s["end"] is not None]
        cnames = [s["start"]["name"] for s in complete]
        lens = {s["start"]["name"]: (len(s["start"]["atoms"]), len(s["end"]["atoms"])) for s in complete}
        nres = {s["start"]["name"]: len(G.residues_of(s["start"])) for s in complete}
        guess = rng.random() < 0.8
        labels = []
        for sp in complete:
            ea = sp["end"]["atoms"]
            last = [k for k, a in enumerate(ea) if a[0] == ea[-1][0]]
            if nres[sp["start"]["name"]] > 3 and len(last) >= 2 and it % 6 == 0 and \
                    len(G.residues_of(sp["end"])) == nres[sp["start"]["name"]]:
                # the end molecule's LAST residue is two residues in its coordinates (numbers r, r+1, same name) and one
                # in its topology: one residue more than the start molecule
                sp["end"]["top_resnr"] = [a[0] for a in ea]
                half = last[len(last) // 2:]
                sp["end"]["atoms"] = [((a[0] + 1, a[1], a[2]) if k in half else a) for k, a in enumerate(ea)]
                labels.append("end-residues-partitioned-otherwise-than-its-topology")
                break
        restr = None
        if rng.random() < 0.7:
            names = [n for n in cnames if rng.random() < 0.75]
            rng.shuffle(names)
            dr = distinct_restr(rng, names, lens)
            restr = []
            for n in names:
                v = dr[n]
                r = rng.random()
                if r < 0.1:
                    v = rng.choice([None, [], ()])
                elif r < 0.3:
                    v = [list(p) for p in v]
                restr.append([n, v])
            k = rng.random()
            bigs = [n for n in cnames if nres[n] > 3]
            smalls = [n for n in cnames if nres[n] <= 3]
            if k < 0.14 and bigs:
                # a value the flag overrides: malformed on purpose (not even looked at when guess is on)
                victim = rng.choice(bigs)
                bad = rng.choice([[(lens[victim][0] + 3, 0)], [(0, 0, 0)], 5, [("a", 0)], [(-1, 0)], [(0,)]])
                restr = [e for e in restr if e[0] != victim]
                restr.insert(rng.randrange(len(restr) + 1), [victim, bad])
                labels.append("malformed-under-big" if guess else "malformed-under-small")
            elif k < 0.22 and smalls:
                victim = rng.choice(smalls)
                bad = rng.choice([[(lens[victim][0], 0)], [(0, lens[victim][1])], [(0, 0, 0)], 5, [("a", 0)], [(-1, 0)]])
                restr = [e for e in restr if e[0] != victim]
                restr.insert(rng.randrange(len(restr) + 1), [victim, bad])
                labels.append("malformed-under-small")
            elif k < 0.28:
                incomplete = [s["start"]["name"] for s in species if s["end"] is None]
                restr.insert(rng.randrange(len(restr) + 1), [rng.choice(incomplete + ["ZZZ", "SP"]), [(0, 0)]])
                labels.append("unknown-name-restr")
        deform = None
        if rng.random() < 0.4 and cnames:
            dn = [n for n in cnames if rng.random() < 0.7]
            deform = [[n, v] for n, v in zip(dn, rng.sample(DEFORM_POOL, len(dn)))]
        ign = None
        if rng.random() < 0.5 and cnames:
            hn = [n for n in cnames if rng.random() < 0.7]
            fl = distinct_flags(rng, hn)
            ign = [[n, fl[n]] for n in hn]
        yield {"kind": "gparse", "species": species, "order": order, "guess": guess,
               "restr": None if restr is None else [[n, J(v)] for n, v in restr],
               "deform": None if deform is None else [[n, J(v)] for n, v in deform],
               "ign": None if ign is None else [[n, J(v)] for n, v in ign],
               "labels": labels}


def mol_variants(rng):
    """a pool of molecule specs around one base molecule A and one (end-like) molecule B:
    0 A | 1 A, other coordinates (== A) | 2 A, one atom renamed | 3 A, last atom in another residue number
    | 4 A under another molecule name | 5 A without its last atom | 6 B | 7 B, other coordinates (== B)
    | 8 B, one atom renamed"""
    import copy
    na = rng.randint(2, 9)
    # distinct residue names: the .gro reader keeps one prototype residue per (resname, size)
    nr = min(rng.choice([1, 1, 2]), na)
    A = G.gen_molecule(rng, "MOLA", na, n_res=nr, hfrac=0.3, resnames=["RSA", "RSB"][:nr],
                       res_sizes=G.split_sizes(rng, na, nr))

    def recoord(sp):
        sp = copy.deepcopy(sp)
        sp["coords"] = G.gen_coords(rng, len(sp["atoms"]))
        return sp

    def rename(sp):
        sp = recoord(sp)
        k = rng.randrange(len(sp["atoms"]))
        rnr, rn = sp["atoms"][k][0], sp["atoms"][k][1]
        new = sp["atoms"][k][2] + "X"
        # residues with the same (resname, size) share atom names in the .gro reader: rename consistently
        sizes = {}
        for a in sp["atoms"]:
            sizes[(a[0], a[1])] = sizes.get((a[0], a[1]), 0) + 1
        first = [i for i, a in enumerate(sp["atoms"]) if (a[0], a[1]) == (rnr, rn)][0]
        off = k - first
        for (r2, n2), sz in sizes.items():
            if n2 == rn and sz == sizes[(rnr, rn)]:
                f2 = [i for i, a in enumerate(sp["atoms"]) if (a[0], a[1]) == (r2, n2)][0]
                sp["atoms"][f2 + off][2] = new
        return sp

    A1 = recoord(A)
    A2 = rename(A)
    A3 = recoord(A)
    A3["atoms"][-1][0] = A3["atoms"][-1][0] + 1
    A3["atoms"][-1][1] = "NEWR"
    A4 = recoord(A)
    A4["name"] = "MOLZ"
    A5 = recoord(A)
    A5["atoms"] = A5["atoms"][:-1]
    A5["coords"] = A5["coords"][:-1]
    A5["bonds"] = [b for b in A5["bonds"] if max(b) < na - 1]
    B = G.gen_molecule(rng, "MOLA", rng.randint(1, 6), hfrac=0.1)
    B1 = recoord(B)
    B2 = rename(B)
    return [A, A1, A2, A3, A4, A5, B, B1, B2]


NON_MOLECULES = [5, "mol", 1.5, [1], True]


def gen_setters(ctx):
    rng = ctx.rng
    for it in range(ctx.n(260, 4000)):
        mols = mol_variants(rng)

        def arg(side):
            r = rng.random()
            if r < 0.12:
                return None
            if r < 0.22:
                return J(rng.choice(NON_MOLECULES))
            pool = [0, 0, 1, 1, 2, 3, 4, 5] if side == "S" else [6, 6, 7, 7, 8, 0]
            if rng.random() < 0.12:
                pool = list(range(len(mols)))
            return rng.choice(pool)
        r = rng.random()
        if r < 0.7:
            init = [0, 6]
        elif r < 0.8:
            init = [0, None]
        elif r < 0.87:
            init = [None, 6]
        elif r < 0.92:
            init = [None, None]
        else:
            init = [arg("S"), arg("E")]
        ops = []
        for _ in range(rng.randint(0, 8)):
            w = rng.choice("SE")
            ops.append([w, arg(w)])
        align = {"restr": None if rng.random() < 0.4 else [[0, 0]], "deform": None if rng.random() < 0.7 else [0, 1],
                 "ign": rng.random() < 0.6}
        yield {"kind": "setters", "mols": mols, "init": init, "ops": ops, "align": align}


def gen_addend(ctx):
    rng = ctx.rng
    for it in range(ctx.n(120, 2500)):
        species, order = gen_system(rng)
        for sp in species:
            sp["end"] = None
        names = [sp["start"]["name"] for sp in species]
        mols, adds = [], []
        for _ in range(rng.randint(2, 6)):
            r = rng.random()
            if r < 0.12:
                adds.append(rng.choice([None, J(5), J("SPA"), J([1])]))
                continue
            nm = rng.choice(names) if r < 0.85 else rng.choice(["ZZZ", "spa", "SP"])
            same_as = [k for k, m in enumerate(mols) if m["name"] == nm]
            if same_as and rng.random() < 0.5:
                # a second molecule for a species that has one: equal to the stored one (other coordinates) or not
                import copy
                sp = copy.deepcopy(mols[rng.choice(same_as)])
                sp["coords"] = G.gen_coords(rng, len(sp["atoms"]))
                if rng.random() < 0.3:
                    adds.append(rng.choice(same_as))        # the very same object again
                    continue
            else:
                sp = G.gen_molecule(rng, nm, rng.randint(1, 6), hfrac=0.2)
            mols.append(sp)
            adds.append(len(mols) - 1)
        yield {"kind": "addend", "species": species, "order": order, "mols": mols, "adds": adds,
               "bulk": rng.random() < 0.35}


def generate(ctx):
    yield from gen_element(ctx)
    yield from gen_resguess(ctx)
    yield from gen_protein(ctx)
    yield from gen_prep(ctx)
    yield from gen_route(ctx)
    yield from gen_route_pre(ctx)
    yield from gen_gparse(ctx)
    yield from gen_setters(ctx)
    yield from gen_addend(ctx)
