"""C13 — writing then reading a .gro file returns the same system.

Cases:
  {"kind": "session", "ops": [...], "valid": bool}     real GroFile write, re-open, read
  {"kind": "prim", "what": "fmtf"|"fmtd"|"int"|"float"|"split"|"strip"|"line"|"detfmt"|"lattice"
                            |"alist"|"parseauto", ...}
  {"kind": "reader", "ops": [...] | "raw": text, "rops": [...]}   read-mode API on a written file
"""
import math
import os

from ..common import hexs, unhexs
from .. import common
from .. import grogen as G
from .. import groopen

RULE = ("session: optional setters (title 0-80 printable chars, 35% of the valid sessions' titles with non-ASCII "
        "characters of 2/3/4 UTF-8 bytes (Latin-1 and beyond: e.g. 'lip\u00eddica', '\u00c5', '\u6c34'), sent to the model as the "
        "bytes of the interpreter's default text encoding, box 3-vector/diagonal/triclinic, position format "
        "(d+5,d) d=1..6, count declared or back-filled) in random order, 1..300 records (names 1-5 non-blank chars, "
        "numbers in [0,1e7] with the boundary stream 99998..100001, 1e5-1, 1e6, 1e7, values that fit the width incl. "
        "negative, -0.0, -0.0004, exact rounding ties m/2^(d+1) and their float neighbours, largest values that "
        "just fit; velocities on/off), close; plus a malformed stream (inconsistent velocities, wrong declared "
        "count, late setters, values that do not fit, long names, width != d+5, no/double close, negative numbers) "
        "compared with the model only; plus primitive streams ('{:w.df}', '{:wd}', int(), float(), split, strip, "
        "parse_atomlist, determine_format, lattice line) against CPython. "
        "Rest of the API: valid sessions in which records are handed to writeline as the STRING parse_atomlist produces "
        "for them (first line and/or later lines; same oracle as records); malformed API stream, model only: arbitrary / "
        "ill-formed / other-format string lines first or later, tuples of length not in (7,10) first or later, "
        "box_matrix of a wrong shape, sessions closed without a record (count undeclared / 0 / k), writes after close; "
        "parse_atomlist with format_dict None / position None / wrong lengths; parse_atomline with the format inferred; "
        "float() as the nearest double; reader scripts on written and hand-made files (seek_atom inside / at / past "
        "natoms / negative, readline parsed and raw, the four setters and wrong-shape boxes in read mode; empty file, "
        "negative count): result, tell() and _current_atom after every op, header attributes unchanged. "
        "Opening (harness/groopen.py): open_coordinate_file on names with registered / unknown / odd extensions, by path "
        "and by file object, with test parser classes registered through the metaclass (incl. overriding 'gro'); "
        "GroFile(path, mode) for every mode string incl. the '+' modes, on existing and missing paths; GroFile(open file "
        "object) in 'r' and other modes, partly consumed; writer sessions with the getters natoms / position_format / "
        "comment / name and seek_atom in write mode in between. "
        "Non-trivial = every valid session (>= 1 record), every primitive case and every reader script on a file "
        "that opens; distinct by canonical hash.")


# ----------------------------------------------------------------------------- generation

def _rand_double(rng):
    k = rng.random()
    if k < 0.2:
        return rng.choice([-1, 1]) * 10 ** rng.uniform(-12, 12)
    if k < 0.3:
        import struct
        while True:
            x = struct.unpack("<d", struct.pack("<Q", rng.getrandbits(64)))[0]
            if math.isfinite(x):
                return x
    if k < 0.55:
        d = rng.randint(0, 7)
        m = 2 * rng.randint(0, 10 ** rng.randint(1, 8)) + 1
        x = m / 2 ** (d + 1)
        j = rng.random()
        if j < 0.2:
            x = math.nextafter(x, math.inf)
        elif j < 0.4:
            x = math.nextafter(x, -math.inf)
        return x * rng.choice([-1, 1])
    if k < 0.65:
        return rng.choice([0.0, -0.0, 5e-324, -5e-324, 1.7976931348623157e308, 0.5, 1.5, 2.5, -0.5, 0.05, 0.15,
                           0.25, 0.35, 1e22, 1e23, 9.995, 9.9995, 99999.9995, 0.0005, -0.0005, 0.0004, -0.0004])
    return rng.choice([-1, 1]) * rng.uniform(0, 10 ** rng.randint(0, 6))


_NUM_ALPHA = " \t\n0123456789+-.eE"
_NUM_ALPHA2 = _NUM_ALPHA + "infatyINFATY_x\x0b\x0c\x1c\x1f"


def _rand_numstr(rng):
    k = rng.random()
    if k < 0.4:
        n = rng.randint(0, 9)
        return "".join(rng.choice(_NUM_ALPHA) for _ in range(n))
    if k < 0.55:
        n = rng.randint(0, 9)
        return "".join(rng.choice(_NUM_ALPHA2) for _ in range(n))
    if k < 0.65:
        return rng.choice(["inf", "-inf", "+Infinity", "nan", "-NaN", "infinit", "in f", "", " ", "\n", "1_0", "_1",
                           "1e5", "1E-3", "1.e2", ".5e1", ".", "-.", "+.e1", "1e", "1e+", "--1", "+-1", "0x10",
                           "٣", "1.0", "  12  \n", "\x1c5\x1f", "1 2", "1e400", "1e-400"])
    # well-formed numbers in assorted styles
    s = rng.choice(["", "-", "+"]) + str(rng.randint(0, 10 ** rng.randint(0, 12)))
    if rng.random() < 0.6:
        s += "." + "".join(rng.choice("0123456789") for _ in range(rng.randint(0, 8)))
    if rng.random() < 0.2:
        s += rng.choice("eE") + rng.choice(["", "-", "+"]) + str(rng.randint(0, 30))
    return " " * rng.randint(0, 4) + s + rng.choice(["", " ", "\n", "  \n"])


def generate(ctx):
    rng = ctx.rng
    # ---- boundary numbers first: every boundary value once as residue and atom number, default format
    for n in G.BOUNDARY_NUMBERS:
        yield {"kind": "session", "valid": True,
               "ops": [["w", [n, "RES", "A1", n, 0.1, -0.2, 0.3]], ["x"]]}
    # ---- every position format once, with and without velocities, declared / back-filled
    for d in range(1, 7):
        for vel in (False, True):
            r = [1, "RES", "A1", 1, 0.125, -0.0004, 1.5] + ([0.25, -0.5, 0.0625] if vel else [])
            ops = [["f", d + 5, d], ["c", "format %d" % d], ["b3", [1.0, 2.0, 3.0]]]
            if d % 2:
                ops.append(["n", 2])
            yield {"kind": "session", "valid": True, "ops": ops + [["w", r], ["w", r], ["x"]]}
    # ---- non-ASCII titles (2-, 3-, 4-byte characters in UTF-8): count declared / back-filled, +- velocities
    for t in G.NONASCII_TITLES:
        if not G.encodable(t):
            continue
        for declared in (False, True):
            r = [1, "RES", "A1", 1, 0.125, -0.0004, 1.5] + ([0.25, -0.5, 0.0625] if declared else [])
            ops = [["c", t], ["b3", [1.0, 2.0, 3.0]]] + ([["n", 2]] if declared else [])
            yield {"kind": "session", "valid": True, "ops": ops + [["w", r], ["w", r], ["x"]]}
    n_valid = ctx.n(1200, 20000)
    for i in range(n_valid):
        big = 300 if (i % 25 == 0) else 120
        ops = G.gen_valid_session(rng, max_rec=big, boundary=(i % 5 == 0), nonascii_titles=True)
        if i % 40 == 0:
            ops = G.gen_valid_session(rng, nrec=rng.randint(250, 300), nonascii_titles=True)
        yield {"kind": "session", "valid": True, "ops": ops}
    for i in range(ctx.n(500, 8000)):
        yield {"kind": "session", "valid": False, "ops": G.gen_invalid_session(rng)}
    # ---- rest of the API: string lines in the quantifier (first line, later lines), smallest first
    r7 = [1, "RES", "A1", 1, 0.125, -0.0004, 1.5]
    for vel in (False, True):
        r = r7 + ([0.25, -0.5, 0.0625] if vel else [])
        yield {"kind": "session", "valid": True, "ops": [["w", r], ["ws", r], ["x"]]}
        yield {"kind": "session", "valid": True, "ops": [["ws", r], ["ws", r], ["x"]]}        # tests/: two string lines
        yield {"kind": "session", "valid": True, "ops": [["f", 9, 4], ["n", 2], ["ws", r], ["w", r], ["x"]]}
    for i in range(ctx.n(400, 6000)):
        yield {"kind": "session", "valid": True,
               "ops": G.gen_mixed_session(rng, max_rec=60 if i % 10 else 200, first_string=(None if i % 3 else False))}
    # ---- the records reach the file through writelines() in batches (one per molecule, say): batch sizes 1, 0,
    # 2…; the file must be what record-by-record writing gives
    for i in range(ctx.n(250, 4000)):
        ops = G.gen_valid_session(rng, nrec=rng.randint(1, 30))
        nrec = sum(1 for o in ops if o[0] == "w")
        chunks = []
        left = nrec
        while left > 0:
            c = rng.choice([1, 1, 0, 2, 3, rng.randint(1, 8)])
            chunks.append(min(c, left))
            left -= min(c, left)
        if rng.random() < 0.5:
            chunks.insert(rng.randrange(1, len(chunks) + 1), 0)
        yield {"kind": "session", "valid": True, "ops": ops, "chunks": chunks}
    # ---- closed without a record, wrong-length tuples, wrong-shape boxes: every small shape once
    for pre in ([], [["c", "empty"]], [["n", 0]], [["n", 2]], [["f", 9, 4], ["b3", [1.0, 2.0, 3.0]]]):
        yield {"kind": "session", "valid": False, "ops": pre + [["x"]]}
    for n in G.BAD_LENGTHS:
        yield {"kind": "session", "valid": False, "ops": [["t", n], ["w", r7], ["x"]]}
        yield {"kind": "session", "valid": False, "ops": [["w", r7], ["t", n], ["x"]]}
    for sh in G.BAD_SHAPES:
        yield {"kind": "session", "valid": False, "ops": [["bx", sh], ["w", r7], ["bx", sh], ["x"]]}
    for i in range(ctx.n(900, 12000)):
        yield {"kind": "session", "valid": False, "ops": G.gen_api_session(rng)}
    # ---- read mode
    yield {"kind": "reader", "raw": "", "rops": [["l", False]]}
    yield {"kind": "reader", "raw": " " * 50 + "1 2 3\n-1\n" + G.py_line(r7, 8, 3) + "\n   1.0 1.0 1.0\n", "rops": [["k", 0]]}
    yield {"kind": "reader", "raw": "t\n 0\n" + G.py_line(r7, 8, 3) + "\n   1.0 1.0 1.0\n", "rops": [["l", True], ["k", 0], ["l", False]]}
    for i in range(ctx.n(500, 8000)):
        nrec = rng.randint(1, 8)
        ops = G.gen_valid_session(rng, nrec=nrec, nonascii_titles=(i % 7 == 0))
        title = next((o[1] for o in ops if o[0] == "c"), "")
        yield {"kind": "reader", "ops": ops, "rops": G.gen_reader_script(rng, nrec, nonneg=not title.isascii())}
    # ---- primitives
    for i in range(ctx.n(1200, 15000)):
        d = rng.randint(1, 6)
        w = rng.choice([d + 5, d + 5, 8, rng.randint(0, 12)])
        k = rng.random()
        if k < 0.3:
            fd = None
        elif k < 0.4:
            fd = {"position": None, "velocities": rng.choice([None, True, False])}
        else:
            fd = {"position": [w, d], "velocities": rng.choice([None, True, False])}
        if rng.random() < 0.3:
            tup = {"len": rng.choice(G.BAD_LENGTHS)}
        else:
            tup = {"rec": G.gen_record(rng, d + 5, d, rng.random() < 0.5)}
        yield {"kind": "prim", "what": "alist", "fd": fd, "tup": tup}
    for i in range(ctx.n(1500, 20000)):
        d = rng.randint(1, 6)
        yield {"kind": "prim", "what": "parseauto", "s": G.gen_raw_line(rng, d + 5, d, rng.random() < 0.5) +
               ("\n" if rng.random() < 0.5 else "")}
    for i in range(ctx.n(12000, 200000)):
        yield {"kind": "prim", "what": "fmtf", "w": rng.choice([0, 1, 6, 7, 8, 9, 10, 11, 12]),
               "d": rng.randint(0, 8), "x": _rand_double(rng)}
    for i in range(ctx.n(1500, 20000)):
        n = rng.choice([rng.randint(-10 ** 6, 10 ** 7), rng.choice(G.BOUNDARY_NUMBERS), -rng.choice(G.BOUNDARY_NUMBERS),
                        rng.randint(-10 ** 12, 10 ** 12)])
        yield {"kind": "prim", "what": "fmtd", "w": rng.choice([0, 1, 5, 9]), "n": n}
    for i in range(ctx.n(6000, 100000)):
        yield {"kind": "prim", "what": rng.choice(["int", "float"]), "s": _rand_numstr(rng)}
    for i in range(ctx.n(1500, 20000)):
        s = "".join(rng.choice(" \t\nab.1-\x0b\x1c") for _ in range(rng.randint(0, 14)))
        yield {"kind": "prim", "what": rng.choice(["split", "strip"]), "s": s}
    for i in range(ctx.n(1500, 20000)):
        # determine_format on well- and ill-formed lines
        d = rng.randint(1, 6)
        w = d + 5
        vel = rng.random() < 0.5
        rec = G.gen_record(rng, w, d, vel)
        line = G.py_line(rec, w, d)
        k = rng.random()
        if k < 0.25:
            line = line[:rng.randint(0, len(line))]
        elif k < 0.4:
            j = rng.randrange(len(line))
            line = line[:j] + rng.choice(". x\n") + line[j + 1:]
        elif k < 0.5:
            line = line + rng.choice([".", " ", "0", "\n\n"])
        if rng.random() < 0.6:
            line += "\n"
        yield {"kind": "prim", "what": "detfmt", "s": line, "nfig": rng.choice([w, w, w, w + 1, 8])}
    for i in range(ctx.n(1500, 20000)):
        op = G.gen_box(rng)
        yield {"kind": "prim", "what": "lattice", "box": op}
    # ---- how a file is opened, getters, seek_atom in write mode (work package WPI; after everything else, so that
    # the cases above stay what they were)
    yield from groopen.generate(ctx)


# ----------------------------------------------------------------------------- evaluation

def _session_context(ops, err=None):
    """what precedes the first record (names the failure class; stable across unrelated findings)"""
    pre = []
    for o in ops:
        if o[0] in ("w", "ws"):
            break
        pre.append(o[0])
    title = next((o[1] for o in ops if o[0] == "c"), None)
    if title is not None and title.rstrip("\n") == "" and len(title) <= 1 and err in (None, "IndexError"):
        return "empty-title"
    if "f" in pre:
        return "position_format-preset"
    return "defaults"


def _num_class(n):
    return str(n) if n in (99999, 100000) or n in G.BOUNDARY_NUMBERS else ("le99999" if n <= 99999 else "gt99999")


def _oracle_session(ctx, case, errs, data, back):
    """the property's clauses on the implementation's behaviour; returns list of (key, detail)"""
    ops = case["ops"]
    fails = []
    recs = [o[1] for o in ops if o[0] in ("w", "ws")]
    fmt = next(((o[1], o[2]) for o in ops if o[0] == "f"), (8, 3))
    w, d = fmt
    title = next((o[1] for o in ops if o[0] == "c"), None)
    boxop = next((o for o in reversed(ops) if o[0] in ("b3", "b9")), None)      # the LAST assignment counts
    # (a) no operation of a valid session raises
    for op, e in zip(ops, errs):
        if e is not None:
            kind = {"w": "writeline", "ws": "writeline-str" + ("-first" if op is ops[len(ops) - len(recs) - 1] else ""),
                    "x": "close", "c": "comment", "n": "natoms", "f": "position_format",
                    "b3": "box_matrix", "b9": "box_matrix"}[op[0]]
            fails.append((f"{kind}-raises-{e}:{_session_context(ops, e)}", {"op": op, "errors": errs}))
            return fails
    ctx.oracle_ok()
    # (b) the written file opens and reads
    if "open_err" in back:
        fails.append((f"reopen-raises-{back['open_err']}:{_session_context(ops)}", {"bytes": data[:400]}))
        return fails
    if "rerr" in back:
        fails.append((f"readlines-raises-{back['rerr']}:{_session_context(ops)}", {"bytes": data[:400]}))
        return fails
    ctx.oracle_ok()
    got = back["recs"]
    # (c) same number of records
    if len(got) != len(recs) or back["natoms"] != len(recs):
        fails.append(("record-count", {"written": len(recs), "read": len(got), "natoms": back["natoms"]}))
        return fails
    ctx.oracle_ok()
    for r, g in zip(recs, got):
        # (d) names identical
        if (g[1], g[2]) != (r[1], r[2]):
            fails.append(("name-changed", {"written": r[1:3], "read": g[1:3]}))
        # (e) numbers that fit five digits unchanged
        for j, what in ((0, "residue"), (3, "atom")):
            if r[j] <= 99999:
                if g[j] != r[j]:
                    fails.append((f"number-changed:{_num_class(r[j])}", {"field": what, "written": r[j], "read": g[j]}))
            else:
                ctx.count("numbers-wrapped")
        # (f) values within half a unit of the last written decimal
        if len(g) != len(r):
            fails.append(("velocity-presence", {"written": len(r), "read": len(g)}))
            continue
        for j in range(4, 7):
            if not G.within_half_unit(r[j], g[j], d):
                fails.append(("value-off:position", {"written": r[j], "read": g[j], "decimals": d}))
        for j in range(7, len(r)):
            if not G.within_half_unit(r[j], g[j], d + 1):
                fails.append(("value-off:velocity", {"written": r[j], "read": g[j], "decimals": d + 1}))
    ctx.oracle_ok(3)
    # (g) the same box to 5e-6
    if boxop is None:
        want = [0.0] * 9
    elif boxop[0] == "b3":
        a, b, c = boxop[1]
        want = [a, 0, 0, 0, b, 0, 0, 0, c]
    else:
        want = [v for row in boxop[1] for v in row]
    if not all(G.within_half_unit(a, b, 5) for a, b in zip(want, back["box"])):
        fails.append(("box-off", {"written": want, "read": back["box"]}))
    ctx.oracle_ok()
    # (h) the same title (the reader returns the raw first line: compared without line terminators)
    want_t = title if title is not None else None
    if want_t is not None and back["title"].rstrip("\n") != want_t.rstrip("\n"):
        fails.append(("title-changed", {"written": want_t, "read": back["title"]}))
    ctx.oracle_ok()
    if title is not None:
        ctx.count("title-returned-with-terminator" if back["title"].endswith("\n") and not title.endswith("\n")
                  else "title-returned-verbatim")
    # (i) every atom line has the same byte length; the recovered format is (w, w-5) and the flag
    lines = data.split(b"\n")
    atom_lines = lines[2:2 + len(recs)]
    lens = {len(l) for l in atom_lines}
    expect = 20 + 3 * w * (2 if len(recs[0]) == 10 else 1)
    if lens != {expect}:
        fails.append(("line-length-varies", {"lengths": sorted(lens), "expected": expect}))
    if (back["fmt"] is not G.MISSING and tuple(back["fmt"]) != (w, w - 5)) or \
            (back["vel"] is not G.MISSING and back["vel"] != (len(recs[0]) == 10)):
        fails.append(("format-not-recovered", {"set": [w, d], "read": back["fmt"], "vel": back["vel"]}))
    ctx.oracle_ok(2)
    return fails


def _count_api(ctx, ops, errs):
    """branch counters for the rest of the writer API (first line = the header does not exist yet)"""
    header = False
    closed = False
    for o, e in zip(ops, errs):
        k = o[0]
        if k in ("w", "ws", "s", "t"):
            where = "first" if not header else "later"
            tail = (":after-close" if closed else "") + (":raises-" + e if e else "")
            if k == "ws":
                ctx.count(f"api-string-line-in-quantifier:{where}{tail}")
            elif k == "s":
                ctx.count(f"api-string-line-any:{where}{tail}")
            elif k == "t":
                ctx.count(f"api-tuple-wrong-length:{where}{tail}")
                ctx.count(f"api-tuple-len-{o[1]}")
            if not closed and (k == "t" or e is None):
                header = True               # a wrong-length tuple as the first line DOES write the header
        elif k == "bx":
            ctx.count("api-box-bad-shape:" + ("before-first-line" if not header else "after-first-line") +
                      (":raises-" + e if e else ":ACCEPTED"))
        elif k == "x":
            if not header and not closed:
                decl = [p[1] for p in ops if p[0] == "n"]
                ctx.count("api-close-without-record:" + ("undeclared" if not decl else "declared-0" if decl[-1] == 0
                                                         else "declared-k") + (":raises-" + e if e else ":ok"))
            if e is None:
                closed = True


def _eval_session(ctx, case):
    ops = case["ops"]
    valid = bool(case.get("valid"))
    recs = [o for o in ops if o[0] in ("w", "ws")]
    ctx.case(case, nontrivial=valid and len(recs) >= 1,
             sample={"kind": "session", "valid": valid, "nops": len(ops), "ops_head": ops[:4]})
    ctx.count("session-valid" if valid else "session-malformed")
    ctx.count("records", len(recs))
    if recs:
        ctx.count("with-velocities" if len(recs[0][1]) == 10 else "without-velocities")
    for o in ops:
        if o[0] in ("f", "n", "c", "b3", "b9"):
            ctx.count("setter-" + o[0])
    ctx.extra["text_encoding"] = {"open_default": G.TEXT_ENCODING, "byte_modelled": G.BYTE_MODELLED_ENCODING,
                                  "note": "GroFile opens files in text mode without encoding=: titles are sent to the "
                                          "model as their encoded bytes; all offsets (tell/seek) are byte offsets"}
    title = next((o[1] for o in ops if o[0] == "c"), None)
    if title is not None and not title.isascii():
        declared = any(o[0] == "n" for o in ops)
        ctx.count("title-nonascii:" + ("count-declared" if declared else "count-backfilled"))
        ctx.count("title-nonascii-extra-bytes", len(G.text_bytes(title)) - len(title))
    ctx.count("size-le6" if len(recs) <= 6 else "size-le40" if len(recs) <= 40 else "size-le300")
    path = os.path.join(ctx.scratch, f"c13-{ctx.evaluations % 3}.gro")   # path strings reused on purpose
    common.decoy(path, "gro")
    if case.get("chunks") is not None:
        ctx.count("records-through-writelines-batches")
        errs, data, _ = G.run_session_chunked(path, ops, case["chunks"])
    else:
        errs, data, _ = G.run_session(path, ops)
    back = G.read_back(path)
    os.unlink(path)
    _count_api(ctx, ops, errs)
    for e in errs:
        if e:
            ctx.count("op-raises-" + e)
    if "open_err" in back:
        ctx.count("reopen-" + back["open_err"])
    if valid:
        for key, detail in _oracle_session(ctx, case, errs, data, back):
            ctx.oracle_fail(key, case, detail)

    def cb_write(status, toks, case, errs=errs, data=data):
        t = G.Toks(toks)
        n = t.int()
        merrs = [t.next() for _ in range(n)]
        merrs = [None if e == "-" else e for e in merrs]
        mbytes = t.bytes().encode("latin-1")
        if "unmodelled" in merrs:
            ctx.count("skipped-unmodelled")       # a string line with inf / nan / '_' / non-ASCII as the first line
            return
        if merrs != errs:
            ctx.disagree(case, "exceptions raised by the writer ops", errs, merrs)
        elif mbytes != data:
            ctx.disagree(case, "written bytes", data.decode("latin-1"), mbytes.decode("latin-1"))
    ctx.model.ask("gro_write", G.ops_tokens(ops), cb_write, case)

    if G.modelled_text(data):
        def cb_read(status, toks, case, back=back):
            m = G.parse_read_response(status, toks)
            if m.get("open_err") == "unmodelled" or m.get("rerr") == "unmodelled":
                ctx.count("skipped-unmodelled")
                return
            diff = G.compare_read(back, m)
            if diff:
                ctx.disagree(case, "reader: " + diff, back, m)
        ctx.model.ask("gro_read", hexs(data), cb_read, case)
    else:
        ctx.count("skipped-non-ascii-file")


def _eval_prim(ctx, case):
    what = case["what"]
    ctx.case(case, nontrivial=True)
    ctx.count("prim-" + what)
    if what == "fmtf":
        w, d, x = int(case["w"]), int(case["d"]), float(case["x"])
        impl = "{:{w}.{d}f}".format(x, w=w, d=d)
        # the exact predicate used by the generators agrees with CPython on the text length
        if max(w, G.fixed_len(x, d)) != len(impl):
            ctx.disagree(case, "fixed_len (harness exact arithmetic) vs CPython", len(impl), G.fixed_len(x, d))

        def cb(status, toks, case, impl=impl):
            m = unhexs(toks[0])
            if m != impl:
                ctx.disagree(case, "'{:w.df}'.format", impl, m)
        ctx.model.ask("ps_fmtf", f"{w} {d} {G.dy(x)}", cb, case)
    elif what == "fmtd":
        w, n = int(case["w"]), int(case["n"])
        impl = "{:{w}d}".format(n, w=w)

        def cb(status, toks, case, impl=impl):
            if unhexs(toks[0]) != impl:
                ctx.disagree(case, "'{:wd}'.format", impl, unhexs(toks[0]))
        ctx.model.ask("ps_fmtd", f"{w} {n}", cb, case)
    elif what in ("int", "float"):
        s = case["s"]
        if any(ord(c) > 255 for c in s):
            ctx.count("skipped-non-latin1")
            return
        try:
            v = int(s) if what == "int" else float(s)
            impl = ("ok", v)
        except ValueError:
            impl = ("err", "ValueError")

        def cb(status, toks, case, impl=impl, what=what):
            if status == "err" and toks[0] == "unmodelled":
                ctx.count("skipped-unmodelled")
                return
            if status == "err":
                m = ("err", toks[0])
            elif what == "int":
                m = ("ok", int(toks[0]))
            else:
                m = ("ok", G.Toks(toks).num())
            same = (m[0] == impl[0]) and (
                m[1] == impl[1] if (m[0] == "err" or what == "int") else G.same_float(m[1], impl[1]))
            if not same:
                ctx.disagree(case, what + "()", impl, m)
        ctx.model.ask("ps_" + what, hexs(s), cb, case)
        if what == "float":
            def cb3(status, toks, case, impl=impl):
                if status == "err":
                    if toks[0] != "unmodelled" and impl[0] != "err":
                        ctx.disagree(case, "float() nearest double", impl, ("err", toks[0]))
                    return
                if impl[0] == "err":
                    ctx.disagree(case, "float() nearest double", impl, ("ok", toks))
                    return
                v = impl[1]
                if toks[0] == "X":
                    ok = math.isinf(v) or math.isnan(v)
                else:
                    sg, m, e = int(toks[1]), int(toks[2]), int(toks[3])
                    mv = math.ldexp(m, e)
                    ok = G.same_float(-mv if sg else mv, v)
                ctx.count("float-nearest-double-compared")
                if not ok:
                    ctx.disagree(case, "float() nearest double", v, toks)
            ctx.model.ask("ps_float_dy", hexs(s), cb3, case)
    elif what in ("split", "strip"):
        s = case["s"]
        impl = s.split() if what == "split" else s.strip()

        def cb(status, toks, case, impl=impl, what=what):
            if what == "split":
                t = G.Toks(toks)
                m = [t.bytes() for _ in range(t.int())]
            else:
                m = unhexs(toks[0])
            if m != impl:
                ctx.disagree(case, "str." + what, impl, m)
        ctx.model.ask("ps_" + what, hexs(s), cb, case)
    elif what == "detfmt":
        from gaddlemaps.parsers import GroFile
        s = case["s"]

        def run(f):
            try:
                return ("ok", f())
            except Exception as e:      # noqa: BLE001
                return ("err", type(e).__name__)
        impl = run(lambda: GroFile.determine_format(s))
        if impl[0] == "ok":
            impl = ("ok", (impl[1]["position"][0], impl[1]["position"][1], bool(impl[1]["velocities"])))

        def cb(status, toks, case, impl=impl):
            m = ("err", toks[0]) if status == "err" else ("ok", (int(toks[0]), int(toks[1]), toks[2] == "1"))
            if m != impl:
                ctx.disagree(case, "determine_format", impl, m)
        ctx.model.ask("gro_detfmt", hexs(s), cb, case)
        # parse_atomline with an explicit format
        nfig = int(case["nfig"])
        vel = s.count(".") > 4
        impl2 = run(lambda: tuple(GroFile.parse_atomline(s, {"position": (nfig, nfig - 5), "velocities": vel})))

        def cb2(status, toks, case, impl2=impl2):
            if status == "err" and toks[0] == "unmodelled":
                ctx.count("skipped-unmodelled")
                return
            m = ("err", toks[0]) if status == "err" else ("ok", G.Toks(toks).rrec())
            same = m[0] == impl2[0] and (m[1] == impl2[1] if m[0] == "err" else G.same_rec(m[1], impl2[1]))
            if not same:
                ctx.disagree(case, "parse_atomline", impl2, m)
        ctx.model.ask("gro_parseline", f"{nfig} {1 if vel else 0} {hexs(s)}", cb2, case)
    elif what == "alist":
        from gaddlemaps.parsers import GroFile
        fd, tup = case["fd"], case["tup"]
        if "rec" in tup:
            r = tup["rec"]
            arg = (int(r[0]), str(r[1]), str(r[2]), int(r[3])) + tuple(float(v) for v in r[4:])
            ttok = "r " + G.rec_tokens(r)
        else:
            arg = tuple(range(int(tup["len"])))
            ttok = f"o {int(tup['len'])}"
        if fd is None:
            pyfd, ftok = None, "N"
            ctx.count("alist-format_dict-None")
        else:
            pos = tuple(fd["position"]) if fd["position"] is not None else None
            pyfd = {"position": pos, "velocities": fd["velocities"]}
            fv = 2 if fd["velocities"] is None else (1 if fd["velocities"] else 0)
            ftok = (f"D P {pos[0]} {pos[1]} {fv}" if pos is not None else f"D - {fv}")
            ctx.count("alist-position-None" if pos is None else "alist-format_dict-given")
        import warnings
        with warnings.catch_warnings():
            warnings.simplefilter("ignore")
            try:
                impl = ("ok", GroFile.parse_atomlist(arg, pyfd) if pyfd is not None else GroFile.parse_atomlist(arg))
            except Exception as e:      # noqa: BLE001
                impl = ("err", type(e).__name__)
        ctx.count("alist-" + (impl[1] if impl[0] == "err" else "ok"))

        def cb(status, toks, case, impl=impl):
            m = ("err", toks[0]) if status == "err" else ("ok", unhexs(toks[0]))
            if m != impl:
                ctx.disagree(case, "parse_atomlist", impl, m)
        ctx.model.ask("gro_alist", ftok + " " + ttok, cb, case)
    elif what == "parseauto":
        from gaddlemaps.parsers import GroFile
        s = case["s"]
        try:
            impl = ("ok", tuple(GroFile.parse_atomline(s)))
        except Exception as e:      # noqa: BLE001
            impl = ("err", type(e).__name__)
        ctx.count("parseauto-" + (impl[1] if impl[0] == "err" else "ok"))

        def cb(status, toks, case, impl=impl):
            if status == "err" and toks[0] == "unmodelled":
                ctx.count("skipped-unmodelled")
                return
            m = ("err", toks[0]) if status == "err" else ("ok", G.Toks(toks).rrec())
            same = m[0] == impl[0] and (m[1] == impl[1] if m[0] == "err" else G.same_rec(m[1], impl[1]))
            if not same:
                ctx.disagree(case, "parse_atomline(format_dict=None)", impl, m)
        ctx.model.ask("gro_parseauto", hexs(s), cb, case)
    elif what == "lattice":
        import numpy as np
        from gaddlemaps.parsers import dump_lattice_gro, extract_lattice_gro
        op = case["box"]
        if op[0] == "b3":
            m = np.diag([float(v) for v in op[1]])
        else:
            m = np.array([[float(v) for v in row] for row in op[1]])
        text = dump_lattice_gro(m)
        back = extract_lattice_gro(text + "\n")
        ctx.oracle_ok()
        if not all(G.within_half_unit(a, b, 5) for a, b in zip(m.ravel(), back.ravel())):
            ctx.oracle_fail("lattice-roundtrip", case, {"text": text, "read": back})

        def cb(status, toks, case, text=text):
            if unhexs(toks[0]) != text:
                ctx.disagree(case, "dump_lattice_gro", text, unhexs(toks[0]))
        ctx.model.ask("gro_dumplat", " ".join(G.dy(v) for v in m.ravel()), cb, case)

        def cb2(status, toks, case, back=back):
            mb = G.Toks(toks).box() if status == "ok" else None
            if mb is None or not all(G.same_float(a, b) for a, b in zip(mb, back.ravel())):
                ctx.disagree(case, "extract_lattice_gro", back, mb)
        ctx.model.ask("gro_extlat", hexs(text + "\n"), cb2, case)
    else:
        raise ValueError("unknown primitive " + what)


def _eval_reader(ctx, case):
    rops = case["rops"]
    path = os.path.join(ctx.scratch, f"c13-r{ctx.evaluations % 3}.gro")
    common.decoy(path, "gro")
    if "raw" in case:
        data = G.text_bytes(case["raw"])
        G.write_file(path, data)
        ctx.count("reader-file-handmade")
    else:
        errs, data, _ = G.run_session(path, case["ops"])
        if any(e is not None for e in errs):
            ctx.count("reader-session-raised")
        ctx.count("reader-file-written")
    impl = G.run_reader(path, rops)
    os.unlink(path)
    opened = "open_err" not in impl
    ctx.case(case, nontrivial=opened, sample={"kind": "reader", "nrops": len(rops), "rops_head": rops[:4]})
    if not opened:
        ctx.count("reader-open-" + impl["open_err"])
    else:
        natoms = impl["natoms"]
        cur = 0
        for op, (res, pos, c) in zip(rops, impl["results"]):
            if op[0] == "k":
                where = ("negative" if op[1] < 0 else "inside" if op[1] < natoms else "at-natoms" if op[1] == natoms
                         else "past-natoms")
                ctx.count(f"reader-seek_atom:{where}:" + (res[1] if res[0] == "E" else "ok"))
            elif op[0] == "l":
                ctx.count(("reader-readline-parsed:" if op[1] else "reader-readline-raw:") +
                          (res[1] if res[0] == "E" else ("empty" if res[0] == "L" and res[1] == "" else "ok")))
            else:
                ctx.count(f"reader-setter-{op[0]}:" + (res[1] if res[0] == "E" else "ACCEPTED"))
            cur = c
        if impl["header_changed"]:
            ctx.count("reader-header-changed")
    if not G.modelled_text(data):
        ctx.count("skipped-non-ascii-file")
        return

    def cb(status, toks, case, impl=impl):
        m = G.parse_rsession_response(status, toks)
        if m.get("open_err") == "unmodelled":
            ctx.count("skipped-unmodelled")
            return
        if ("open_err" in impl) or ("open_err" in m):
            if impl.get("open_err") != m.get("open_err"):
                ctx.disagree(case, "reader: open error", impl.get("open_err"), m.get("open_err"))
            return
        hdr = G.compare_read({k: impl[k] for k in ("title", "natoms", "init", "size", "fmt", "vel", "box")},
                             {k: m[k] for k in ("title", "natoms", "init", "size", "fmt", "vel", "box")})
        if hdr:
            ctx.disagree(case, "reader header: " + hdr, impl, m)
            return
        if impl["header_changed"]:
            ctx.disagree(case, "a read-mode operation changed a header attribute", impl["header_changed"], [])
            return
        for i, ((ri, pi, ci), (rm, pm, cm)) in enumerate(zip(impl["results"], m["results"])):
            if rm[0] == "E" and rm[1] == "unmodelled":
                ctx.count("skipped-unmodelled")
                return
            if ri[0] != rm[0]:
                same = False
            elif ri[0] == "E" and ri != rm:
                # both refuse the read-mode operation, with different exception classes (seek_atom(-3): ValueError from
                # `file.seek` today; IndexError in benign change C13-3): the round-trip property names no class
                ctx.count(f"reader-op-refusal-class-differs-from-model:{ri[1]}-vs-{rm[1]}")
                same = True
            elif ri[0] == "P":
                same = G.same_rec(ri[1], rm[1])
            elif ri[0] == "L":
                try:
                    same = G.text_bytes(ri[1]).decode("latin-1") == rm[1]
                except UnicodeEncodeError:
                    same = False
            else:
                same = ri == rm
            if not same or pi != pm or (ci != cm and ci is not G.MISSING):
                ctx.disagree(case, f"reader op #{i} {case['rops'][i]!r}: result / tell() / _current_atom",
                             [ri, pi, ci], [rm, pm, cm])
                return
    ctx.model.ask("gro_rsession", hexs(data) + " " + G.rops_tokens(rops), cb, case)


def evaluate(ctx, case):
    if case["kind"] == "open":
        return groopen.evaluate(ctx, case)
    if case["kind"] == "reader":
        return _eval_reader(ctx, case)
    if case["kind"] == "session":
        return _eval_session(ctx, case)
    if case["kind"] == "prim":
        return _eval_prim(ctx, case)
    raise ValueError("unknown case kind")
