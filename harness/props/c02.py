"""C02 — the exchange map commutes with rigid motion of the reference."""
import numpy as np

from .. import emapcommon as E

RULE = ("reference of 1, 2 or >=3 atoms (generic trees/cyclic, exactly collinear chains, one collinear anchor), "
        "rigid motion = rotation (exact quarter turns about coordinate axes or random axis/angle) + translation up "
        "to 50 nm; compares map(R ref + t) with R map(ref) + t (1e-8), or cylinder coordinates about the undetermined "
        "axis (2-atom / collinear anchor), or the distance to the atom (1-atom). Non-trivial = non-identity motion; "
        "distinct by canonical hash.")

TOL = 1e-8


def generate(ctx):
    rng = ctx.rng
    for _ in range(ctx.n(2000, 10000)):
        cls = rng.choice(["generic-tree", "generic-tree", "generic-cyclic", "collinear-chain", "axis-chain",
                          "tilted-axis-chain", "partly-collinear", "nearly-collinear", "nearly-collinear",
                          "two-atom", "two-atom", "one-atom"])
        pos, bonds, cls = E.gen_ref(rng, cls)
        axis, theta, t = E.gen_rigid(rng)
        to_origin = rng.random() < (0.35 if cls in ("one-atom", "two-atom") else 0.05)
        yield {"to_origin": to_origin, "ref": {"pos": pos, "bonds": [list(b) for b in bonds]}, "tgt": E.gen_tgt(rng, pos, cls),
               "s": E.gen_scale(rng), "mode": "rigid", "cls": cls, "seed": rng.randrange(2 ** 31),
               "axis": axis, "theta": theta, "t": t,
               "ident": rng.choice(["fresh", "fresh", "construction-object", "reused-object"])}


def evaluate(ctx, case):
    refpos, tgt, s = case["ref"]["pos"], case["tgt"], case["s"]
    n = len(refpos)
    anchors, nb = E.anchors_of(n, [tuple(b) for b in case["ref"]["bonds"]])
    impl = E.safe_run(ctx, case)
    if impl is None:
        return
    R = E.rotation(case["axis"], case["theta"])
    t = np.array(case["t"], dtype=float)
    if case.get("to_origin"):
        t = -(np.array(refpos, dtype=float) @ R.T)[0]
        ctx.count("motion:atom0-to-exact-origin")
    ctx.case(case, nontrivial=case["theta"] != 0.0 or any(case["t"]),
             sample={k: case[k] for k in ("cls", "s", "axis", "theta", "t")} | {"n_ref": n, "n_tgt": len(tgt)})
    ctx.count("cls:" + case["cls"])
    ctx.count("ident:" + case.get("ident", "fresh"))
    out0, out = impl["out0"], impl["out"]
    argpos = impl["argpos"]
    scale = max(1.0, float(np.abs(argpos).max()))
    fails = []
    if not (np.isfinite(out).all() and np.isfinite(out0).all()):
        fails.append("non-finite")
    else:
        moved0 = out0 @ R.T + t
        for j in range(len(tgt)):
            a = impl["equiv"][j]
            if n == 1:
                kind = "one-atom"
                d0 = np.linalg.norm(out0[j] - np.array(refpos[0]))
                d1 = np.linalg.norm(out[j] - argpos[0])
                ok = abs(d0 - d1) <= TOL * scale
            elif n == 2 or E.collinear_anchor(refpos, nb, a)[0]:
                kind = "axial"
                if n == 2:
                    ax0 = np.array(refpos[1]) - np.array(refpos[0])
                else:
                    ax0 = E.collinear_anchor(refpos, nb, a)[1]
                c0 = E.cyl(out0[j], refpos[a], ax0)
                c1 = E.cyl(out[j], argpos[a], R @ ax0)
                ok = all(abs(x - y) <= TOL * scale for x, y in zip(c0, c1))
            else:
                kind = "full"
                ok = np.abs(out[j] - moved0[j]).max() <= TOL * scale
            ctx.count("clause:" + kind)
            if not ok:
                fails.append("not-equivariant-" + kind)
                break
    if not impl["inputs_unchanged"]:
        fails.append("inputs-modified")
    if not impl["earlier_intact"]:
        # the molecule returned by an EARLIER call of the same map (kept by the caller) changed when the map
        # was applied again: what was returned for that conformation no longer satisfies the law
        fails.append("earlier-result-changed-by-later-call")
    ctx.oracle_ok(len(tgt))
    for f in fails:
        ctx.oracle_fail(f"exchange_map:{f}:{case['cls']}", case, {"out0": out0, "out": out})
    E.ask_model(ctx, case, impl, argpos, impl["draws_call"], out, "map(R ref + t)")
