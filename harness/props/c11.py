"""C11 — System recognises exactly the molecule instances present, in file order.

Case:
  {"kind": "system", "cls": str, "vel": bool, "coordseed": int,
   "species": [{"name": str, "residues": [[resname, [atomname, …]], …]}, …],   # topology table
   "blocks":  [k | ["f", resname, [atomname, …]], …],     # file = whole molecules of species k / foreign residues
   "load":    [k, …],                                      # topologies in loading order (may name species that
                                                           #   never occur, or decoys with wrong order / names)
   "ops":     [["g", i] | ["s", a, b, c] | ["it"], …]}

The .gro and .itp files are real files in the scratch directory, loaded through `System(fgro)` +
`system.add_ftop(ftop)` (and, when every topology is expected to load, once more through
`System(fgro, *ftops)`).

Oracle (real code only): every topology whose residue-signature pattern occurs as a run of not yet
consumed residues is accepted, every other one is refused with an exception and leaves len / composition /
the instance list unchanged; after loading, `list(system)` is exactly the blocks of the accepted species in
file order — right species (the loaded MoleculeTop object itself), atom names equal to the topology's atom
by atom, every number/name/coordinate/velocity equal to the file's contiguous atom run of that block
(hence disjoint, in order); `len`, `composition`, `system[i]` (all i in [-n, n), out of range raises),
slices and iteration describe the same list.

Model (gmdriver `system`): kind stream, and after EVERY add_ftop: accepted/exception class,
`_molecules_ordered`, `_available_mgro_ordered`, len, instance triples, composition; then every op result
(species index + file indices of the atoms of every residue of every molecule handed out).
"""
import hashlib
import itertools
import json
import os

import numpy as np

from .. import sysgen as G
from .. import common

RULE = ("exhaustive: every sequence of 1..5 (quick) / 1..6 (thorough) molecules over {single-residue AAA, "
        "two-residue BBB, CCC = the same residue twice, unloaded solvent} x all 6 loading orders of the three "
        "topologies (absent species must be refused); random systems of 5..120 blocks over 5 loadable species "
        "(incl. DDD = residues DA DB DA), two solvents and unrelated residues (incl. a species' resname with another "
        "size), random loading subsets/orders; refusal stream: absent species, reversed residue order, right "
        "signatures with wrong atom names, patterns cut short by the end of the file (numpy broadcast / ValueError "
        "paths); quirk stream (model correspondence only): equal signature with different atom names. "
        "Non-trivial = at least two molecules of loaded species; distinct by hash of the case.")


def _names(prefix, size):
    return [f"{prefix}{i + 1}" for i in range(size)]


S_AAA = {"name": "AAA", "residues": [["AAA", _names("A", 3)]]}
S_BBB = {"name": "BBB", "residues": [["BB1", _names("B", 2)], ["BB2", _names("C", 3)]]}
S_CCC = {"name": "CCC", "residues": [["CR", _names("R", 2)], ["CR", _names("R", 2)]]}
S_SOL = {"name": "SOL", "residues": [["SOL", ["OW", "HW1", "HW2"]]]}
S_DDD = {"name": "DDD", "residues": [["DA", ["D1"]], ["DB", ["E1", "E2"]], ["DA", ["D1"]]]}
S_EEE = {"name": "EEEEE", "residues": [["E1", _names("X", 4)], ["E2", _names("Y", 1)], ["E3", _names("Z", 2)],
                                      ["E2", _names("Y", 1)]]}
S_W = {"name": "W", "residues": [["W", ["W"]]]}
# atom names that REPEAT inside a residue, the first one included (PEG beads EO EO EO, a diol OH C1 C2 OH): a residue
# ends where (number, name) changes, not where a name comes round again (seed C11-8)
S_PEG = {"name": "PEG3", "residues": [["PEG", ["EO", "EO", "EO"]]]}
S_DIOL = {"name": "DIOL", "residues": [["DOL", ["OH", "C1", "C2", "OH"]], ["DOL", ["OH", "C1", "C2", "OH"]]]}
# residue names that start with a digit (PDB style 1MA, 2MG) and topology residue numbers with a gap kept from the
# source structure: (1, "1MA") and (11, "MA") are two residues although "1"+"1MA" == "11"+"MA" (seed C11-10: residues
# told apart by the concatenation resid+resname)
S_NUC = {"name": "NUC", "residues": [["1MA", _names("N", 3)], ["MA", _names("P", 2)]], "resnrs": [1, 11]}
S_NU2 = {"name": "NU2", "residues": [["5MC", _names("K", 2)], ["MC", _names("K", 2)], ["2MG", ["G1"]]],
         "resnrs": [2, 25, 7]}

EXH = [S_AAA, S_BBB, S_CCC, S_SOL]


def _ops_all(n, rng=None, nslices=3):
    ops = [["it"]] + [["g", i] for i in range(-n - 1, n + 1)]
    if rng is not None:
        for _ in range(nslices):
            a, b, c = G.rand_slice(rng, max(n, 1))
            ops.append(["s", a, b, c])
    else:
        ops += [["s", None, None, None], ["s", None, None, -1], ["s", 1, -1, 2], ["s", -2, None, None]]
    return ops


def generate(ctx):
    rng = ctx.rng
    # ---- exhaustive stream
    maxlen = 5 if ctx.quick() else 6
    perms = list(itertools.permutations([0, 1, 2]))
    for L in range(1, maxlen + 1):
        for seq in itertools.product(range(4), repeat=L):
            nmol = sum(1 for k in seq if k != 3)
            for pi, perm in enumerate(perms):
                if ctx.quick() and L == maxlen and pi % 2 == 1:
                    continue          # quick tier: three of the six load orders at the longest length
                yield {"kind": "system", "cls": "exhaustive", "vel": (L + pi) % 2 == 0, "coordseed": L * 7 + pi,
                       "species": EXH, "blocks": list(seq), "load": list(perm),
                       "ops": _ops_all(nmol) if pi == 0 else _ops_all(nmol)[:1 + min(2 * nmol + 2, 6)]}
    # ---- one long run: more than 1024 CONSECUTIVE instances of a multi-residue species (any chunk / buffer
    # size a reader may use internally is a boundary worth crossing; seed C11-6: iteration in chunks of 1024
    # with the chunk start counted in molecules instead of residues)
    for nrun in ([1100] if ctx.quick() else [1023, 1024, 1025, 2100]):
        yield {"kind": "system", "cls": "long-run", "vel": False, "coordseed": nrun,
               "species": EXH, "blocks": [0, 0] + [1] * nrun + [2, 0], "load": [1, 0, 2],
               "ops": [["it"], ["g", 1030], ["g", -1], ["g", 1024], ["s", 1020, 1030, None], ["s", None, None, 257]]}
    # ---- random longer systems
    table = [S_AAA, S_BBB, S_CCC, S_DDD, S_EEE, S_SOL, S_W, S_PEG, S_DIOL, S_NUC, S_NU2]
    loadable = [0, 1, 2, 3, 4, 7, 8, 9, 10]
    foreign = [["ION", ["NA"]], ["AAA", ["A1", "A2"]], ["CR", ["R1"]], ["XYZ", _names("Q", 5)], ["DB", ["E1"]]]
    for i in range(ctx.n(500, 12000)):
        nb = rng.randint(5, 40) if rng.random() < 0.7 else rng.randint(41, 120)
        present = rng.sample(range(len(table)), rng.randint(1, len(table)))
        blocks = []
        style = rng.random()
        while len(blocks) < nb:
            if rng.random() < 0.12:
                blocks.append(["f"] + rng.choice(foreign))
            else:
                k = rng.choice(present)
                rep = 1 if style < 0.4 else rng.randint(1, 6)
                blocks += [k] * rep
        blocks = blocks[:nb]
        load = rng.sample(loadable, rng.randint(0, len(loadable)))
        nmol = sum(1 for b in blocks if isinstance(b, int) and b in load)
        ops = [["it"]]
        for _ in range(rng.randint(0, 25)):
            if rng.random() < 0.6:
                ops.append(["g", G.rand_index(rng, max(nmol, 1))])
            else:
                a, b, c = G.rand_slice(rng, max(nmol, 1), 25)
                ops.append(["s", a, b, c])
        sp_table, cls = table, "random"
        if rng.random() < 0.3:
            # several species (distinct residue signatures, different residue counts) whose topologies carry the
            # SAME [ moleculetype ] name (a generic "MOL"/"Protein"): instances must still be told apart by
            # signature (seed C11-4: residues-per-species table keyed by molecule name)
            shared = rng.sample(loadable, rng.randint(2, 4))
            sp_table = [dict(sp, name="MOL") if k in shared else sp for k, sp in enumerate(table)]
            cls = "random-shared-molecule-name"
        # work package WPI: str(system) and an index that is neither int nor slice (no random number is drawn for
        # them: every other part of the case is what it was)
        ops = ops + [["str"], ["o", G.OTHER_KINDS[i % len(G.OTHER_KINDS)]]]
        yield {"kind": "system", "cls": cls, "vel": rng.random() < 0.5, "coordseed": rng.randrange(1 << 30),
               "species": sp_table, "blocks": blocks, "load": load, "ops": ops}
    # ---- refusal stream
    wrong_order = {"name": "BBBr", "residues": list(reversed(S_BBB["residues"]))}
    wrong_names = {"name": "AAAx", "residues": [["AAA", _names("Z", 3)]]}
    wrong_one = {"name": "BBBx", "residues": [["BB1", _names("B", 2)], ["BB2", ["C1", "C2", "XX"]]]}
    triple = {"name": "CCC3", "residues": [["CR", _names("R", 2)]] * 3}
    longer = {"name": "BBBl", "residues": S_BBB["residues"] + [["AAA", _names("A", 3)]]}
    rtable = [S_AAA, S_BBB, S_CCC, S_DDD, S_SOL, wrong_order, wrong_names, wrong_one, triple, longer]
    for i in range(ctx.n(250, 5000)):
        nb = rng.randint(1, 14)
        present = rng.sample([0, 1, 2, 3, 4], rng.randint(1, 4))
        blocks = [rng.choice(present) for _ in range(nb)]
        tailk = rng.random()
        cls = "refusal"
        if tailk < 0.15:
            blocks.append(["f", "CR", _names("R", 2)])                 # lone residue with CCC's signature
            cls = "refusal-tail"
        elif tailk < 0.3:
            blocks += [["f", "DA", ["D1"]], ["f", "DB", ["E1", "E2"]]]   # DDD cut short by the end of the file
            cls = "refusal-tail"
        elif tailk < 0.4:
            blocks.append(["f", "DA", ["D1"]])
            cls = "refusal-tail"
        elif tailk < 0.5:
            blocks.append(["f", "BB1", _names("B", 2)])
            cls = "refusal-tail"
        load = rng.sample(range(len(rtable)), rng.randint(1, 5))
        load = [k for k in load if k != 4]
        nmol = len(blocks)
        yield {"kind": "system", "cls": cls, "vel": False, "coordseed": i, "species": rtable, "blocks": blocks,
               "load": load, "ops": [["it"], ["g", 0], ["g", -1], ["g", nmol], ["s", None, None, 2]]}
    # ---- quirk stream: equal (resname, size) with different atom names (dictionary overwrite); no oracle
    qa = {"name": "QA", "residues": [["QQ", _names("A", 2)]]}
    qb = {"name": "QB", "residues": [["QQ", _names("B", 2)]]}
    qc = {"name": "QC", "residues": [["QQ", _names("A", 2)], ["QQ", _names("B", 2)]]}
    qtable = [qa, qb, qc, S_AAA, S_SOL]
    for i in range(ctx.n(60, 1500)):
        blocks = [rng.choice([0, 1, 2, 3, 4]) for _ in range(rng.randint(1, 10))]
        load = rng.sample([0, 1, 2, 3], rng.randint(1, 4))
        yield {"kind": "system", "cls": "quirk-equal-signature", "vel": False, "coordseed": i, "species": qtable,
               "blocks": blocks, "load": load, "ops": [["it"], ["g", 0], ["g", -1], ["s", None, None, None]]}


_counter = [0]
_itp_cache = {}


def _itp_for(ctx, sp):
    key = hashlib.sha1(json.dumps(sp, sort_keys=True).encode()).hexdigest()[:16]
    p = _itp_cache.get(key)
    if p is None or not os.path.exists(p):
        p = os.path.join(ctx.scratch, f"top-{key}.itp")
        G.write_itp(p, sp["name"], sp["residues"], sp.get("resnrs"))
        _itp_cache[key] = p
    return p


def _mol_view(system, mol, atoms_index):
    """(index of the molecule's topology in system.different_molecules, [[atom tuple …] per residue])"""
    tops = [m.molecule_top for m in system.different_molecules]
    idx = next((i for i, t in enumerate(tops) if t is mol.molecule_top), -1)
    return (idx, [G.residue_tuples(r) for r in mol.residues])


def _state(system):
    st = {"nmols": len(system.different_molecules)}
    # a public accessor that raises is an observation ("raises-<class>"), not a crash of the check: a refused
    # topology that leaves blocks behind (seed C11-3) makes composition / len raise afterwards
    try:
        st["len"] = len(system)
    except Exception as e:   # noqa: BLE001
        st["len"] = "raises-" + G.err_name(e)
    try:
        st["composition"] = sorted((str(k), int(v)) for k, v in system.composition.items() if v)
    except Exception as e:   # noqa: BLE001
        st["composition"] = "raises-" + G.err_name(e)
    try:
        st["ordered"] = [tuple(int(x) for x in e) for e in system._molecules_ordered]
        st["avail"] = [int(x) for x in system._available_mgro_ordered]
        st["instances"] = [tuple(int(x) for x in e) for e in system._molecules_ordered_all_gen()]
    except Exception:   # noqa: BLE001  (private bookkeeping renamed, or left inconsistent: not comparable)
        st["ordered"] = st["avail"] = st["instances"] = None
    return st


def evaluate(ctx, case):
    from gaddlemaps.components import System

    _counter[0] += 1
    species = case["species"]
    blocks = case["blocks"]
    load = [int(k) for k in case["load"]]
    ops = case["ops"]
    path = os.path.join(ctx.scratch, f"c11-{_counter[0] % 3}.gro")   # path strings reused on purpose
    common.decoy(path, "gro")
    # ---- the file: residues numbered 1, 2, … ; remember the atom range of every block
    residues, block_atoms, block_res = [], [], []
    na = 0
    for b in blocks:
        rs = species[b]["residues"] if isinstance(b, int) else [[b[1], b[2]]]
        a0, r0 = na, len(residues)
        for resname, names in rs:
            residues.append([(len(residues) + 1) % 100000, resname, list(names)])
            na += len(names)
        block_atoms.append((a0, na))
        block_res.append((r0, len(residues)))
    # the atom-NUMBER column does not have to count 1, 2, 3 … (files pasted together, more than 99999 atoms): nothing may
    # be derived from it (seed C11-14: the first atom of a run taken from `atomid - 1`)
    aid0 = [1, 1, 1, 7, 99990, 50001][case["coordseed"] % 6]
    ctx.count("atom-numbers-start-at:%d" % aid0)
    G.write_gro(path, "C11 generated system", residues, case["coordseed"], case["vel"], atomid_start=aid0)
    raw = G.parse_gro_raw(path)
    atoms = raw["atoms"]
    sig = [(r[1], len(r[2])) for r in residues]
    in_quantifier = case["cls"] != "quirk-equal-signature"
    ctx.count("cls:" + case["cls"])

    tops = [_itp_for(ctx, species[k]) for k in load]
    try:
        sysm = System(path)
    except Exception as e:
        ctx.oracle_fail("System.__init__:raises-" + G.err_name(e), case, {"error": repr(e)})
        return

    # ---- loading, one topology at a time
    consumed = [False] * len(residues)
    accepted = []            # species index per entry of different_molecules
    adds = []
    expected_inst = []       # (species k, block index)
    inter_cursor = [0]
    for k, ftop in zip(load, tops):
        before = _state(sysm)
        before_list = None
        if len(adds) < 3:
            try:
                before_list = [_mol_view(sysm, m, None) for m in sysm]
            except Exception:
                before_list = None      # (quirk stream: iteration itself may raise)
        try:
            sysm.add_ftop(ftop)
            status = "A"
        except Exception as e:
            status = G.err_name(e)
        after = _state(sysm)
        adds.append((status, after))
        if in_quantifier:
            for f in ("len", "composition"):
                if isinstance(after[f], str):
                    ctx.oracle_fail(f"System.{f}:{after[f]}:after-add_ftop-{'accepted' if status == 'A' else 'refused'}",
                                    case, {"species": species[k]["name"], "load": load, "status": status})
        # oracle: does the signature pattern occur as a run of unconsumed residues?
        pat = [(rn, len(nm)) for rn, nm in species[k]["residues"]]
        L = len(pat)
        occurs = [i for i in range(len(sig) - L + 1)
                  if sig[i:i + L] == pat and not any(consumed[i:i + L])]
        names_ok = [i for i in occurs
                    if [nm for r in residues[i:i + L] for nm in r[2]] == [nm for _, ns in species[k]["residues"] for nm in ns]]
        if in_quantifier:
            ctx.oracle_ok()
            if occurs and status != "A":
                if names_ok and names_ok[0] == occurs[0]:
                    ctx.oracle_fail("System.add_ftop:present-species-refused", case,
                                    {"species": species[k]["name"], "error": status, "load": load})
            if not occurs:
                ctx.count("refused:" + status)
                if status == "A":
                    ctx.oracle_fail("System.add_ftop:unmatched-topology-accepted", case,
                                    {"species": species[k]["name"], "load": load})
                else:
                    changed = {f: (before[f], after[f]) for f in ("len", "composition", "nmols")
                               if before[f] != after[f]}
                    if before_list is not None:
                        try:
                            after_list = [_mol_view(sysm, m, None) for m in sysm]
                            if after_list != before_list:
                                changed["list"] = (len(before_list), len(after_list))
                        except Exception as e:
                            changed["list"] = ("ok", "raises " + G.err_name(e))
                    if changed:
                        ctx.oracle_fail("System.add_ftop:refusal-changes-state", case,
                                        {"species": species[k]["name"], "changed": changed})
            elif status != "A":
                ctx.count("refused-names:" + status)
        # integer reads interleaved with the loads, at consecutive indexes (read k, load, read k+1: seed C11-9, a
        # sequential cursor that a load does not invalidate): each must be the molecule iteration gives at that time
        if in_quantifier and len(adds) <= 4 and not isinstance(after["len"], str):
            try:
                now = [_mol_view(sysm, m, None) for m in sysm]
                if inter_cursor[0] < len(now):
                    ctx.oracle_ok()
                    g1 = _mol_view(sysm, sysm[inter_cursor[0]], None)
                    if g1 != now[inter_cursor[0]]:
                        ctx.oracle_fail("System.__getitem__(int):differs-from-list:between-loads", case,
                                        {"index": inter_cursor[0], "loaded_so_far": len(adds),
                                         "got_top": g1[0], "want_top": now[inter_cursor[0]][0]})
                    inter_cursor[0] += 1
            except Exception as e:
                ctx.oracle_fail("System.__getitem__(int):raises-" + G.err_name(e) + ":between-loads", case,
                                {"index": inter_cursor[0]})
        if status == "A":
            accepted.append(k)
            # greedy left-to-right consumption of non-overlapping runs = what "instances present" means
            i = 0
            while i + L <= len(sig):
                if sig[i:i + L] == pat and not any(consumed[i:i + L]):
                    for j in range(i, i + L):
                        consumed[j] = True
                    i += L
                else:
                    i += 1
    ctx.count("loaded:%d" % len(accepted))

    # ---- expected instance list: blocks of accepted species, file order
    want = []
    for bi, b in enumerate(blocks):
        if isinstance(b, int) and b in accepted:
            want.append((accepted.index(b), b, block_atoms[bi], block_res[bi]))
    nmol = len(want)
    ctx.oracle_ok(1)
    if sysm.fgro != path or sysm.system_gro.fgro != path:
        ctx.oracle_fail("System.fgro:not-the-file-name", case, {"fgro": sysm.fgro})
    ctx.case({k: case[k] for k in ("cls", "species", "blocks", "load", "ops", "vel", "coordseed")},
             nontrivial=nmol >= 2,
             sample={"cls": case["cls"], "blocks": len(blocks), "load": load, "molecules": nmol})

    # ---- ops on the real system
    results = []
    listed = None
    for op in ops:
        try:
            if op[0] == "it":
                r = [_mol_view(sysm, m, None) for m in sysm]
                if listed is None:
                    listed = r
            elif op[0] == "g":
                got = sysm[int(op[1])]
                r = [_mol_view(sysm, got, None)]
                # the molecule handed out is the caller's to modify: it is moved here; the system must hand out the
                # FILE's coordinates again next time (seed C11-7: parsed residues cached per index + a copy that
                # adopts the residues it is given)
                got.move(np.array([0.5, -1.5, 2.0]))
            elif op[0] == "str":
                results.append(("T", str(sysm)))
                continue
            elif op[0] == "o":
                sysm[G.other_index(op[1])]
                r = []
            else:
                gots = sysm[slice(op[1], op[2], op[3])]
                r = [_mol_view(sysm, m, None) for m in gots]
                for m in gots[:3]:
                    m.move(np.array([-1.0, 0.25, 0.75]))
            results.append(("M", r))
        except Exception as e:
            results.append(("E", G.err_name(e)))

    present_species = {b for b in blocks if isinstance(b, int)}
    if in_quantifier and any(k not in present_species for k in accepted):
        # a decoy topology (overlapping signature) found a run: species signatures are not distinct any more
        in_quantifier = False
        ctx.count("oracle-skipped:decoy-topology-matched")
    if in_quantifier:
        # -- one molecule per instance, file order, right species, names match, atoms = the file's run
        ctx.oracle_ok(3)
        if listed is None:
            try:
                listed = [_mol_view(sysm, m, None) for m in sysm]
            except Exception as e:
                ctx.oracle_fail("System.__iter__:raises-" + G.err_name(e), case, {})
                listed = []
        if len(listed) != nmol:
            ctx.oracle_fail("System.__iter__:wrong-number-of-molecules", case,
                            {"found": len(listed), "present": nmol, "load": load, "accepted": accepted})
        else:
            for (idx, res), (widx, k, (a0, a1), _) in zip(listed, want):
                flat = [a for r in res for a in r]
                if idx != widx:
                    ctx.oracle_fail("System.__iter__:wrong-species-or-order", case,
                                    {"found_top": idx, "want_top": widx, "at_atoms": [a0, a1]})
                    break
                if flat != atoms[a0:a1]:
                    ctx.oracle_fail("System.__iter__:atoms-not-the-files-run", case,
                                    {"at_atoms": [a0, a1], "found": [a[:4] for a in flat[:4]]})
                    break
                if [a[2] for a in flat] != [nm for _, ns in species[k]["residues"] for nm in ns]:
                    ctx.oracle_fail("System.__iter__:names-differ-from-topology", case, {"at_atoms": [a0, a1]})
                    break
        # -- an iteration IN PROGRESS is not disturbed by other reads of the same System between two of its yields
        #    (`system[0]`, `system[-1]`, a slice, a second iterator): every instance is still the file's run (seed
        #    C11-15: one seek per block of instances, then sequential reads from the cursor the other reads share)
        if listed and len(listed) == nmol and nmol <= 40 and int(case.get('coordseed', 0)) % 2 == 0:
            import random as _random
            r_il = _random.Random(f"interleave-{case.get('coordseed', 0)}")
            ctx.oracle_ok(1)
            ctx.count("iteration-interleaved-with-other-reads")
            try:
                got = []
                other = iter(sysm)
                for m in sysm:
                    got.append(_mol_view(sysm, m, None))
                    w = r_il.randrange(5)
                    if w == 0:
                        sysm[0]
                    elif w == 1:
                        sysm[-1]
                    elif w == 2:
                        sysm[r_il.randrange(nmol):][:2]
                    elif w == 3:
                        next(other, None)
                if got != listed:
                    bad = next((i for i, (a, b) in enumerate(zip(got, listed)) if a != b), min(len(got), len(listed)))
                    ctx.oracle_fail("System.__iter__:disturbed-by-interleaved-reads", case,
                                    {"first_wrong_instance": bad, "found": len(got), "present": nmol})
            except Exception as e:   # noqa: BLE001
                ctx.oracle_fail("System.__iter__:interleaved-reads-raise-" + G.err_name(e), case, {})
        # -- len / composition / indexing / slicing agree with the list
        ctx.oracle_ok(2)
        st = _state(sysm)
        if st["len"] != len(listed):
            ctx.oracle_fail("System.__len__:differs-from-iteration", case, {"len": st["len"], "list": len(listed)})
        comp = {}
        for (idx, _r) in listed:
            nm = species[accepted[idx]]["name"] if 0 <= idx < len(accepted) else "?"
            comp[nm] = comp.get(nm, 0) + 1
        if st["composition"] != sorted(comp.items()):
            ctx.oracle_fail("System.composition:differs-from-iteration", case,
                            {"composition": st["composition"], "list": sorted(comp.items())})
        for op, res in zip(ops, results):
            ctx.oracle_ok()
            if op[0] == "str":
                ctx.count("op:str" + (":empty" if not comp else ""))
                wants = G.expected_str(comp) if comp else "Simulation system with no loaded molecules."
                if res != ("T", wants):
                    ctx.oracle_fail("System.__str__:not-the-sorted-composition", case, {"got": res[1], "want": wants})
                    break
                continue
            if op[0] == "o":
                ctx.count("op:o:" + str(op[1]))
                if res != ("E", "TypeError") and not (str(op[1]).startswith("np") and res[0] in ("M", "E")):
                    # (a numpy integer is an index for a Python list; the system refuses it today; a system that takes
                    # it answers a molecule or the error an int of that value gets: benign change C11-3)
                    ctx.oracle_fail("System.__getitem__(other type):not-a-TypeError", case, {"op": op, "got": res[:2]})
                    break
                continue
            try:
                if op[0] == "it":
                    wantr = ("M", listed)
                elif op[0] == "g":
                    wantr = ("M", [listed[int(op[1])]])
                else:
                    wantr = ("M", listed[slice(op[1], op[2], op[3])])
            except (IndexError, ValueError):
                wantr = ("E", None)
            ctx.count("op:" + op[0] + (":err" if wantr[0] == "E" else ""))
            if wantr[0] == "E":
                bad = res[0] != "E"
            else:
                bad = res != wantr
            if bad:
                what = {"it": "__iter__", "g": "__getitem__(int)", "s": "__getitem__(slice)"}[op[0]]
                ctx.oracle_fail(f"System.{what}:differs-from-list", case,
                                {"op": op, "molecules": len(listed),
                                 "got": res[1] if res[0] == "E" else [m[0] for m in res[1]][:10]})
                break
        # -- the variadic constructor gives the same system when every topology loads
        if load and all(s == "A" for s, _ in adds) and _counter[0] % 4 == 0:
            ctx.oracle_ok()
            try:
                s2 = System(path, *tops)
                l2 = [_mol_view(s2, m, None) for m in s2]
                if l2 != listed:
                    ctx.oracle_fail("System.__init__(fgro, *ftops):differs-from-add_ftop", case, {})
                del s2
            except Exception as e:
                ctx.oracle_fail("System.__init__(fgro, *ftops):raises-" + G.err_name(e), case, {})
    elif case["cls"] == "quirk-equal-signature":
        ctx.count("oracle-skipped:signature-not-distinct")

    del sysm
    try:
        os.remove(path)
    except OSError:
        pass

    # ------------------------------------------------------------------ model
    recs = [(a[0], a[1], a[2]) for a in atoms]
    ttoks = [str(len(load))]
    for k in load:
        sp = species[k]
        tatoms = [(nm, rn, sp["resnrs"][ri] if "resnrs" in sp else ri + 1)
                  for ri, (rn, ns) in enumerate(sp["residues"]) for nm in ns]
        ttoks.append(f"{G.hexs(sp['name'])} {len(tatoms)} "
                     + " ".join(f"{G.hexs(nm)} {G.hexs(rn)} {rid}" for nm, rn, rid in tatoms))
    toks = f"{G.tok_records(recs)} {' '.join(ttoks)} {G.tok_ops(ops)}"

    def cb(status, toks, case, adds=adds, results=results, atoms=atoms):
        T = G.Toks(toks)
        tag = T.tok()
        if tag == "E":
            ctx.disagree(case, "System.__init__", "constructed", T.tok())
            return
        T.list(T.int)   # kinds (compared in C12)
        nt = T.int()
        if nt != len(adds):
            ctx.disagree(case, "number of adds", len(adds), nt)
            return
        for j, (status, st) in enumerate(adds):
            t = T.tok()
            m_status = "A" if t == "A" else T.tok()
            m_nmols = T.int()
            m_ordered = T.list(lambda: (T.int(), T.int(), T.int()))
            m_avail = T.list(T.int)
            m_len = T.int()
            m_inst = T.list(lambda: (T.int(), T.int(), T.int())) if T.tok() == "L" else ("E", T.tok())
            m_comp = sorted(T.list(lambda: (T.str(), T.int()))) if T.tok() == "L" else ("E", T.tok())
            if isinstance(m_comp, list):
                m_comp = [c for c in m_comp if c[1]]
            if (m_status == "A") != (status == "A"):
                ctx.disagree(case, f"add_ftop #{j} outcome", status, m_status)
                return
            if m_status != status:
                # both refuse, with different exception classes: the property says "refused with an error" (the class the
                # model predicts for a run cut off by the end of the file is numpy's broadcasting ValueError: an accident
                # a maintainer may tidy up — benign change C11-3)
                ctx.count(f"refusal-class-differs-from-model:{status}-vs-{m_status}")
            got = {"nmols": m_nmols, "len": m_len, "composition": m_comp}
            for f in got:
                if got[f] != st[f]:
                    ctx.disagree(case, f"after add_ftop #{j}: {f}", st[f], got[f])
                    return
            if st["ordered"] is not None:
                for f, v in (("ordered", m_ordered), ("avail", m_avail), ("instances", m_inst)):
                    if f == "ordered" and v != st[f] and isinstance(v, list) and len(v) == len(st[f]) and \
                            all(sorted(a) == sorted(b) for a, b in zip(v, st[f])):
                        # the same blocks with their three fields stored in another order (a private table: benign C11-5)
                        ctx.count("internals:block-table-fields-in-another-order")
                        continue
                    if v != st[f]:
                        ctx.disagree(case, f"after add_ftop #{j}: {f}", st[f][:40], v[:40] if isinstance(v, list) else v)
                        return
            else:
                ctx.count("internals-unavailable")
        no = T.int()
        for k, res in enumerate(results):
            t = T.tok()
            if t == "E":
                m = ("E", T.tok())
            elif t == "T":
                m = ("T", T.str())
            else:
                m = ("M", T.list(lambda: (T.int(), [[atoms[d] for d in r] for r in T.list(T.residue)])))
            opk = case["ops"][k] if k < len(case["ops"]) else None
            if m != res and opk and opk[0] == "o" and str(opk[1]).startswith("np") and res != ("E", "TypeError"):
                # a numpy integer taken as an index: outside what the property (and the model, which refuses every
                # index that is not an int or a slice) speaks about; judged by the oracle above only
                ctx.count("model-not-compared:numpy-integer-index-accepted")
                continue
            if m != res and "T" in (m[0], res[0]):
                ctx.disagree(case, f"op {k} {case['ops'][k]}", res[1], m[1])
                return
            if m != res:
                ctx.disagree(case, f"op {k} {case['ops'][k]}",
                             res[1] if res[0] == "E" else [(x[0], [len(r) for r in x[1]]) for x in res[1]][:10],
                             m[1] if m[0] == "E" else [(x[0], [len(r) for r in x[1]]) for x in m[1]][:10])
                return
        if not T.done():
            ctx.disagree(case, "trailing model output", "", toks[T.i:T.i + 5])

    ctx.model.ask("systemx" if any(o[0] in ("str", "o") for o in ops) else "system", toks, cb, case)
    if _counter[0] % 1000 == 0:
        ctx.model.flush(ctx)      # the callbacks hold every op result of the case: keep memory bounded
